/-
Helper lemmas for property C03 (column statistics).  The scalar lemmas are stated over a linearly ordered
field (`[Field α] [LinearOrder α] [IsStrictOrderedRing α]`), which instantiates the arithmetic / order
type-class parameters of `TFVerif.Model.Stats`.
-/
import TFVerif.Model.Stats
import Mathlib.Tactic.Linarith
import Mathlib.Tactic.Ring
import Mathlib.Tactic.FieldSimp
import Mathlib.Algebra.Order.Field.Basic
import Mathlib.Algebra.BigOperators.Group.List.Basic

set_option linter.unusedSectionVars false
set_option linter.unusedSimpArgs false
set_option linter.unnecessarySeqFocus false

namespace TFVerif.Stats
open List

section Sorting
variable {γ : Type}

theorem insertBy_perm (le : γ → γ → Bool) (x : γ) (l : List γ) : (insertBy le x l).Perm (x :: l) := by
  induction l with
  | nil => exact List.Perm.refl _
  | cons y ys ih =>
    unfold insertBy
    by_cases h : le x y = true
    · simp only [h, if_true]; exact List.Perm.refl _
    · simp only [h]
      exact ((List.Perm.cons y ih).trans (List.Perm.swap x y ys))

theorem isort_perm (le : γ → γ → Bool) (l : List γ) : (isort le l).Perm l := by
  induction l with
  | nil => exact List.Perm.refl _
  | cons x xs ih => exact (insertBy_perm le x _).trans (List.Perm.cons x ih)

theorem insertBy_pairwise (le : γ → γ → Bool)
    (htrans : ∀ a b c, le a b = true → le b c = true → le a c = true)
    (htotal : ∀ a b, (le a b || le b a) = true) (x : γ) (l : List γ)
    (hl : l.Pairwise (fun a b => le a b = true)) : (insertBy le x l).Pairwise (fun a b => le a b = true) := by
  induction l with
  | nil => simp [insertBy]
  | cons y ys ih =>
    unfold insertBy
    obtain ⟨hy, hys⟩ := List.pairwise_cons.mp hl
    by_cases h : le x y = true
    · simp only [h, if_true]
      refine List.pairwise_cons.mpr ⟨?_, hl⟩
      intro z hz
      rcases List.mem_cons.mp hz with rfl | hz
      · exact h
      · exact htrans _ _ _ h (hy z hz)
    · simp only [h]
      have hyx : le y x = true := by
        have := htotal x y
        simp only [Bool.or_eq_true] at this
        rcases this with h' | h'
        · exact absurd h' h
        · exact h'
      refine List.pairwise_cons.mpr ⟨?_, ih hys⟩
      intro z hz
      rcases List.mem_cons.mp ((insertBy_perm le x ys).mem_iff.mp hz) with rfl | hz
      · exact hyx
      · exact hy z hz

theorem isort_pairwise (le : γ → γ → Bool)
    (htrans : ∀ a b c, le a b = true → le b c = true → le a c = true)
    (htotal : ∀ a b, (le a b || le b a) = true) (l : List γ) :
    (isort le l).Pairwise (fun a b => le a b = true) := by
  induction l with
  | nil => simp [isort]
  | cons x xs ih => exact insertBy_pairwise le htrans htotal x _ ih

end Sorting


section Refine
variable {α : Type}

theorem finiteVals_mask_filter (cells : List (Ext α)) :
    finiteVals ((cells.map Ext.maskInf).filter fun c => !c.isNull) = finiteVals cells := by
  induction cells with
  | nil => rfl
  | cons c cs ih =>
    cases c <;> simp_all [finiteVals, Ext.maskInf, Ext.isNull]

theorem all_null_iff (cells : List (Ext α)) :
    (cells.map Ext.maskInf).all Ext.isNull = (finiteVals cells).isEmpty := by
  induction cells with
  | nil => rfl
  | cons c cs ih =>
    cases c <;> simp_all [finiteVals, Ext.maskInf, Ext.isNull]

variable [Add α] [Sub α] [Mul α] [Div α] [Zero α] [NatCast α] [LE α] [DecidableLE α]

theorem numStats_eq_spec (sqrt : α → α) (cells : List (Ext α)) :
    numStats sqrt cells = specNum sqrt (usableNum cells) := by
  unfold numStats specNum usableNum computeNum
  simp only [all_null_iff, finiteVals_mask_filter]
  cases h : (finiteVals cells).isEmpty <;> simp [NumStats.default]

theorem seqStats_eq_spec (sqrt : α → α) (cells : List (Option (List (Ext α)))) :
    seqStats sqrt cells = specNum sqrt (usableSeq cells) := by
  unfold seqStats specNum usableSeq computeNum
  by_cases h : cells.all Option.isNone = true
  · have : cells.filterMap id = [] := by
      rw [List.filterMap_eq_nil_iff]
      intro a ha
      have := (List.all_eq_true.mp h) a ha
      cases a <;> simp_all
    rw [this]
    simp [h, finiteVals, NumStats.default]
  · simp only [h]
    cases h2 : (finiteVals (cells.filterMap id).flatten).isEmpty <;> simp [NumStats.default]

end Refine

section Field
variable {α : Type} [Field α] [LinearOrder α] [IsStrictOrderedRing α]

theorem sum_map_sub_const (xs : List α) (m : α) :
    (xs.map fun x => x - m).sum = xs.sum - (xs.length : α) * m := by
  induction xs with
  | nil => simp
  | cons x xs ih => simp only [map_cons, sum_cons, ih, length_cons, Nat.cast_succ]; ring

theorem length_cast_ne_zero {xs : List α} (h : xs ≠ []) : (xs.length : α) ≠ 0 := by
  have : 0 < xs.length := List.length_pos_iff.mpr h
  exact_mod_cast (Nat.pos_iff_ne_zero.mp this)

/-- the mean times the number of values is their sum -/
theorem mean_mul_length {xs : List α} (h : xs ≠ []) : mean xs * (xs.length : α) = xs.sum := by
  unfold mean
  field_simp [length_cast_ne_zero h]

/-- deviations from the mean sum to zero (characterises the mean) -/
theorem mean_centered {xs : List α} (h : xs ≠ []) : (xs.map fun x => x - mean xs).sum = 0 := by
  rw [sum_map_sub_const, mul_comm, mean_mul_length h]; ring

/-- the only value with that property -/
theorem mean_unique {xs : List α} (h : xs ≠ []) (m : α) (hm : (xs.map fun x => x - m).sum = 0) :
    m = mean xs := by
  rw [sum_map_sub_const] at hm
  have hn := length_cast_ne_zero (α := α) h
  unfold mean
  field_simp
  linarith

theorem mean_perm {xs ys : List α} (h : xs.Perm ys) : mean xs = mean ys := by
  unfold mean; rw [h.sum_eq, h.length_eq]

theorem sum_le_of_forall_le (xs : List α) (b : α) (h : ∀ x ∈ xs, x ≤ b) : xs.sum ≤ (xs.length : α) * b := by
  induction xs with
  | nil => simp
  | cons x xs ih =>
    have h1 := h x (by simp)
    have h2 := ih (fun y hy => h y (by simp [hy]))
    simp only [sum_cons, length_cons, Nat.cast_succ]; nlinarith

theorem le_sum_of_forall_ge (xs : List α) (a : α) (h : ∀ x ∈ xs, a ≤ x) : (xs.length : α) * a ≤ xs.sum := by
  induction xs with
  | nil => simp
  | cons x xs ih =>
    have h1 := h x (by simp)
    have h2 := ih (fun y hy => h y (by simp [hy]))
    simp only [sum_cons, length_cons, Nat.cast_succ]; nlinarith

theorem length_cast_pos {xs : List α} (h : xs ≠ []) : (0 : α) < (xs.length : α) := by
  have : 0 < xs.length := List.length_pos_iff.mpr h
  exact_mod_cast this

theorem mean_le_of_forall_le {xs : List α} (hne : xs ≠ []) (b : α) (h : ∀ x ∈ xs, x ≤ b) : mean xs ≤ b := by
  unfold mean
  rw [div_le_iff₀ (length_cast_pos hne)]
  have := sum_le_of_forall_le xs b h
  linarith

theorem le_mean_of_forall_ge {xs : List α} (hne : xs ≠ []) (a : α) (h : ∀ x ∈ xs, a ≤ x) : a ≤ mean xs := by
  unfold mean
  rw [le_div_iff₀ (length_cast_pos hne)]
  have := le_sum_of_forall_ge xs a h
  linarith

theorem sum_sq_nonneg (xs : List α) (m : α) : 0 ≤ (xs.map fun x => (x - m) * (x - m)).sum := by
  induction xs with
  | nil => simp
  | cons x xs ih => simp only [map_cons, sum_cons]; nlinarith [mul_self_nonneg (x - m)]

theorem variance_mul_length {xs : List α} (h : xs ≠ []) :
    variance xs * (xs.length : α) = (xs.map fun x => (x - mean xs) * (x - mean xs)).sum := by
  unfold variance
  field_simp [length_cast_ne_zero h]

theorem variance_nonneg (xs : List α) : 0 ≤ variance xs := by
  unfold variance
  apply div_nonneg (sum_sq_nonneg xs _)
  exact_mod_cast Nat.zero_le _

theorem sum_sq_expand (xs : List α) (m : α) :
    (xs.map fun x => (x - m) * (x - m)).sum
      = (xs.map fun x => x * x).sum - 2 * m * xs.sum + (xs.length : α) * (m * m) := by
  induction xs with
  | nil => simp
  | cons x xs ih => simp only [map_cons, sum_cons, ih, length_cons, Nat.cast_succ]; ring

/-- population variance = mean of squares − square of the mean (no `n-1` anywhere) -/
theorem variance_eq_meanSq_sub_sqMean {xs : List α} (h : xs ≠ []) :
    variance xs = mean (xs.map fun x => x * x) - mean xs * mean xs := by
  have hn := length_cast_ne_zero (α := α) h
  have hs := mean_mul_length h
  unfold variance
  rw [sum_sq_expand]
  unfold mean at *
  rw [length_map]
  field_simp
  ring

theorem variance_perm {xs ys : List α} (h : xs.Perm ys) : variance xs = variance ys := by
  unfold variance
  rw [mean_perm h, (h.map _).sum_eq, h.length_eq]

theorem variance_const (c : α) (n : Nat) : variance (List.replicate (n + 1) c) = 0 := by
  have hm : mean (List.replicate (n + 1) c) = c := by
    unfold mean
    rw [List.sum_replicate, length_replicate]
    have : ((n + 1 : Nat) : α) ≠ 0 := by exact_mod_cast Nat.succ_ne_zero n
    rw [nsmul_eq_mul]; field_simp
  unfold variance
  rw [hm, List.map_replicate]
  simp

/-- the standard deviation is the non-negative square root of the population variance -/
theorem std_def (sqrt : α → α) (hsqrt : ∀ v, 0 ≤ v → 0 ≤ sqrt v ∧ sqrt v * sqrt v = v) (xs : List α) :
    sqrt (variance xs) * sqrt (variance xs) = variance xs ∧ 0 ≤ sqrt (variance xs) :=
  ⟨(hsqrt _ (variance_nonneg xs)).2, (hsqrt _ (variance_nonneg xs)).1⟩

end Field


section Q
variable {α : Type} [Field α] [LinearOrder α] [IsStrictOrderedRing α]

/-- interpolation at quarter-position `p` (i.e. virtual index `p/4`) of a sequence `f` with last index `N` -/
def interp (f : Nat → α) (N p : Nat) : α :=
  f (p / 4) + (f (min (p / 4 + 1) N) - f (p / 4)) * (((p % 4 : Nat) : α) / ((4 : Nat) : α))

theorem quantileAt_eq_interp (s : List α) (k : Nat) :
    quantileAt s k = interp (fun i => s.getD i 0) (s.length - 1) ((s.length - 1) * k) := rfl

theorem frac_bounds (p : Nat) : (0 : α) ≤ ((p % 4 : Nat) : α) / ((4 : Nat) : α) ∧ ((p % 4 : Nat) : α) / ((4 : Nat) : α) ≤ 1 := by
  have h1 : (0 : α) ≤ ((p % 4 : Nat) : α) := by exact_mod_cast Nat.zero_le _
  have h2 : ((p % 4 : Nat) : α) ≤ ((4 : Nat) : α) := by exact_mod_cast (Nat.le_of_lt (Nat.mod_lt p (by decide)))
  have h4 : (0 : α) < ((4 : Nat) : α) := by exact_mod_cast (by decide : 0 < 4)
  exact ⟨div_nonneg h1 h4.le, (div_le_one h4).mpr h2⟩

theorem interp_bounds (f : Nat → α) (N p : Nat) (hf : ∀ i j, i ≤ j → j ≤ N → f i ≤ f j) (hp : p ≤ 4 * N) :
    f (p / 4) ≤ interp f N p ∧ interp f N p ≤ f (min (p / 4 + 1) N) := by
  have hlo : p / 4 ≤ N := by omega
  have hab : f (p / 4) ≤ f (min (p / 4 + 1) N) := hf _ _ (by omega) (by omega)
  obtain ⟨t0, t1⟩ := frac_bounds (α := α) p
  unfold interp
  constructor <;> nlinarith

theorem interp_mono (f : Nat → α) (N p p' : Nat) (hf : ∀ i j, i ≤ j → j ≤ N → f i ≤ f j)
    (hpp : p ≤ p') (hp : p' ≤ 4 * N) : interp f N p ≤ interp f N p' := by
  by_cases hq : p / 4 = p' / 4
  · have hr : p % 4 ≤ p' % 4 := by omega
    have hab : f (p / 4) ≤ f (min (p / 4 + 1) N) := hf _ _ (by omega) (by omega)
    have h4 : (0 : α) < ((4 : Nat) : α) := by exact_mod_cast (by decide : 0 < 4)
    have hrc : ((p % 4 : Nat) : α) / ((4 : Nat) : α) ≤ ((p' % 4 : Nat) : α) / ((4 : Nat) : α) := by
      apply div_le_div_of_nonneg_right _ h4.le
      exact_mod_cast hr
    unfold interp
    rw [← hq]
    nlinarith
  · have hlt : p / 4 + 1 ≤ p' / 4 := by omega
    have h1 := (interp_bounds f N p hf (by omega)).2
    have h2 := (interp_bounds f N p' hf hp).1
    have h3 : f (min (p / 4 + 1) N) ≤ f (p' / 4) := hf _ _ (by omega) (by omega)
    linarith

theorem sorted_getD_mono {s : List α} (hs : s.Pairwise (· ≤ ·)) (i j : Nat) (hij : i ≤ j) (hj : j < s.length) :
    s.getD i 0 ≤ s.getD j 0 := by
  have hi : i < s.length := by omega
  have e1 : s.getD i 0 = s[i] := by simp [List.getD_eq_getElem?_getD, hi]
  have e2 : s.getD j 0 = s[j] := by simp [List.getD_eq_getElem?_getD, hj]
  rw [e1, e2]
  rcases Nat.eq_or_lt_of_le hij with h | h
  · subst h; exact le_refl _
  · exact (List.pairwise_iff_getElem.mp hs) i j hi hj h

theorem sortAsc_pairwise (xs : List α) : (sortAsc xs).Pairwise (· ≤ ·) := by
  have := isort_pairwise (le := leB (α := α))
    (fun a b c h1 h2 => by simp only [leB, decide_eq_true_eq] at *; exact le_trans h1 h2)
    (fun a b => by simp only [leB, Bool.or_eq_true, decide_eq_true_eq]; exact le_total a b) xs
  unfold sortAsc
  exact this.imp (fun h => by simpa [leB] using h)

theorem sortAsc_perm (xs : List α) : (sortAsc xs).Perm xs := isort_perm _ _

theorem sortAsc_eq_of_perm {xs ys : List α} (h : xs.Perm ys) : sortAsc xs = sortAsc ys := by
  apply List.Perm.eq_of_pairwise (le := (· ≤ ·)) (fun a b _ _ h1 h2 => le_antisymm h1 h2) (sortAsc_pairwise xs) (sortAsc_pairwise ys)
  exact (sortAsc_perm xs).trans (h.trans (sortAsc_perm ys).symm)

theorem getD_mono_of_sorted {s : List α} (hs : s.Pairwise (· ≤ ·)) :
    ∀ i j, i ≤ j → j ≤ s.length - 1 → s.getD i 0 ≤ s.getD j 0 := by
  intro i j hij hj
  rcases Nat.eq_or_lt_of_le hij with h | h
  · subst h; exact le_refl _
  · exact sorted_getD_mono hs i j hij (by omega)

/-- the five quantiles of a sorted list are non-decreasing in `k` -/
theorem quantileAt_mono {s : List α} (hs : s.Pairwise (· ≤ ·)) (k k' : Nat) (hk : k ≤ k') (hk' : k' ≤ 4) :
    quantileAt s k ≤ quantileAt s k' := by
  rw [quantileAt_eq_interp, quantileAt_eq_interp]
  apply interp_mono _ _ _ _ (getD_mono_of_sorted hs)
  · exact Nat.mul_le_mul_left _ hk
  · rw [Nat.mul_comm]; exact Nat.mul_le_mul_right _ hk'

theorem quantileAt_zero (s : List α) : quantileAt s 0 = s.getD 0 0 := by
  rw [quantileAt_eq_interp]; simp [interp]

theorem quantileAt_four (s : List α) : quantileAt s 4 = s.getD (s.length - 1) 0 := by
  rw [quantileAt_eq_interp]; simp [interp]

theorem quantileAt_between {s : List α} (hs : s.Pairwise (· ≤ ·)) (k : Nat) (hk : k ≤ 4) :
    s.getD ((s.length - 1) * k / 4) 0 ≤ quantileAt s k ∧
    quantileAt s k ≤ s.getD (min ((s.length - 1) * k / 4 + 1) (s.length - 1)) 0 := by
  rw [quantileAt_eq_interp]
  exact interp_bounds _ _ _ (getD_mono_of_sorted hs) (by rw [Nat.mul_comm]; exact Nat.mul_le_mul_right _ hk)

/-- odd number of values: the median is the middle element -/
theorem median_odd (s : List α) (m : Nat) (h : s.length = 2 * m + 1) : quantileAt s 2 = s.getD m 0 := by
  rw [quantileAt_eq_interp, h]
  have e1 : (2 * m + 1 - 1) * 2 / 4 = m := by omega
  have e2 : (2 * m + 1 - 1) * 2 % 4 = 0 := by omega
  simp only [interp, e1, e2]
  simp

/-- even number of values: the median is the average of the two middle elements -/
theorem median_even (s : List α) (m : Nat) (h : s.length = 2 * m + 2) :
    quantileAt s 2 = (s.getD m 0 + s.getD (m + 1) 0) / 2 := by
  rw [quantileAt_eq_interp, h]
  have e1 : (2 * m + 2 - 1) * 2 / 4 = m := by omega
  have e2 : (2 * m + 2 - 1) * 2 % 4 = 2 := by omega
  have e3 : min (m + 1) (2 * m + 2 - 1) = m + 1 := by omega
  simp only [interp, e1, e2, e3]
  push_cast
  ring

theorem head_le_all {s : List α} (hs : s.Pairwise (· ≤ ·)) : ∀ x ∈ s, s.getD 0 0 ≤ x := by
  intro x hx
  obtain ⟨j, hj, rfl⟩ := List.getElem_of_mem hx
  have := sorted_getD_mono hs 0 j (Nat.zero_le _) hj
  simpa [List.getD_eq_getElem?_getD, hj] using this

theorem all_le_last {s : List α} (hs : s.Pairwise (· ≤ ·)) : ∀ x ∈ s, x ≤ s.getD (s.length - 1) 0 := by
  intro x hx
  obtain ⟨j, hj, rfl⟩ := List.getElem_of_mem hx
  have := sorted_getD_mono hs j (s.length - 1) (by omega) (by omega)
  simpa [List.getD_eq_getElem?_getD, hj] using this

theorem getD_mem {s : List α} (i : Nat) (h : i < s.length) : s.getD i 0 ∈ s := by
  have : s.getD i 0 = s[i] := by simp [List.getD_eq_getElem?_getD, h]
  rw [this]; exact List.getElem_mem h

/-- `q0` is the minimum of the values: it is one of them and below all of them -/
theorem quantile_min {xs : List α} (h : xs ≠ []) :
    quantileAt (sortAsc xs) 0 ∈ xs ∧ ∀ x ∈ xs, quantileAt (sortAsc xs) 0 ≤ x := by
  have hp := sortAsc_perm xs
  have hne : 0 < (sortAsc xs).length := by rw [hp.length_eq]; exact List.length_pos_iff.mpr h
  rw [quantileAt_zero]
  exact ⟨hp.mem_iff.mp (getD_mem 0 hne), fun x hx => head_le_all (sortAsc_pairwise xs) x (hp.mem_iff.mpr hx)⟩

/-- `q100` is the maximum of the values -/
theorem quantile_max {xs : List α} (h : xs ≠ []) :
    quantileAt (sortAsc xs) 4 ∈ xs ∧ ∀ x ∈ xs, x ≤ quantileAt (sortAsc xs) 4 := by
  have hp := sortAsc_perm xs
  have hne : 0 < (sortAsc xs).length := by rw [hp.length_eq]; exact List.length_pos_iff.mpr h
  rw [quantileAt_four]
  exact ⟨hp.mem_iff.mp (getD_mem _ (by omega)), fun x hx => all_le_last (sortAsc_pairwise xs) x (hp.mem_iff.mpr hx)⟩

theorem quantiles_perm {xs ys : List α} (h : xs.Perm ys) : quantiles xs = quantiles ys := by
  unfold quantiles; rw [sortAsc_eq_of_perm h]

end Q


section Counts
variable {β : Type} [DecidableEq β]
theorem mem_distinct (xs : List β) (x : β) : x ∈ distinct xs ↔ x ∈ xs := by
  induction xs with
  | nil => simp [distinct]
  | cons y ys ih =>
    unfold distinct
    by_cases h : y ∈ ys
    · simp only [h, if_true, ih, mem_cons]
      constructor
      · exact Or.inr
      · rintro (rfl | h') <;> assumption
    · simp [h, ih]

theorem nodup_distinct (xs : List β) : (distinct xs).Nodup := by
  induction xs with
  | nil => simp [distinct]
  | cons y ys ih =>
    unfold distinct
    by_cases h : y ∈ ys
    · simpa [h] using ih
    · simp only [h, if_false, nodup_cons]
      exact ⟨fun h' => h ((mem_distinct ys y).mp h'), ih⟩
theorem occurrences_eq_count (cells : List (Option β)) (v : β) :
    occurrences cells v = (cells.filterMap id).count v := by
  unfold occurrences
  induction cells with
  | nil => simp
  | cons c cs ih =>
    cases c with
    | none => simpa using ih
    | some w =>
      by_cases h : w = v
      · subst h; simp [ih]
      · have h' : ¬ (some w = some v) := by simpa using h
        simp [h, ih]
theorem mem_filterMap_id (cells : List (Option β)) (v : β) : v ∈ cells.filterMap id ↔ some v ∈ cells := by
  simp [List.mem_filterMap]
theorem mem_valueCounts (cells : List (Option β)) (p : β × Nat) :
    p ∈ valueCounts cells ↔ some p.1 ∈ cells ∧ p.2 = occurrences cells p.1 := by
  unfold valueCounts
  simp only []
  rw [(isort_perm _ _).mem_iff, List.mem_map]
  constructor
  · rintro ⟨v, hv, rfl⟩
    exact ⟨(mem_filterMap_id _ _).mp ((mem_distinct _ _).mp hv), (occurrences_eq_count _ _).symm⟩
  · rintro ⟨h1, h2⟩
    refine ⟨p.1, (mem_distinct _ _).mpr ((mem_filterMap_id _ _).mpr h1), ?_⟩
    rw [← occurrences_eq_count, ← h2]
theorem valueCounts_cats_nodup (cells : List (Option β)) : ((valueCounts cells).map Prod.fst).Nodup := by
  unfold valueCounts
  simp only []
  have hp := (isort_perm (fun a b => decide (b.2 ≤ a.2))
    ((distinct (cells.filterMap id)).map fun v => (v, (cells.filterMap id).count v))).map Prod.fst
  rw [hp.nodup_iff, List.map_map]
  have : (Prod.fst ∘ fun v => (v, (cells.filterMap id).count v)) = id := by funext v; rfl
  rw [this, List.map_id]
  exact nodup_distinct _
theorem nonIncreasing_iff_pairwise (l : List Nat) : nonIncreasing l = true ↔ l.Pairwise (fun a b => b ≤ a) := by
  induction l with
  | nil => simp [nonIncreasing]
  | cons a t ih =>
    cases t with
    | nil => simp [nonIncreasing]
    | cons b r =>
      simp only [nonIncreasing, Bool.and_eq_true, decide_eq_true_eq, ih, pairwise_cons]
      constructor
      · rintro ⟨hab, hb, hr⟩
        refine ⟨?_, hb, hr⟩
        intro x hx
        rcases mem_cons.mp hx with rfl | hx
        · exact hab
        · exact le_trans (hb x hx) hab
      · rintro ⟨ha, hb, hr⟩
        exact ⟨ha b (by simp), hb, hr⟩
theorem valueCounts_sorted (cells : List (Option β)) :
    nonIncreasing ((valueCounts cells).map Prod.snd) = true := by
  rw [nonIncreasing_iff_pairwise, List.pairwise_map]
  unfold valueCounts
  simp only []
  have := isort_pairwise (le := fun (a b : β × Nat) => decide (b.2 ≤ a.2))
    (fun a b c h1 h2 => by simp only [decide_eq_true_eq] at *; omega)
    (fun a b => by simp only [Bool.or_eq_true, decide_eq_true_eq]; omega)
    ((distinct (cells.filterMap id)).map fun v => (v, (cells.filterMap id).count v))
  exact this.imp (fun h => by simpa using h)

theorem nodup_of_map {γ δ : Type} (f : γ → δ) {l : List γ} (h : (l.map f).Nodup) : l.Nodup :=
  List.Pairwise.of_map f (fun _ _ hne e => hne (congrArg f e)) h

theorem occurrences_pos_iff (cells : List (Option β)) (v : β) : 0 < occurrences cells v ↔ some v ∈ cells := by
  rw [occurrences_eq_count, List.count_pos_iff, mem_filterMap_id]

/-- what the acceptance test applied to an observed `(categories, counts)` listing means -/
theorem countsOk_iff (cells : List (Option β)) (cats : List β) (counts : List Nat) :
    countsOk cells cats counts = true ↔
      cats.Nodup ∧ cats.length = counts.length ∧
      (∀ p ∈ cats.zip counts, p.2 = occurrences cells p.1 ∧ 0 < p.2) ∧
      (∀ v, some v ∈ cells → v ∈ cats) ∧
      counts.Pairwise (fun a b => b ≤ a) := by
  unfold countsOk
  simp only [Bool.and_eq_true, decide_eq_true_eq, List.all_eq_true, nonIncreasing_iff_pairwise,
    mem_filterMap_id, and_assoc]

theorem countsOk_getElem {cells : List (Option β)} {cats : List β} {counts : List Nat}
    (h : countsOk cells cats counts = true) (i : Nat) (hi : i < cats.length) (hi' : i < counts.length) :
    counts[i] = occurrences cells cats[i] := by
  obtain ⟨_, _, h3, _, _⟩ := (countsOk_iff _ _ _).mp h
  have hz : i < (cats.zip counts).length := by simp [List.length_zip]; omega
  have hm : (cats.zip counts)[i] ∈ cats.zip counts := List.getElem_mem hz
  have := (h3 _ hm).1
  simpa [List.getElem_zip] using this

theorem countsOk_mem_cats {cells : List (Option β)} {cats : List β} {counts : List Nat}
    (h : countsOk cells cats counts = true) (v : β) : v ∈ cats ↔ some v ∈ cells := by
  obtain ⟨_, h2, h3, h4, _⟩ := (countsOk_iff _ _ _).mp h
  constructor
  · intro hv
    obtain ⟨i, hi, rfl⟩ := List.getElem_of_mem hv
    have hi' : i < counts.length := by omega
    have hz : i < (cats.zip counts).length := by simp [List.length_zip]; omega
    have hm : (cats.zip counts)[i] ∈ cats.zip counts := List.getElem_mem hz
    have hh := h3 _ hm
    rw [List.getElem_zip] at hh
    rw [← occurrences_pos_iff]
    simp only at hh
    omega
  · exact h4 v

theorem mem_zip_of_countsOk {cells : List (Option β)} {cats : List β} {counts : List Nat}
    (h : countsOk cells cats counts = true) (p : β × Nat) :
    p ∈ cats.zip counts ↔ some p.1 ∈ cells ∧ p.2 = occurrences cells p.1 := by
  obtain ⟨_, h2, h3, h4, _⟩ := (countsOk_iff _ _ _).mp h
  constructor
  · intro hp
    have hc : p.1 ∈ cats := (List.of_mem_zip (a := p.1) (b := p.2) hp).1
    exact ⟨(countsOk_mem_cats h _).mp hc, (h3 p hp).1⟩
  · rintro ⟨h1, h2'⟩
    have hc := h4 _ h1
    obtain ⟨i, hi, hv⟩ := List.getElem_of_mem hc
    have hi' : i < counts.length := by omega
    have hz : i < (cats.zip counts).length := by simp [List.length_zip]; omega
    have hm : (cats.zip counts)[i] ∈ cats.zip counts := List.getElem_mem hz
    rw [List.getElem_zip] at hm
    have e : counts[i] = p.2 := by rw [countsOk_getElem h i hi hi', hv, h2']
    have : p = (cats[i], counts[i]) := by rw [hv, e]
    rw [this]; exact hm

theorem zip_nodup_of_countsOk {cells : List (Option β)} {cats : List β} {counts : List Nat}
    (h : countsOk cells cats counts = true) : (cats.zip counts).Nodup := by
  obtain ⟨h1, h2, _⟩ := (countsOk_iff _ _ _).mp h
  apply nodup_of_map Prod.fst
  rw [List.map_fst_zip (by omega)]
  exact h1

/-- the model's own listing passes the acceptance test -/
theorem valueCounts_ok (cells : List (Option β)) :
    countsOk cells ((valueCounts cells).map Prod.fst) ((valueCounts cells).map Prod.snd) = true := by
  rw [countsOk_iff]
  refine ⟨valueCounts_cats_nodup cells, by simp, ?_, ?_, ?_⟩
  · intro p hp
    have e : valueCounts cells = ((valueCounts cells).map Prod.fst).zip ((valueCounts cells).map Prod.snd) :=
      List.zip_of_prod rfl rfl
    rw [← e] at hp
    have := (mem_valueCounts cells p).mp hp
    exact ⟨this.2, by rw [this.2, occurrences_pos_iff]; exact this.1⟩
  · intro v hv
    exact List.mem_map.mpr ⟨(v, occurrences cells v), (mem_valueCounts cells _).mpr ⟨hv, rfl⟩, rfl⟩
  · exact (nonIncreasing_iff_pairwise _).mp (valueCounts_sorted cells)

/-- any accepted listing is the model's table up to the order of the rows (set-with-counts equality) -/
theorem countsOk_perm_valueCounts {cells : List (Option β)} {cats : List β} {counts : List Nat}
    (h : countsOk cells cats counts = true) : (cats.zip counts).Perm (valueCounts cells) := by
  rw [List.perm_ext_iff_of_nodup (zip_nodup_of_countsOk h) (nodup_of_map Prod.fst (valueCounts_cats_nodup cells))]
  intro p
  rw [mem_zip_of_countsOk h, mem_valueCounts]

theorem lookupCount_valueCounts (cells : List (Option β)) (v : β) :
    lookupCount (valueCounts cells) v = occurrences cells v := by
  unfold lookupCount
  cases hf : (valueCounts cells).find? (fun p => decide (p.1 = v)) with
  | none =>
    have hn := List.find?_eq_none.mp hf
    by_cases hv : some v ∈ cells
    · have := hn (v, occurrences cells v) ((mem_valueCounts cells _).mpr ⟨hv, rfl⟩)
      simp at this
    · have : ¬ 0 < occurrences cells v := by rw [occurrences_pos_iff]; exact hv
      simp only; omega
  | some p =>
    have hm := List.mem_of_find?_eq_some hf
    have hp := List.find?_some hf
    simp only [decide_eq_true_eq] at hp
    have := ((mem_valueCounts cells p).mp hm).2
    simp only; rw [this, hp]

end Counts


section Index
variable {β : Type} [DecidableEq β]

theorem indexOf?_eq_some_iff (v : β) (cats : List β) (i : Nat) :
    indexOf? v cats = some i ↔ ∃ h : i < cats.length, cats[i] = v ∧ ∀ j (hj : j < cats.length), j < i → cats[j] ≠ v := by
  induction cats generalizing i with
  | nil => simp [indexOf?]
  | cons x xs ih =>
    unfold indexOf?
    by_cases hx : x = v
    · subst hx
      simp only [if_true, Option.some.injEq]
      constructor
      · rintro rfl; exact ⟨by simp, by simp, by intro j _ hj; omega⟩
      · rintro ⟨h, _, h3⟩
        rcases Nat.eq_zero_or_pos i with h0 | h0
        · exact h0.symm
        · have := h3 0 (by simp) h0
          simp at this
    · simp only [hx, if_false, Option.map_eq_some_iff]
      constructor
      · rintro ⟨k, hk, rfl⟩
        obtain ⟨h1, h2, h3⟩ := (ih k).mp hk
        refine ⟨by simp; omega, by simpa using h2, ?_⟩
        intro j hj hjk
        cases j with
        | zero => simpa using hx
        | succ j => simpa using h3 j (by simp at hj; omega) (by omega)
      · rintro ⟨h1, h2, h3⟩
        cases i with
        | zero => simp at h2; exact absurd h2 hx
        | succ k =>
          refine ⟨k, (ih k).mpr ⟨by simp at h1; omega, by simpa using h2, ?_⟩, rfl⟩
          intro j hj hjk
          have := h3 (j + 1) (by simp; omega) (by omega)
          simpa [List.getElem_cons_succ] using this

theorem indexOf?_eq_none_iff (v : β) (cats : List β) : indexOf? v cats = none ↔ v ∉ cats := by
  induction cats with
  | nil => simp [indexOf?]
  | cons x xs ih =>
    unfold indexOf?
    by_cases hx : x = v
    · subst hx; simp
    · simp [hx, ih, Ne.symm hx]

theorem indexOf?_getElem {cats : List β} (hnd : cats.Nodup) (i : Nat) (hi : i < cats.length) :
    indexOf? cats[i] cats = some i := by
  rw [indexOf?_eq_some_iff]
  refine ⟨hi, rfl, ?_⟩
  intro j hj hji heq
  exact (List.pairwise_iff_getElem.mp hnd) j i hj hi hji heq

/-- **index space**: the i-th listed category is encoded as `i` -/
theorem encodeCat_getElem {cats : List β} (hnd : cats.Nodup) (i : Nat) (hi : i < cats.length) :
    encodeCat cats (some cats[i]) = (i : Int) := by
  simp [encodeCat, indexOf?_getElem hnd i hi]

theorem encodeCat_missing (cats : List β) : encodeCat cats none = -1 := rfl

theorem encodeCat_unseen {cats : List β} {v : β} (h : v ∉ cats) : encodeCat cats (some v) = -1 := by
  simp [encodeCat, (indexOf?_eq_none_iff v cats).mpr h]

/-- decoding: a listed value's code is a valid position and the category at that position is the value -/
theorem encodeCat_decode {cats : List β} {v : β} (h : v ∈ cats) :
    ∃ i, ∃ hi : i < cats.length, encodeCat cats (some v) = (i : Int) ∧ cats[i] = v := by
  cases hq : indexOf? v cats with
  | none => exact absurd h ((indexOf?_eq_none_iff v cats).mp hq)
  | some i =>
    obtain ⟨hi, h2, _⟩ := (indexOf?_eq_some_iff v cats i).mp hq
    exact ⟨i, hi, by simp [encodeCat, hq], h2⟩

/-- distinct listed categories get distinct codes; the code −1 is reserved for missing / unseen -/
theorem encodeCat_injective {cats : List β} {v w : β} (hv : v ∈ cats) (hw : w ∈ cats)
    (h : encodeCat cats (some v) = encodeCat cats (some w)) : v = w := by
  obtain ⟨i, hi, e1, e2⟩ := encodeCat_decode hv
  obtain ⟨j, hj, f1, f2⟩ := encodeCat_decode hw
  rw [e1, f1] at h
  have : i = j := by exact_mod_cast h
  subst this
  rw [← e2, ← f2]

theorem encodeCat_nonneg_iff (cats : List β) (v : β) : 0 ≤ encodeCat cats (some v) ↔ v ∈ cats := by
  constructor
  · intro h
    by_contra hn
    rw [encodeCat_unseen hn] at h
    omega
  · intro h
    obtain ⟨i, _, e, _⟩ := encodeCat_decode h
    rw [e]; exact Int.natCast_nonneg i

end Index

section Multi
variable {β : Type} [DecidableEq β]

theorem count_distinct (l : List β) (t : β) : (distinct l).count t = if t ∈ l then 1 else 0 := by
  induction l with
  | nil => simp [distinct]
  | cons y ys ih =>
    unfold distinct
    by_cases h : y ∈ ys
    · simp only [h, if_true, ih, mem_cons]
      by_cases ht : t ∈ ys
      · simp [ht]
      · have : t ≠ y := fun e => ht (e ▸ h)
        simp [ht, this]
    · simp only [h, if_false, count_cons, ih, mem_cons]
      by_cases hty : t = y
      · subst hty; simp [h]
      · have : ¬ (y = t) := fun e => hty e.symm
        by_cases ht : t ∈ ys <;> simp [ht, hty, this]

/-- a token's count is the number of non-missing cells whose token *set* contains it
    (a token repeated inside one cell counts once) -/
theorem multi_count_exact (cells : List (Option (List β))) (t : β) :
    ((cells.filterMap id).flatMap distinct).count t = cellsContaining cells t := by
  unfold cellsContaining
  induction cells with
  | nil => simp
  | cons c cs ih =>
    cases c with
    | none => simpa using ih
    | some l =>
      have e1 : ((some l :: cs).filterMap id).flatMap distinct
          = distinct l ++ (cs.filterMap id).flatMap distinct := by simp
      rw [e1, count_append, ih, count_distinct, filter_cons]
      by_cases h : t ∈ l
      · simp only [h, if_true, decide_true, length_cons]; omega
      · simp only [h, if_false, decide_false]; simp

end Multi



section Time

theorem foldl_min_spec (xs : List Int) (a : Int) :
    let m := xs.foldl (fun a b => if b < a then b else a) a
    m ≤ a ∧ (∀ x ∈ xs, m ≤ x) ∧ (m = a ∨ m ∈ xs) := by
  induction xs generalizing a with
  | nil => simp
  | cons x xs ih =>
    simp only [foldl_cons, mem_cons, forall_eq_or_imp]
    obtain ⟨h1, h2, h3⟩ := ih (if x < a then x else a)
    by_cases hx : x < a
    · simp only [hx, if_true] at h1 h2 h3 ⊢
      refine ⟨by omega, ⟨h1, h2⟩, ?_⟩
      rcases h3 with h | h
      · exact Or.inr (Or.inl h)
      · exact Or.inr (Or.inr h)
    · simp only [hx, if_false] at h1 h2 h3 ⊢
      refine ⟨h1, ⟨by omega, h2⟩, ?_⟩
      rcases h3 with h | h
      · exact Or.inl h
      · exact Or.inr (Or.inr h)

theorem foldl_max_spec (xs : List Int) (a : Int) :
    let m := xs.foldl (fun a b => if a < b then b else a) a
    a ≤ m ∧ (∀ x ∈ xs, x ≤ m) ∧ (m = a ∨ m ∈ xs) := by
  induction xs generalizing a with
  | nil => simp
  | cons x xs ih =>
    simp only [foldl_cons, mem_cons, forall_eq_or_imp]
    obtain ⟨h1, h2, h3⟩ := ih (if a < x then x else a)
    by_cases hx : a < x
    · simp only [hx, if_true] at h1 h2 h3 ⊢
      refine ⟨by omega, ⟨h1, h2⟩, ?_⟩
      rcases h3 with h | h
      · exact Or.inr (Or.inl h)
      · exact Or.inr (Or.inr h)
    · simp only [hx, if_false] at h1 h2 h3 ⊢
      refine ⟨h1, ⟨by omega, h2⟩, ?_⟩
      rcases h3 with h | h
      · exact Or.inl h
      · exact Or.inr (Or.inr h)

theorem minInt_spec {l : List Int} (h : l ≠ []) : minInt l ∈ l ∧ ∀ x ∈ l, minInt l ≤ x := by
  cases l with
  | nil => exact absurd rfl h
  | cons a xs =>
    obtain ⟨h1, h2, h3⟩ := foldl_min_spec xs a
    simp only [minInt, mem_cons, forall_eq_or_imp]
    exact ⟨h3, h1, h2⟩

theorem maxInt_spec {l : List Int} (h : l ≠ []) : maxInt l ∈ l ∧ ∀ x ∈ l, x ≤ maxInt l := by
  cases l with
  | nil => exact absurd rfl h
  | cons a xs =>
    obtain ⟨h1, h2, h3⟩ := foldl_max_spec xs a
    simp only [maxInt, mem_cons, forall_eq_or_imp]
    exact ⟨h3, h1, h2⟩

theorem sortedTimes_perm (cells : List (Option Int)) : (sortedTimes cells).Perm (cells.filterMap id) :=
  isort_perm _ _

theorem sortedTimes_pairwise (cells : List (Option Int)) : (sortedTimes cells).Pairwise (· ≤ ·) := by
  have := isort_pairwise (le := fun (a b : Int) => decide (a ≤ b))
    (fun a b c h1 h2 => by simp only [decide_eq_true_eq] at *; omega)
    (fun a b => by simp only [Bool.or_eq_true, decide_eq_true_eq]; omega) (cells.filterMap id)
  exact this.imp (fun h => by simpa using h)

theorem mem_sortedTimes (cells : List (Option Int)) (t : Int) : t ∈ sortedTimes cells ↔ some t ∈ cells := by
  rw [(sortedTimes_perm cells).mem_iff]; simp [List.mem_filterMap]

theorem all_none_iff (cells : List (Option Int)) : cells.all Option.isNone = true ↔ cells.filterMap id = [] := by
  rw [List.filterMap_eq_nil_iff, List.all_eq_true]
  constructor
  · intro h a ha; have := h a ha; cases a <;> simp_all
  · intro h a ha; have := h a ha; cases a <;> simp_all

theorem timeStats_of_some (year : Int → Int) (cells : List (Option Int)) (h : cells.filterMap id ≠ []) :
    timeStats year cells =
      { yearRange := (minInt ((sortedTimes cells).map year), maxInt ((sortedTimes cells).map year)),
        newest := (sortedTimes cells).getLast?, oldest := (sortedTimes cells).head?,
        median := (sortedTimes cells)[(sortedTimes cells).length / 2]? } := by
  unfold timeStats
  have : ¬ (cells.all Option.isNone = true) := fun h' => h ((all_none_iff cells).mp h')
  simp only [this]
  rfl

/-- no parseable time at all: the documented defaults -/
theorem timeStats_default (year : Int → Int) (cells : List (Option Int)) (h : cells.filterMap id = []) :
    timeStats year cells = { yearRange := (-1, -1), newest := none, oldest := none, median := none } := by
  unfold timeStats
  simp [(all_none_iff cells).mpr h]

theorem sorted_get_le {s : List Int} (hs : s.Pairwise (· ≤ ·)) (i j : Nat) (hi : i < s.length) (hj : j < s.length)
    (hij : i ≤ j) : s[i] ≤ s[j] := by
  rcases Nat.eq_or_lt_of_le hij with h | h
  · subst h; exact Int.le_refl _
  · exact (List.pairwise_iff_getElem.mp hs) i j hi hj h

theorem oldest_le_all (year : Int → Int) (cells : List (Option Int)) (o : Int)
    (h : (timeStats year cells).oldest = some o) : some o ∈ cells ∧ ∀ t, some t ∈ cells → o ≤ t := by
  by_cases he : cells.filterMap id = []
  · rw [timeStats_default year cells he] at h; cases h
  · rw [timeStats_of_some year cells he] at h
    simp only at h
    have hm : o ∈ sortedTimes cells := List.mem_of_head? h
    refine ⟨(mem_sortedTimes _ _).mp hm, ?_⟩
    intro t ht
    have ht' := (mem_sortedTimes cells t).mpr ht
    obtain ⟨j, hj, rfl⟩ := List.getElem_of_mem ht'
    have h0 : 0 < (sortedTimes cells).length := by omega
    have : (sortedTimes cells)[0] = o := by
      rw [List.head?_eq_getElem?] at h
      rw [List.getElem?_eq_getElem h0] at h
      exact Option.some.inj h
    rw [← this]
    exact sorted_get_le (sortedTimes_pairwise cells) 0 j h0 hj (Nat.zero_le _)

theorem newest_ge_all (year : Int → Int) (cells : List (Option Int)) (w : Int)
    (h : (timeStats year cells).newest = some w) : some w ∈ cells ∧ ∀ t, some t ∈ cells → t ≤ w := by
  by_cases he : cells.filterMap id = []
  · rw [timeStats_default year cells he] at h; cases h
  · rw [timeStats_of_some year cells he] at h
    simp only at h
    have hm : w ∈ sortedTimes cells := List.mem_of_getLast? h
    refine ⟨(mem_sortedTimes _ _).mp hm, ?_⟩
    intro t ht
    have ht' := (mem_sortedTimes cells t).mpr ht
    obtain ⟨j, hj, rfl⟩ := List.getElem_of_mem ht'
    have hl : (sortedTimes cells).length - 1 < (sortedTimes cells).length := by omega
    have : (sortedTimes cells)[(sortedTimes cells).length - 1] = w := by
      rw [List.getLast?_eq_getElem?] at h
      rw [List.getElem?_eq_getElem hl] at h
      exact Option.some.inj h
    rw [← this]
    exact sorted_get_le (sortedTimes_pairwise cells) j _ hj hl (by omega)

theorem filter_length_split (p : Int → Bool) (s : List Int) (k : Nat) :
    (s.filter p).length = ((s.take k).filter p).length + ((s.drop k).filter p).length := by
  conv_lhs => rw [← List.take_append_drop k s]
  rw [List.filter_append, List.length_append]

theorem filter_le_ge_lengths {s : List Int} (hs : s.Pairwise (· ≤ ·)) (k : Nat) (hk : k < s.length) :
    k + 1 ≤ (s.filter fun x => decide (x ≤ s[k])).length ∧
    s.length - k ≤ (s.filter fun x => decide (s[k] ≤ x)).length := by
  constructor
  · have hall : ∀ x ∈ s.take (k + 1), decide (x ≤ s[k]) = true := by
      intro x hx
      obtain ⟨i, hi, rfl⟩ := List.getElem_of_mem hx
      simp only [List.length_take] at hi
      rw [List.getElem_take]
      exact decide_eq_true (sorted_get_le hs i k (by omega) hk (by omega))
    rw [filter_length_split _ s (k + 1), List.filter_eq_self.mpr hall, List.length_take]
    omega
  · have hall : ∀ x ∈ s.drop k, decide (s[k] ≤ x) = true := by
      intro x hx
      obtain ⟨i, hi, rfl⟩ := List.getElem_of_mem hx
      simp only [List.length_drop] at hi
      rw [List.getElem_drop]
      exact decide_eq_true (sorted_get_le hs k (k + i) hk (by omega) (by omega))
    rw [filter_length_split _ s k, List.filter_eq_self.mpr hall, List.length_drop]
    omega

/-- the median time is the **upper** median of the non-missing times: it is the element with
    index `n/2` (0-based) of the sorted times; at least `n/2 + 1` times are ≤ it and at least
    `n - n/2` are ≥ it.  (The lower median `(n-1)/2` would only guarantee `(n-1)/2 + 1`.) -/
theorem median_time_spec (year : Int → Int) (cells : List (Option Int)) (m : Int)
    (h : (timeStats year cells).median = some m) :
    let ts := cells.filterMap id
    let n := ts.length
    (sortedTimes cells)[n / 2]? = some m ∧ some m ∈ cells ∧
    n / 2 + 1 ≤ (ts.filter fun x => decide (x ≤ m)).length ∧
    n - n / 2 ≤ (ts.filter fun x => decide (m ≤ x)).length := by
  intro ts n
  by_cases he : cells.filterMap id = []
  · rw [timeStats_default year cells he] at h; cases h
  · rw [timeStats_of_some year cells he] at h
    simp only at h
    have hp := sortedTimes_perm cells
    have hlen : (sortedTimes cells).length = n := hp.length_eq
    rw [hlen] at h
    have hnpos : 0 < n := List.length_pos_iff.mpr he
    have hk : n / 2 < (sortedTimes cells).length := by rw [hlen]; omega
    have hm : (sortedTimes cells)[n / 2] = m := by
      rw [List.getElem?_eq_getElem hk] at h; exact Option.some.inj h
    have hmem : m ∈ sortedTimes cells := hm ▸ List.getElem_mem hk
    obtain ⟨f1, f2⟩ := filter_le_ge_lengths (sortedTimes_pairwise cells) (n / 2) hk
    rw [hm] at f1 f2
    rw [(hp.filter _).length_eq] at f1 f2
    rw [hlen] at f2
    exact ⟨h, (mem_sortedTimes _ _).mp hmem, f1, f2⟩

/-- odd number of times `2k+1`: index `k`, the middle one -/
theorem median_time_odd (year : Int → Int) (cells : List (Option Int)) (k : Nat)
    (h : (cells.filterMap id).length = 2 * k + 1) :
    (timeStats year cells).median = (sortedTimes cells)[k]? := by
  have he : cells.filterMap id ≠ [] := by intro e; rw [e] at h; simp at h
  rw [timeStats_of_some year cells he]
  simp only
  rw [(sortedTimes_perm cells).length_eq, h]
  congr 1; omega

/-- even number of times `2k+2`: index `k+1`, the upper of the two middle ones `k`, `k+1` -/
theorem median_time_even (year : Int → Int) (cells : List (Option Int)) (k : Nat)
    (h : (cells.filterMap id).length = 2 * k + 2) :
    (timeStats year cells).median = (sortedTimes cells)[k + 1]? ∧
    ∃ lo up, (sortedTimes cells)[k]? = some lo ∧ (sortedTimes cells)[k + 1]? = some up ∧ lo ≤ up := by
  have he : cells.filterMap id ≠ [] := by intro e; rw [e] at h; simp at h
  have hlen : (sortedTimes cells).length = 2 * k + 2 := by rw [(sortedTimes_perm cells).length_eq, h]
  constructor
  · rw [timeStats_of_some year cells he]
    simp only
    rw [hlen]
    congr 1; omega
  · refine ⟨(sortedTimes cells)[k], (sortedTimes cells)[k + 1], ?_, ?_, ?_⟩
    · exact List.getElem?_eq_getElem (by omega)
    · exact List.getElem?_eq_getElem (by omega)
    · exact sorted_get_le (sortedTimes_pairwise cells) k (k + 1) (by omega) (by omega) (by omega)

/-- the year range brackets the year of every non-missing time and both ends are attained -/
theorem yearRange_spec (year : Int → Int) (cells : List (Option Int)) (he : cells.filterMap id ≠ []) :
    let yr := (timeStats year cells).yearRange
    (∀ t, some t ∈ cells → yr.1 ≤ year t ∧ year t ≤ yr.2) ∧
    (∃ t, some t ∈ cells ∧ year t = yr.1) ∧ (∃ t, some t ∈ cells ∧ year t = yr.2) := by
  intro yr
  have hyr : yr = (minInt ((sortedTimes cells).map year), maxInt ((sortedTimes cells).map year)) := by
    show (timeStats year cells).yearRange = _
    rw [timeStats_of_some year cells he]
  have hne : (sortedTimes cells).map year ≠ [] := by
    intro e
    have := congrArg List.length e
    rw [List.length_map, (sortedTimes_perm cells).length_eq] at this
    exact he (List.length_eq_zero_iff.mp this)
  obtain ⟨a1, a2⟩ := minInt_spec hne
  obtain ⟨b1, b2⟩ := maxInt_spec hne
  rw [hyr]
  refine ⟨?_, ?_, ?_⟩
  · intro t ht
    have : year t ∈ (sortedTimes cells).map year := List.mem_map.mpr ⟨t, (mem_sortedTimes _ _).mpr ht, rfl⟩
    exact ⟨a2 _ this, b2 _ this⟩
  · obtain ⟨t, ht, e⟩ := List.mem_map.mp a1
    exact ⟨t, (mem_sortedTimes _ _).mp ht, e⟩
  · obtain ⟨t, ht, e⟩ := List.mem_map.mp b1
    exact ⟨t, (mem_sortedTimes _ _).mp ht, e⟩

end Time

section Misc

theorem binaryTargetResort_perm {β : Type} (lt : β → β → Bool) (pairs : List (β × Nat)) :
    (binaryTargetResort lt pairs).Perm pairs := by
  unfold binaryTargetResort
  split
  · split
    · exact List.Perm.swap _ _ _
    · exact List.Perm.refl _
  · exact List.Perm.refl _

/-- exactly two classes: listed in ascending class order whatever their frequencies -/
theorem binaryTargetResort_sorted {β : Type} (lt : β → β → Bool) (a b : β × Nat)
    (htotal : a.1 ≠ b.1 → lt a.1 b.1 = true ∨ lt b.1 a.1 = true)
    (hne : a.1 ≠ b.1) :
    ∃ p q, binaryTargetResort lt [a, b] = [p, q] ∧ lt p.1 q.1 = true := by
  unfold binaryTargetResort
  by_cases h : lt b.1 a.1 = true
  · exact ⟨b, a, by simp [h], h⟩
  · refine ⟨a, b, by simp [h], ?_⟩
    rcases htotal hne with h' | h'
    · exact h'
    · exact absurd h' h

theorem binaryTargetResort_other {β : Type} (lt : β → β → Bool) (pairs : List (β × Nat)) (h : pairs.length ≠ 2) :
    binaryTargetResort lt pairs = pairs := by
  unfold binaryTargetResort
  split
  · simp at h
  · rfl

theorem embDim_all_missing {γ : Type} (cells : List (Option (List γ))) (h : cells.filterMap id = []) :
    embDim cells = -1 := by
  unfold embDim; rw [h]

/-- an embedding column whose vectors all have width `w` reports `w` -/
theorem embDim_uniform {γ : Type} (cells : List (Option (List γ))) (w : Nat)
    (hne : cells.filterMap id ≠ []) (hw : ∀ v, some v ∈ cells → v.length = w) : embDim cells = (w : Int) := by
  unfold embDim
  cases hc : cells.filterMap id with
  | nil => exact absurd hc hne
  | cons v vs =>
    have : some v ∈ cells := by
      have : v ∈ cells.filterMap id := by rw [hc]; simp
      simpa [List.mem_filterMap] using this
    simp [hw v this]

end Misc


end TFVerif.Stats

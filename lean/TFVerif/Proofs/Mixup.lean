/-
Helper lemmas for C19 (feature mixup).  The model `TFVerif.Mixup` is instantiated with the
operations of an arbitrary linearly ordered field.
-/
import TFVerif.Model.Mixup
import Mathlib.Tactic.Linarith
import Mathlib.Tactic.Ring
import Mathlib.Algebra.Order.Field.Basic
import Mathlib.Algebra.BigOperators.Group.List.Basic

namespace TFVerif.Mixup

set_option linter.unusedSectionVars false

/-- the operations of a linearly ordered field as an `Ops` record -/
def fieldOps (R : Type) [Field R] [LinearOrder R] : Ops R where
  zero := 0
  one := 1
  add := (· + ·)
  sub := (· - ·)
  mul := (· * ·)
  div := (· / ·)
  lt := fun a b => decide (a < b)
  ofInt := fun z => (z : R)

section lists
variable {α : Type}

@[simp] theorem length_build (n : Nat) (f : Nat → α) : (build n f).length = n := by
  simp [build]

theorem getD_build {n i : Nat} (f : Nat → α) (d : α) (h : i < n) : (build n f).getD i d = f i := by
  simp [build, List.getD_eq_getElem?_getD, h]

theorem build_succ (n : Nat) (f : Nat → α) : build (n + 1) f = build n f ++ [f n] := by
  simp [build, List.range_succ]

theorem mem_build {n : Nat} {f : Nat → α} {v : α} : v ∈ build n f ↔ ∃ c, c < n ∧ f c = v := by
  simp [build]

theorem build_getD_self (l : List α) (d : α) {n : Nat} (h : l.length = n) :
    build n (fun k => l.getD k d) = l := by
  apply List.ext_getElem
  · simp [h]
  · intro i h1 h2
    simp [build, List.getD_eq_getElem?_getD, h2]

theorem build_congr {n : Nat} {f g : Nat → α} (h : ∀ i, i < n → f i = g i) : build n f = build n g := by
  apply List.ext_getElem
  · simp
  · intro i h1 h2
    simp only [length_build] at h1
    simpa [build] using h i h1

theorem getD_mem_of_lt (l : List α) (d : α) {i : Nat} (h : i < l.length) : l.getD i d ∈ l := by
  simp [List.getD_eq_getElem?_getD, h]

end lists

section field
variable {R : Type} [Field R] [LinearOrder R] [IsStrictOrderedRing R]

theorem sum_eq (xs : List R) : (fieldOps R).sum xs = xs.sum := by
  induction xs with
  | nil => simp [Ops.sum, fieldOps]
  | cons a t ih =>
    simp only [Ops.sum, List.foldr_cons, List.sum_cons] at ih ⊢
    rw [ih]; rfl

/-- over a field the arithmetic selection `m*a + ~m*b` is a choice -/
theorem sel_eq_pick (m : Bool) (a b : R) : sel (fieldOps R) m a b = pick m a b := by
  cases m <;> simp [sel, Ops.ofBool, fieldOps, pick]

theorem lam_off (dr : Draws R) (F : Nat) (mi : List R) (i : Nat) :
    lam (fieldOps R) .off dr F mi i = 1 := rfl

theorem mix_eq (l a b : R) : mix (fieldOps R) l a b = l * a + (1 - l) * b := rfl

theorem at3_xMixed (mode : Mode) (dr : Draws R) {B F D : Nat} (x : List (List (List R)))
    {i j k : Nat} (hi : i < B) (hj : j < F) (hk : k < D) :
    at3 (fieldOps R) (xMixed (fieldOps R) mode dr B F D x) i j k
      = pick (keep (fieldOps R) mode dr i j k) (at3 (fieldOps R) x i j k)
          (at3 (fieldOps R) x (partner dr i) j k) := by
  unfold xMixed
  rw [at3, getD_build _ _ hi, getD_build _ _ hj, getD_build _ _ hk, sel_eq_pick]

/-- row `i`, column `j` of the mixed tensor, as a whole embedding vector -/
theorem col_xMixed (mode : Mode) (dr : Draws R) {B F D : Nat} (x : List (List (List R)))
    {i j : Nat} (hi : i < B) (hj : j < F) :
    ((xMixed (fieldOps R) mode dr B F D x).getD i []).getD j []
      = build D fun k => pick (keep (fieldOps R) mode dr i j k) (at3 (fieldOps R) x i j k)
          (at3 (fieldOps R) x (partner dr i) j k) := by
  unfold xMixed
  rw [getD_build _ _ hi, getD_build _ _ hj]
  exact build_congr fun k _ => sel_eq_pick _ _ _

theorem shape_row {x : List (List (List R))} {B F D : Nat} (h : Shape3 x B F D) {i : Nat}
    (hi : i < B) : (x.getD i []).length = F ∧ ∀ c ∈ x.getD i [], c.length = D :=
  h.2 _ (getD_mem_of_lt x [] (h.1 ▸ hi))

theorem shape_col {x : List (List (List R))} {B F D : Nat} (h : Shape3 x B F D) {i j : Nat}
    (hi : i < B) (hj : j < F) : ((x.getD i []).getD j []).length = D := by
  obtain ⟨h1, h2⟩ := shape_row h hi
  exact h2 _ (getD_mem_of_lt _ [] (h1 ▸ hj))

/-- reading a well-shaped tensor entry by entry gives it back -/
theorem build_at3_col {x : List (List (List R))} {B F D : Nat} (h : Shape3 x B F D) {i j : Nat}
    (hi : i < B) (hj : j < F) :
    build D (fun k => at3 (fieldOps R) x i j k) = (x.getD i []).getD j [] :=
  build_getD_self _ _ (shape_col h hi hj)

theorem build_at3 {x : List (List (List R))} {B F D : Nat} (h : Shape3 x B F D) :
    (build B fun i => build F fun j => build D fun k => at3 (fieldOps R) x i j k) = x := by
  have e1 : (build B fun i => build F fun j => build D fun k => at3 (fieldOps R) x i j k)
      = build B fun i => x.getD i [] := by
    apply build_congr; intro i hi
    have e2 : (build F fun j => build D fun k => at3 (fieldOps R) x i j k)
        = build F fun j => (x.getD i []).getD j [] :=
      build_congr fun j hj => build_at3_col h hi hj
    rw [e2]; exact build_getD_self _ _ (shape_row h hi).1
  rw [e1]; exact build_getD_self _ _ h.1

/-! ### sums over `build` -/

theorem sum_build_succ (n : Nat) (f : Nat → R) : (build (n + 1) f).sum = (build n f).sum + f n := by
  rw [build_succ, List.sum_append]; simp

theorem sum_build_add (n : Nat) (f g : Nat → R) :
    (build n fun c => f c + g c).sum = (build n f).sum + (build n g).sum := by
  induction n with
  | zero => simp [build]
  | succ n ih => rw [sum_build_succ, sum_build_succ, sum_build_succ, ih]; ring

theorem sum_build_mul (n : Nat) (a : R) (f : Nat → R) :
    (build n fun c => a * f c).sum = a * (build n f).sum := by
  induction n with
  | zero => simp [build]
  | succ n ih => rw [sum_build_succ, sum_build_succ, ih]; ring

theorem oneHot_eq (y : Int) (c : Nat) :
    oneHot (fieldOps R) y c = if y = (c : Int) then (1 : R) else 0 := rfl

theorem oneHot_nonneg (y : Int) (c : Nat) : (0 : R) ≤ oneHot (fieldOps R) y c := by
  rw [oneHot_eq]; split <;> simp

/-- a one-hot row sums to one exactly when the index is inside `[0, n)` -/
theorem sum_oneHot (y : Int) (n : Nat) :
    (build n (oneHot (fieldOps R) y)).sum = if 0 ≤ y ∧ y < (n : Int) then (1 : R) else 0 := by
  induction n with
  | zero =>
    have : ¬ (0 ≤ y ∧ y < ((0 : Nat) : Int)) := by omega
    rw [if_neg this]; simp [build]
  | succ n ih =>
    rw [sum_build_succ, ih, oneHot_eq]
    by_cases h1 : y = (n : Int)
    · have a1 : ¬ (0 ≤ y ∧ y < (n : Int)) := by omega
      have a2 : 0 ≤ y ∧ y < ((n + 1 : Nat) : Int) := by omega
      rw [if_neg a1, if_pos h1, if_pos a2]; simp
    · by_cases h2 : 0 ≤ y ∧ y < (n : Int)
      · have a2 : 0 ≤ y ∧ y < ((n + 1 : Nat) : Int) := by omega
        rw [if_pos h2, if_neg h1, if_pos a2]; simp
      · have a2 : ¬ (0 ≤ y ∧ y < ((n + 1 : Nat) : Int)) := by omega
        rw [if_neg h2, if_neg h1, if_neg a2]; simp

/-! ### the feature-mode weight -/

theorem lamFeature_share_aux (S : R) (ss : List R) (ms : List Bool) :
    (List.zipWith (fun s m => s * (fieldOps R).ofBool m) (ss.map fun s => s / S) ms).sum
      = keptMass 0 (· + ·) ss ms / S := by
  induction ss generalizing ms with
  | nil => simp [keptMass]
  | cons s ss ih =>
    cases ms with
    | nil => simp [keptMass]
    | cons m ms =>
      simp only [List.map_cons, List.zipWith_cons_cons, List.sum_cons, ih, keptMass]
      cases m <;> simp [Ops.ofBool, fieldOps, add_div]

/-- `lam` of feature mode is the share of mutual-information mass of the kept columns -/
theorem lamFeature_share (mi : List R) (ms : List Bool) :
    lamFeature (fieldOps R) mi ms = keptMass 0 (· + ·) mi ms / mi.sum := by
  unfold lamFeature normMi
  rw [sum_eq, sum_eq]
  exact lamFeature_share_aux mi.sum mi ms

theorem keptMass_bounds (ss : List R) (ms : List Bool) (h : ∀ s ∈ ss, 0 ≤ s) :
    0 ≤ keptMass 0 (· + ·) ss ms ∧ keptMass 0 (· + ·) ss ms ≤ ss.sum := by
  induction ss generalizing ms with
  | nil => simp [keptMass]
  | cons s ss ih =>
    have hs : 0 ≤ s := h s (by simp)
    have hss : ∀ t ∈ ss, 0 ≤ t := fun t ht => h t (by simp [ht])
    have hsum : 0 ≤ ss.sum := (ih [] hss).1.trans (ih [] hss).2
    cases ms with
    | nil =>
      simp only [keptMass, List.sum_cons]
      exact ⟨le_refl _, by linarith⟩
    | cons m ms =>
      obtain ⟨i1, i2⟩ := ih ms hss
      simp only [keptMass, List.sum_cons]
      cases m
      · simp only [Bool.false_eq_true, if_false]
        constructor <;> linarith
      · simp only [if_true]
        constructor <;> linarith

theorem lamFeature_unit (mi : List R) (ms : List Bool) (h : ∀ s ∈ mi, 0 ≤ s) (hpos : 0 < mi.sum) :
    0 ≤ lamFeature (fieldOps R) mi ms ∧ lamFeature (fieldOps R) mi ms ≤ 1 := by
  rw [lamFeature_share]
  obtain ⟨i1, i2⟩ := keptMass_bounds mi ms h
  exact ⟨div_nonneg i1 hpos.le, (div_le_one hpos).2 i2⟩

/-! ### unfolding `featureMixup` -/

theorem featureMixup_some {C : Nat} {mode : Mode} {mi : Option (List R)} {dr : Draws R}
    {B F D : Nat} {x : List (List (List R))} {y : Target R} {out : Out R}
    (h : featureMixup (fieldOps R) C mode mi dr B F D x y = some out) :
    C ≠ 0 ∧ (mode = .feature → mi.map List.length = some F) ∧
      out.x = xMixed (fieldOps R) mode dr B F D x ∧
      yMixed (fieldOps R) mode dr B F C (mi.getD []) y = some out.y := by
  unfold featureMixup at h
  split at h
  · simp at h
  · rename_i hC
    split at h
    · simp at h
    · rename_i hm
      split at h
      · simp at h
      · rename_i y' hy
        simp only [Option.some.injEq] at h
        subst h
        refine ⟨hC, ?_, rfl, hy⟩
        intro hmode
        by_contra hne
        exact hm ⟨hmode, hne⟩

end field

end TFVerif.Mixup

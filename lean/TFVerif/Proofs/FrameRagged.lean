/-
The ragged containers satisfy the feature specification `FeatSpec` of the frame layer, so the
theorems of Props/C07, C08, C10 (proved for every storage kind with a `FeatSpec`) apply to frames
holding `MultiNestedTensor`s, `MultiEmbeddingTensor`s and dicts of `MultiNestedTensor`s — the
storage the executable driver runs (`featOps`).

Built from the C05/C06 refinement lemmas (selection / concatenation on well-formed flattened
storage = the nested-list operation on the grid of cells: `select_ofGrid`, `wfrep_canonical`,
`catRows_ofGrid`, `catCols_ofGrid`, `met_select_ofW`, `met_wfrep_canonical`, `met_catRows_ofW`,
`met_catCols_ofW`, ... of TFVerif/Proofs/Ragged*.lean, which Props/C05.lean and Props/C06.lean
restate); no offset arithmetic is redone here.  Core Lean only, like Proofs/Frame.lean.
-/
import TFVerif.Proofs.Frame
import TFVerif.Proofs.RaggedCanon

namespace TFVerif.TF
open TFVerif

/-! ### pointwise relations: more lemmas -/

theorem All2_append {R : α → β → Prop} (a1 a2 : List α) (b1 b2 : List β) (h : a1.length = b1.length) :
    All2 R (a1 ++ a2) (b1 ++ b2) ↔ All2 R a1 b1 ∧ All2 R a2 b2 := by
  induction a1 generalizing b1 with
  | nil => cases b1 <;> simp_all [All2]
  | cons x xs ih =>
    cases b1 with
    | nil => simp at h
    | cons y ys =>
      simp only [List.length_cons, Nat.add_right_cancel_iff] at h
      simp only [List.cons_append, All2, ih ys h, and_assoc]

/-- for equally shaped nested lists, pointwise on the concatenation = pointwise on the pieces. -/
theorem All2_flatten {R : α → β → Prop} (xs : List (List α)) (ys : List (List β))
    (h : xs.map List.length = ys.map List.length) :
    All2 R xs.flatten ys.flatten ↔ All2 (All2 R) xs ys := by
  induction xs generalizing ys with
  | nil => cases ys <;> simp_all [All2]
  | cons x xs ih =>
    cases ys with
    | nil => simp at h
    | cons y ys =>
      simp only [List.map_cons, List.cons.injEq] at h
      simp only [List.flatten_cons, All2, All2_append x _ y _ h.1, ih ys h.2]

theorem All2.map_length {R : α → β → Prop} {xs : List (List α)} {ys : List (List β)}
    (h : All2 (All2 R) xs ys) : xs.map List.length = ys.map List.length := by
  induction xs generalizing ys with
  | nil => cases ys <;> simp_all [All2]
  | cons x xs ih =>
    cases ys with
    | nil => simp [All2] at h
    | cons y ys => simp only [All2] at h; simp [h.1.length_eq, ih h.2]

theorem All2_map {R : γ → δ → Prop} (f : α → γ) (g : β → δ) (xs : List α) (ys : List β) :
    All2 R (xs.map f) (ys.map g) ↔ All2 (fun x y => R (f x) (g y)) xs ys := by
  induction xs generalizing ys with
  | nil => cases ys <;> simp [All2]
  | cons x xs ih => cases ys <;> simp [All2, ih]

theorem All2_map_same {R : α → β → Prop} (l : List ι) (f : ι → α) (g : ι → β) :
    All2 R (l.map f) (l.map g) ↔ ∀ i ∈ l, R (f i) (g i) := by
  induction l with
  | nil => simp [All2]
  | cons i l ih => simp [All2, ih]

theorem All2.mono_mem {R S : α → β → Prop} {xs : List α} {ys : List β} (h : All2 R xs ys)
    (hRS : ∀ a ∈ xs, ∀ b ∈ ys, R a b → S a b) : All2 S xs ys := by
  induction xs generalizing ys with
  | nil => cases ys <;> simp_all [All2]
  | cons x xs ih =>
    cases ys with
    | nil => simp [All2] at h
    | cons y ys =>
      exact ⟨hRS _ (List.mem_cons_self ..) _ (List.mem_cons_self ..) h.1,
        ih h.2 fun a ha b hb => hRS a (List.mem_cons_of_mem _ ha) b (List.mem_cons_of_mem _ hb)⟩

theorem All2_iff_of_mem {R S : α → β → Prop} {xs : List α} {ys : List β}
    (hRS : ∀ a ∈ xs, ∀ b ∈ ys, (R a b ↔ S a b)) : All2 R xs ys ↔ All2 S xs ys :=
  ⟨fun h => h.mono_mem fun a ha b hb => (hRS a ha b hb).mp,
   fun h => h.mono_mem fun a ha b hb => (hRS a ha b hb).mpr⟩

/-! ### changing the abstract types of a specification -/

theorem getD_map_nil (f : α → β) (xs : List (List α)) (r : Nat) :
    (xs.map (List.map f)).getD r [] = (xs.getD r []).map f := by
  simp only [List.getD_eq_getElem?_getD, List.getElem?_map]
  cases xs[r]? <;> rfl

theorem map_inj_of_inj {f : α → β} (hf : ∀ a b, f a = f b → a = b) {xs ys : List α}
    (h : xs.map f = ys.map f) : xs = ys := by
  induction xs generalizing ys with
  | nil => cases ys <;> simp_all
  | cons x xs ih =>
    cases ys with
    | nil => simp at h
    | cons y ys =>
      simp only [List.map_cons, List.cons.injEq] at h
      rw [hf _ _ h.1, ih h.2]

/-- A specification stays one when cells, tags and column metadata are embedded into larger types
    (injectively for what `==` compares). -/
def FeatSpec.map {Φ κ τ ω κ' τ' ω' : Type} {ops : FeatOps Φ} (spec : FeatSpec ops κ τ ω)
    (fκ : κ → κ') (fτ : τ → τ') (fω : ω → ω') (cc : κ' → κ' → Prop)
    (hτ : ∀ a b, fτ a = fτ b → a = b) (hω : ∀ a b, fω a = fω b → a = b)
    (hcc : ∀ a b, cc (fκ a) (fκ b) ↔ spec.cellClose a b) : FeatSpec ops κ' τ' ω' where
  wf := spec.wf
  tag := fun φ => fτ (spec.tag φ)
  colMeta := fun φ => (spec.colMeta φ).map fω
  grid := fun φ => (spec.grid φ).map (List.map fκ)
  cellClose := cc
  grid_len := fun φ h => by simpa using spec.grid_len φ h
  grid_row := fun φ h r hr => by
    obtain ⟨r0, hr0, rfl⟩ := List.mem_map.mp hr
    simpa using spec.grid_row φ h r0 hr0
  check_iff := fun φ nc nr h => by simpa using spec.check_iff φ nc nr h
  select_none := spec.select_none
  select_some := fun φ ix φ' h hs => by
    obtain ⟨h1, h2, h3, ps, h4, h5⟩ := spec.select_some φ ix φ' h hs
    exact ⟨h1, by rw [h2], by rw [h3], ps, h4, by rw [h5, pick_map]⟩
  col_spec := fun φ j h hj => by
    obtain ⟨φ', h1, h2, h3, h4, h5⟩ := spec.col_spec φ j h (by simpa using hj)
    refine ⟨φ', h1, h2, by rw [h3], by rw [h4, pick_map], ?_⟩
    rw [h5, List.map_map, List.map_map]
    apply List.map_congr_left
    intro r _
    simp [pick_map]
  catRows_spec := fun φ0 φs h => by
    obtain ⟨φ', h1, h2, h3, h4, h5⟩ := spec.catRows_spec φ0 φs (fun φ hφ =>
      ⟨(h φ hφ).1, hτ _ _ (h φ hφ).2.1, map_inj_of_inj hω (h φ hφ).2.2⟩)
    exact ⟨φ', h1, h2, by rw [h3], by rw [h4], by rw [h5, List.map_flatMap]⟩
  catCols_spec := fun φ0 φs h => by
    obtain ⟨φ', h1, h2, h3, h4, h5, h6⟩ := spec.catCols_spec φ0 φs (fun φ hφ =>
      ⟨(h φ hφ).1, hτ _ _ (h φ hφ).2.1, (h φ hφ).2.2⟩)
    refine ⟨φ', h1, h2, by rw [h3], h4, by rw [h5, List.map_flatMap], ?_⟩
    rw [h6, List.map_map]
    apply List.map_congr_left
    intro r _
    simp only [Function.comp_def, List.map_flatMap, getD_map_nil]
  close_iff := fun φ ψ hφ hψ => by
    rw [spec.close_iff φ ψ hφ hψ]
    have e1 : fτ (spec.tag φ) = fτ (spec.tag ψ) ↔ spec.tag φ = spec.tag ψ :=
      ⟨hτ _ _, fun h => by rw [h]⟩
    have e2 : (spec.colMeta φ).map fω = (spec.colMeta ψ).map fω ↔ spec.colMeta φ = spec.colMeta ψ :=
      ⟨fun h => map_inj_of_inj hω h, fun h => by rw [h]⟩
    rw [e1, e2, All2_map]
    have e3 : ∀ r1 r2 : List κ, All2 cc (r1.map fκ) (r2.map fκ) ↔ All2 spec.cellClose r1 r2 := by
      intro r1 r2
      rw [All2_map]
      exact All2_iff_of_mem fun a _ b _ => hcc a b
    rw [All2_iff_of_mem fun r1 _ r2 _ => e3 r1 r2]

/-! ### small facts used for all ragged kinds -/

theorem normIndex_ofNat {n j : Nat} (h : j < n) : normIndex n (j : Int) = some j := by
  have h1 : ¬ ((j : Int) < 0) := by omega
  unfold normIndex
  simp [h1]
  omega

theorem positions_int_ofNat {n j : Nat} (h : j < n) : (Index.int (j : Int)).positions n = some [j] := by
  simp [Index.positions, normIndex_ofNat h]

theorem grid_select_rows (g : Grid α) (ix : Index) :
    g.select ix 0 = (ix.positions g.rows.length).map fun ps => { g with rows := Grid.pick g.rows ps } := by
  simp [Grid.select, Grid.size, Grid.pickDim]

theorem grid_select_cols (g : Grid α) (ix : Index) :
    g.select ix 1 = (ix.positions g.numCols).map fun ps =>
      { numCols := ps.length, rows := g.rows.map fun row => Grid.pick row ps } := by
  simp [Grid.select, Grid.size, Grid.pickDim]

theorem map_length_of_uniform (rows : List (List β)) (C : Nat) (h : ∀ r ∈ rows, r.length = C) :
    rows.map List.length = List.replicate rows.length C := by
  induction rows with
  | nil => rfl
  | cons r rows ih =>
    simp only [List.map_cons, List.length_cons, List.replicate_succ, List.cons.injEq]
    exact ⟨h r (List.mem_cons_self ..), ih fun r' hr' => h r' (List.mem_cons_of_mem _ hr')⟩

theorem cumsum_inj {a b : List Nat} (h : 0 :: cumsum a = 0 :: cumsum b) : a = b := by
  rw [psums_eq, psums_eq] at h
  rw [← counts_ps 0 a, ← counts_ps 0 b, h]

theorem pick_replicate_unit {C j : Nat} (h : j < C) :
    Grid.pick (List.replicate C ()) [j] = List.replicate 1 () := by
  rw [pick_cons, pick_nil]
  simp [h, Option.toList]

/-! ### MultiNestedTensor -/

theorem wfrep_validate {m : MNT α} (h : m.WFRep) : m.validate = true := by
  simp [MNT.validate, h.head, h.last, h.len]

theorem mntOk_some {m : MNT α} (h : m.WFRep) : mntOk (some m) = some m := by
  simp [mntOk, wfrep_validate h]

theorem mnt_grid_rows_length (m : MNT α) : m.grid.rows.length = m.numRows := by simp [MNT.grid]

theorem mnt_grid_row_length (m : MNT α) : ∀ r ∈ m.grid.rows, r.length = m.numCols := by
  intro r hr
  simp only [MNT.grid, List.mem_map] at hr
  obtain ⟨_, _, rfl⟩ := hr
  simp

/-- one selection on any well-formed container (`C05.mnt_select_refines_wf`): it raises exactly when
    the nested-list selection raises, and otherwise yields a well-formed container whose cells are
    the nested-list selection of the cells of the source. -/
theorem mnt_select_wf (m : MNT α) (hm : m.WFRep) (ix : Index) (dim : Nat) (hd : dim = 0 ∨ dim = 1) :
    (m.select ix dim = none ↔ m.grid.select ix dim = none) ∧
    (∀ m', m.select ix dim = some m' → m'.WFRep ∧ m.grid.select ix dim = some m'.grid) := by
  obtain ⟨hcan, hwf⟩ := wfrep_canonical m hm
  have href := select_ofGrid m.grid hwf ix dim hd
  rw [← hcan] at href
  constructor
  · rw [href]; cases m.grid.select ix dim <;> simp
  · intro m' hm'
    rw [href] at hm'
    cases hs : m.grid.select ix dim with
    | none => simp [hs] at hm'
    | some g' =>
      simp only [hs, Option.map_some, Option.some.injEq] at hm'
      have hw' := select_WF m.grid g' hwf ix dim hs
      subst hm'
      exact ⟨wfrep_ofGrid g' hw', by rw [grid_ofGrid g' hw']⟩

/-- row selection of a well-formed nested tensor, as `TensorFrame` performs it (C05). -/
theorem mnt_select_rows {m : MNT α} (hm : m.WFRep) (ix : Index) :
    (mntOk (m.select ix 0) = none ↔ ix.positions m.numRows = none) ∧
    ∀ m', mntOk (m.select ix 0) = some m' → m'.WFRep ∧ m'.numCols = m.numCols ∧
      ∃ ps, ix.positions m.numRows = some ps ∧ m'.grid.rows = Grid.pick m.grid.rows ps := by
  obtain ⟨h1, h2⟩ := mnt_select_wf m hm ix 0 (Or.inl rfl)
  rw [grid_select_rows, mnt_grid_rows_length] at h1 h2
  cases hsel : m.select ix 0 with
  | none =>
    refine ⟨⟨fun _ => by simpa using h1.mp hsel, fun _ => rfl⟩, fun m' hm' => by simp [mntOk] at hm'⟩
  | some m1 =>
    obtain ⟨hw, hg⟩ := h2 m1 hsel
    rw [mntOk_some hw]
    cases hps : ix.positions m.numRows with
    | none => simp [hps] at hg
    | some ps =>
      simp only [hps, Option.map_some, Option.some.injEq] at hg
      refine ⟨⟨nofun, nofun⟩, ?_⟩
      intro m' hm'
      cases hm'
      refine ⟨hw, ?_, ps, rfl, ?_⟩
      · have := congrArg Grid.numCols hg
        exact this.symm
      · rw [← hg]

/-- column `j` of a well-formed nested tensor (`feat[:, j]`, C05). -/
theorem mnt_select_col {m : MNT α} (hm : m.WFRep) {j : Nat} (hj : j < m.numCols) :
    ∃ m', mntOk (m.select (.int j) 1) = some m' ∧ m'.WFRep ∧ m'.numCols = 1 ∧ m'.numRows = m.numRows ∧
      m'.grid.rows = m.grid.rows.map fun r => Grid.pick r [j] := by
  obtain ⟨h1, h2⟩ := mnt_select_wf m hm (.int j) 1 (Or.inr rfl)
  rw [grid_select_cols] at h1 h2
  have hp : (Index.int (j : Int)).positions m.grid.numCols = some [j] := positions_int_ofNat hj
  rw [hp] at h1 h2
  cases hsel : m.select (.int j) 1 with
  | none => have := h1.mp hsel; simp at this
  | some m1 =>
    obtain ⟨hw, hg⟩ := h2 m1 hsel
    simp only [Option.map_some, Option.some.injEq] at hg
    refine ⟨m1, mntOk_some hw, hw, ?_, ?_, ?_⟩
    · exact (congrArg Grid.numCols hg).symm
    · have := congrArg (fun g => g.rows.length) hg
      simp only [List.length_map] at this
      rw [← mnt_grid_rows_length m1, ← this, mnt_grid_rows_length]
    · rw [← hg]

theorem mnt_canon_list (ms : List (MNT α)) (h : ∀ m ∈ ms, m.WFRep) :
    (ms.map MNT.grid).map MNT.ofGrid = ms := by
  rw [List.map_map]
  conv => rhs; rw [← List.map_id ms]
  apply List.map_congr_left
  intro m hm
  exact ((wfrep_canonical m (h m hm)).1).symm

/-- `cat(dim=0)` of well-formed nested tensors with equal column counts (C06). -/
theorem mnt_catRows_wf (m0 : MNT α) (ms : List (MNT α))
    (h : ∀ m ∈ m0 :: ms, m.WFRep ∧ m.numCols = m0.numCols) :
    ∃ m', mntOk (MNT.catRows (m0 :: ms)) = some m' ∧ m'.WFRep ∧ m'.numCols = m0.numCols ∧
      m'.grid.rows = (m0 :: ms).flatMap fun m => m.grid.rows := by
  have hc := catRows_ofGrid m0.grid (ms.map MNT.grid) (by
    intro g hg
    rw [← List.map_cons, List.mem_map] at hg
    obtain ⟨m, hm, rfl⟩ := hg
    exact (h m hm).2)
  rw [← List.map_cons, mnt_canon_list _ fun m hm => (h m hm).1] at hc
  have hG : Grid.WF ({ numCols := m0.grid.numCols
                       rows := ((m0 :: ms).map MNT.grid).flatMap (·.rows) } : Grid α) := by
    intro row hrow
    simp only [List.mem_flatMap, List.mem_map] at hrow
    obtain ⟨g, ⟨m, hm, rfl⟩, hr⟩ := hrow
    rw [mnt_grid_row_length m row hr]
    exact (h m hm).2
  rw [List.map_cons] at hG
  refine ⟨_, by rw [hc]; exact mntOk_some (wfrep_ofGrid _ hG), wfrep_ofGrid _ hG, rfl, ?_⟩
  rw [grid_ofGrid _ hG, ← List.map_cons, List.flatMap_map]

/-- `cat(dim=1)` of well-formed nested tensors with equal row counts (C06). -/
theorem mnt_catCols_wf (m0 : MNT α) (ms : List (MNT α))
    (h : ∀ m ∈ m0 :: ms, m.WFRep ∧ m.numRows = m0.numRows) :
    ∃ m', mntOk (MNT.catCols (m0 :: ms)) = some m' ∧ m'.WFRep ∧ m'.numRows = m0.numRows ∧
      m'.numCols = ((m0 :: ms).map (·.numCols)).sum ∧
      m'.grid.rows = (List.range m0.numRows).map fun r => (m0 :: ms).flatMap fun m => m.grid.rows.getD r [] := by
  have hwf : ∀ g ∈ m0.grid :: ms.map MNT.grid, g.WF := by
    intro g hg
    rw [← List.map_cons, List.mem_map] at hg
    obtain ⟨m, hm, rfl⟩ := hg
    exact (wfrep_canonical m (h m hm).1).2
  have hR : ∀ g ∈ m0.grid :: ms.map MNT.grid, g.rows.length = m0.grid.rows.length := by
    intro g hg
    rw [← List.map_cons, List.mem_map] at hg
    obtain ⟨m, hm, rfl⟩ := hg
    rw [mnt_grid_rows_length, mnt_grid_rows_length]
    exact (h m hm).2
  have hc := catCols_ofGrid m0.grid (ms.map MNT.grid) hwf hR
  rw [← List.map_cons, mnt_canon_list _ fun m hm => (h m hm).1] at hc
  have hG : Grid.WF ({ numCols := (((m0 :: ms).map MNT.grid).map (·.numCols)).sum
                       rows := (List.range m0.grid.rows.length).map fun r =>
                         ((m0 :: ms).map MNT.grid).flatMap fun g => g.rows.getD r [] } : Grid α) := by
    intro row hrow
    simp only [List.mem_map, List.mem_range] at hrow
    obtain ⟨r, hr, rfl⟩ := hrow
    rw [List.length_flatMap]
    congr 1
    rw [List.map_map, List.map_map]
    apply List.map_congr_left
    intro m hm
    simp only [Function.comp_def]
    have hr' : r < m.grid.rows.length := by
      rw [mnt_grid_rows_length] at hr ⊢
      rw [(h m hm).2]; exact hr
    have : m.grid.rows.getD r [] ∈ m.grid.rows := getD_mem_or _ _ _ hr'
    exact mnt_grid_row_length m _ this
  rw [List.map_cons] at hG
  refine ⟨_, by rw [hc]; exact mntOk_some (wfrep_ofGrid _ hG), wfrep_ofGrid _ hG, ?_, ?_, ?_⟩
  · simp [MNT.ofGrid, mnt_grid_rows_length]
  · show ((m0.grid :: ms.map MNT.grid).map (·.numCols)).sum = _
    rw [← List.map_cons, List.map_map]
    rfl
  · rw [grid_ofGrid _ hG, mnt_grid_rows_length]
    apply List.map_congr_left
    intro r _
    rw [← List.map_cons, List.flatMap_map]

theorem mntClose_ofGrid (cl : α → α → Bool) (ga gb : Grid α) (ha : ga.WF) (hb : gb.WF) :
    mntClose cl (MNT.ofGrid ga) (MNT.ofGrid gb) = true ↔
      ga.numCols = gb.numCols ∧ All2 (All2 (All2 fun x y => cl x y = true)) ga.rows gb.rows := by
  simp only [mntClose, MNT.ofGrid, Bool.and_eq_true, beq_iff_eq, all2_iff]
  constructor
  · rintro ⟨⟨⟨hR, hC⟩, hA⟩, hO⟩
    refine ⟨hC, ?_⟩
    have hlens := cumsum_inj hO
    have hrows : ga.rows.map List.length = gb.rows.map List.length := by
      rw [map_length_of_uniform _ _ ha, map_length_of_uniform _ _ hb, hR, hC]
    rw [← All2_flatten _ _ hrows, ← All2_flatten _ _ hlens]
    exact hA
  · rintro ⟨hC, hB⟩
    have hrows := hB.map_length
    have hcells := (All2_flatten _ _ hrows).mpr hB
    have hlens := hcells.map_length
    exact ⟨⟨⟨hB.length_eq, hC⟩, (All2_flatten _ _ hlens).mpr hcells⟩, by rw [hlens]⟩

/-- `allclose` of two well-formed nested tensors decides: same shape and all cells close. -/
theorem mntClose_iff (cl : α → α → Bool) {a b : MNT α} (ha : a.WFRep) (hb : b.WFRep) :
    mntClose cl a b = true ↔
      a.numCols = b.numCols ∧ All2 (All2 (All2 fun x y => cl x y = true)) a.grid.rows b.grid.rows := by
  obtain ⟨hca, hwa⟩ := wfrep_canonical a ha
  obtain ⟨hcb, hwb⟩ := wfrep_canonical b hb
  have := mntClose_ofGrid cl a.grid b.grid hwa hwb
  rw [← hca, ← hcb] at this
  exact this

/-- the operations `TensorFrame` performs on a `MultiNestedTensor` feature (the `nested` branch
    of `featOps`). -/
def nestedOps (cl : α → α → Bool) : FeatOps (MNT α) where
  check := fun m nc nr => m.numCols == nc && m.numRows == nr
  len := fun m => m.numRows
  select := fun m ix => mntOk (m.select ix 0)
  col := fun m j => mntOk (m.select (.int j) 1)
  catRows := fun ms => match ms with
    | [m] => some m
    | _ => mntOk (MNT.catRows ms)
  catCols := fun ms => match ms with
    | [m] => some m
    | _ => mntOk (MNT.catCols ms)
  close := mntClose cl

/-- **`MultiNestedTensor` refines the nested-list specification.**  `wf` is the C05 representation
    invariant; a cell is the list of values of one (row, column) entry. -/
def nestedSpec (cl : α → α → Bool) : FeatSpec (nestedOps cl) (List α) Unit Unit where
  wf := fun m => m.WFRep
  tag := fun _ => ()
  colMeta := fun m => List.replicate m.numCols ()
  grid := fun m => m.grid.rows
  cellClose := fun c1 c2 => All2 (fun a b => cl a b = true) c1 c2
  grid_len := fun m _ => mnt_grid_rows_length m
  grid_row := fun m _ r hr => by simpa using mnt_grid_row_length m r hr
  check_iff := fun m nc nr _ => by simp [nestedOps]
  select_none := fun m ix h => (mnt_select_rows h ix).1
  select_some := fun m ix m' h hs => by
    obtain ⟨hw, hc, ps, hps, hg⟩ := (mnt_select_rows h ix).2 m' hs
    exact ⟨hw, rfl, by show List.replicate _ () = _; rw [hc], ps, hps, hg⟩
  col_spec := fun m j h hj => by
    have hj' : j < m.numCols := by simpa using hj
    obtain ⟨m', h1, h2, h3, _, h5⟩ := mnt_select_col h hj'
    refine ⟨m', h1, h2, rfl, ?_, h5⟩
    show List.replicate m'.numCols () = _
    rw [h3, pick_replicate_unit hj']
  catRows_spec := fun m0 ms h => by
    cases ms with
    | nil => exact ⟨m0, rfl, (h m0 (List.mem_cons_self ..)).1, rfl, rfl, by simp⟩
    | cons m1 ms =>
      obtain ⟨m', h1, h2, h3, h4⟩ := mnt_catRows_wf m0 (m1 :: ms) fun m hm =>
        ⟨(h m hm).1, by simpa using congrArg List.length (h m hm).2.2⟩
      exact ⟨m', h1, h2, rfl, by show List.replicate _ () = _; rw [h3], h4⟩
  catCols_spec := fun m0 ms h => by
    cases ms with
    | nil =>
      refine ⟨m0, rfl, (h m0 (List.mem_cons_self ..)).1, rfl, rfl, by simp, ?_⟩
      show m0.grid.rows = _
      simp only [List.flatMap_cons, List.flatMap_nil, List.append_nil]
      exact (range_map_getD m0.grid.rows _ (mnt_grid_rows_length m0)).symm
    | cons m1 ms =>
      obtain ⟨m', h1, h2, h3, h4, h5⟩ := mnt_catCols_wf m0 (m1 :: ms) fun m hm =>
        ⟨(h m hm).1, (h m hm).2.2⟩
      refine ⟨m', h1, h2, rfl, h3, ?_, h5⟩
      show List.replicate m'.numCols () = _
      rw [h4]
      exact (replicate_unit_flatMap (m0 :: m1 :: ms) (·.numCols)).symm
  close_iff := fun a b ha hb => by
    show mntClose cl a b = true ↔ _
    rw [mntClose_iff cl ha hb]
    constructor
    · rintro ⟨h1, h2⟩
      exact ⟨rfl, by show List.replicate _ () = List.replicate _ (); rw [h1], h2⟩
    · rintro ⟨_, h2, h3⟩
      exact ⟨by simpa using congrArg List.length h2, h3⟩

/-! ### MultiEmbeddingTensor -/

/-- the C05 well-formedness of a `MultiEmbeddingTensor`: representation invariant and monotone
    column offsets. -/
def EmbWF (m : MET α) : Prop := m.WFRep ∧ m.offset.Pairwise (· ≤ ·)

/-- the specification of an embedding tensor: its cells and its column widths. -/
def metW (m : MET α) : WGrid α := { grid := m.grid, widths := m.colWidths }

theorem metOk_some {m : MET α} (h : m.WFRep) : metOk (some m) = some m := by
  simp [metOk, metValid, h.1, h.2.1]

theorem met_grid_rows_length (m : MET α) : m.grid.rows.length = m.numRows := by simp [MET.grid]

theorem met_grid_row_length (m : MET α) : ∀ r ∈ m.grid.rows, r.length = m.numCols := by
  intro r hr
  simp only [MET.grid, List.mem_map] at hr
  obtain ⟨_, _, rfl⟩ := hr
  simp

theorem met_colWidths_length {m : MET α} (h : m.WFRep) : m.colWidths.length = m.numCols := by
  have := h.1
  simp only [MET.colWidths, List.length_zipWith, List.length_tail, List.length_dropLast]
  omega

theorem met_colWidths_ofW (w : WGrid α) : (MET.ofW w).colWidths = w.widths := by
  simp [MET.colWidths, MET.ofW, MET.ofGrid, psums_eq, counts_ps]

theorem embWF_ofW (w : WGrid α) (hw : w.WF) : EmbWF (MET.ofW w) := ⟨met_wfrep_ofW w hw, met_ofW_mono w⟩

theorem met_canon {m : MET α} (h : EmbWF m) : m = MET.ofW (metW m) ∧ (metW m).WF :=
  met_wfrep_canonical m h.1 h.2

theorem met_canon_list (ms : List (MET α)) (h : ∀ m ∈ ms, EmbWF m) : (ms.map metW).map MET.ofW = ms := by
  rw [List.map_map]
  conv => rhs; rw [← List.map_id ms]
  apply List.map_congr_left
  intro m hm
  exact ((met_canon (h m hm)).1).symm

/-- row selection of a well-formed embedding tensor, as `TensorFrame` performs it (C05). -/
theorem met_select_rows {m : MET α} (hm : EmbWF m) (ix : Index) :
    (metOk (m.select ix 0) = none ↔ ix.positions m.numRows = none) ∧
    ∀ m', metOk (m.select ix 0) = some m' → EmbWF m' ∧ m'.colWidths = m.colWidths ∧
      ∃ ps, ix.positions m.numRows = some ps ∧ m'.grid.rows = Grid.pick m.grid.rows ps := by
  obtain ⟨hcan, hwf⟩ := met_canon hm
  have href := met_select_ofW (metW m) hwf ix 0 (Or.inl rfl)
  rw [← hcan, WGrid.select_eq] at href
  have hsz : (metW m).grid.size 0 = m.numRows := by simp [Grid.size, metW, met_grid_rows_length]
  rw [hsz] at href
  cases hps : ix.positions m.numRows with
  | none =>
    rw [hps] at href
    simp only [Option.map_none] at href
    rw [href]
    exact ⟨⟨fun _ => rfl, fun _ => rfl⟩, fun m' hm' => by simp [metOk] at hm'⟩
  | some ps =>
    rw [hps] at href
    simp only [Option.map_some] at href
    have hin : ∀ p ∈ ps, p < (metW m).grid.size 0 := by rw [hsz]; exact positions_lt _ _ _ hps
    have hw' := pickW_WF (metW m) hwf ps 0 (Or.inl rfl) hin
    rw [href, metOk_some (met_wfrep_ofW _ hw')]
    refine ⟨⟨nofun, nofun⟩, ?_⟩
    intro m' hm'
    cases hm'
    refine ⟨embWF_ofW _ hw', ?_, ps, rfl, ?_⟩
    · rw [met_colWidths_ofW]; simp [WGrid.pickW, metW]
    · rw [met_grid_ofW _ hw']; simp [WGrid.pickW, Grid.pickDim, metW]

/-- column `j` of a well-formed embedding tensor (`feat[:, j]`, C05). -/
theorem met_select_col {m : MET α} (hm : EmbWF m) {j : Nat} (hj : j < m.numCols) :
    ∃ m', metOk (m.select (.int j) 1) = some m' ∧ EmbWF m' ∧ m'.colWidths = Grid.pick m.colWidths [j] ∧
      m'.grid.rows = m.grid.rows.map fun r => Grid.pick r [j] := by
  obtain ⟨hcan, hwf⟩ := met_canon hm
  have href := met_select_ofW (metW m) hwf (.int j) 1 (Or.inr rfl)
  rw [← hcan, WGrid.select_eq] at href
  have hsz : (metW m).grid.size 1 = m.numCols := by simp [Grid.size, metW, MET.grid]
  rw [hsz, positions_int_ofNat hj] at href
  simp only [Option.map_some] at href
  have hin : ∀ p ∈ [j], p < (metW m).grid.size 1 := by
    intro p hp; rw [hsz]; simp at hp; subst hp; exact hj
  have hw' := pickW_WF (metW m) hwf [j] 1 (Or.inr rfl) hin
  refine ⟨_, by rw [href]; exact metOk_some (met_wfrep_ofW _ hw'), embWF_ofW _ hw', ?_, ?_⟩
  · rw [met_colWidths_ofW]; simp [WGrid.pickW, metW]
  · rw [met_grid_ofW _ hw']; simp [WGrid.pickW, Grid.pickDim, metW]

/-- `cat(dim=0)` of two or more well-formed embedding tensors with equal column widths (C06). -/
theorem met_catRows_wf (m0 : MET α) (ms : List (MET α))
    (h : ∀ m ∈ m0 :: ms, EmbWF m ∧ m.colWidths = m0.colWidths) :
    ∃ m', metOk (MET.catRows (m0 :: ms)) = some m' ∧ EmbWF m' ∧ m'.colWidths = m0.colWidths ∧
      m'.grid.rows = (m0 :: ms).flatMap fun m => m.grid.rows := by
  have hnc : ∀ m ∈ m0 :: ms, m.numCols = m0.numCols := by
    intro m hm
    rw [← met_colWidths_length (h m hm).1.1, (h m hm).2, met_colWidths_length (h m0 (List.mem_cons_self ..)).1.1]
  have hc := met_catRows_ofW (metW m0) (ms.map metW) (by
    intro w hw
    rw [← List.map_cons, List.mem_map] at hw
    obtain ⟨m, hm, rfl⟩ := hw
    exact ⟨(h m hm).2, hnc m hm⟩)
  rw [← List.map_cons, met_canon_list _ fun m hm => (h m hm).1] at hc
  have hW : WGrid.WF ({ grid := { numCols := (metW m0).grid.numCols
                                  rows := ((m0 :: ms).map metW).flatMap (·.grid.rows) }
                        widths := (metW m0).widths } : WGrid α) := by
    refine ⟨(met_canon (h m0 (List.mem_cons_self ..)).1).2.1, ?_⟩
    intro row hrow
    simp only [List.mem_flatMap, List.mem_map] at hrow
    obtain ⟨w, ⟨m, hm, rfl⟩, hr⟩ := hrow
    rw [(met_canon (h m hm).1).2.2 row hr]
    exact (h m hm).2
  rw [List.map_cons] at hW
  refine ⟨_, by rw [hc]; exact metOk_some (met_wfrep_ofW _ hW), embWF_ofW _ hW, ?_, ?_⟩
  · rw [met_colWidths_ofW]; rfl
  · rw [met_grid_ofW _ hW]
    show ((metW m0 :: ms.map metW).flatMap fun w => w.grid.rows) = _
    rw [← List.map_cons, List.flatMap_map]
    rfl

/-- `cat(dim=1)` of two or more well-formed embedding tensors with equal row counts (C06). -/
theorem met_catCols_wf (m0 m1 : MET α) (ms : List (MET α))
    (h : ∀ m ∈ m0 :: m1 :: ms, EmbWF m ∧ m.numRows = m0.numRows) :
    ∃ m', metOk (MET.catCols (m0 :: m1 :: ms)) = some m' ∧ EmbWF m' ∧ m'.numRows = m0.numRows ∧
      m'.colWidths = (m0 :: m1 :: ms).flatMap (·.colWidths) ∧
      m'.grid.rows = (List.range m0.numRows).map fun r =>
        (m0 :: m1 :: ms).flatMap fun m => m.grid.rows.getD r [] := by
  have hR : ∀ w ∈ metW m0 :: metW m1 :: ms.map metW, w.grid.rows.length = (metW m0).grid.rows.length := by
    intro w hw
    rw [← List.map_cons, ← List.map_cons, List.mem_map] at hw
    obtain ⟨m, hm, rfl⟩ := hw
    simp only [metW, met_grid_rows_length]
    exact (h m hm).2
  have hc := met_catCols_ofW (metW m0) (metW m1) (ms.map metW) hR
  rw [← List.map_cons, ← List.map_cons, met_canon_list _ fun m hm => (h m hm).1] at hc
  have hW : WGrid.WF ({ grid := { numCols := (((m0 :: m1 :: ms).map metW).map (·.grid.numCols)).sum
                                  rows := (List.range (metW m0).grid.rows.length).map fun r =>
                                    ((m0 :: m1 :: ms).map metW).flatMap fun w => w.grid.rows.getD r [] }
                        widths := ((m0 :: m1 :: ms).map metW).flatMap (·.widths) } : WGrid α) := by
    constructor
    · show (((m0 :: m1 :: ms).map metW).map (·.grid.numCols)).sum = _
      rw [List.length_flatMap]
      congr 1
      rw [List.map_map, List.map_map]
      apply List.map_congr_left
      intro m hm
      exact (met_canon (h m hm).1).2.1
    · intro row hrow
      simp only [List.mem_map, List.mem_range] at hrow
      obtain ⟨r, hr, rfl⟩ := hrow
      show (((m0 :: m1 :: ms).map metW).flatMap fun w => w.grid.rows.getD r []).map List.length = _
      rw [List.map_flatMap, List.flatMap_map, List.flatMap_map]
      apply flatMap_congr'
      intro m hm
      have hr' : r < (metW m).grid.rows.length := by
        simp only [metW, met_grid_rows_length] at hr ⊢
        rw [(h m hm).2]; exact hr
      exact (met_canon (h m hm).1).2.2 _ (getD_mem_or _ _ _ hr')
  simp only [List.map_cons] at hW hc
  refine ⟨_, by rw [hc]; exact metOk_some (met_wfrep_ofW _ hW), embWF_ofW _ hW, ?_, ?_, ?_⟩
  · simp [MET.ofW, MET.ofGrid, metW, met_grid_rows_length]
  · rw [met_colWidths_ofW]
    show ((metW m0 :: metW m1 :: ms.map metW).flatMap fun w => w.widths) = _
    rw [← List.map_cons, ← List.map_cons, List.flatMap_map]
    rfl
  · rw [met_grid_ofW _ hW]
    show ((List.range (metW m0).grid.rows.length).map fun r =>
      (metW m0 :: metW m1 :: ms.map metW).flatMap fun w => w.grid.rows.getD r []) = _
    have e : (metW m0).grid.rows.length = m0.numRows := met_grid_rows_length m0
    rw [e]
    apply List.map_congr_left
    intro r _
    rw [← List.map_cons, ← List.map_cons, List.flatMap_map]
    rfl

theorem metClose_ofW (cl : α → α → Bool) (wa wb : WGrid α) (ha : wa.WF) (hb : wb.WF) :
    metClose cl (MET.ofW wa) (MET.ofW wb) = true ↔
      wa.widths = wb.widths ∧ All2 (All2 (All2 fun x y => cl x y = true)) wa.grid.rows wb.grid.rows := by
  simp only [metClose, MET.ofW, MET.ofGrid, Bool.and_eq_true, beq_iff_eq, List.length_map]
  rw [all2_iff_of (fun r1 r2 => all2_iff cl r1 r2), All2_map]
  have key : wa.widths = wb.widths →
      (All2 (fun x y : List (List α) => All2 (fun a b => cl a b = true) x.flatten y.flatten)
          wa.grid.rows wb.grid.rows ↔
        All2 (All2 (All2 fun x y => cl x y = true)) wa.grid.rows wb.grid.rows) := by
    intro hW
    apply All2_iff_of_mem
    intro x hx y hy
    exact All2_flatten x y (by rw [ha.2 x hx, hb.2 y hy, hW])
  constructor
  · rintro ⟨⟨⟨⟨⟨_, _⟩, _⟩, _⟩, hA⟩, hO⟩
    have hW := cumsum_inj hO
    exact ⟨hW, (key hW).mp hA⟩
  · rintro ⟨hW, hB⟩
    refine ⟨⟨⟨⟨⟨hB.length_eq, ?_⟩, hB.length_eq⟩, by rw [hW]⟩, (key hW).mpr hB⟩, by rw [hW]⟩
    rw [ha.1, hb.1, hW]

/-- `allclose` of two well-formed embedding tensors decides: same column widths, all cells close. -/
theorem metClose_iff (cl : α → α → Bool) {a b : MET α} (ha : EmbWF a) (hb : EmbWF b) :
    metClose cl a b = true ↔
      a.colWidths = b.colWidths ∧ All2 (All2 (All2 fun x y => cl x y = true)) a.grid.rows b.grid.rows := by
  obtain ⟨hca, hwa⟩ := met_canon ha
  obtain ⟨hcb, hwb⟩ := met_canon hb
  have := metClose_ofW cl (metW a) (metW b) hwa hwb
  rw [← hca, ← hcb] at this
  exact this

/-- the operations `TensorFrame` performs on a `MultiEmbeddingTensor` feature (the `emb` branch
    of `featOps`). -/
def embOps (cl : α → α → Bool) : FeatOps (MET α) where
  check := fun m nc nr => m.numCols == nc && m.numRows == nr
  len := fun m => m.numRows
  select := fun m ix => metOk (m.select ix 0)
  col := fun m j => metOk (m.select (.int j) 1)
  catRows := fun ms => match ms with
    | [m] => some m
    | _ => metOk (MET.catRows ms)
  catCols := fun ms => match ms with
    | [m] => some m
    | _ => metOk (MET.catCols ms)
  close := metClose cl

/-- **`MultiEmbeddingTensor` refines the nested-list specification.**  The per-column metadata is
    the embedding width of the column (what `==` and `cat` compare besides the cells, and what
    survives in a zero-row tensor). -/
def embSpec (cl : α → α → Bool) : FeatSpec (embOps cl) (List α) Unit Nat where
  wf := EmbWF
  tag := fun _ => ()
  colMeta := fun m => m.colWidths
  grid := fun m => m.grid.rows
  cellClose := fun c1 c2 => All2 (fun a b => cl a b = true) c1 c2
  grid_len := fun m _ => met_grid_rows_length m
  grid_row := fun m h r hr => by rw [met_colWidths_length h.1]; exact met_grid_row_length m r hr
  check_iff := fun m nc nr h => by simp [embOps, met_colWidths_length h.1]
  select_none := fun m ix h => (met_select_rows h ix).1
  select_some := fun m ix m' h hs => by
    obtain ⟨hw, hc, ps, hps, hg⟩ := (met_select_rows h ix).2 m' hs
    exact ⟨hw, rfl, hc, ps, hps, hg⟩
  col_spec := fun m j h hj => by
    have hj' : j < m.numCols := by rw [← met_colWidths_length h.1]; exact hj
    obtain ⟨m', h1, h2, h3, h4⟩ := met_select_col h hj'
    exact ⟨m', h1, h2, rfl, h3, h4⟩
  catRows_spec := fun m0 ms h => by
    cases ms with
    | nil => exact ⟨m0, rfl, (h m0 (List.mem_cons_self ..)).1, rfl, rfl, by simp⟩
    | cons m1 ms =>
      obtain ⟨m', h1, h2, h3, h4⟩ := met_catRows_wf m0 (m1 :: ms) fun m hm => ⟨(h m hm).1, (h m hm).2.2⟩
      exact ⟨m', h1, h2, rfl, h3, h4⟩
  catCols_spec := fun m0 ms h => by
    cases ms with
    | nil =>
      refine ⟨m0, rfl, (h m0 (List.mem_cons_self ..)).1, rfl, rfl, by simp, ?_⟩
      show m0.grid.rows = _
      simp only [List.flatMap_cons, List.flatMap_nil, List.append_nil]
      exact (range_map_getD m0.grid.rows _ (met_grid_rows_length m0)).symm
    | cons m1 ms =>
      obtain ⟨m', h1, h2, h3, h4, h5⟩ := met_catCols_wf m0 m1 ms fun m hm => ⟨(h m hm).1, (h m hm).2.2⟩
      exact ⟨m', h1, h2, rfl, h3, h4, h5⟩
  close_iff := fun a b ha hb => by
    show metClose cl a b = true ↔ _
    rw [metClose_iff cl ha hb]
    exact ⟨fun ⟨h1, h2⟩ => ⟨rfl, h1, h2⟩, fun ⟨_, h2, h3⟩ => ⟨h2, h3⟩⟩

/-! ### dict of `MultiNestedTensor`s: generic helpers -/

/-- `{k: g(k, v) for k, v in d.items()}` where `g` may raise. -/
def mapKV (g : String → Φ → Option Ψ) (kvs : List (String × Φ)) : Option (List (String × Ψ)) :=
  mapOpt (fun kv => (g kv.1 kv.2).map fun m => (kv.1, m)) kvs

theorem mapKV_some {g : String → Φ → Option Ψ} {kvs : List (String × Φ)} {kvs' : List (String × Ψ)}
    (h : mapKV g kvs = some kvs') :
    keys kvs' = keys kvs ∧ ∀ k, assoc k kvs' = (assoc k kvs).bind (g k) := by
  induction kvs generalizing kvs' with
  | nil =>
    simp only [mapKV, mapOpt, Option.some.injEq] at h
    subst h
    exact ⟨rfl, fun k => rfl⟩
  | cons kv kvs ih =>
    obtain ⟨k1, v1⟩ := kv
    simp only [mapKV, mapOpt] at h
    cases hg : g k1 v1 with
    | none => simp [hg] at h
    | some m1 =>
      simp only [hg, Option.map_some] at h
      cases hrest : mapOpt (fun kv : String × Φ => (g kv.1 kv.2).map fun m => (kv.1, m)) kvs with
      | none => simp [hrest] at h
      | some rest' =>
        simp only [hrest, Option.some.injEq] at h
        subst h
        obtain ⟨ih1, ih2⟩ := ih hrest
        refine ⟨by simp only [keys, List.map_cons] at ih1 ⊢; rw [ih1], ?_⟩
        intro k
        simp only [assoc]
        by_cases hk : k1 = k
        · subst hk; simp [hg]
        · simp [hk, ih2 k]

theorem mapKV_isSome {g : String → Φ → Option Ψ} {kvs : List (String × Φ)}
    (h : ∀ kv ∈ kvs, ∃ m, g kv.1 kv.2 = some m) : ∃ kvs', mapKV g kvs = some kvs' := by
  apply mapOpt_some_of_forall
  intro kv hkv
  obtain ⟨m, hm⟩ := h kv hkv
  exact ⟨(kv.1, m), by simp [hm]⟩

theorem mapKV_none_of_mem {g : String → Φ → Option Ψ} {kvs : List (String × Φ)} {kv : String × Φ}
    (hkv : kv ∈ kvs) (h : g kv.1 kv.2 = none) : mapKV g kvs = none := by
  induction kvs with
  | nil => simp at hkv
  | cons kv0 kvs ih =>
    simp only [mapKV, mapOpt]
    rcases List.mem_cons.mp hkv with rfl | hmem
    · simp [h]
    · have := ih hmem
      simp only [mapKV] at this
      rw [this]
      cases (g kv0.1 kv0.2) <;> rfl

theorem All2.map_eq {R : α → β → Prop} {f : α → γ} {g : β → γ} {xs : List α} {ys : List β}
    (h : All2 R xs ys) (hfg : ∀ x ∈ xs, ∀ y ∈ ys, R x y → f x = g y) : xs.map f = ys.map g := by
  induction xs generalizing ys with
  | nil => cases ys <;> simp_all [All2]
  | cons x xs ih =>
    cases ys with
    | nil => simp [All2] at h
    | cons y ys =>
      simp only [All2] at h
      simp only [List.map_cons, List.cons.injEq]
      exact ⟨hfg x (List.mem_cons_self ..) y (List.mem_cons_self ..) h.1,
        ih h.2 fun a ha b hb => hfg a (List.mem_cons_of_mem _ ha) b (List.mem_cons_of_mem _ hb)⟩

theorem All2.flatMap_eq {R : α → β → Prop} {f : α → List γ} {g : β → List γ} {xs : List α} {ys : List β}
    (h : All2 R xs ys) (hfg : ∀ x ∈ xs, ∀ y ∈ ys, R x y → f x = g y) : xs.flatMap f = ys.flatMap g := by
  rw [List.flatMap_def, List.flatMap_def, h.map_eq hfg]

theorem All2_eq {xs ys : List α} : All2 Eq xs ys ↔ xs = ys := by
  induction xs generalizing ys with
  | nil => cases ys <;> simp [All2]
  | cons x xs ih => cases ys <;> simp [All2, ih]

/-- the table of the `k`-components of a table of key-indexed cells. -/
def proj (k : String) (G : List (List (String → β))) : List (List β) := G.map (List.map (· k))

theorem All2_proj_row {S : β → γ → Prop} (r : List (String → β)) (r' : List (String → γ)) :
    All2 (fun f g => ∀ k, S (f k) (g k)) r r' ↔ ∀ k : String, All2 S (r.map (· k)) (r'.map (· k)) := by
  induction r generalizing r' with
  | nil =>
    cases r' with
    | nil => simp [All2]
    | cons y ys => simp only [All2, List.map_nil, List.map_cons, false_iff]; exact fun h => h ""
  | cons x xs ih =>
    cases r' with
    | nil => simp only [All2, List.map_nil, List.map_cons, false_iff]; exact fun h => h ""
    | cons y ys => simp only [All2, List.map_cons, ih ys, forall_and]

/-- a relation between key-indexed cells holds throughout two tables iff it holds throughout the
    `k`-components for every key. -/
theorem All2_proj {S : β → γ → Prop} (G : List (List (String → β))) (G' : List (List (String → γ))) :
    All2 (All2 fun f g => ∀ k, S (f k) (g k)) G G' ↔ ∀ k : String, All2 (All2 S) (proj k G) (proj k G') := by
  induction G generalizing G' with
  | nil =>
    cases G' with
    | nil => simp [All2, proj]
    | cons y ys => simp only [All2, proj, List.map_nil, List.map_cons, false_iff]; exact fun h => h ""
  | cons x xs ih =>
    cases G' with
    | nil => simp only [All2, proj, List.map_nil, List.map_cons, false_iff]; exact fun h => h ""
    | cons y ys =>
      have := ih ys
      simp only [proj] at this ⊢
      simp only [All2, List.map_cons, this, All2_proj_row, forall_and]

/-- tables of key-indexed cells are equal iff all their `k`-components are. -/
theorem proj_ext {G G' : List (List (String → β))} (h : ∀ k, proj k G = proj k G') : G = G' := by
  have h1 : All2 (All2 fun f g : String → β => ∀ k, f k = g k) G G' := by
    rw [All2_proj]
    intro k
    rw [h k]
    exact All2.refl (fun r => All2.refl (fun _ => rfl) r) _
  have h2 : All2 (All2 (@Eq (String → β))) G G' :=
    h1.mono fun r r' hr => hr.mono fun f g hfg => funext hfg
  exact All2_eq.mp (h2.mono fun r r' hr => All2_eq.mp hr)

theorem proj_pick (k : String) (G : List (List (String → β))) (ps : List Nat) :
    proj k (Grid.pick G ps) = Grid.pick (proj k G) ps := by
  simp only [proj, pick_map]

theorem pick_replicate {R : Nat} (x : β) {ps : List Nat} (h : InRange R ps) :
    Grid.pick (List.replicate R x) ps = List.replicate ps.length x := by
  induction ps with
  | nil => rfl
  | cons p ps ih =>
    have hp : p < R := h p (List.mem_cons_self ..)
    rw [pick_cons, ih h.tail]
    simp [hp, Option.toList, List.replicate_succ]

theorem replicate_flatMap (ds : List ι) (f : ι → Nat) (x : β) :
    ds.flatMap (fun d => List.replicate (f d) x) = List.replicate (ds.map f).sum x := by
  induction ds with
  | nil => rfl
  | cons d ds ih => simp [ih, List.replicate_append_replicate]

/-! ### dict of `MultiNestedTensor`s -/

/-- a dict feature (`stype.text_tokenized`: one `MultiNestedTensor` per tokenizer output key). -/
abbrev Dict (α : Type) := List (String × MNT α)

def dictRows (kvs : Dict α) : Nat := match kvs with
  | [] => 0
  | kv :: _ => kv.2.numRows

def dictCols (kvs : Dict α) : Nat := match kvs with
  | [] => 0
  | kv :: _ => kv.2.numCols

/-- well-formed dict feature: at least one key, distinct keys, every value a well-formed nested
    tensor, all of one shape. -/
structure DictWF (kvs : Dict α) : Prop where
  ne : kvs ≠ []
  nodup : (keys kvs).Nodup
  vals : ∀ kv ∈ kvs, kv.2.WFRep ∧ kv.2.numRows = dictRows kvs ∧ kv.2.numCols = dictCols kvs

theorem dictWF_of {kvs : Dict α} {R C : Nat} (hne : kvs ≠ []) (hnd : (keys kvs).Nodup)
    (h : ∀ kv ∈ kvs, kv.2.WFRep ∧ kv.2.numRows = R ∧ kv.2.numCols = C) :
    DictWF kvs ∧ dictRows kvs = R ∧ dictCols kvs = C := by
  cases kvs with
  | nil => exact absurd rfl hne
  | cons kv kvs =>
    have h0 := h kv (List.mem_cons_self ..)
    have hR : dictRows (kv :: kvs) = R := h0.2.1
    have hC : dictCols (kv :: kvs) = C := h0.2.2
    exact ⟨⟨hne, hnd, fun kv' hkv' => by rw [hR, hC]; exact h kv' hkv'⟩, hR, hC⟩

theorem DictWF.of_assoc {kvs : Dict α} (h : DictWF kvs) {k : String} {m : MNT α} (hm : assoc k kvs = some m) :
    m.WFRep ∧ m.numRows = dictRows kvs ∧ m.numCols = dictCols kvs := h.vals (k, m) (assoc_mem hm)

theorem keys_ne_nil {kvs : List (String × β)} : keys kvs ≠ [] ↔ kvs ≠ [] := by
  cases kvs <;> simp [keys]

theorem map_const_replicate (l : List ι) (x : β) : l.map (fun _ => x) = List.replicate l.length x := by
  induction l with
  | nil => rfl
  | cons a l ih => simp [ih, List.replicate_succ]

/-- one key's table of cells, or an all-`none` table of the dict's shape when the key is absent. -/
def ogrid (o : Option (MNT α)) (R C : Nat) : List (List (Option (List α))) :=
  (List.range R).map fun r => (List.range C).map fun c => o.map (·.cellAt (r * C + c))

/-- the table of cells of a dict feature: the cell at (row, column) maps every key of the dict to
    that key's cell (and every other string to `none`) — a Python dict `{key: cell}` up to the
    order of its items, which `==` ignores. -/
def dictGrid (kvs : Dict α) : List (List (String → Option (List α))) :=
  (List.range (dictRows kvs)).map fun r => (List.range (dictCols kvs)).map fun c =>
    fun k => (assoc k kvs).map (·.cellAt (r * dictCols kvs + c))

theorem proj_dictGrid (k : String) (kvs : Dict α) :
    proj k (dictGrid kvs) = ogrid (assoc k kvs) (dictRows kvs) (dictCols kvs) := by
  simp [proj, dictGrid, ogrid, List.map_map, Function.comp_def]

theorem ogrid_some (m : MNT α) : ogrid (some m) m.numRows m.numCols = m.grid.rows.map (List.map some) := by
  simp [ogrid, MNT.grid, List.map_map, Function.comp_def]

theorem ogrid_none (R C : Nat) :
    ogrid (none : Option (MNT α)) R C = List.replicate R (List.replicate C none) := by
  simp only [ogrid, Option.map_none]
  rw [map_const_replicate, map_const_replicate, List.length_range, List.length_range]

theorem proj_dictGrid_some {kvs : Dict α} (h : DictWF kvs) {k : String} {m : MNT α} (hm : assoc k kvs = some m) :
    proj k (dictGrid kvs) = m.grid.rows.map (List.map some) := by
  obtain ⟨_, h2, h3⟩ := h.of_assoc hm
  rw [proj_dictGrid, hm, ← h2, ← h3, ogrid_some]

theorem proj_dictGrid_none {kvs : Dict α} {k : String} (hm : assoc k kvs = none) :
    proj k (dictGrid kvs) = List.replicate (dictRows kvs) (List.replicate (dictCols kvs) none) := by
  rw [proj_dictGrid, hm, ogrid_none]

theorem dictGrid_length (kvs : Dict α) : (dictGrid kvs).length = dictRows kvs := by simp [dictGrid]

/-- the operations `TensorFrame` performs on a dict feature (the `dict` branch of `featOps`). -/
def dictOps (cl : α → α → Bool) : FeatOps (Dict α) where
  check := fun kvs nc nr => kvs.all fun kv => kv.2.numCols == nc && kv.2.numRows == nr
  len := dictRows
  select := fun kvs ix => mapKV (fun _ m => mntOk (m.select ix 0)) kvs
  col := fun kvs j => mapKV (fun _ m => mntOk (m.select (.int j) 1)) kvs
  catRows := fun ds => match ds with
    | [] => none
    | [d] => some d
    | d0 :: _ => mapKV (fun k _ => (mapOpt (fun d => assoc k d) ds).bind fun ms => mntOk (MNT.catRows ms)) d0
  catCols := fun ds => match ds with
    | [] => none
    | [d] => some d
    | d0 :: _ => mapKV (fun k _ => (mapOpt (fun d => assoc k d) ds).bind fun ms => mntOk (MNT.catCols ms)) d0
  close := fun a b => keysSame (keys a) (keys b) &&
    a.all fun kv => match assoc kv.1 b with
      | none => false
      | some m => mntClose cl kv.2 m

/-- closeness of two optional cells: both absent, or both present and close. -/
def OptRel (R : β → β → Prop) : Option β → Option β → Prop
  | some a, some b => R a b
  | none, none => True
  | _, _ => False

/-- the key set of a dict as a predicate (what `a.keys() == b.keys()` compares). -/
def keySet (kvs : List (String × β)) : String → Bool := fun k => (keys kvs).contains k

theorem keySet_eq_iff {a : List (String × β)} {b : List (String × γ)} :
    keySet a = keySet b ↔ ∀ s, s ∈ keys a ↔ s ∈ keys b := by
  constructor
  · intro h s
    have := congrFun h s
    simp only [keySet] at this
    rw [← List.contains_iff_mem, ← List.contains_iff_mem, this]
  · intro h
    funext s
    simp only [keySet]
    rw [Bool.eq_iff_iff, List.contains_iff_mem, List.contains_iff_mem]
    exact h s

/-- a per-value operation that keeps every value well formed with a common new shape maps a
    well-formed dict to a well-formed dict. -/
theorem dictWF_mapKV {g : String → MNT α → Option (MNT α)} {kvs kvs' : Dict α} {R' C' : Nat}
    (h : DictWF kvs) (hm : mapKV g kvs = some kvs')
    (hg : ∀ k m m', assoc k kvs = some m → g k m = some m' → m'.WFRep ∧ m'.numRows = R' ∧ m'.numCols = C') :
    DictWF kvs' ∧ dictRows kvs' = R' ∧ dictCols kvs' = C' ∧ keySet kvs' = keySet kvs := by
  obtain ⟨hk, ha⟩ := mapKV_some hm
  have hne : kvs' ≠ [] := by rw [← keys_ne_nil, hk, keys_ne_nil]; exact h.ne
  have hnd : (keys kvs').Nodup := by rw [hk]; exact h.nodup
  obtain ⟨h1, h2, h3⟩ := dictWF_of (R := R') (C := C') hne hnd (by
    intro kv' hkv'
    have h' := assoc_of_mem hnd (show (kv'.1, kv'.2) ∈ kvs' from hkv')
    rw [ha] at h'
    cases hv : assoc kv'.1 kvs with
    | none => simp [hv] at h'
    | some m =>
      rw [hv] at h'
      exact hg kv'.1 m kv'.2 hv h')
  exact ⟨h1, h2, h3, keySet_eq_iff.mpr fun s => by rw [hk]⟩

theorem mnt_numRows_of_rows {m' : MNT α} {ms : List (MNT α)}
    (h : m'.grid.rows = ms.flatMap fun m => m.grid.rows) : m'.numRows = (ms.map (·.numRows)).sum := by
  rw [← mnt_grid_rows_length, h, List.length_flatMap]
  congr 1
  apply List.map_congr_left
  intro m _
  exact mnt_grid_rows_length m

theorem dict_check_iff {kvs : Dict α} (h : DictWF kvs) (nc nr : Nat) :
    (kvs.all fun kv => kv.2.numCols == nc && kv.2.numRows == nr) = true ↔
      dictCols kvs = nc ∧ dictRows kvs = nr := by
  rw [List.all_eq_true]
  constructor
  · intro hall
    cases kvs with
    | nil => exact absurd rfl h.ne
    | cons kv rest =>
      have := hall kv (List.mem_cons_self ..)
      simp only [Bool.and_eq_true, beq_iff_eq] at this
      exact ⟨this.1, this.2⟩
  · rintro ⟨h1, h2⟩ kv hkv
    obtain ⟨_, a, b⟩ := h.vals kv hkv
    simp [a, b, h1, h2]

/-- **lifting a per-value operation to a dict.**  If the operation maps every value to a well-formed
    tensor of one new shape whose cells are the `k`-component of a target table `T`, the dict
    operation succeeds, yields a well-formed dict with the same keys, and its table of cells has
    the components `T`. -/
theorem dict_lift {g : String → MNT α → Option (MNT α)} {kvs : Dict α} {R' C' : Nat}
    {T : String → List (List (Option (List α)))} (h : DictWF kvs)
    (key : ∀ k m, assoc k kvs = some m → ∃ m', g k m = some m' ∧ m'.WFRep ∧ m'.numRows = R' ∧
      m'.numCols = C' ∧ m'.grid.rows.map (List.map some) = T k)
    (hnone : ∀ k, assoc k kvs = none → List.replicate R' (List.replicate C' none) = T k) :
    ∃ kvs', mapKV g kvs = some kvs' ∧ DictWF kvs' ∧ dictRows kvs' = R' ∧ dictCols kvs' = C' ∧
      keySet kvs' = keySet kvs ∧ ∀ k, proj k (dictGrid kvs') = T k := by
  obtain ⟨kvs', hm⟩ := mapKV_isSome (g := g) (kvs := kvs) (by
    intro kv hkv
    obtain ⟨m', hg, _⟩ := key kv.1 kv.2 (assoc_of_mem h.nodup hkv)
    exact ⟨m', hg⟩)
  obtain ⟨hw', hR', hC', hK'⟩ := dictWF_mapKV (R' := R') (C' := C') h hm (by
    intro k m m' hk hg
    obtain ⟨m'', hg', a, b, c, _⟩ := key k m hk
    rw [hg] at hg'; cases hg'
    exact ⟨a, b, c⟩)
  refine ⟨kvs', hm, hw', hR', hC', hK', ?_⟩
  intro k
  have ha := (mapKV_some hm).2 k
  cases hk : assoc k kvs with
  | none =>
    rw [hk] at ha
    rw [proj_dictGrid_none ha, hR', hC']
    exact hnone k hk
  | some m =>
    obtain ⟨m', hg, _, _, _, hT⟩ := key k m hk
    rw [hk, Option.bind_some, hg] at ha
    rw [proj_dictGrid_some hw' ha, hT]

/-- row selection of a well-formed dict feature. -/
theorem dict_select_rows (cl : α → α → Bool) {kvs : Dict α} (h : DictWF kvs) (ix : Index) :
    ((dictOps cl).select kvs ix = none ↔ ix.positions (dictRows kvs) = none) ∧
    ∀ kvs', (dictOps cl).select kvs ix = some kvs' →
      DictWF kvs' ∧ keySet kvs' = keySet kvs ∧ dictCols kvs' = dictCols kvs ∧
      ∃ ps, ix.positions (dictRows kvs) = some ps ∧ dictGrid kvs' = Grid.pick (dictGrid kvs) ps := by
  show (mapKV (fun _ m => mntOk (m.select ix 0)) kvs = none ↔ _) ∧
    ∀ kvs', mapKV (fun _ m => mntOk (m.select ix 0)) kvs = some kvs' → _
  cases hps : ix.positions (dictRows kvs) with
  | none =>
    have hnone : mapKV (fun _ m => mntOk (MNT.select m ix 0)) kvs = none := by
      cases hk : kvs with
      | nil => exact absurd hk h.ne
      | cons kv rest =>
        have hmem : kv ∈ kvs := by rw [hk]; exact List.mem_cons_self ..
        obtain ⟨hw, hr, _⟩ := h.vals kv hmem
        rw [← hk]
        exact mapKV_none_of_mem hmem ((mnt_select_rows hw ix).1.mpr (by rw [hr]; exact hps))
    rw [hnone]
    exact ⟨⟨fun _ => rfl, fun _ => rfl⟩, nofun⟩
  | some ps =>
    have hin : InRange (dictRows kvs) ps := positions_inRange hps
    obtain ⟨kvs', hm, hw', _, hC', hK', hG⟩ := dict_lift (g := fun _ m => mntOk (MNT.select m ix 0))
      (R' := ps.length) (C' := dictCols kvs) (T := fun k => proj k (Grid.pick (dictGrid kvs) ps)) h
      (by
        intro k m hk
        obtain ⟨hw, hr, hc⟩ := h.of_assoc hk
        cases hsel : mntOk (m.select ix 0) with
        | none =>
          have := (mnt_select_rows hw ix).1.mp hsel
          rw [hr, hps] at this; cases this
        | some m' =>
          obtain ⟨a, b, qs, hqs, e⟩ := (mnt_select_rows hw ix).2 m' hsel
          rw [hr, hps] at hqs; cases hqs
          refine ⟨m', rfl, a, ?_, by rw [b, hc], ?_⟩
          · rw [← mnt_grid_rows_length, e, pick_length _ _ (by rw [mnt_grid_rows_length, hr]; exact hin)]
          · rw [proj_pick, proj_dictGrid_some h hk, e, pick_map])
      (by
        intro k hk
        rw [proj_pick, proj_dictGrid_none hk, pick_replicate _ hin])
    rw [hm]
    refine ⟨⟨nofun, nofun⟩, ?_⟩
    intro kvs'' hk''
    cases hk''
    exact ⟨hw', hK', hC', ps, rfl, proj_ext hG⟩

theorem proj_map_pick (k : String) (G : List (List (String → β))) (ps : List Nat) :
    proj k (G.map fun r => Grid.pick r ps) = (proj k G).map fun r => Grid.pick r ps := by
  simp only [proj, List.map_map]
  apply List.map_congr_left
  intro r _
  simp [pick_map]

/-- column `j` of a well-formed dict feature. -/
theorem dict_select_col (cl : α → α → Bool) {kvs : Dict α} (h : DictWF kvs) {j : Nat} (hj : j < dictCols kvs) :
    ∃ kvs', (dictOps cl).col kvs j = some kvs' ∧ DictWF kvs' ∧ keySet kvs' = keySet kvs ∧
      dictCols kvs' = 1 ∧ dictGrid kvs' = (dictGrid kvs).map fun r => Grid.pick r [j] := by
  obtain ⟨kvs', hm, hw', _, hC', hK', hG⟩ := dict_lift (g := fun _ m => mntOk (MNT.select m (.int j) 1))
    (R' := dictRows kvs) (C' := 1) (T := fun k => proj k ((dictGrid kvs).map fun r => Grid.pick r [j])) h
    (by
      intro k m hk
      obtain ⟨hw, hr, hc⟩ := h.of_assoc hk
      obtain ⟨m', a, b, c, d, e⟩ := mnt_select_col hw (j := j) (by rw [hc]; exact hj)
      refine ⟨m', a, b, by rw [d, hr], c, ?_⟩
      rw [proj_map_pick, proj_dictGrid_some h hk, e, List.map_map, List.map_map]
      apply List.map_congr_left
      intro r _
      simp [pick_map])
    (by
      intro k hk
      rw [proj_map_pick, proj_dictGrid_none hk, List.map_replicate,
        pick_replicate _ (fun p hp => by simp at hp; subst hp; exact hj)]
      rfl)
  exact ⟨kvs', hm, hw', hK', hC', proj_ext hG⟩

/-- the operands of a per-key concatenation: every dict of the list holds key `k`. -/
theorem dict_gather {d0 : Dict α} {ds : List (Dict α)} (hK : ∀ d ∈ d0 :: ds, keySet d = keySet d0)
    {k : String} {m : MNT α} (hk : assoc k d0 = some m) :
    ∃ ms, mapOpt (fun d => assoc k d) (d0 :: ds) = some (m :: ms) ∧
      All2 (fun d m' => assoc k d = some m') (d0 :: ds) (m :: ms) := by
  have hex : ∀ d ∈ d0 :: ds, ∃ md, assoc k d = some md := by
    intro d hd
    apply assoc_isSome_iff.mpr
    exact (keySet_eq_iff.mp (hK d hd) k).mpr (assoc_isSome_iff.mp ⟨m, hk⟩)
  obtain ⟨ms0, hms0⟩ := mapOpt_some_of_forall _ _ hex
  have hall := (mapOpt_eq_some_iff _ _ _).mp hms0
  cases ms0 with
  | nil => simp [All2] at hall
  | cons m'' ms =>
    have : m'' = m := by
      have h1 : assoc k d0 = some m'' := hall.1
      rw [hk] at h1
      cases h1; rfl
    subst this
    exact ⟨ms, hms0, hall⟩

theorem dict_gather_none {d0 : Dict α} {ds : List (Dict α)} (hK : ∀ d ∈ d0 :: ds, keySet d = keySet d0)
    {k : String} (hk : assoc k d0 = none) : ∀ d ∈ d0 :: ds, assoc k d = none := by
  intro d hd
  apply assoc_none_iff.mpr
  intro hmem
  exact assoc_none_iff.mp hk ((keySet_eq_iff.mp (hK d hd) k).mp hmem)

theorem proj_flatMap (k : String) (L : List ι) (F : ι → List (List (String → β))) :
    proj k (L.flatMap F) = L.flatMap fun d => proj k (F d) := by
  simp only [proj, List.map_flatMap]

theorem proj_colcat (k : String) (L : List ι) (F : ι → List (List (String → β))) (R : Nat) :
    proj k ((List.range R).map fun r => L.flatMap fun d => (F d).getD r [])
      = (List.range R).map fun r => L.flatMap fun d => (proj k (F d)).getD r [] := by
  simp only [proj, List.map_map]
  apply List.map_congr_left
  intro r _
  simp only [Function.comp_def, List.map_flatMap, getD_map_nil]

/-- `cat(dim=0)` of two or more well-formed dict features with the same keys and column count. -/
theorem dict_catRows (cl : α → α → Bool) (d0 d1 : Dict α) (ds : List (Dict α))
    (h : ∀ d ∈ d0 :: d1 :: ds, DictWF d ∧ keySet d = keySet d0 ∧ dictCols d = dictCols d0) :
    ∃ d', (dictOps cl).catRows (d0 :: d1 :: ds) = some d' ∧ DictWF d' ∧ keySet d' = keySet d0 ∧
      dictCols d' = dictCols d0 ∧ dictGrid d' = (d0 :: d1 :: ds).flatMap dictGrid := by
  have hK : ∀ d ∈ d0 :: d1 :: ds, keySet d = keySet d0 := fun d hd => (h d hd).2.1
  have h0 := (h d0 (List.mem_cons_self ..)).1
  obtain ⟨d', hm, hw', _, hC', hK', hG⟩ := dict_lift
    (g := fun k _ => (mapOpt (fun d => assoc k d) (d0 :: d1 :: ds)).bind fun ms => mntOk (MNT.catRows ms))
    (R' := ((d0 :: d1 :: ds).map dictRows).sum) (C' := dictCols d0)
    (T := fun k => proj k ((d0 :: d1 :: ds).flatMap dictGrid)) h0
    (by
      intro k m hk
      obtain ⟨ms, hmo, hall⟩ := dict_gather hK hk
      have hms : ∀ m' ∈ m :: ms, m'.WFRep ∧ m'.numCols = m.numCols := by
        intro m' hm'
        obtain ⟨d, hd, hdm⟩ := hall.of_mem_right hm'
        obtain ⟨a, _, c⟩ := (h d hd).1.of_assoc hdm
        exact ⟨a, by rw [c, (h d hd).2.2, (h0.of_assoc hk).2.2]⟩
      obtain ⟨m', a, b, c, e⟩ := mnt_catRows_wf m ms hms
      refine ⟨m', by simp only [hmo, Option.bind_some]; exact a, b, ?_, c.trans (h0.of_assoc hk).2.2, ?_⟩
      · rw [mnt_numRows_of_rows e]
        congr 1
        symm
        exact hall.map_eq fun d hd m' _ hdm => ((h d hd).1.of_assoc hdm).2.1.symm
      · rw [proj_flatMap, e, List.map_flatMap]
        symm
        exact hall.flatMap_eq fun d hd m' _ hdm => proj_dictGrid_some (h d hd).1 hdm)
    (by
      intro k hk
      have hn := dict_gather_none hK hk
      rw [proj_flatMap, flatMap_congr' _ _ (fun d => List.replicate (dictRows d) (List.replicate (dictCols d0) none))
        (fun d hd => by rw [proj_dictGrid_none (hn d hd), (h d hd).2.2]), replicate_flatMap])
  exact ⟨d', hm, hw', hK', hC', proj_ext hG⟩

/-- `cat(dim=1)` of two or more well-formed dict features with the same keys and row count. -/
theorem dict_catCols (cl : α → α → Bool) (d0 d1 : Dict α) (ds : List (Dict α))
    (h : ∀ d ∈ d0 :: d1 :: ds, DictWF d ∧ keySet d = keySet d0 ∧ dictRows d = dictRows d0) :
    ∃ d', (dictOps cl).catCols (d0 :: d1 :: ds) = some d' ∧ DictWF d' ∧ keySet d' = keySet d0 ∧
      dictRows d' = dictRows d0 ∧ dictCols d' = ((d0 :: d1 :: ds).map dictCols).sum ∧
      dictGrid d' = (List.range (dictRows d0)).map fun r =>
        (d0 :: d1 :: ds).flatMap fun d => (dictGrid d).getD r [] := by
  have hK : ∀ d ∈ d0 :: d1 :: ds, keySet d = keySet d0 := fun d hd => (h d hd).2.1
  have h0 := (h d0 (List.mem_cons_self ..)).1
  obtain ⟨d', hm, hw', hR', hC', hK', hG⟩ := dict_lift
    (g := fun k _ => (mapOpt (fun d => assoc k d) (d0 :: d1 :: ds)).bind fun ms => mntOk (MNT.catCols ms))
    (R' := dictRows d0) (C' := ((d0 :: d1 :: ds).map dictCols).sum)
    (T := fun k => proj k ((List.range (dictRows d0)).map fun r =>
      (d0 :: d1 :: ds).flatMap fun d => (dictGrid d).getD r [])) h0
    (by
      intro k m hk
      obtain ⟨ms, hmo, hall⟩ := dict_gather hK hk
      have hmr : m.numRows = dictRows d0 := (h0.of_assoc hk).2.1
      have hms : ∀ m' ∈ m :: ms, m'.WFRep ∧ m'.numRows = m.numRows := by
        intro m' hm'
        obtain ⟨d, hd, hdm⟩ := hall.of_mem_right hm'
        obtain ⟨a, b, _⟩ := (h d hd).1.of_assoc hdm
        exact ⟨a, by rw [b, (h d hd).2.2, hmr]⟩
      obtain ⟨m', a, b, c, dd, e⟩ := mnt_catCols_wf m ms hms
      refine ⟨m', by simp only [hmo, Option.bind_some]; exact a, b, c.trans hmr, ?_, ?_⟩
      · rw [dd]
        congr 1
        symm
        exact hall.map_eq fun d hd m' _ hdm => ((h d hd).1.of_assoc hdm).2.2.symm
      · rw [proj_colcat, e, List.map_map, hmr]
        apply List.map_congr_left
        intro r _
        simp only [Function.comp_def, List.map_flatMap]
        symm
        exact hall.flatMap_eq fun d hd m' _ hdm => by
          rw [proj_dictGrid_some (h d hd).1 hdm, getD_map_nil])
    (by
      intro k hk
      have hn := dict_gather_none hK hk
      rw [proj_colcat]
      have e : ∀ r ∈ List.range (dictRows d0),
          ((d0 :: d1 :: ds).flatMap fun d => (proj k (dictGrid d)).getD r [])
            = List.replicate ((d0 :: d1 :: ds).map dictCols).sum none := by
        intro r hr
        have hr' := List.mem_range.mp hr
        rw [flatMap_congr' _ _ (fun d => List.replicate (dictCols d) none) (fun d hd => by
          rw [proj_dictGrid_none (hn d hd), (h d hd).2.2]
          simp [List.getD_eq_getElem?_getD, hr']), replicate_flatMap]
      rw [List.map_congr_left e, map_const_replicate, List.length_range])
  exact ⟨d', hm, hw', hK', hR', hC', proj_ext hG⟩

/-- closeness of two dict cells: the same keys present, and close values under every key. -/
def dictCellClose (cl : α → α → Bool) (f g : String → Option (List α)) : Prop :=
  ∀ k, OptRel (All2 fun a b => cl a b = true) (f k) (g k)

theorem All2_replicate {R : β → γ → Prop} {x : β} {y : γ} (n : Nat) (h : R x y) :
    All2 R (List.replicate n x) (List.replicate n y) := by
  induction n with
  | zero => trivial
  | succ n ih => exact ⟨h, ih⟩

theorem All2_map_some {X : β → β → Prop} (ra rb : List (List β)) :
    All2 (All2 (OptRel X)) (ra.map (List.map some)) (rb.map (List.map some)) ↔ All2 (All2 X) ra rb := by
  rw [All2_map]
  apply All2_iff_of_mem
  intro r1 _ r2 _
  rw [All2_map]
  exact Iff.rfl

/-- `==` on two well-formed dict features decides: same key set, same column count, and every
    cell close under every key. -/
theorem dict_close_iff (cl : α → α → Bool) {a b : Dict α} (ha : DictWF a) (hb : DictWF b) :
    (dictOps cl).close a b = true ↔
      keySet a = keySet b ∧ dictCols a = dictCols b ∧ All2 (All2 (dictCellClose cl)) (dictGrid a) (dictGrid b) := by
  have hproj : All2 (All2 (dictCellClose cl)) (dictGrid a) (dictGrid b) ↔
      ∀ k, All2 (All2 (OptRel (All2 fun x y => cl x y = true))) (proj k (dictGrid a)) (proj k (dictGrid b)) :=
    All2_proj (S := OptRel (All2 fun x y => cl x y = true)) _ _
  show (keysSame (keys a) (keys b) && a.all fun kv => match assoc kv.1 b with
      | none => false
      | some m => mntClose cl kv.2 m) = true ↔ _
  rw [Bool.and_eq_true, keysSame_iff, List.all_eq_true]
  constructor
  · rintro ⟨hks, hall⟩
    have hval : ∀ k ma, assoc k a = some ma → ∃ mb, assoc k b = some mb ∧ mntClose cl ma mb = true := by
      intro k ma hk
      have := hall (k, ma) (assoc_mem hk)
      cases hkb : assoc k b with
      | none => simp [hkb] at this
      | some mb => exact ⟨mb, rfl, by simpa [hkb] using this⟩
    have hshape : dictRows a = dictRows b ∧ dictCols a = dictCols b := by
      cases hk : a with
      | nil => exact absurd hk ha.ne
      | cons kv rest =>
        have hmem : (kv.1, kv.2) ∈ a := by rw [hk]; exact List.mem_cons_self ..
        have hka := assoc_of_mem ha.nodup hmem
        obtain ⟨mb, hkb, hcl⟩ := hval _ _ hka
        obtain ⟨wa, ra, ca⟩ := ha.of_assoc hka
        obtain ⟨wb, rb, cb⟩ := hb.of_assoc hkb
        obtain ⟨e1, e2⟩ := (mntClose_iff cl wa wb).mp hcl
        have e3 := e2.length_eq
        rw [mnt_grid_rows_length, mnt_grid_rows_length] at e3
        rw [← hk]
        exact ⟨by rw [← ra, ← rb, e3], by rw [← ca, ← cb, e1]⟩
    refine ⟨keySet_eq_iff.mpr hks, hshape.2, hproj.mpr fun k => ?_⟩
    cases hka : assoc k a with
    | none =>
      have hkb : assoc k b = none :=
        assoc_none_iff.mpr fun hm => assoc_none_iff.mp hka ((hks k).mpr hm)
      rw [proj_dictGrid_none hka, proj_dictGrid_none hkb, hshape.1, hshape.2]
      exact All2_replicate _ (All2_replicate _ (by simp [OptRel]))
    | some ma =>
      obtain ⟨mb, hkb, hcl⟩ := hval k ma hka
      rw [proj_dictGrid_some ha hka, proj_dictGrid_some hb hkb, All2_map_some]
      exact ((mntClose_iff cl (ha.of_assoc hka).1 (hb.of_assoc hkb).1).mp hcl).2
  · rintro ⟨hK, hC, hG⟩
    have hks := keySet_eq_iff.mp hK
    have hG' := hproj.mp hG
    refine ⟨hks, ?_⟩
    intro kv hkv
    have hka := assoc_of_mem ha.nodup (show (kv.1, kv.2) ∈ a from hkv)
    obtain ⟨mb, hkb⟩ := assoc_isSome_iff.mpr ((hks kv.1).mp (assoc_isSome_iff.mp ⟨kv.2, hka⟩))
    simp only [hkb]
    obtain ⟨wa, _, ca⟩ := ha.of_assoc hka
    obtain ⟨wb, _, cb⟩ := hb.of_assoc hkb
    rw [mntClose_iff cl wa wb]
    refine ⟨by rw [ca, cb, hC], ?_⟩
    have := hG' kv.1
    rwa [proj_dictGrid_some ha hka, proj_dictGrid_some hb hkb, All2_map_some] at this

/-- **A dict of `MultiNestedTensor`s refines the nested-list specification.**  The cell at
    (row, column) is the Python dict `{key: cell of that key's tensor}` (as a finite map
    `String → Option cell`, so that the order of the dict's items is immaterial, as it is for `==`);
    the tag is the key set. -/
def dictSpec (cl : α → α → Bool) :
    FeatSpec (dictOps cl) (String → Option (List α)) (String → Bool) Unit where
  wf := DictWF
  tag := keySet
  colMeta := fun kvs => List.replicate (dictCols kvs) ()
  grid := dictGrid
  cellClose := dictCellClose cl
  grid_len := fun kvs _ => dictGrid_length kvs
  grid_row := fun kvs _ r hr => by
    simp only [dictGrid, List.mem_map] at hr
    obtain ⟨_, _, rfl⟩ := hr
    simp
  check_iff := fun kvs nc nr h => by
    rw [List.length_replicate]
    exact dict_check_iff h nc nr
  select_none := fun kvs ix h => (dict_select_rows cl h ix).1
  select_some := fun kvs ix kvs' h hs => by
    obtain ⟨a, b, c, ps, d, e⟩ := (dict_select_rows cl h ix).2 kvs' hs
    exact ⟨a, b, by show List.replicate _ () = List.replicate _ (); rw [c], ps, d, e⟩
  col_spec := fun kvs j h hj => by
    have hj' : j < dictCols kvs := by simpa using hj
    obtain ⟨kvs', a, b, c, d, e⟩ := dict_select_col cl h hj'
    refine ⟨kvs', a, b, c, ?_, e⟩
    show List.replicate (dictCols kvs') () = _
    rw [d, pick_replicate_unit hj']
  catRows_spec := fun d0 ds h => by
    cases ds with
    | nil => exact ⟨d0, rfl, (h d0 (List.mem_cons_self ..)).1, rfl, rfl, by simp⟩
    | cons d1 ds =>
      obtain ⟨d', a, b, c, d, e⟩ := dict_catRows cl d0 d1 ds fun x hx =>
        ⟨(h x hx).1, (h x hx).2.1, by simpa using congrArg List.length (h x hx).2.2⟩
      exact ⟨d', a, b, c, by show List.replicate _ () = List.replicate _ (); rw [d], e⟩
  catCols_spec := fun d0 ds h => by
    cases ds with
    | nil =>
      refine ⟨d0, rfl, (h d0 (List.mem_cons_self ..)).1, rfl, rfl, by simp, ?_⟩
      show dictGrid d0 = _
      simp only [List.flatMap_cons, List.flatMap_nil, List.append_nil]
      exact (range_map_getD (dictGrid d0) _ (dictGrid_length d0)).symm
    | cons d1 ds =>
      obtain ⟨d', a, b, c, d, e, f⟩ := dict_catCols cl d0 d1 ds fun x hx => ⟨(h x hx).1, (h x hx).2.1, (h x hx).2.2⟩
      refine ⟨d', a, b, c, d, ?_, f⟩
      show List.replicate (dictCols d') () = _
      rw [e]
      exact (replicate_unit_flatMap (d0 :: d1 :: ds) dictCols).symm
  close_iff := fun a b ha hb => by
    rw [dict_close_iff cl ha hb]
    constructor
    · rintro ⟨h1, h2, h3⟩
      exact ⟨h1, by show List.replicate _ () = List.replicate _ (); rw [h2], h3⟩
    · rintro ⟨h1, h2, h3⟩
      exact ⟨h1, by simpa using congrArg List.length h2, h3⟩

/-! ### all storage kinds of `featOps` together -/

/-- a cell of a feature of any storage kind: the values of one (row, column) entry, or — for a dict
    feature — the finite map from the dict's keys to the values under each key. -/
inductive Cell (α : Type) where
  | plain (c : List α)
  | keyed (f : String → Option (List α))

/-- the storage kind and the part of its shape that is neither rows nor columns: the trailing
    dimension of a dense tensor (`none` for a 2-D tensor), the key set of a dict. -/
inductive Tag where
  | dense (depth : Option Nat)
  | nested
  | emb
  | dict (keys : String → Bool)

def Cell.close (cl : α → α → Bool) : Cell α → Cell α → Prop
  | .plain a, .plain b => All2 (fun x y => cl x y = true) a b
  | .keyed f, .keyed g => dictCellClose cl f g
  | _, _ => False

/-- the four specifications over the common abstract types (`FeatSpec.map`); the per-column
    metadata is `some width` for an embedding column and `none` otherwise. -/
def denseSpec' (cl : α → α → Bool) : FeatSpec (denseOps cl) (Cell α) Tag (Option Nat) :=
  (denseSpec cl).map Cell.plain Tag.dense (fun _ => none) (Cell.close cl)
    (fun _ _ h => Tag.dense.inj h) (fun _ _ _ => rfl) (fun _ _ => Iff.rfl)

def nestedSpec' (cl : α → α → Bool) : FeatSpec (nestedOps cl) (Cell α) Tag (Option Nat) :=
  (nestedSpec cl).map Cell.plain (fun _ => Tag.nested) (fun _ => none) (Cell.close cl)
    (fun _ _ _ => rfl) (fun _ _ _ => rfl) (fun _ _ => Iff.rfl)

def embSpec' (cl : α → α → Bool) : FeatSpec (embOps cl) (Cell α) Tag (Option Nat) :=
  (embSpec cl).map Cell.plain (fun _ => Tag.emb) some (Cell.close cl)
    (fun _ _ _ => rfl) (fun _ _ h => Option.some.inj h) (fun _ _ => Iff.rfl)

def dictSpec' (cl : α → α → Bool) : FeatSpec (dictOps cl) (Cell α) Tag (Option Nat) :=
  (dictSpec cl).map Cell.keyed Tag.dict (fun _ => none) (Cell.close cl)
    (fun _ _ h => Tag.dict.inj h) (fun _ _ _ => rfl) (fun _ _ => Iff.rfl)

/-- well-formedness of a feature of `featOps`: the invariant of its storage kind; a 1-D tensor is
    never a well-formed feature. -/
def FeatWF : Feat α → Prop
  | .dense d => Dense.WF d
  | .nested m => m.WFRep
  | .emb m => EmbWF m
  | .dict kvs => DictWF kvs
  | .flat _ => False

def featTag (cl : α → α → Bool) : Feat α → Tag
  | .dense d => (denseSpec' cl).tag d
  | .nested m => (nestedSpec' cl).tag m
  | .emb m => (embSpec' cl).tag m
  | .dict kvs => (dictSpec' cl).tag kvs
  | .flat _ => Tag.nested

def featMeta (cl : α → α → Bool) : Feat α → List (Option Nat)
  | .dense d => (denseSpec' cl).colMeta d
  | .nested m => (nestedSpec' cl).colMeta m
  | .emb m => (embSpec' cl).colMeta m
  | .dict kvs => (dictSpec' cl).colMeta kvs
  | .flat _ => []

def featGrid (cl : α → α → Bool) : Feat α → List (List (Cell α))
  | .dense d => (denseSpec' cl).grid d
  | .nested m => (nestedSpec' cl).grid m
  | .emb m => (embSpec' cl).grid m
  | .dict kvs => (dictSpec' cl).grid kvs
  | .flat _ => []

/-- what the abstraction is, kind by kind (all by unfolding). -/
theorem featSpec_unfold (cl : α → α → Bool) :
    (∀ d : Dense α, featTag cl (.dense d) = Tag.dense d.depth ∧
      featMeta cl (.dense d) = (List.replicate d.numCols ()).map (fun _ => none) ∧
      featGrid cl (.dense d) = d.rows.map (List.map Cell.plain)) ∧
    (∀ m : MNT α, featTag cl (.nested m) = Tag.nested ∧
      featMeta cl (.nested m) = (List.replicate m.numCols ()).map (fun _ => none) ∧
      featGrid cl (.nested m) = m.grid.rows.map (List.map Cell.plain)) ∧
    (∀ m : MET α, featTag cl (.emb m) = Tag.emb ∧
      featMeta cl (.emb m) = m.colWidths.map some ∧
      featGrid cl (.emb m) = m.grid.rows.map (List.map Cell.plain)) ∧
    (∀ kvs : Dict α, featTag cl (.dict kvs) = Tag.dict (keySet kvs) ∧
      featMeta cl (.dict kvs) = (List.replicate (dictCols kvs) ()).map (fun _ => none) ∧
      featGrid cl (.dict kvs) = (dictGrid kvs).map (List.map Cell.keyed)) :=
  ⟨fun _ => ⟨rfl, rfl, rfl⟩, fun _ => ⟨rfl, rfl, rfl⟩, fun _ => ⟨rfl, rfl, rfl⟩, fun _ => ⟨rfl, rfl, rfl⟩⟩

theorem exists_map_of_forall {f : β → γ} {l : List γ} (h : ∀ y ∈ l, ∃ x, y = f x) :
    ∃ xs : List β, l = xs.map f := by
  induction l with
  | nil => exact ⟨[], rfl⟩
  | cons y l ih =>
    obtain ⟨x, rfl⟩ := h y (List.mem_cons_self ..)
    obtain ⟨xs, rfl⟩ := ih fun y hy => h y (List.mem_cons_of_mem _ hy)
    exact ⟨x :: xs, rfl⟩

theorem mapOpt_as {as : γ → Option β} {inj : β → γ} (h : ∀ x, as (inj x) = some x) (xs : List β) :
    mapOpt as (xs.map inj) = some xs := by
  induction xs with
  | nil => rfl
  | cons x xs ih => simp [mapOpt, h, ih]

/-! same-tag features are of the same storage kind -/

theorem inv_dense (cl : α → α → Bool) {φ : Feat α} {dep : Option Nat} (hw : FeatWF φ)
    (ht : featTag cl φ = Tag.dense dep) : ∃ d, φ = Feat.dense d := by
  cases φ with
  | dense d => exact ⟨d, rfl⟩
  | flat _ => exact absurd hw id
  | nested _ => cases ht
  | emb _ => cases ht
  | dict _ => cases ht

theorem inv_nested (cl : α → α → Bool) {φ : Feat α} (hw : FeatWF φ)
    (ht : featTag cl φ = Tag.nested) : ∃ m, φ = Feat.nested m := by
  cases φ with
  | nested m => exact ⟨m, rfl⟩
  | flat _ => exact absurd hw id
  | dense _ => cases ht
  | emb _ => cases ht
  | dict _ => cases ht

theorem inv_emb (cl : α → α → Bool) {φ : Feat α} (hw : FeatWF φ)
    (ht : featTag cl φ = Tag.emb) : ∃ m, φ = Feat.emb m := by
  cases φ with
  | emb m => exact ⟨m, rfl⟩
  | flat _ => exact absurd hw id
  | dense _ => cases ht
  | nested _ => cases ht
  | dict _ => cases ht

theorem inv_dict (cl : α → α → Bool) {φ : Feat α} {ks : String → Bool} (hw : FeatWF φ)
    (ht : featTag cl φ = Tag.dict ks) : ∃ kvs, φ = Feat.dict kvs := by
  cases φ with
  | dict kvs => exact ⟨kvs, rfl⟩
  | flat _ => exact absurd hw id
  | dense _ => cases ht
  | nested _ => cases ht
  | emb _ => cases ht

/-! `_cat_tensor_data` on a list of one kind is that kind's concatenation -/

theorem dict_cat_eq (cat : List (MNT α) → Option (MNT α)) (ds : List (Dict α)) (d0 : Dict α) :
    mapOpt (fun kv : String × MNT α => (mapOpt (fun d => assoc kv.1 d) ds).bind fun ms =>
        (mntOk (cat ms)).map fun m => (kv.1, m)) d0
      = mapKV (fun k _ => (mapOpt (fun d => assoc k d) ds).bind fun ms => mntOk (cat ms)) d0 := by
  unfold mapKV
  congr 1
  funext kv
  show _ = Option.map (fun m => (kv.1, m)) ((mapOpt (fun d => assoc kv.1 d) ds).bind fun ms => mntOk (cat ms))
  cases mapOpt (fun d => assoc kv.1 d) ds <;> rfl

theorem cat0_dense (cl : α → α → Bool) (x0 : _) (xs : List _) :
    Feat.cat 0 ((x0 :: xs).map Feat.dense) = ((denseOps cl).catRows (x0 :: xs)).map Feat.dense := by
  cases xs with
  | nil => rfl
  | cons x1 xs =>
    show (mapOpt Feat.asDense ((x0 :: x1 :: xs).map Feat.dense)).bind _ = _
    rw [mapOpt_as (as := Feat.asDense) (inj := Feat.dense) (fun _ => rfl)]
    rfl

theorem cat1_dense (cl : α → α → Bool) (x0 : _) (xs : List _) :
    Feat.cat 1 ((x0 :: xs).map Feat.dense) = ((denseOps cl).catCols (x0 :: xs)).map Feat.dense := by
  cases xs with
  | nil => rfl
  | cons x1 xs =>
    show (mapOpt Feat.asDense ((x0 :: x1 :: xs).map Feat.dense)).bind _ = _
    rw [mapOpt_as (as := Feat.asDense) (inj := Feat.dense) (fun _ => rfl)]
    rfl

theorem cat0_nested (cl : α → α → Bool) (x0 : _) (xs : List _) :
    Feat.cat 0 ((x0 :: xs).map Feat.nested) = ((nestedOps cl).catRows (x0 :: xs)).map Feat.nested := by
  cases xs with
  | nil => rfl
  | cons x1 xs =>
    show (mapOpt Feat.asNested ((x0 :: x1 :: xs).map Feat.nested)).bind _ = _
    rw [mapOpt_as (as := Feat.asNested) (inj := Feat.nested) (fun _ => rfl)]
    rfl

theorem cat1_nested (cl : α → α → Bool) (x0 : _) (xs : List _) :
    Feat.cat 1 ((x0 :: xs).map Feat.nested) = ((nestedOps cl).catCols (x0 :: xs)).map Feat.nested := by
  cases xs with
  | nil => rfl
  | cons x1 xs =>
    show (mapOpt Feat.asNested ((x0 :: x1 :: xs).map Feat.nested)).bind _ = _
    rw [mapOpt_as (as := Feat.asNested) (inj := Feat.nested) (fun _ => rfl)]
    rfl

theorem cat0_emb (cl : α → α → Bool) (x0 : _) (xs : List _) :
    Feat.cat 0 ((x0 :: xs).map Feat.emb) = ((embOps cl).catRows (x0 :: xs)).map Feat.emb := by
  cases xs with
  | nil => rfl
  | cons x1 xs =>
    show (mapOpt Feat.asEmb ((x0 :: x1 :: xs).map Feat.emb)).bind _ = _
    rw [mapOpt_as (as := Feat.asEmb) (inj := Feat.emb) (fun _ => rfl)]
    rfl

theorem cat1_emb (cl : α → α → Bool) (x0 : _) (xs : List _) :
    Feat.cat 1 ((x0 :: xs).map Feat.emb) = ((embOps cl).catCols (x0 :: xs)).map Feat.emb := by
  cases xs with
  | nil => rfl
  | cons x1 xs =>
    show (mapOpt Feat.asEmb ((x0 :: x1 :: xs).map Feat.emb)).bind _ = _
    rw [mapOpt_as (as := Feat.asEmb) (inj := Feat.emb) (fun _ => rfl)]
    rfl

theorem cat0_dict (cl : α → α → Bool) (x0 : _) (xs : List _) :
    Feat.cat 0 ((x0 :: xs).map Feat.dict) = ((dictOps cl).catRows (x0 :: xs)).map Feat.dict := by
  cases xs with
  | nil => rfl
  | cons x1 xs =>
    show (mapOpt Feat.asDict ((x0 :: x1 :: xs).map Feat.dict)).bind _ = _
    rw [mapOpt_as (as := Feat.asDict) (inj := Feat.dict) (fun _ => rfl)]
    show Option.map Feat.dict (mapOpt (fun kv : String × MNT α =>
      (mapOpt (fun d => assoc kv.1 d) (x0 :: x1 :: xs)).bind fun ms =>
        (mntOk (MNT.catRows ms)).map fun m => (kv.1, m)) x0) = _
    rw [dict_cat_eq]
    rfl

theorem cat1_dict (cl : α → α → Bool) (x0 : _) (xs : List _) :
    Feat.cat 1 ((x0 :: xs).map Feat.dict) = ((dictOps cl).catCols (x0 :: xs)).map Feat.dict := by
  cases xs with
  | nil => rfl
  | cons x1 xs =>
    show (mapOpt Feat.asDict ((x0 :: x1 :: xs).map Feat.dict)).bind _ = _
    rw [mapOpt_as (as := Feat.asDict) (inj := Feat.dict) (fun _ => rfl)]
    show Option.map Feat.dict (mapOpt (fun kv : String × MNT α =>
      (mapOpt (fun d => assoc kv.1 d) (x0 :: x1 :: xs)).bind fun ms =>
        (mntOk (MNT.catCols ms)).map fun m => (kv.1, m)) x0) = _
    rw [dict_cat_eq]
    rfl

/-- **Every storage kind of `featOps` refines the nested-list specification**: the frame theorems
    of C07 / C08 / C10 apply to frames over `Feat α` — dense tensors, `MultiNestedTensor`s,
    `MultiEmbeddingTensor`s and dicts of `MultiNestedTensor`s, mixed freely. -/
def featSpec (cl : α → α → Bool) : FeatSpec (featOps cl) (Cell α) Tag (Option Nat) where
  wf := FeatWF
  tag := featTag cl
  colMeta := featMeta cl
  grid := featGrid cl
  cellClose := Cell.close cl
  grid_len := fun φ h => by
    cases φ with
    | dense d => exact (denseSpec' cl).grid_len d h
    | nested m => exact (nestedSpec' cl).grid_len m h
    | emb m => exact (embSpec' cl).grid_len m h
    | dict kvs => exact (dictSpec' cl).grid_len kvs h
    | flat _ => exact absurd h id
  grid_row := fun φ h => by
    cases φ with
    | dense d => exact (denseSpec' cl).grid_row d h
    | nested m => exact (nestedSpec' cl).grid_row m h
    | emb m => exact (embSpec' cl).grid_row m h
    | dict kvs => exact (dictSpec' cl).grid_row kvs h
    | flat _ => exact absurd h id
  check_iff := fun φ nc nr h => by
    cases φ with
    | dense d => exact (denseSpec' cl).check_iff d nc nr h
    | nested m => exact (nestedSpec' cl).check_iff m nc nr h
    | emb m => exact (embSpec' cl).check_iff m nc nr h
    | dict kvs => exact (dictSpec' cl).check_iff kvs nc nr h
    | flat _ => exact absurd h id
  select_none := fun φ ix h => by
    cases φ with
    | dense d => exact Option.map_eq_none_iff.trans ((denseSpec' cl).select_none d ix h)
    | nested m => exact Option.map_eq_none_iff.trans ((nestedSpec' cl).select_none m ix h)
    | emb m => exact Option.map_eq_none_iff.trans ((embSpec' cl).select_none m ix h)
    | dict kvs => exact Option.map_eq_none_iff.trans ((dictSpec' cl).select_none kvs ix h)
    | flat _ => exact absurd h id
  select_some := fun φ ix φ' h hs => by
    cases φ with
    | dense d =>
      have hs' : ((denseOps cl).select d ix).map Feat.dense = some φ' := hs
      obtain ⟨x', hx', rfl⟩ := Option.map_eq_some_iff.mp hs'
      exact (denseSpec' cl).select_some d ix x' h hx' 
    | nested m =>
      have hs' : ((nestedOps cl).select m ix).map Feat.nested = some φ' := hs
      obtain ⟨x', hx', rfl⟩ := Option.map_eq_some_iff.mp hs'
      exact (nestedSpec' cl).select_some m ix x' h hx' 
    | emb m =>
      have hs' : ((embOps cl).select m ix).map Feat.emb = some φ' := hs
      obtain ⟨x', hx', rfl⟩ := Option.map_eq_some_iff.mp hs'
      exact (embSpec' cl).select_some m ix x' h hx' 
    | dict kvs =>
      have hs' : ((dictOps cl).select kvs ix).map Feat.dict = some φ' := hs
      obtain ⟨x', hx', rfl⟩ := Option.map_eq_some_iff.mp hs'
      exact (dictSpec' cl).select_some kvs ix x' h hx' 
    | flat _ => exact absurd h id
  col_spec := fun φ j h hj => by
    cases φ with
    | dense d =>
      obtain ⟨x', a, b⟩ := (denseSpec' cl).col_spec d j h hj
      exact ⟨Feat.dense x', by show ((denseOps cl).col d j).map Feat.dense = _; rw [a]; rfl, b⟩
    | nested m =>
      obtain ⟨x', a, b⟩ := (nestedSpec' cl).col_spec m j h hj
      exact ⟨Feat.nested x', by show ((nestedOps cl).col m j).map Feat.nested = _; rw [a]; rfl, b⟩
    | emb m =>
      obtain ⟨x', a, b⟩ := (embSpec' cl).col_spec m j h hj
      exact ⟨Feat.emb x', by show ((embOps cl).col m j).map Feat.emb = _; rw [a]; rfl, b⟩
    | dict kvs =>
      obtain ⟨x', a, b⟩ := (dictSpec' cl).col_spec kvs j h hj
      exact ⟨Feat.dict x', by show ((dictOps cl).col kvs j).map Feat.dict = _; rw [a]; rfl, b⟩
    | flat _ => exact absurd h id
  catRows_spec := fun φ0 φs h => by
    have hw0 := (h φ0 (List.mem_cons_self ..)).1
    cases φ0 with
    | dense x0 =>
      obtain ⟨xs, rfl⟩ := exists_map_of_forall (f := Feat.dense) (l := φs) fun φ hφ =>
        inv_dense cl (h φ (List.mem_cons_of_mem _ hφ)).1 (h φ (List.mem_cons_of_mem _ hφ)).2.1
      obtain ⟨x', a, b, c, d, e⟩ := (denseSpec' cl).catRows_spec x0 xs fun x hx =>
        h (Feat.dense x) (by rw [← List.map_cons]; exact List.mem_map_of_mem hx)
      refine ⟨Feat.dense x', ?_, b, c, d, ?_⟩
      · show Feat.cat 0 _ = _
        rw [← List.map_cons, cat0_dense cl, a]; rfl
      · show (denseSpec' cl).grid x' = _
        rw [e, ← List.map_cons, List.flatMap_map]; rfl
    | nested x0 =>
      obtain ⟨xs, rfl⟩ := exists_map_of_forall (f := Feat.nested) (l := φs) fun φ hφ =>
        inv_nested cl (h φ (List.mem_cons_of_mem _ hφ)).1 (h φ (List.mem_cons_of_mem _ hφ)).2.1
      obtain ⟨x', a, b, c, d, e⟩ := (nestedSpec' cl).catRows_spec x0 xs fun x hx =>
        h (Feat.nested x) (by rw [← List.map_cons]; exact List.mem_map_of_mem hx)
      refine ⟨Feat.nested x', ?_, b, c, d, ?_⟩
      · show Feat.cat 0 _ = _
        rw [← List.map_cons, cat0_nested cl, a]; rfl
      · show (nestedSpec' cl).grid x' = _
        rw [e, ← List.map_cons, List.flatMap_map]; rfl
    | emb x0 =>
      obtain ⟨xs, rfl⟩ := exists_map_of_forall (f := Feat.emb) (l := φs) fun φ hφ =>
        inv_emb cl (h φ (List.mem_cons_of_mem _ hφ)).1 (h φ (List.mem_cons_of_mem _ hφ)).2.1
      obtain ⟨x', a, b, c, d, e⟩ := (embSpec' cl).catRows_spec x0 xs fun x hx =>
        h (Feat.emb x) (by rw [← List.map_cons]; exact List.mem_map_of_mem hx)
      refine ⟨Feat.emb x', ?_, b, c, d, ?_⟩
      · show Feat.cat 0 _ = _
        rw [← List.map_cons, cat0_emb cl, a]; rfl
      · show (embSpec' cl).grid x' = _
        rw [e, ← List.map_cons, List.flatMap_map]; rfl
    | dict x0 =>
      obtain ⟨xs, rfl⟩ := exists_map_of_forall (f := Feat.dict) (l := φs) fun φ hφ =>
        inv_dict cl (h φ (List.mem_cons_of_mem _ hφ)).1 (h φ (List.mem_cons_of_mem _ hφ)).2.1
      obtain ⟨x', a, b, c, d, e⟩ := (dictSpec' cl).catRows_spec x0 xs fun x hx =>
        h (Feat.dict x) (by rw [← List.map_cons]; exact List.mem_map_of_mem hx)
      refine ⟨Feat.dict x', ?_, b, c, d, ?_⟩
      · show Feat.cat 0 _ = _
        rw [← List.map_cons, cat0_dict cl, a]; rfl
      · show (dictSpec' cl).grid x' = _
        rw [e, ← List.map_cons, List.flatMap_map]; rfl
    | flat _ => exact absurd hw0 id
  catCols_spec := fun φ0 φs h => by
    have hw0 := (h φ0 (List.mem_cons_self ..)).1
    cases φ0 with
    | dense x0 =>
      obtain ⟨xs, rfl⟩ := exists_map_of_forall (f := Feat.dense) (l := φs) fun φ hφ =>
        inv_dense cl (h φ (List.mem_cons_of_mem _ hφ)).1 (h φ (List.mem_cons_of_mem _ hφ)).2.1
      obtain ⟨x', a, b, c, d, e, f⟩ := (denseSpec' cl).catCols_spec x0 xs fun x hx =>
        h (Feat.dense x) (by rw [← List.map_cons]; exact List.mem_map_of_mem hx)
      refine ⟨Feat.dense x', ?_, b, c, d, ?_, ?_⟩
      · show Feat.cat 1 _ = _
        rw [← List.map_cons, cat1_dense cl, a]; rfl
      · show (denseSpec' cl).colMeta x' = _
        rw [e, ← List.map_cons, List.flatMap_map]; rfl
      · show (denseSpec' cl).grid x' = _
        rw [f]
        apply List.map_congr_left
        intro r _
        rw [← List.map_cons, List.flatMap_map]; rfl
    | nested x0 =>
      obtain ⟨xs, rfl⟩ := exists_map_of_forall (f := Feat.nested) (l := φs) fun φ hφ =>
        inv_nested cl (h φ (List.mem_cons_of_mem _ hφ)).1 (h φ (List.mem_cons_of_mem _ hφ)).2.1
      obtain ⟨x', a, b, c, d, e, f⟩ := (nestedSpec' cl).catCols_spec x0 xs fun x hx =>
        h (Feat.nested x) (by rw [← List.map_cons]; exact List.mem_map_of_mem hx)
      refine ⟨Feat.nested x', ?_, b, c, d, ?_, ?_⟩
      · show Feat.cat 1 _ = _
        rw [← List.map_cons, cat1_nested cl, a]; rfl
      · show (nestedSpec' cl).colMeta x' = _
        rw [e, ← List.map_cons, List.flatMap_map]; rfl
      · show (nestedSpec' cl).grid x' = _
        rw [f]
        apply List.map_congr_left
        intro r _
        rw [← List.map_cons, List.flatMap_map]; rfl
    | emb x0 =>
      obtain ⟨xs, rfl⟩ := exists_map_of_forall (f := Feat.emb) (l := φs) fun φ hφ =>
        inv_emb cl (h φ (List.mem_cons_of_mem _ hφ)).1 (h φ (List.mem_cons_of_mem _ hφ)).2.1
      obtain ⟨x', a, b, c, d, e, f⟩ := (embSpec' cl).catCols_spec x0 xs fun x hx =>
        h (Feat.emb x) (by rw [← List.map_cons]; exact List.mem_map_of_mem hx)
      refine ⟨Feat.emb x', ?_, b, c, d, ?_, ?_⟩
      · show Feat.cat 1 _ = _
        rw [← List.map_cons, cat1_emb cl, a]; rfl
      · show (embSpec' cl).colMeta x' = _
        rw [e, ← List.map_cons, List.flatMap_map]; rfl
      · show (embSpec' cl).grid x' = _
        rw [f]
        apply List.map_congr_left
        intro r _
        rw [← List.map_cons, List.flatMap_map]; rfl
    | dict x0 =>
      obtain ⟨xs, rfl⟩ := exists_map_of_forall (f := Feat.dict) (l := φs) fun φ hφ =>
        inv_dict cl (h φ (List.mem_cons_of_mem _ hφ)).1 (h φ (List.mem_cons_of_mem _ hφ)).2.1
      obtain ⟨x', a, b, c, d, e, f⟩ := (dictSpec' cl).catCols_spec x0 xs fun x hx =>
        h (Feat.dict x) (by rw [← List.map_cons]; exact List.mem_map_of_mem hx)
      refine ⟨Feat.dict x', ?_, b, c, d, ?_, ?_⟩
      · show Feat.cat 1 _ = _
        rw [← List.map_cons, cat1_dict cl, a]; rfl
      · show (dictSpec' cl).colMeta x' = _
        rw [e, ← List.map_cons, List.flatMap_map]; rfl
      · show (dictSpec' cl).grid x' = _
        rw [f]
        apply List.map_congr_left
        intro r _
        rw [← List.map_cons, List.flatMap_map]; rfl
    | flat _ => exact absurd hw0 id
  close_iff := fun φ ψ hφ hψ => by
    cases φ with
    | flat _ => exact absurd hφ id
    | dense a =>
      cases ψ with
      | flat _ => exact absurd hψ id
      | dense b => exact (denseSpec' cl).close_iff a b hφ hψ
      | nested _ => exact ⟨nofun, fun h => nomatch h.1⟩
      | emb _ => exact ⟨nofun, fun h => nomatch h.1⟩
      | dict _ => exact ⟨nofun, fun h => nomatch h.1⟩
    | nested a =>
      cases ψ with
      | flat _ => exact absurd hψ id
      | nested b => exact (nestedSpec' cl).close_iff a b hφ hψ
      | dense _ => exact ⟨nofun, fun h => nomatch h.1⟩
      | emb _ => exact ⟨nofun, fun h => nomatch h.1⟩
      | dict _ => exact ⟨nofun, fun h => nomatch h.1⟩
    | emb a =>
      cases ψ with
      | flat _ => exact absurd hψ id
      | emb b => exact (embSpec' cl).close_iff a b hφ hψ
      | dense _ => exact ⟨nofun, fun h => nomatch h.1⟩
      | nested _ => exact ⟨nofun, fun h => nomatch h.1⟩
      | dict _ => exact ⟨nofun, fun h => nomatch h.1⟩
    | dict a =>
      cases ψ with
      | flat _ => exact absurd hψ id
      | dict b => exact (dictSpec' cl).close_iff a b hφ hψ
      | dense _ => exact ⟨nofun, fun h => nomatch h.1⟩
      | nested _ => exact ⟨nofun, fun h => nomatch h.1⟩
      | emb _ => exact ⟨nofun, fun h => nomatch h.1⟩

/-! ### using the instance -/

theorem Cell.close_refl {cl : α → α → Bool} (hcl : ∀ v, cl v v = true) (c : Cell α) : Cell.close cl c c := by
  cases c with
  | plain c => exact All2.refl hcl c
  | keyed f =>
    intro k
    cases hk : f k with
    | none => trivial
    | some v => exact All2.refl hcl v

/-- a frame over `featOps` accepted by the constructor's `validate`, with distinct stype keys and
    well-formed features, satisfies the frame invariant of the specification. -/
theorem wf_of_validate_ragged (cl : α → α → Bool) (f : Frame (Feat α) β) (n : Nat)
    (h1 : ∀ s φ, (s, φ) ∈ f.feats → FeatWF φ) (h2 : (keys f.feats).Nodup) (h3 : (keys f.names).Nodup)
    (h4 : f.validate (featOps cl) = true) (h5 : f.numRows (featOps cl) = n) : f.WF (featSpec cl) n :=
  h5 ▸ (validate_iff_spec (featSpec cl) (f := f) h1 h2 h3).mp h4

theorem plain_grid_inj {a b : List (List (List α))}
    (h : a.map (List.map Cell.plain) = b.map (List.map Cell.plain)) : a = b :=
  map_inj_of_inj (fun _ _ h' => map_inj_of_inj (fun _ _ h'' => Cell.plain.inj h'') h') h

/-- reading a statement about the abstract table of a `MultiNestedTensor` feature back as a
    statement about the cells `m[i, j]` of the container. -/
theorem nested_of_spec (cl : α → α → Bool) {φ' : Feat α} {m : MNT α} {X : List (List (List α))}
    (hw : FeatWF φ') (ht : featTag cl φ' = featTag cl (.nested m))
    (hg : featGrid cl φ' = X.map (List.map Cell.plain)) :
    ∃ m', φ' = .nested m' ∧ m'.WFRep ∧ m'.grid.rows = X := by
  obtain ⟨m', rfl⟩ := inv_nested cl hw ht
  exact ⟨m', rfl, hw, plain_grid_inj hg⟩

/-- the same for a `MultiEmbeddingTensor` feature. -/
theorem emb_of_spec (cl : α → α → Bool) {φ' : Feat α} {m : MET α} {X : List (List (List α))}
    (hw : FeatWF φ') (ht : featTag cl φ' = featTag cl (.emb m))
    (hg : featGrid cl φ' = X.map (List.map Cell.plain)) :
    ∃ m', φ' = .emb m' ∧ EmbWF m' ∧ m'.grid.rows = X := by
  obtain ⟨m', rfl⟩ := inv_emb cl hw ht
  exact ⟨m', rfl, hw, plain_grid_inj hg⟩



/-- a frame that is the row selection `ps` of `f` (C07's statement, `IsSel`), read back on the
    containers: a `MultiNestedTensor` feature is a well-formed `MultiNestedTensor` with the same
    number of columns whose cells `m'[i, j]` are the cells of rows `ps` of the source, in order; a
    `MultiEmbeddingTensor` feature likewise, with unchanged column widths. -/
theorem isSel_ragged_cells (cl : α → α → Bool) {f g : Frame (Feat α) β} {ps : List Nat}
    (h : IsSel (featSpec cl) f ps g) :
    (∀ s m, assoc s f.feats = some (.nested m) → ∃ m', assoc s g.feats = some (.nested m') ∧
      m'.WFRep ∧ m'.numCols = m.numCols ∧ m'.grid.rows = Grid.pick m.grid.rows ps) ∧
    (∀ s m, assoc s f.feats = some (.emb m) → ∃ m', assoc s g.feats = some (.emb m') ∧
      EmbWF m' ∧ m'.colWidths = m.colWidths ∧ m'.grid.rows = Grid.pick m.grid.rows ps) := by
  obtain ⟨h2, _, _, h5, _⟩ := h
  constructor
  · intro s m hs
    obtain ⟨φ', a, b, c, d⟩ := h5 s _ hs
    obtain ⟨m', rfl, hw, hg⟩ := nested_of_spec cl (m := m) (h2.feat_ok s φ' (assoc_mem a)).1 c
      (X := Grid.pick m.grid.rows ps) (b.trans (pick_map _ _ _))
    refine ⟨m', a, hw, ?_, hg⟩
    have e : (List.replicate m'.numCols ()).map (fun _ => (none : Option Nat))
        = (List.replicate m.numCols ()).map (fun _ => (none : Option Nat)) := d
    simpa using congrArg List.length e
  · intro s m hs
    obtain ⟨φ', a, b, c, d⟩ := h5 s _ hs
    obtain ⟨m', rfl, hw, hg⟩ := emb_of_spec cl (m := m) (h2.feat_ok s φ' (assoc_mem a)).1 c
      (X := Grid.pick m.grid.rows ps) (b.trans (pick_map _ _ _))
    exact ⟨m', a, hw, map_inj_of_inj (fun _ _ h => Option.some.inj h) d, hg⟩

/-! the well-formedness predicates are decidable (used by the closed examples) -/

instance (m : MNT α) : Decidable m.WFRep :=
  decidable_of_iff (m.offset.length = m.numRows * m.numCols + 1 ∧ m.offset.head? = some 0 ∧
      m.offset.getLast? = some m.values.length ∧ m.offset.Pairwise (· ≤ ·))
    ⟨fun ⟨a, b, c, d⟩ => ⟨a, b, c, d⟩, fun ⟨a, b, c, d⟩ => ⟨a, b, c, d⟩⟩

instance (m : MET α) : Decidable (EmbWF m) := by
  unfold EmbWF MET.WFRep
  infer_instance

instance (d : Dense α) : Decidable (Dense.WF d) := by
  unfold Dense.WF
  infer_instance

instance (kvs : Dict α) : Decidable (DictWF kvs) :=
  decidable_of_iff (kvs.isEmpty = false ∧ (keys kvs).Nodup ∧
      ∀ kv ∈ kvs, kv.2.WFRep ∧ kv.2.numRows = dictRows kvs ∧ kv.2.numCols = dictCols kvs)
    ⟨fun ⟨a, b, c⟩ => ⟨by intro h; simp [h] at a, b, c⟩,
     fun ⟨a, b, c⟩ => ⟨by cases kvs <;> simp_all, b, c⟩⟩

instance (φ : Feat α) : Decidable (FeatWF φ) := by
  cases φ <;> unfold FeatWF <;> infer_instance

/-- the frame invariant from decidable checks: well-formed features, distinct stype keys, and the
    constructor's `validate`. -/
theorem frame_wf_of_checks (cl : α → α → Bool) (f : Frame (Feat α) β) (n : Nat)
    (h : (∀ sφ ∈ f.feats, FeatWF sφ.2) ∧ (keys f.feats).Nodup ∧ (keys f.names).Nodup ∧
      f.validate (featOps cl) = true ∧ f.numRows (featOps cl) = n) : f.WF (featSpec cl) n :=
  wf_of_validate_ragged cl f n (fun s φ hm => h.1 (s, φ) hm) h.2.1 h.2.2.1 h.2.2.2.1 h.2.2.2.2

/-! ### a small mixed frame for the non-vacuity examples of C07 / C08 / C10 -/

namespace RaggedEx

def eqI : Int → Int → Bool := fun a b => a == b

/-- 3 x 2 ragged cells `[[1,2],[3]], [[4],[5,6,7]], [[8,9],[]]`. -/
def mnt3 : MNT Int :=
  { numRows := 3, numCols := 2, values := [1, 2, 3, 4, 5, 6, 7, 8, 9], offset := [0, 2, 3, 4, 7, 9, 9] }

/-- 3 rows, two embedding columns of widths 2 and 1. -/
def met3 : MET Int :=
  { numRows := 3, numCols := 2, width := 3, values := [[1, 2, 3], [4, 5, 6], [7, 8, 9]], offset := [0, 2, 3] }

/-- a tokenized text column: two keys, 3 x 1 each, ragged token lists. -/
def ids3 : MNT Int :=
  { numRows := 3, numCols := 1, values := [101, 7, 102, 101, 102, 101, 8, 9, 102], offset := [0, 3, 5, 9] }
def mask3 : MNT Int :=
  { numRows := 3, numCols := 1, values := [1, 1, 1, 1, 1, 1, 1, 1, 1], offset := [0, 3, 5, 9] }

def frame : Frame (Feat Int) Int :=
  { feats := [("multicategorical", .nested mnt3), ("embedding", .emb met3),
              ("text_tokenized", .dict [("input_ids", ids3), ("attention_mask", mask3)]),
              ("numerical", .dense ⟨1, none, [[[5]], [[6]], [[7]]]⟩)]
    names := [("numerical", ["x"]), ("multicategorical", ["tags", "cats"]), ("embedding", ["e1", "e2"]),
              ("text_tokenized", ["txt"])]
    y := some [10, 20, 30], numRowsOpt := none }

theorem mnt3_wf : mnt3.WFRep := ⟨rfl, rfl, rfl, by decide⟩
theorem ids3_wf : ids3.WFRep := ⟨rfl, rfl, rfl, by decide⟩
theorem mask3_wf : mask3.WFRep := ⟨rfl, rfl, rfl, by decide⟩
theorem met3_wf : EmbWF met3 := ⟨⟨rfl, rfl, rfl, rfl, by decide⟩, by decide⟩

theorem feats_wf : ∀ s φ, (s, φ) ∈ frame.feats → FeatWF φ := by
  intro s φ hm
  simp only [frame, List.mem_cons, Prod.mk.injEq, List.not_mem_nil, or_false] at hm
  rcases hm with ⟨_, rfl⟩ | ⟨_, rfl⟩ | ⟨_, rfl⟩ | ⟨_, rfl⟩
  · exact mnt3_wf
  · exact met3_wf
  · refine (dictWF_of (R := 3) (C := 1) (by simp) (by decide) ?_).1
    intro kv hkv
    simp only [List.mem_cons, List.not_mem_nil, or_false] at hkv
    rcases hkv with rfl | rfl
    · exact ⟨ids3_wf, rfl, rfl⟩
    · exact ⟨mask3_wf, rfl, rfl⟩
  · exact ⟨by decide, by decide⟩

theorem frame_wf : frame.WF (featSpec eqI) 3 :=
  wf_of_validate_ragged eqI frame 3 feats_wf (by decide) (by decide) (by decide) (by decide)

/-- what the examples print of a frame: per stype the stored containers, and the target. -/
def view (f : Frame (Feat Int) Int) :
    List (String × Option (MNT Int) × Option (MET Int) × Option (List (String × MNT Int))) × Option (List Int) :=
  (f.feats.map fun sφ => (sφ.1, sφ.2.asNested, sφ.2.asEmb, sφ.2.asDict), f.y)

/-- the `MultiNestedTensor` / `MultiEmbeddingTensor` stored under an stype. -/
def nestedOf (f : Frame (Feat Int) Int) (s : String) : Option (MNT Int) := (assoc s f.feats).bind Feat.asNested
def embOf (f : Frame (Feat Int) Int) (s : String) : Option (MET Int) := (assoc s f.feats).bind Feat.asEmb
def dictOf (f : Frame (Feat Int) Int) (s : String) : Option (List (String × MNT Int)) := (assoc s f.feats).bind Feat.asDict

/-- a frame with a nested and an embedding feature only, and its split into two column parts
    (`{tags, e1}` and `{cats, e2}` + target). -/
def frame2 : Frame (Feat Int) Int :=
  { feats := [("multicategorical", .nested mnt3), ("embedding", .emb met3)]
    names := [("multicategorical", ["tags", "cats"]), ("embedding", ["e1", "e2"])]
    y := some [10, 20, 30], numRowsOpt := none }

def left2 : Frame (Feat Int) Int :=
  { feats := [("multicategorical", .nested { numRows := 3, numCols := 1, values := [1, 2, 4, 8, 9], offset := [0, 2, 3, 5] }),
              ("embedding", .emb { numRows := 3, numCols := 1, width := 2, values := [[1, 2], [4, 5], [7, 8]], offset := [0, 2] })]
    names := [("multicategorical", ["tags"]), ("embedding", ["e1"])]
    y := none, numRowsOpt := none }

def right2 : Frame (Feat Int) Int :=
  { feats := [("embedding", .emb { numRows := 3, numCols := 1, width := 1, values := [[3], [6], [9]], offset := [0, 1] }),
              ("multicategorical", .nested { numRows := 3, numCols := 1, values := [3, 5, 6, 7], offset := [0, 1, 4, 4] })]
    names := [("embedding", ["e2"]), ("multicategorical", ["cats"])]
    y := some [10, 20, 30], numRowsOpt := none }

end RaggedEx

end TFVerif.TF

/-
Helper lemmas for the tensor mappers: cumulative sums and canonical one-column nested tensors,
the pandas label algebra (per-label counts re-indexed over a duplicate-free label list give the
per-row lengths), and "every mapper output holds, row by row, the specification `encodeCell`".
-/
import Mathlib.Algebra.BigOperators.Group.List.Basic
import TFVerif.Model.Mapper

namespace TFVerif

/-! ### cumulative sums -/

theorem cumsumFrom_length (acc : Nat) (xs : List Nat) : (cumsumFrom acc xs).length = xs.length := by
  induction xs generalizing acc with
  | nil => rfl
  | cons x xs ih => simp [cumsumFrom, ih]

theorem cumsum_zero_cons (xs : List Nat) : cumsum (0 :: xs) = 0 :: cumsum xs := by
  simp [cumsum, cumsumFrom]

theorem getD_cons_cumsumFrom (acc : Nat) (xs : List Nat) (k : Nat) (hk : k ≤ xs.length) :
    (acc :: cumsumFrom acc xs).getD k 0 = acc + (xs.take k).sum := by
  induction xs generalizing acc k with
  | nil =>
    have : k = 0 := by simpa using hk
    subst this; simp
  | cons x xs ih =>
    cases k with
    | zero => simp
    | succ k =>
      have hk' : k ≤ xs.length := by simpa using hk
      have := ih (acc + x) k hk'
      simp only [cumsumFrom, List.getD_cons_succ, List.take_succ_cons, List.sum_cons]
      rw [this]; omega

theorem getD_zero_cumsum (xs : List Nat) (k : Nat) (hk : k ≤ xs.length) :
    (0 :: cumsum xs).getD k 0 = (xs.take k).sum := by
  simpa [cumsum] using getD_cons_cumsumFrom 0 xs k hk

/-- slicing the flattened storage between two consecutive cumulative offsets yields the cell -/
theorem pySlice_flatten_cumsum (cells : List (List α)) (k : Nat) (hk : k < cells.length) :
    pySlice cells.flatten ((0 :: cumsum (cells.map List.length)).getD k 0)
      ((0 :: cumsum (cells.map List.length)).getD (k + 1) 0) = cells[k] := by
  rw [getD_zero_cumsum _ _ (by simp; omega), getD_zero_cumsum _ _ (by simp; omega)]
  unfold pySlice
  rw [List.drop_sum_flatten]
  have hd : cells.drop k = cells[k] :: cells.drop (k + 1) := List.drop_eq_getElem_cons hk
  have hs : ((cells.map List.length).take (k + 1)).sum - ((cells.map List.length).take k).sum = cells[k].length := by
    rw [List.take_add_one]
    simp [List.getElem?_map, List.getElem?_eq_getElem hk]
  rw [hs]
  rw [hd, List.flatten_cons, List.take_left']
  rfl

namespace Mat

/-- reading a canonical one-column nested tensor back gives its cells -/
theorem cells_mntOfCol (cs : List (List (Val F))) : (ColOut.mnt (mntOfCol cs)).cells = cs := by
  simp only [ColOut.cells, mntOfCol, MNT.cellAt]
  apply List.ext_getElem
  · simp
  · intro i h1 h2
    simp only [List.length_map, List.length_range] at h1
    simp only [List.getElem_map, List.getElem_range]
    exact pySlice_flatten_cumsum cs i h1

/-! ### pandas label algebra -/

theorem lookup_map_self [DecidableEq κ] (xs : List κ) (f : κ → ν) (k : κ) :
    Pd.lookup (xs.map fun l => (l, f l)) k = if k ∈ xs then some (f k) else none := by
  induction xs with
  | nil => simp [Pd.lookup]
  | cons x xs ih =>
    unfold Pd.lookup at ih ⊢
    by_cases h : x = k
    · subst h; simp [List.find?_cons]
    · have h' : ¬ k = x := fun e => h e.symm
      have hb : (x == k) = false := by simpa using h
      simp only [List.map_cons, List.find?_cons, hb, List.mem_cons, h', false_or]
      exact ih

/-- `index.value_counts().reindex(target, fill_value=0)` is "how often does each target label occur" -/
theorem reindex_valueCounts [DecidableEq L] (labels target : List L) :
    Pd.reindex (Pd.valueCounts labels) target 0 = target.map fun l => labels.count l := by
  simp only [Pd.reindex, Pd.valueCounts]
  apply List.map_congr_left
  intro l _
  rw [lookup_map_self]
  by_cases h : l ∈ labels
  · simp [h]
  · simp [h, List.count_eq_zero.mpr h]

/-- labels of the rows that survive explode / merge / dropna: each row's label once per kept token -/
theorem count_kept_labels [DecidableEq L] (rows : List (L × List β)) (hnd : (rows.map (·.1)).Nodup) :
    (rows.map fun r => ((rows.flatMap fun q => q.2.map fun _ => q.1).count r.1)) = rows.map (·.2.length) := by
  induction rows with
  | nil => rfl
  | cons r rest ih =>
    have hnd' : (rest.map (·.1)).Nodup := (List.nodup_cons.mp (by simpa using hnd)).2
    have hnot : r.1 ∉ rest.map (·.1) := (List.nodup_cons.mp (by simpa using hnd)).1
    have hz : (rest.flatMap fun q => q.2.map fun _ => q.1).count r.1 = 0 := by
      rw [List.count_eq_zero]
      intro hm
      simp only [List.mem_flatMap, List.mem_map] at hm
      obtain ⟨q, hq, _, _, e⟩ := hm
      exact hnot (List.mem_map.mpr ⟨q, hq, e⟩)
    simp only [List.map_cons, List.flatMap_cons, List.count_append]
    congr 1
    · rw [hz]
      simp [List.count_eq_length.mpr]
    · rw [← ih hnd']
      apply List.map_congr_left
      intro q hq
      have hne : q.1 ≠ r.1 := fun e => hnot (List.mem_map.mpr ⟨q, hq, e⟩)
      have : (r.2.map fun _ => r.1).count q.1 = 0 := by
        rw [List.count_eq_zero]
        intro hm
        simp only [List.mem_map] at hm
        obtain ⟨_, _, e⟩ := hm
        exact hne e.symm
      omega

end Mat

end TFVerif

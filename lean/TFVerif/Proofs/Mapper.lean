/-
Helper lemmas for the tensor mappers: cumulative sums and canonical one-column nested tensors,
the pandas label algebra (per-label counts re-indexed over a duplicate-free label list give the
per-row lengths), and "every mapper output holds, row by row, the specification `encodeCell`".
-/
import Mathlib.Algebra.BigOperators.Group.List.Basic
import TFVerif.Model.Mapper

namespace TFVerif

/-! ### cumulative sums -/

theorem cumsumFrom_length (acc : Nat) (xs : List Nat) : (cumsumFrom acc xs).length = xs.length := by
  induction xs generalizing acc with
  | nil => rfl
  | cons x xs ih => simp [cumsumFrom, ih]

theorem cumsum_zero_cons (xs : List Nat) : cumsum (0 :: xs) = 0 :: cumsum xs := by
  simp [cumsum, cumsumFrom]

theorem getD_cons_cumsumFrom (acc : Nat) (xs : List Nat) (k : Nat) (hk : k ≤ xs.length) :
    (acc :: cumsumFrom acc xs).getD k 0 = acc + (xs.take k).sum := by
  induction xs generalizing acc k with
  | nil =>
    have : k = 0 := by simpa using hk
    subst this; simp
  | cons x xs ih =>
    cases k with
    | zero => simp
    | succ k =>
      have hk' : k ≤ xs.length := by simpa using hk
      have := ih (acc + x) k hk'
      simp only [cumsumFrom, List.getD_cons_succ, List.take_succ_cons, List.sum_cons]
      rw [this]; omega

theorem getD_zero_cumsum (xs : List Nat) (k : Nat) (hk : k ≤ xs.length) :
    (0 :: cumsum xs).getD k 0 = (xs.take k).sum := by
  simpa [cumsum] using getD_cons_cumsumFrom 0 xs k hk

/-- slicing the flattened storage between two consecutive cumulative offsets yields the cell -/
theorem pySlice_flatten_cumsum (cells : List (List α)) (k : Nat) (hk : k < cells.length) :
    pySlice cells.flatten ((0 :: cumsum (cells.map List.length)).getD k 0)
      ((0 :: cumsum (cells.map List.length)).getD (k + 1) 0) = cells[k] := by
  rw [getD_zero_cumsum _ _ (by simp; omega), getD_zero_cumsum _ _ (by simp; omega)]
  unfold pySlice
  rw [List.drop_sum_flatten]
  have hd : cells.drop k = cells[k] :: cells.drop (k + 1) := List.drop_eq_getElem_cons hk
  have hs : ((cells.map List.length).take (k + 1)).sum - ((cells.map List.length).take k).sum = cells[k].length := by
    rw [List.take_add_one]
    simp [List.getElem?_map, List.getElem?_eq_getElem hk]
  rw [hs]
  rw [hd, List.flatten_cons, List.take_left']
  rfl

namespace Mat

/-- reading a canonical one-column nested tensor back gives its cells -/
theorem cells_mntOfCol (cs : List (List (Val F))) : (ColOut.mnt (mntOfCol cs)).cells = cs := by
  simp only [ColOut.cells, mntOfCol, MNT.cellAt]
  apply List.ext_getElem
  · simp
  · intro i h1 h2
    simp only [List.length_map, List.length_range] at h1
    simp only [List.getElem_map, List.getElem_range]
    exact pySlice_flatten_cumsum cs i h1

/-! ### pandas label algebra -/

theorem lookup_map_self [DecidableEq κ] (xs : List κ) (f : κ → ν) (k : κ) :
    Pd.lookup (xs.map fun l => (l, f l)) k = if k ∈ xs then some (f k) else none := by
  induction xs with
  | nil => simp [Pd.lookup]
  | cons x xs ih =>
    unfold Pd.lookup at ih ⊢
    by_cases h : x = k
    · subst h; simp [List.find?_cons]
    · have h' : ¬ k = x := fun e => h e.symm
      have hb : (x == k) = false := by simpa using h
      simp only [List.map_cons, List.find?_cons, hb, List.mem_cons, h', false_or]
      exact ih

/-- `index.value_counts().reindex(target, fill_value=0)` is "how often does each target label occur" -/
theorem reindex_valueCounts [DecidableEq L] (labels target : List L) :
    Pd.reindex (Pd.valueCounts labels) target 0 = target.map fun l => labels.count l := by
  simp only [Pd.reindex, Pd.valueCounts]
  apply List.map_congr_left
  intro l _
  rw [lookup_map_self]
  by_cases h : l ∈ labels
  · simp [h]
  · simp [h, List.count_eq_zero.mpr h]

/-- labels of the rows that survive explode / merge / dropna: each row's label once per kept token -/
theorem count_kept_labels [DecidableEq L] (rows : List (L × List β)) (hnd : (rows.map (·.1)).Nodup) :
    (rows.map fun r => ((rows.flatMap fun q => q.2.map fun _ => q.1).count r.1)) = rows.map (·.2.length) := by
  induction rows with
  | nil => rfl
  | cons r rest ih =>
    have hnd' : (rest.map (·.1)).Nodup := (List.nodup_cons.mp (by simpa using hnd)).2
    have hnot : r.1 ∉ rest.map (·.1) := (List.nodup_cons.mp (by simpa using hnd)).1
    have hz : (rest.flatMap fun q => q.2.map fun _ => q.1).count r.1 = 0 := by
      rw [List.count_eq_zero]
      intro hm
      simp only [List.mem_flatMap, List.mem_map] at hm
      obtain ⟨q, hq, _, _, e⟩ := hm
      exact hnot (List.mem_map.mpr ⟨q, hq, e⟩)
    simp only [List.map_cons, List.flatMap_cons, List.count_append]
    congr 1
    · rw [hz]
      simp [List.count_eq_length.mpr]
    · rw [← ih hnd']
      apply List.map_congr_left
      intro q hq
      have hne : q.1 ≠ r.1 := fun e => hnot (List.mem_map.mpr ⟨q, hq, e⟩)
      have : (r.2.map fun _ => r.1).count q.1 = 0 := by
        rw [List.count_eq_zero]
        intro hm
        simp only [List.mem_map] at hm
        obtain ⟨_, _, e⟩ := hm
        exact hne e.symm
      omega

/-! ### the multicategorical pipeline -/

theorem merged_rows [DecidableEq L] (cats : List Key) (ser : Pd.Series L (Cell F)) :
    Pd.dropna (Pd.mergeLeft (Pd.explode (ser.map fun (l, c) => (l, splitBySep c))) (multicatIndex cats)) =
      ser.flatMap fun p => (splitBySep p.2).filterMap fun t =>
        (Pd.lookup (multicatIndex cats) t).map fun i => (p.1, t, i) := by
  induction ser with
  | nil => rfl
  | cons p rest ih =>
    obtain ⟨l, c⟩ := p
    simp only [Pd.dropna, Pd.mergeLeft, Pd.explode] at ih ⊢
    simp only [List.map_cons, List.flatMap_cons, List.map_append, List.filterMap_append]
    rw [ih]
    congr 1
    cases hs : splitBySep c with
    | nil => simp
    | cons t ts =>
      simp only [List.isEmpty_cons, Bool.false_eq_true, if_false, List.map_map, List.filterMap_map]
      apply List.filterMap_congr
      intro x _
      simp only [Function.comp, Option.bind_some]
      cases Pd.lookup (multicatIndex cats) x <;> rfl

theorem kept_labels (g : Key → Option Int) (l : L) (ts : List Key) :
    ((ts.filterMap fun t => (g t).map fun i => (l, t, i)).map (·.1)) = (ts.filterMap g).map fun _ => l := by
  induction ts with
  | nil => rfl
  | cons t ts ih =>
    simp only [List.filterMap_cons]
    cases g t <;> simp [ih]

theorem kept_values (g : Key → Option Int) (l : L) (ts : List Key) :
    ((ts.filterMap fun t => (g t).map fun i => (l, t, i)).map fun x => (Val.int x.2.2 : Val F)) =
      (ts.filterMap g).map Val.int := by
  induction ts with
  | nil => rfl
  | cons t ts ih =>
    simp only [List.filterMap_cons]
    cases g t <;> simp [ih]

/-- explode / merge / dropna / per-label counts / reindex / cumsum over ANY duplicate-free labelling
    stores exactly the per-row kept indices, in row order -/
theorem multicatPipeline_nodup [DecidableEq L] (cats : List Key) (ser : Pd.Series L (Cell F))
    (hnd : (ser.map (·.1)).Nodup) :
    multicatPipeline cats ser = mntOfCol (ser.map fun p => (tokenIndices cats p.2).map (Val.int : Int → Val F)) := by
  have hm := merged_rows cats ser
  simp only [multicatPipeline, mntOfCol]
  rw [hm, reindex_valueCounts, cumsum_zero_cons]
  have hlab : ((ser.flatMap fun p => (splitBySep p.2).filterMap fun t =>
        (Pd.lookup (multicatIndex cats) t).map fun i => (p.1, t, i)).map (·.1)) =
      ((ser.map fun p => (p.1, tokenIndices cats p.2)).flatMap fun q => q.2.map fun _ => q.1) := by
    rw [List.map_flatMap, List.flatMap_map]
    apply List.flatMap_congr
    intro p _
    exact kept_labels _ _ _
  have hcnt := count_kept_labels (ser.map fun p => (p.1, tokenIndices cats p.2))
    (by rw [List.map_map]; exact hnd)
  congr 1
  · simp
  · rw [List.map_flatMap, List.flatMap_def]
    congr 1
    apply List.map_congr_left
    intro p _
    exact kept_values _ _ _
  · congr 1
    rw [hlab]
    rw [List.map_map, List.map_map] at hcnt
    rw [List.map_map, List.map_map]
    apply congrArg cumsum
    apply List.map_congr_left
    intro p hp
    have := List.map_inj_left.mp hcnt p hp
    simpa [Function.comp] using this

theorem resetIndex_labels (s : Pd.Series L α) : (Pd.resetIndex s).map (·.1) = List.range s.length := by
  simp only [Pd.resetIndex]
  rw [List.map_fst_zip] <;> simp

theorem resetIndex_values (s : Pd.Series L α) : (Pd.resetIndex s).map (·.2) = s.map (·.2) := by
  simp only [Pd.resetIndex]
  rw [List.map_snd_zip] <;> simp

theorem zip_map_snd (labels : List L) (cells : List α) (h : labels.length = cells.length) :
    (labels.zip cells).map (·.2) = cells := by
  rw [List.map_snd_zip]; omega

/-- the mapper with the fix: whatever the caller's labels (duplicates, strings, …) -/
theorem multicatForward_eq (cats : List Key) (labels : List L) (cells : List (Cell F))
    (h : labels.length = cells.length) :
    multicatForward cats labels cells =
      mntOfCol (cells.map fun c => (tokenIndices cats c).map (Val.int : Int → Val F)) := by
  unfold multicatForward
  rw [multicatPipeline_nodup cats _ (by rw [resetIndex_labels]; exact List.nodup_range)]
  congr 1
  have : (Pd.resetIndex (labels.zip cells)).map (fun p => (tokenIndices cats p.2).map (Val.int : Int → Val F)) =
      ((Pd.resetIndex (labels.zip cells)).map (·.2)).map
        fun c => (tokenIndices cats c).map (Val.int : Int → Val F) := by
    simp [List.map_map, Function.comp]
  rw [this, resetIndex_values, zip_map_snd labels cells h]

/-! ### category lookup = position in the ordered list -/

theorem find_zipIdx (cats : List Key) (t : Key) (k : Nat) :
    ((cats.zipIdx k).find? fun p => p.1 == t) = (cats.findIdx? (· == t)).map fun i => (t, i + k) := by
  induction cats generalizing k with
  | nil => rfl
  | cons c cs ih =>
    simp only [List.zipIdx_cons, List.find?_cons, List.findIdx?_cons]
    by_cases h : c = t
    · subst h; simp
    · have hb : (c == t) = false := by simpa using h
      simp only [hb, Bool.false_eq_true, if_false]
      rw [ih (k + 1)]
      cases cs.findIdx? (· == t) <;> simp; omega

theorem lookup_zipIdx (cats : List Key) (t : Key) : Pd.lookup cats.zipIdx t = catPos cats t := by
  simp only [Pd.lookup, catPos, find_zipIdx cats t 0]
  cases cats.findIdx? (· == t) <;> simp

theorem lookup_multicatIndex (cats : List Key) (t : Key) :
    Pd.lookup (multicatIndex cats) t =
      match catPos cats t with
      | some i => some (i : Int)
      | none => if missingTok = t then some (-1) else none := by
  simp only [Pd.lookup, multicatIndex, List.find?_append, List.find?_map]
  have h := find_zipIdx cats t 0
  have hf : ((fun p : Key × Int => p.1 == t) ∘ fun x : Key × Nat => (x.1, (x.2 : Int))) = fun p => p.1 == t := by
    funext p; rfl
  rw [hf, h]
  simp only [catPos]
  cases cats.findIdx? (· == t) with
  | some i => simp
  | none =>
    by_cases hm : missingTok = t
    · simp [hm]
    · have hb : (missingTok == t) = false := by simpa using hm
      simp [hm, hb, List.find?_cons]

/-! ### each mapper output holds, row by row, `encodeCell` -/

theorem categoricalForward_eq (cfg : ColCfg F) (labels : List L) (cells : List (Cell F))
    (h : labels.length = cells.length) :
    categoricalForward cfg.cats labels cells = cells.map (encodeCell cfg .categorical) := by
  simp only [categoricalForward, Pd.mergeLeft, List.map_map]
  have hz : ∀ (ls : List L) (cs : List (Cell F)), ls.length = cs.length →
      (ls.zip (cs.map cellKey)).map ((fun x : L × Option Key × Option Nat =>
          match x with
          | (_, _, idx) => match idx with
            | some i => [(Val.int i : Val F)]
            | none => [Val.int (-1)]) ∘
        fun x : L × Option Key => (x.1, x.2, x.2.bind (Pd.lookup cfg.cats.zipIdx))) =
      cs.map (encodeCell cfg .categorical) := by
    intro ls
    induction ls with
    | nil => intro cs hl; cases cs <;> simp_all
    | cons l ls ih =>
      intro cs hl
      cases cs with
      | nil => simp at hl
      | cons c cs =>
        simp only [List.map_cons, List.zip_cons_cons]
        rw [ih cs (by simpa using hl)]
        congr 1
        cases c <;> simp [cellKey, encodeCell, Function.comp, lookup_zipIdx] <;>
          (rename_i k; cases catPos cfg.cats k <;> simp)
  exact hz labels cells h

theorem flatMap_filter_nonempty (cells : List (Cell F)) :
    (cells.filter fun c => (seqVals c).length != 0).flatMap seqVals = (cells.map seqVals).flatten := by
  induction cells with
  | nil => rfl
  | cons c cs ih =>
    simp only [List.filter_cons, List.map_cons, List.flatten_cons]
    by_cases h : (seqVals c).length = 0
    · have : seqVals c = [] := List.length_eq_zero_iff.mp h
      simp [h, this, ih]
    · simp [h, ih]

theorem sequenceForward_eq (cells : List (Cell F)) :
    sequenceForward cells = mntOfCol (cells.map seqVals) := by
  simp only [sequenceForward, mntOfCol, cumsum_zero_cons, flatMap_filter_nonempty, List.map_map, List.length_map]
  rfl

theorem catPos_none_of_not_mem (cats : List Key) (t : Key) (h : t ∉ cats) : catPos cats t = none := by
  unfold catPos
  rw [List.findIdx?_eq_none_iff]
  intro x hx
  have hne : x ≠ t := fun e => h (e ▸ hx)
  simpa using hne

theorem tokenIndices_eq_encode (cfg : ColCfg F) (c : Cell F) (hm : missingTok ∉ cfg.cats)
    (ht : ∀ ts, c = .toks ts → missingTok ∉ ts) :
    (tokenIndices cfg.cats c).map (Val.int : Int → Val F) = encodeCell cfg .multicategorical c := by
  cases c with
  | missing =>
    simp [tokenIndices, splitBySep, encodeCell, lookup_multicatIndex, catPos_none_of_not_mem _ _ hm]
  | toks ts =>
    simp only [tokenIndices, splitBySep, encodeCell, List.map_filterMap]
    apply List.filterMap_congr
    intro t htm
    have hne : ¬ missingTok = t := by
      intro e
      have : t ∈ ts := List.mem_eraseDups.mp htm
      exact ht ts rfl (e ▸ this)
    rw [lookup_multicatIndex]
    cases catPos cfg.cats t <;> simp [hne]
  | _ => simp [tokenIndices, splitBySep, encodeCell]

/-- Every mapper output holds, row by row, the specification `encodeCell` of the raw cell. -/
theorem forward_cells (cfg : ColCfg F) (s : Stype) (labels : List L) (cells : List (Cell F))
    (h : labels.length = cells.length) (hwf : ColWF cfg s cells) :
    (forward cfg s labels cells).cells = cells.map (encodeCell cfg s) := by
  obtain ⟨hs, hmc, hemb⟩ := hwf
  cases s with
  | numerical =>
    simp only [forward, ColOut.cells, numericalForward]
    apply List.map_congr_left
    intro c _
    cases c <;> rfl
  | categorical => simp only [forward, ColOut.cells, categoricalForward_eq cfg labels cells h]
  | multicategorical =>
    obtain ⟨hm, ht⟩ := hmc rfl
    simp only [forward, multicatForward_eq cfg.cats labels cells h, cells_mntOfCol]
    apply List.map_congr_left
    intro c hc
    exact tokenIndices_eq_encode cfg c hm (fun ts e => ht ts (e ▸ hc))
  | sequence_numerical =>
    simp only [forward, sequenceForward_eq, cells_mntOfCol]
    apply List.map_congr_left
    intro c _
    cases c <;> rfl
  | timestamp =>
    simp only [forward, ColOut.cells, timestampForward]
    apply List.map_congr_left
    intro c _
    cases c <;> rfl
  | embedding =>
    obtain ⟨h0, _⟩ := hemb rfl
    simp only [forward, ColOut.cells, embeddingForward, metOfRows, h0, if_true]
    apply List.map_congr_left
    intro c _
    cases c <;> simp [Cell.isMissing, cellVec, encodeCell]
  | text_embedded => simp only [forward, ColOut.cells, embedderForward, metOfRows]; rfl
  | image_embedded => simp only [forward, ColOut.cells, embedderForward, metOfRows]; rfl
  | text_tokenized => exact absurd rfl hs

end Mat

end TFVerif

/-
The literally transcribed primitives (`…Impl`) equal the structural ones the refinement proofs use.
Core Lean only.
-/
import TFVerif.Proofs.RaggedCanon
import Mathlib.Data.List.Induction

namespace TFVerif

/-! ### `_batched_arange`: code = docstring -/

theorem cumsumFrom_append (acc : Nat) (xs ys : List Nat) :
    cumsumFrom acc (xs ++ ys) = cumsumFrom acc xs ++ cumsumFrom (acc + xs.sum) ys := by
  induction xs generalizing acc with
  | nil => simp [cumsumFrom]
  | cons x xs ih => simp [cumsumFrom, ih, Nat.add_assoc]

theorem batch_length (cs : List Nat) :
    ((List.range cs.length).flatMap fun i => List.replicate (cs.getD i 0) i).length = cs.sum := by
  induction cs using List.reverseRecOn with
  | nil => rfl
  | append_singleton cs c ih =>
    simp only [List.length_append, List.length_cons, List.length_nil, List.range_succ,
      List.flatMap_append, List.flatMap_singleton, List.length_replicate, List.sum_append, List.sum_cons,
      List.sum_nil]
    have h1 : ((List.range cs.length).flatMap fun i => List.replicate ((cs ++ [c]).getD i 0) i)
        = (List.range cs.length).flatMap fun i => List.replicate (cs.getD i 0) i := by
      apply flatMap_congr'
      intro i hi
      have : i < cs.length := by simpa using hi
      simp [List.getD_eq_getElem?_getD, List.getElem?_append_left this]
    rw [h1, ih]
    simp [List.getD_eq_getElem?_getD]

theorem batchedArangeImpl_eq (count : List Nat) : batchedArangeImpl count = batchedArange count := by
  induction count using List.reverseRecOn with
  | nil => rfl
  | append_singleton cs c ih =>
    unfold batchedArangeImpl batchedArange at *
    simp only [List.length_append, List.length_cons, List.length_nil, List.range_succ,
      List.flatMap_append, List.flatMap_singleton, List.zipIdx_append, List.map_append] at ih ⊢
    have h1 : ((List.range cs.length).flatMap fun i => List.replicate ((cs ++ [c]).getD i 0) i)
        = (List.range cs.length).flatMap fun i => List.replicate (cs.getD i 0) i := by
      apply flatMap_congr'
      intro i hi
      have : i < cs.length := by simpa using hi
      simp [List.getD_eq_getElem?_getD, List.getElem?_append_left this]
    rw [h1]
    congr 1
    · -- earlier blocks: the pointer entries they read are unchanged
      rw [← ih]
      apply List.map_congr_left
      intro ⟨b, k⟩ hbk
      have hb : b < cs.length := by
        have := List.mem_zipIdx hbk
        have hmem : b ∈ (List.range cs.length).flatMap fun i => List.replicate (cs.getD i 0) i := by
          have h3 := (List.mem_zipIdx_iff_getElem?.1 hbk)
          exact List.mem_of_getElem? h3
        simp only [List.mem_flatMap, List.mem_range, List.mem_replicate] at hmem
        obtain ⟨i, hi, _, rfl⟩ := hmem
        exact hi
      simp only [cumsum, cumsumFrom_append]
      congr 2
      cases b with
      | zero => rfl
      | succ b' =>
        simp only [List.getD_cons_succ]
        have : b' < (cumsumFrom 0 cs).length := by
          have : (cumsumFrom 0 cs).length = cs.length := by
            have := ps_length 0 cs; rw [← ps_eq_cumsumFrom] at this; simpa using this
          omega
        simp [List.getD_eq_getElem?_getD, List.getElem?_append_left this]
    · -- the new last block
      have hg : (cs ++ [c]).getD cs.length 0 = c := by simp [List.getD_eq_getElem?_getD]
      rw [hg, batch_length cs]
      have hptr : (0 :: cumsum (cs ++ [c])).getD cs.length 0 = cs.sum := by
        rw [psums_eq, ps_getD 0 _ cs.length (by simp)]
        simp
      simp only [List.zipIdx_cons, List.zipIdx_nil, List.flatMap_cons, List.flatMap_nil, List.append_nil,
        Nat.zero_add]
      apply List.ext_getElem
      · simp
      · intro i h1 h2
        simp only [List.length_map, List.length_zipIdx, List.length_replicate] at h1
        simp only [List.getElem_map, List.getElem_zipIdx, List.getElem_replicate, List.getElem_range, hptr]
        congr 1
        omega

end TFVerif


/-
Helper lemmas for property C12 only: *totality* of the encoder model on fitted data.
"Whatever the mappers emit for data the statistics were computed from lies inside the domain the encoders
accept, so encoding never fails on materialized data."
-/
import TFVerif.Proofs.Encoder

namespace TFVerif.Enc
open TFVerif

/-! ## a Boolean `all` over a matrix from a statement about its cells -/

theorem all_of_cells {α : Type} (p : α → Bool) (x : Mat α)
    (h : ∀ r c a, cell x r c = some a → p a = true) : (x.all (·.all p)) = true := by
  simp only [List.all_eq_true]
  intro row hrow a ha
  obtain ⟨r, c, hc⟩ := mem_cell hrow ha
  exact h r c a hc

/-! ## the four index-consuming encoders accept everything inside their domain -/

theorem embeddingEncode_total {R : Type} (ns : List Nat) (table : Mat R) (x : Mat Int)
    (ht : table.length = ns.sum + 1)
    (hx : ∀ r c v, cell x r c = some v → ∀ hc : c < ns.length, -1 ≤ v ∧ v < ns[c]) :
    ∃ y, embeddingEncode (embOffsets ns) table x = some y := by
  unfold embeddingEncode
  simp only
  rw [if_pos]
  · exact ⟨_, rfl⟩
  apply all_of_cells
  intro r c i hi
  simp only [cell_zip2, cell_map2, cell_bcast2] at hi
  cases hv : cell x r c with
  | none => simp [hv] at hi
  | some v =>
    by_cases hc : c < ns.length
    · rw [hv] at hi
      simp only [embOffsets_getElem? ns c hc, Option.map_some, Option.bind_some, Option.some.injEq] at hi
      obtain ⟨h1, h2⟩ := hx r c v hv hc
      have h3 := sum_take_succ ns c hc
      have h4 := sum_take_le ns (c + 1)
      subst hi
      simp only [Int.ofNat_eq_natCast, Bool.and_eq_true, decide_eq_true_eq, ht]
      split <;> omega
    · have hn : (embOffsets ns)[c]? = none := by
        simp [embOffsets, cumsum_length]; omega
      simp [hv, hn] at hi

theorem bagEncode_total {R : Type} (S : SOps R) (mode : BagMode) (tables : T3 R) (ch : Nat) (x : Mat (List Int))
    (hx : ∀ r c bag, cell x r c = some bag → ∀ tbl, tables[c]? = some tbl → bagInRange tbl bag = true) :
    ∃ y, bagEncode S mode tables ch x = some y := by
  unfold bagEncode
  rw [if_pos]
  · exact ⟨_, rfl⟩
  have hb : (x.all fun row => (List.zipWith (fun bag tbl => bagInRange tbl bag) row tables).all id) =
      ((bcast2 (fun bag tbl => bagInRange tbl bag) x tables).all (·.all id)) := by
    simp [bcast2, List.all_map, Function.comp_def]
  rw [hb]
  apply all_of_cells
  intro r c b hb'
  simp only [cell_bcast2] at hb'
  cases hv : cell x r c with
  | none => simp [hv] at hb'
  | some bag =>
    cases ht : tables[c]? with
    | none => simp [hv, ht] at hb'
    | some tbl =>
      simp only [hv, ht, Option.bind_some, Option.map_some, Option.some.injEq] at hb'
      subst hb'
      exact hx r c bag hv tbl ht

theorem timestampEncode_total {R : Type} (S : SOps R) (minYear maxValues : List Int) (outSize : Nat)
    (weight : List (T3 R)) (bias : Mat R) (ch : Nat) (x : Mat (List Int))
    (hx : ∀ r c ts, cell x r c = some ts → ∀ y, minYear[c]? = some y → tsDomainOk maxValues ts y = true) :
    ∃ y, timestampEncode S minYear maxValues outSize weight bias ch x = some y := by
  unfold timestampEncode
  simp only
  rw [if_pos]
  · exact ⟨_, rfl⟩
  apply all_of_cells
  intro r c b hb'
  simp only [cell_bcast2] at hb'
  cases hv : cell x r c with
  | none => simp [hv] at hb'
  | some ts =>
    cases ht : minYear[c]? with
    | none => simp [hv, ht] at hb'
    | some y =>
      simp only [hv, ht, Option.bind_some, Option.map_some, Option.some.injEq] at hb'
      subst hb'
      exact hx r c ts hv y ht

theorem linearEmbEncode_total {R : Type} (S : SOps R) (dims : List Nat) (weights : T3 R) (biases : Mat R) (ch : Nat)
    (values : Mat R) (hx : ∀ row ∈ values, dims.sum ≤ row.length) :
    ∃ y, linearEmbEncode S dims weights biases ch values = some y := by
  unfold linearEmbEncode
  rw [if_pos]
  · exact ⟨_, rfl⟩
  simp only [List.all_eq_true, decide_eq_true_eq]
  exact hx

/-! ## inversion of `init_modules` -/

section
variable {R : Type} (S : SOps R)

def Weights.isNum : Weights R → Bool
  | .linear .. | .stack | .bucket .. | .periodic .. | .excel .. => true
  | _ => false

theorem encode_num_total (stats : List (ColStat R)) (ch : Nat) (w : Weights R) (p : Params R)
    (hw : w.isNum = true) (h : mkParams S stats ch w = some p) (C : Nat) (x : Mat R) :
    ∃ y, encodeForward S p ch C (.num x) = some y := by
  cases w <;> simp only [Weights.isNum] at hw <;> try cases hw
  all_goals
    simp only [mkParams] at h
    first
    | (cases hn : mkNorm S stats with
       | none => simp [hn, bind, Option.bind] at h
       | some n =>
         simp only [hn, bind, Option.bind, pure] at h
         first
         | (injection h with h; subst h; exact ⟨_, rfl⟩)
         | (split at h
            · injection h with h; subst h; exact ⟨_, rfl⟩
            · cases h))
    | (cases hq : gather statQuantiles stats with
       | none => simp [hq, bind, Option.bind] at h
       | some q =>
         simp only [hq, bind, Option.bind, pure] at h
         split at h
         · injection h with h; subst h; exact ⟨_, rfl⟩
         · cases h)

theorem mkParams_embedding_inv (stats : List (ColStat R)) (ch : Nat) (table : Mat R) (p : Params R)
    (h : mkParams S stats ch (.embedding table) = some p) :
    ∃ ns, gather statNumCat stats = some ns ∧ table.length = ns.sum + 1 ∧ p = .embedding (embOffsets ns) table := by
  simp only [mkParams] at h
  cases hq : gather statNumCat stats with
  | none => simp [hq, bind, Option.bind] at h
  | some ns =>
    simp only [hq, bind, Option.bind] at h
    split at h
    · rename_i hc
      simp only [Bool.and_eq_true, beq_iff_eq] at hc
      injection h with h
      exact ⟨ns, rfl, hc.1, h.symm⟩
    · cases h

theorem mkParams_bag_inv (stats : List (ColStat R)) (ch : Nat) (mode : BagMode) (tables : T3 R) (p : Params R)
    (h : mkParams S stats ch (.bag mode tables) = some p) :
    ∃ ns, gather statNumMulti stats = some ns ∧ tables.length = ns.length ∧
      (∀ (c : Nat) (tbl : Mat R) (n : Nat), tables[c]? = some tbl → ns[c]? = some n → tbl.length = n + 1) ∧ p = .bag mode tables := by
  simp only [mkParams] at h
  cases hq : gather statNumMulti stats with
  | none => simp [hq, bind, Option.bind] at h
  | some ns =>
    simp only [hq, bind, Option.bind] at h
    split at h
    · rename_i hc
      simp only [Bool.and_eq_true, beq_iff_eq, List.all_eq_true] at hc
      injection h with h
      refine ⟨ns, rfl, hc.1, ?_, h.symm⟩
      intro c tbl n h1 h2
      have := hc.2 (tbl.length == n + 1) (by
        apply List.mem_iff_getElem?.mpr
        exact ⟨c, by simp [List.getElem?_zipWith, h1, h2]⟩)
      simpa using this
    · cases h

theorem mkParams_timestamp_inv (stats : List (ColStat R)) (ch os : Nat) (wt : List (T3 R)) (b : Mat R) (p : Params R)
    (h : mkParams S stats ch (.timestamp os wt b) = some p) :
    ∃ ys, gather statMinYear stats = some ys ∧ p = .timestamp ys cyclicConst os wt b := by
  simp only [mkParams] at h
  cases hq : gather statMinYear stats with
  | none => simp [hq, bind, Option.bind] at h
  | some ys =>
    simp only [hq, bind, Option.bind] at h
    split at h
    · cases h
    · split at h
      · injection h with h
        exact ⟨ys, rfl, h.symm⟩
      · cases h

theorem mkParams_linearEmb_inv (stats : List (ColStat R)) (ch : Nat) (ws : T3 R) (bs : Mat R) (p : Params R)
    (h : mkParams S stats ch (.linearEmb ws bs) = some p) :
    ∃ ds, gather statDim stats = some ds ∧ p = .linearEmb ds ws bs := by
  simp only [mkParams] at h
  cases hq : gather statDim stats with
  | none => simp [hq, bind, Option.bind] at h
  | some ds =>
    simp only [hq, bind, Option.bind] at h
    split at h
    · injection h with h
      exact ⟨ds, rfl, h.symm⟩
    · cases h

theorem mkFill_numerical_inv (na : Option NA) (stats : List (ColStat R)) (fill : Option (Fill R))
    (h : mkFill S .numerical na stats = some fill) : fill = none ∨ ∃ v, fill = some (.num v) := by
  cases na with
  | none => simp only [mkFill] at h; injection h with h; exact Or.inl h.symm
  | some na =>
    right
    cases na <;> simp [mkFill, naValid] at h
    · obtain ⟨v, _, hv⟩ := h
      exact ⟨v, hv.symm⟩
    · exact ⟨_, h.symm⟩

end

section
variable {R : Type} (S : SOps R)

theorem mkFill_categorical_inv (na : Option NA) (stats : List (ColStat R)) (fill : Option (Fill R))
    (h : mkFill S .categorical na stats = some fill) :
    fill = none ∨ (na = some .mostFrequent ∧ fill = some (.int (stats.map fun _ => 0))) := by
  cases na with
  | none => simp only [mkFill] at h; injection h with h; exact Or.inl h.symm
  | some na =>
    right
    cases na <;> simp [mkFill, naValid] at h
    exact ⟨rfl, h.symm⟩

theorem mkFill_multicategorical_inv (na : Option NA) (stats : List (ColStat R)) (fill : Option (Fill R))
    (h : mkFill S .multicategorical na stats = some fill) :
    fill = none ∨ (na = some .zeros ∧ fill = some (.int (stats.map fun _ => 0))) := by
  cases na with
  | none => simp only [mkFill] at h; injection h with h; exact Or.inl h.symm
  | some na =>
    right
    cases na <;> simp [mkFill, naValid] at h
    exact ⟨rfl, h.symm⟩

theorem mkFill_timestamp_inv (na : Option NA) (stats : List (ColStat R)) (fill : Option (Fill R))
    (h : mkFill S .timestamp na stats = some fill) :
    fill = none ∨ ∃ (na' : NA) (v : Mat Int), fill = some (.time v) ∧ ∀ c : Nat, v[c]? = (stats[c]?).bind (statTime na') := by
  cases na with
  | none => simp only [mkFill] at h; injection h with h; exact Or.inl h.symm
  | some na =>
    right
    cases na <;> simp [mkFill, naValid] at h
    all_goals
      obtain ⟨v, hv, hf⟩ := h
      exact ⟨_, v, hf.symm, gather_getElem? _ _ _ hv⟩

theorem mkFill_embedding_inv (na : Option NA) (stats : List (ColStat R)) (fill : Option (Fill R))
    (h : mkFill S .embedding na stats = some fill) : fill = none := by
  cases na with
  | none => simp only [mkFill] at h; injection h with h; exact h.symm
  | some na => simp [mkFill, naValid] at h

end

/-! ## encoding never fails on fitted data -/

section
variable {R : Type} (S : SOps R)

/-- the key under which `tf.feat_dict` holds a block -/
def Feat.stype : Feat R → Stype
  | .num _ => .numerical | .cat _ => .categorical | .bags _ => .multicategorical
  | .time _ => .timestamp | .emb .. => .embedding

/-- what the mappers emit for the columns whose statistics are `stats` (C01/C03): category indices in
    `[-1, n_c)`, bag entries in `[-1, n_c)`, calendar cells inside the positional / cyclic domain relative to
    the column's fitted minimum year (`calendar_in_encoder_domain` + `fitted_year_ge_min`), embedding rows as
    wide as the fitted `EMB_DIM`s together. Numerical cells are unconstrained (any float, NaN, ±inf). -/
def Fitted (stats : List (ColStat R)) : Feat R → Prop
  | .num _ => True
  | .cat x => ∀ (r c : Nat) (v : Int), cell x r c = some v →
      ∀ n : Nat, (stats[c]?).bind statNumCat = some n → -1 ≤ v ∧ v < (n : Int)
  | .bags x => ∀ (r c : Nat) (bag : List Int), cell x r c = some bag →
      ∀ n : Nat, (stats[c]?).bind statNumMulti = some n → ∀ t ∈ bag, -1 ≤ t ∧ t < (n : Int)
  | .time x => ∀ (r c : Nat) (ts : List Int), cell x r c = some ts →
      ∀ y : Int, (stats[c]?).bind statMinYear = some y → tsDomainOk cyclicConst ts y = true
  | .emb _ vals => ∀ ds : List Nat, gather statDim stats = some ds → ∀ row ∈ vals, ds.sum ≤ row.length

/-- what an NA strategy needs of the statistics: the imputed value must itself be a fitted value.
    `most_frequent` imputes category 0, which exists as soon as the column has one non-missing cell;
    the three timestamp strategies impute a fitted timestamp; `zeros` on a multicategorical column imputes
    category 0, which exists only if the fitted vocabulary is non-empty (NOT implied by "one non-missing cell":
    a column whose non-missing cells are all empty lists has `n = 0`). -/
def FittedStats (na : Option NA) (stats : List (ColStat R)) : Prop :=
  ∀ s ∈ stats, match s with
    | .cat n => na = some .mostFrequent → 1 ≤ n
    | .multi n => na = some .zeros → 1 ≤ n
    | .time y nw ol md => tsDomainOk cyclicConst nw y = true ∧ tsDomainOk cyclicConst ol y = true ∧
        tsDomainOk cyclicConst md y = true
    | _ => True


theorem fittedStats_cat (na : Option NA) (stats : List (ColStat R)) (h : FittedStats na stats) (c n : Nat)
    (hc : (stats[c]?).bind statNumCat = some n) (hna : na = some .mostFrequent) : 1 ≤ n := by
  cases hs : stats[c]? with
  | none => simp [hs] at hc
  | some s =>
    have hm := h s (mem_of_getElem? hs)
    cases s <;> simp [hs, statNumCat] at hc
    subst hc
    exact hm hna

theorem fittedStats_multi (na : Option NA) (stats : List (ColStat R)) (h : FittedStats na stats) (c n : Nat)
    (hc : (stats[c]?).bind statNumMulti = some n) (hna : na = some .zeros) : 1 ≤ n := by
  cases hs : stats[c]? with
  | none => simp [hs] at hc
  | some s =>
    have hm := h s (mem_of_getElem? hs)
    cases s <;> simp [hs, statNumMulti] at hc
    subst hc
    exact hm hna

theorem fittedStats_time (na : Option NA) (stats : List (ColStat R)) (h : FittedStats na stats) (c : Nat) (y : Int)
    (f : List Int) (na' : NA) (hy : (stats[c]?).bind statMinYear = some y)
    (hf : (stats[c]?).bind (statTime na') = some f) : tsDomainOk cyclicConst f y = true := by
  cases hs : stats[c]? with
  | none => simp [hs] at hy
  | some s =>
    have hm := h s (mem_of_getElem? hs)
    cases s <;> simp [hs, statMinYear] at hy
    subst hy
    simp only [hs, Option.bind_some, statTime] at hf
    cases na' <;> simp at hf <;> subst hf
    · exact hm.2.1
    · exact hm.1
    · exact hm.2.2

theorem forward_of (e : Encoder R) (B C : Nat) (feat f1 : Feat R) (y : T3 R)
    (h1 : naForward S e.fill feat = some f1) (h2 : encodeForward S e.params e.ch C f1 = some y) :
    ∃ o, forward S e B C C feat = some o := by
  unfold forward
  simp [h1, h2, bind, Option.bind]

theorem wiseOk_mem (c : EncClass) (st : Stype) (na : Option NA) (h : wiseOk c st na = true) : st ∈ supported c := by
  simp only [wiseOk, Bool.and_eq_true, List.contains_iff_mem] at h
  exact h.1.2

theorem forward_total (st : Stype) (na : Option NA) (stats : List (ColStat R)) (ch : Nat) (w : Weights R)
    (post : Post R) (e : Encoder R) (hadm : wiseOk w.cls st na = true)
    (hinit : initModules S st na stats ch w post = some e)
    (B : Nat) (feat : Feat R) (hst : feat.stype = st)
    (hfit : Fitted stats feat) (hstats : FittedStats na stats) :
    ∃ o, forward S e B stats.length stats.length feat = some o := by
  have hmem := wiseOk_mem _ _ _ hadm
  unfold initModules at hinit
  cases hfl : mkFill S st na stats with
  | none => simp [hfl, bind, Option.bind] at hinit
  | some fill =>
    cases hpr : mkParams S stats ch w with
    | none => simp [hfl, hpr, bind, Option.bind] at hinit
    | some p =>
      simp only [hfl, hpr, bind, Option.bind, pure] at hinit
      injection hinit with hinit
      subst hinit
      by_cases hnum : w.isNum = true
      · -- the five numerical encoders accept every float matrix
        have hs : st = .numerical := by
          cases w <;> simp [Weights.isNum] at hnum <;> simpa [Weights.cls, supported] using hmem
        subst hs
        cases feat <;> simp only [Feat.stype] at hst <;> try cases hst
        rename_i x
        have hfill := mkFill_numerical_inv S na stats fill hfl
        have hna : ∃ x', naForward S fill (.num x) = some (.num x') := by
          rcases hfill with rfl | ⟨v, rfl⟩
          · exact ⟨x, rfl⟩
          · exact ⟨_, rfl⟩
        obtain ⟨x', hx'⟩ := hna
        obtain ⟨y, hy⟩ := encode_num_total S stats ch w p hnum hpr stats.length x'
        exact forward_of S ⟨ch, fill, p, post⟩ B stats.length _ _ y hx' hy
      · cases w with
        | linear _ _ => exact absurd rfl hnum
        | stack => exact absurd rfl hnum
        | bucket _ _ => exact absurd rfl hnum
        | periodic _ _ => exact absurd rfl hnum
        | excel _ _ _ _ => exact absurd rfl hnum
        | embedding table =>
          have hs : st = .categorical := by simpa [Weights.cls, supported] using hmem
          subst hs
          cases feat <;> simp only [Feat.stype] at hst <;> try cases hst
          rename_i x
          obtain ⟨ns, hns, htl, rfl⟩ := mkParams_embedding_inv S stats ch table p hpr
          simp only [Fitted] at hfit
          have hfill := mkFill_categorical_inv S na stats fill hfl
          have hna : ∃ x', naForward S fill (.cat x) = some (.cat x') ∧
              ∀ r c v, cell x' r c = some v → ∀ hc : c < ns.length, -1 ≤ v ∧ v < ns[c] := by
            rcases hfill with rfl | ⟨hna, rfl⟩
            · refine ⟨x, rfl, ?_⟩
              intro r c v hv hc
              have hg := gather_getElem? _ _ _ hns c
              rw [List.getElem?_eq_getElem hc] at hg
              exact hfit r c v hv ns[c] hg.symm
            · refine ⟨_, rfl, ?_⟩
              intro r c v hv hc
              simp only [cell_bcast2] at hv
              cases hx : cell x r c with
              | none => simp [hx] at hv
              | some a =>
                have hcs : c < stats.length := by rw [← gather_length _ _ _ hns]; exact hc
                simp only [hx, Option.bind_some, List.getElem?_map, List.getElem?_eq_getElem hcs, Option.map_some,
                  Option.some.injEq] at hv
                have hg := gather_getElem? _ _ _ hns c
                rw [List.getElem?_eq_getElem hc] at hg
                have hb := hfit r c a hx ns[c] hg.symm
                have hn1 := fittedStats_cat na stats hstats c ns[c] hg.symm hna
                subst hv
                split <;> omega
          obtain ⟨x', hx', hdom⟩ := hna
          obtain ⟨y, hy⟩ := embeddingEncode_total ns table x' htl hdom
          exact forward_of S ⟨ch, fill, .embedding (embOffsets ns) table, post⟩ B stats.length _ _ y hx' hy
        | bag mode tables =>
          have hs : st = .multicategorical := by simpa [Weights.cls, supported] using hmem
          subst hs
          cases feat <;> simp only [Feat.stype] at hst <;> try cases hst
          rename_i x
          obtain ⟨ns, hns, htl, htb, rfl⟩ := mkParams_bag_inv S stats ch mode tables p hpr
          simp only [Fitted] at hfit
          have hfill := mkFill_multicategorical_inv S na stats fill hfl
          have hna : ∃ x', naForward S fill (.bags x) = some (.bags x') ∧
              ∀ r c bag, cell x' r c = some bag → ∀ tbl, tables[c]? = some tbl → bagInRange tbl bag = true := by
            rcases hfill with rfl | ⟨hna, rfl⟩
            · refine ⟨x, rfl, ?_⟩
              intro r c bag hv tbl htbl
              have hc : c < ns.length := by
                rw [← htl]; exact (List.getElem?_eq_some_iff.mp htbl).1
              have hg := gather_getElem? _ _ _ hns c
              rw [List.getElem?_eq_getElem hc] at hg
              exact bagInRange_of_bounds tbl ns[c] bag (htb c tbl ns[c] htbl (List.getElem?_eq_getElem hc))
                (hfit r c bag hv ns[c] hg.symm)
            · refine ⟨_, rfl, ?_⟩
              intro r c bag hv tbl htbl
              have hc : c < ns.length := by
                rw [← htl]; exact (List.getElem?_eq_some_iff.mp htbl).1
              have hcs : c < stats.length := by rw [← gather_length _ _ _ hns]; exact hc
              have hg := gather_getElem? _ _ _ hns c
              rw [List.getElem?_eq_getElem hc] at hg
              simp only [cell_bcast2] at hv
              cases hx : cell x r c with
              | none => simp [hx] at hv
              | some a =>
                simp only [hx, Option.bind_some, List.getElem?_map, List.getElem?_eq_getElem hcs, Option.map_some,
                  Option.some.injEq] at hv
                have hb := hfit r c a hx ns[c] hg.symm
                have hn1 := fittedStats_multi na stats hstats c ns[c] hg.symm hna
                apply bagInRange_of_bounds tbl ns[c] bag (htb c tbl ns[c] htbl (List.getElem?_eq_getElem hc))
                subst hv
                intro t ht
                simp only [List.mem_map] at ht
                obtain ⟨t0, ht0, rfl⟩ := ht
                have := hb t0 ht0
                split <;> omega
          obtain ⟨x', hx', hdom⟩ := hna
          obtain ⟨y, hy⟩ := bagEncode_total S mode tables ch x' hdom
          exact forward_of S ⟨ch, fill, .bag mode tables, post⟩ B stats.length _ _ y hx' hy
        | timestamp os wt b =>
          have hs : st = .timestamp := by simpa [Weights.cls, supported] using hmem
          subst hs
          cases feat <;> simp only [Feat.stype] at hst <;> try cases hst
          rename_i x
          obtain ⟨ys, hys, rfl⟩ := mkParams_timestamp_inv S stats ch os wt b p hpr
          simp only [Fitted] at hfit
          have hfill := mkFill_timestamp_inv S na stats fill hfl
          have hna : ∃ x', naForward S fill (.time x) = some (.time x') ∧
              ∀ r c ts, cell x' r c = some ts → ∀ y, ys[c]? = some y → tsDomainOk cyclicConst ts y = true := by
            rcases hfill with rfl | ⟨na', v, rfl, hv⟩
            · refine ⟨x, rfl, ?_⟩
              intro r c ts hts y hy
              rw [gather_getElem? _ _ _ hys c] at hy
              exact hfit r c ts hts y hy
            · refine ⟨_, rfl, ?_⟩
              intro r c ts hts y hy
              rw [gather_getElem? _ _ _ hys c] at hy
              simp only [cell_bcast2] at hts
              cases hx : cell x r c with
              | none => simp [hx] at hts
              | some a =>
                cases hvc : v[c]? with
                | none => simp [hx, hvc] at hts
                | some f =>
                  simp only [hx, hvc, Option.bind_some, Option.map_some, Option.some.injEq] at hts
                  subst hts
                  split
                  · exact fittedStats_time na stats hstats c y f na' hy (by rw [← hv c]; exact hvc)
                  · exact hfit r c a hx y hy
          obtain ⟨x', hx', hdom⟩ := hna
          obtain ⟨y, hy⟩ := timestampEncode_total S ys cyclicConst os wt b ch x' hdom
          exact forward_of S ⟨ch, fill, .timestamp ys cyclicConst os wt b, post⟩ B stats.length _ _ y hx' hy
        | linearEmb ws bs =>
          have hs : st = .embedding := by simpa [Weights.cls, supported] using hmem
          subst hs
          cases feat <;> simp only [Feat.stype] at hst <;> try cases hst
          rename_i off vals
          obtain ⟨ds, hds, rfl⟩ := mkParams_linearEmb_inv S stats ch ws bs p hpr
          simp only [Fitted] at hfit
          have hfill := mkFill_embedding_inv S na stats fill hfl
          subst hfill
          obtain ⟨y, hy⟩ := linearEmbEncode_total S ds ws bs ch vals (hfit ds hds)
          exact forward_of S ⟨ch, none, .linearEmb ds ws bs, post⟩ B stats.length (.emb off vals) (.emb off vals) y rfl hy

end

/-! ## the stype-wise encoder accepts every frame whose blocks its encoders accept -/

theorem gather_total {α β : Type} (f : α → Option β) (xs : List α) (h : ∀ x ∈ xs, ∃ y, f x = some y) :
    ∃ ys, gather f xs = some ys := by
  induction xs with
  | nil => exact ⟨[], rfl⟩
  | cons x xs ih =>
    obtain ⟨y, hy⟩ := h x (List.mem_cons_self ..)
    obtain ⟨ys, hys⟩ := ih (fun x' hx' => h x' (List.mem_cons_of_mem _ hx'))
    exact ⟨y :: ys, by simp [gather, hy, hys]⟩

theorem stype_mem_all (s : Stype) : s ∈ Stype.all := by cases s <;> simp [Stype.all]

section
variable {R : Type} (S : SOps R)

theorem forward_dims (e : Encoder R) (B C n : Nat) (feat : Feat R) (o : Out R)
    (h : forward S e B C n feat = some o) : o.b = B ∧ o.ch = e.ch := by
  unfold forward at h
  split at h
  · cases h
  · cases h1 : naForward S e.fill feat with
    | none => simp [h1, bind, Option.bind] at h
    | some f1 =>
      cases h2 : encodeForward S e.params e.ch C f1 with
      | none => simp [h1, h2, bind, Option.bind] at h
      | some y =>
        simp only [h1, h2, bind, Option.bind, pure] at h
        injection h with h
        subst h
        exact ⟨rfl, rfl⟩

theorem catDim1_total (xs : List (Out R)) (B ch : Nat) (hne : xs ≠ [])
    (h : ∀ x ∈ xs, x.b = B ∧ x.ch = ch) : ∃ x, catDim1 xs = some x ∧ x.b = B ∧ x.ch = ch := by
  cases xs with
  | nil => exact absurd rfl hne
  | cons x rest =>
    simp only [catDim1]
    rw [if_pos]
    · exact ⟨_, rfl, (h x (List.mem_cons_self ..)).1, (h x (List.mem_cons_self ..)).2⟩
    simp only [List.all_eq_true, Bool.and_eq_true, beq_iff_eq]
    intro y hy
    have h1 := h x (List.mem_cons_self ..)
    have h2 := h y (List.mem_cons_of_mem _ hy)
    exact ⟨h2.1.trans h1.1.symm, h2.2.trans h1.2.symm⟩

theorem wise_total (w : Wise R) (tf : List (Group R)) (B ch : Nat) (hne : tf ≠ [])
    (hg : ∀ s g, tf.find? (·.st == s) = some g →
        ∃ nm e, w.colNames.lookup s = some nm ∧ w.encoders.lookup s = some e ∧
          g.rows = B ∧ e.ch = ch ∧ ∃ o, forward S e g.rows g.cols nm.length g.feat = some o) :
    ∃ x names, wiseForward S w tf = some (x, names) ∧ x.b = B ∧ x.ch = ch := by
  have hpart : ∀ s ∈ canonicalStypes tf, ∃ p, wisePart S w tf s = some p ∧ p.1.b = B ∧ p.1.ch = ch := by
    intro s hs
    simp only [canonicalStypes, List.mem_filter] at hs
    have hf : (tf.find? (·.st == s)).isSome = true := by
      rw [List.find?_isSome]
      simpa using hs.2
    obtain ⟨g, hgs⟩ := Option.isSome_iff_exists.mp hf
    obtain ⟨nm, e, h1, h2, h3, h4, o, h5⟩ := hg s g hgs
    refine ⟨(o, nm), ?_, ?_, ?_⟩
    · simp [wisePart, hgs, h1, h2, h5, bind, Option.bind]
    · exact (forward_dims S e _ _ _ _ o h5).1.trans h3
    · exact (forward_dims S e _ _ _ _ o h5).2.trans h4
  obtain ⟨parts, hparts⟩ := gather_total (wisePart S w tf) (canonicalStypes tf)
    (fun s hs => (hpart s hs).imp fun p hp => hp.1)
  have hlen := gather_length _ _ _ hparts
  have hcne : canonicalStypes tf ≠ [] := by
    cases tf with
    | nil => exact absurd rfl hne
    | cons g rest =>
      intro hc
      have : g.st ∈ canonicalStypes (g :: rest) := by
        simp only [canonicalStypes, List.mem_filter]
        exact ⟨stype_mem_all _, by simp⟩
      rw [hc] at this
      cases this
  have hpne : parts.map (·.1) ≠ [] := by
    intro hc
    apply hcne
    have : parts = [] := by simpa using hc
    rw [this] at hlen
    exact List.length_eq_zero_iff.mp hlen.symm
  have hall : ∀ x ∈ parts.map (·.1), x.b = B ∧ x.ch = ch := by
    intro x hx
    simp only [List.mem_map] at hx
    obtain ⟨p, hp, rfl⟩ := hx
    obtain ⟨s, hs, hsp⟩ := forall₂_mem_right (gather_forall₂ _ _ _ hparts) p hp
    obtain ⟨p', hp', hb, hc⟩ := hpart s hs
    rw [hsp] at hp'
    injection hp' with hp'
    subst hp'
    exact ⟨hb, hc⟩
  obtain ⟨x, hx, hxb, hxc⟩ := catDim1_total (parts.map (·.1)) B ch hpne hall
  exact ⟨x, parts.flatMap (·.2), by simp [wiseForward, hparts, hx, bind, Option.bind], hxb, hxc⟩

end
section
variable {R : Type} (S : SOps R)

theorem initModules_ch (st : Stype) (na : Option NA) (stats : List (ColStat R)) (ch : Nat) (w : Weights R)
    (post : Post R) (e : Encoder R) (h : initModules S st na stats ch w post = some e) : e.ch = ch := by
  unfold initModules at h
  cases h1 : mkFill S st na stats with
  | none => simp [h1, bind, Option.bind] at h
  | some fill =>
    cases h2 : mkParams S stats ch w with
    | none => simp [h1, h2, bind, Option.bind] at h
    | some p =>
      simp only [h1, h2, bind, Option.bind, pure] at h
      injection h with h
      subst h
      rfl

/-- block `g` (stype `s`) of a materialized frame, together with what `StypeWiseFeatureEncoder.__init__` wired
    for it: the names of the stype's columns, an encoder of an admissible class / NA strategy built by
    `init_modules` from those columns' statistics (`stats_list`, one entry per name), the block holding what the
    mappers emitted for exactly those columns -/
def FittedBlock (w : Wise R) (B ch : Nat) (s : Stype) (g : Group R) : Prop :=
  ∃ (nm : List String) (e : Encoder R) (na : Option NA) (stats : List (ColStat R)) (wt : Weights R) (post : Post R),
    w.colNames.lookup s = some nm ∧ w.encoders.lookup s = some e ∧
    wiseOk wt.cls s na = true ∧ initModules S s na stats ch wt post = some e ∧
    nm.length = stats.length ∧ g.cols = stats.length ∧ g.rows = B ∧ g.feat.stype = s ∧
    Fitted stats g.feat ∧ FittedStats na stats

end


end TFVerif.Enc

/-
Helper lemmas for the lazy-attribute state machine (`Model/Lazy.lean`, property C12).  Core Lean only.
-/
import TFVerif.Model.Lazy

namespace TFVerif.Lazy

variable {V B : Type} (init : List (Option V) → Option B)

/-- invariant inside `__init__`: nothing has been built -/
def InInit (m : Mod V B) : Prop := m.inInit = true ∧ m.fired = 0 ∧ m.built = none

/-- invariant outside `__init__`: `init_modules` ran exactly once iff nothing is missing -/
def Settled (m : Mod V B) : Prop :=
  m.inInit = false ∧ (m.missing = [] → m.fired = 1 ∧ m.built.isSome = true) ∧
  (m.missing ≠ [] → m.fired = 0 ∧ m.built = none)

theorem setattr_inInit (m m' : Mod V B) (k : Attr) (v : Option V) (h : InInit m)
    (hs : setattr init m k v = some m') : InInit m' := by
  obtain ⟨h1, h2, h3⟩ := h
  unfold setattr at hs
  simp only at hs
  split at hs
  · simp only [h1, Bool.not_true, Bool.false_and, Bool.false_eq_true, if_false] at hs
    injection hs with hs
    subst hs
    exact ⟨by first | rfl | simp [h1], h2, h3⟩
  · injection hs with hs
    subst hs
    exact ⟨h1, h2, h3⟩

theorem setattrs_inInit (args : List (Attr × Option V)) (m m' : Mod V B) (h : InInit m)
    (hs : setattrs init m args = some m') : InInit m' := by
  induction args generalizing m with
  | nil => simp only [setattrs] at hs; injection hs with hs; subst hs; exact h
  | cons a rest ih =>
    obtain ⟨k, v⟩ := a
    simp only [setattrs] at hs
    cases hk : setattr init m k v with
    | none => simp [hk] at hs
    | some m1 =>
      simp only [hk, Option.bind_some] at hs
      exact ih m1 (setattr_inInit init m m1 k v h hk) hs

theorem initModules_settled (m m' : Mod V B) (hin : m.inInit = false) (hf : m.fired = 0)
    (h : initModules init m = some m') : Settled m' ∧ m'.missing = [] := by
  unfold initModules validate at h
  by_cases he : m.missing.isEmpty
  · simp only [he, if_true] at h
    cases hi : init (Attr.all.map m.vals) with
    | none => simp [hi, bind, Option.bind] at h
    | some b =>
      simp only [hi, bind, Option.bind, pure] at h
      injection h with h
      subst h
      have : m.missing = [] := List.isEmpty_iff.mp he
      refine ⟨⟨hin, ?_, ?_⟩, this⟩
      · intro _; simp [hf]
      · intro hne; exact absurd this hne
  · simp [he, bind, Option.bind] at h

theorem construct_settled (args : List (Attr × Option V)) (m : Mod V B)
    (h : construct init args = some m) : Settled m := by
  unfold construct at h
  cases hs : setattrs init (fresh : Mod V B) args with
  | none => simp [hs, bind, Option.bind] at h
  | some m1 =>
    have hi : InInit m1 := setattrs_inInit init args fresh m1 ⟨rfl, rfl, rfl⟩ hs
    simp only [hs, bind, Option.bind] at h
    split at h
    · exact (initModules_settled init _ m (by rfl) (by exact hi.2.1) h).1
    · injection h with h
      subst h
      rename_i hne
      refine ⟨rfl, ?_, ?_⟩
      · intro he; simp only at he; simp [he] at hne
      · intro _; exact ⟨hi.2.1, hi.2.2⟩

theorem setattr_settled (m m' : Mod V B) (k : Attr) (v : Option V) (h : Settled m)
    (hs : setattr init m k v = some m') : Settled m' := by
  obtain ⟨h1, h2, h3⟩ := h
  unfold setattr at hs
  simp only at hs
  split at hs
  · rename_i hc
    simp only [Bool.and_eq_true] at hc
    have hne : m.missing ≠ [] := by
      intro he; rw [he] at hc; simp at hc
    obtain ⟨hf, hb⟩ := h3 hne
    simp only [h1, Bool.not_false, Bool.true_and] at hs
    split at hs
    · exact (initModules_settled init _ m' (by rfl) (by exact hf) hs).1
    · injection hs with hs
      subst hs
      rename_i hne'
      refine ⟨by first | rfl | simp [h1], ?_, ?_⟩
      · intro he; simp only at he; simp [he] at hne'
      · intro _; exact ⟨hf, hb⟩
  · injection hs with hs
    subst hs
    exact ⟨h1, h2, h3⟩

theorem setattrs_settled (evs : List (Attr × Option V)) (m m' : Mod V B) (h : Settled m)
    (hs : setattrs init m evs = some m') : Settled m' := by
  induction evs generalizing m with
  | nil => simp only [setattrs] at hs; injection hs with hs; subst hs; exact h
  | cons a rest ih =>
    obtain ⟨k, v⟩ := a
    simp only [setattrs] at hs
    cases hk : setattr init m k v with
    | none => simp [hk] at hs
    | some m1 =>
      simp only [hk, Option.bind_some] at hs
      exact ih m1 (setattr_settled init m m1 k v h hk) hs

/-- an attribute that is never given a non-`None` value stays in the missing set -/
theorem setattr_keeps_missing (m m' : Mod V B) (k k' : Attr) (v : Option V)
    (hk : k' ∈ m.missing) (hno : k = k' → v = none) (hs : setattr init m k v = some m') : k' ∈ m'.missing := by
  unfold setattr at hs
  simp only at hs
  split at hs
  · rename_i hc
    simp only [Bool.and_eq_true] at hc
    have hkk : k ≠ k' := by
      intro he; have := hno he; rw [this] at hc; simp at hc
    have hmem : k' ∈ m.missing.erase k := (List.mem_erase_of_ne (Ne.symm hkk)).mpr hk
    split at hs
    · unfold initModules validate at hs
      split at hs
      · rename_i he
        simp only at he
        have : m.missing.erase k = [] := List.isEmpty_iff.mp he
        rw [this] at hmem
        cases hmem
      · simp [bind, Option.bind] at hs
    · injection hs with hs
      subst hs
      exact hmem
  · injection hs with hs
    subst hs
    exact hk

theorem setattrs_keeps_missing (evs : List (Attr × Option V)) (m m' : Mod V B) (k' : Attr)
    (hk : k' ∈ m.missing) (hno : ∀ e ∈ evs, e.1 = k' → e.2 = none)
    (hs : setattrs init m evs = some m') : k' ∈ m'.missing := by
  induction evs generalizing m with
  | nil => simp only [setattrs] at hs; injection hs with hs; subst hs; exact hk
  | cons a rest ih =>
    obtain ⟨k, v⟩ := a
    simp only [setattrs] at hs
    cases hk1 : setattr init m k v with
    | none => simp [hk1] at hs
    | some m1 =>
      simp only [hk1, Option.bind_some] at hs
      have h1 := setattr_keeps_missing init m m1 k k' v hk (hno (k, v) (List.mem_cons_self ..)) hk1
      exact ih m1 h1 (fun e he => hno e (List.mem_cons_of_mem _ he)) hs


theorem construct_keeps_missing (args : List (Attr × Option V)) (m : Mod V B) (k : Attr) (hk : k ∈ lazyAttrs)
    (hno : ∀ e ∈ args, e.1 = k → e.2 = none) (h : construct init args = some m) : k ∈ m.missing := by
  unfold construct at h
  cases hs : setattrs init (fresh : Mod V B) args with
  | none => simp [hs, bind, Option.bind] at h
  | some m1 =>
    have h1 : k ∈ m1.missing := setattrs_keeps_missing init args fresh m1 k hk hno hs
    simp only [hs, bind, Option.bind] at h
    split at h
    · rename_i he
      have : m1.missing = [] := List.isEmpty_iff.mp he
      rw [this] at h1
      cases h1
    · injection h with h
      subst h
      exact h1

/-! ## lazy = eager, by enumeration of the 8 constructor subsets x 6 assignment orders -/

/-- constructor arguments in signature order; lazy attribute `k` is supplied iff `given k` -/
def ctorArgs (given : Attr → Bool) (val : Attr → V) (p q : Option V) : List (Attr × Option V) :=
  [(.outChannels, if given .outChannels then some (val .outChannels) else none),
   (.statsList, if given .statsList then some (val .statsList) else none),
   (.stype, if given .stype then some (val .stype) else none),
   (.postModule, p), (.naStrategy, q)]

/-- the attributes not given to the constructor, assigned afterwards in the order `order` -/
def laterArgs (given : Attr → Bool) (val : Attr → V) (order : List Attr) : List (Attr × Option V) :=
  (order.filter fun k => !given k).map fun k => (k, some (val k))

def orders : List (List Attr) :=
  [[.outChannels, .statsList, .stype], [.outChannels, .stype, .statsList], [.statsList, .outChannels, .stype],
   [.statsList, .stype, .outChannels], [.stype, .outChannels, .statsList], [.stype, .statsList, .outChannels]]

/-- what `init_modules` sees and builds, and whether the object then runs -/
def outcome (m : Option (Mod V B)) : Option (Option B × Nat × List Attr) :=
  m.map fun s => (s.built, s.fired, s.missing)

theorem lazy_eq_eager (val : Attr → V) (p q : Option V) (given : Attr → Bool) (order : List Attr)
    (ho : order ∈ orders) :
    outcome ((construct init (ctorArgs given val p q)).bind fun m => setattrs init m (laterArgs given val order)) =
    outcome (construct init (ctorArgs (fun _ => true) val p q)) := by
  simp only [orders, List.mem_cons, List.not_mem_nil, or_false] at ho
  rcases ho with rfl | rfl | rfl | rfl | rfl | rfl <;>
  cases h1 : given .outChannels <;> cases h2 : given .statsList <;> cases h3 : given .stype <;>
  simp [outcome, construct, setattrs, setattr, ctorArgs, laterArgs, fresh, lazyAttrs, initModules, validate, Attr.all, h1, h2, h3,
        bind, Option.bind, pure] <;>
  (cases init [some (val .outChannels), some (val .statsList), some (val .stype), p, q] <;> simp)


end TFVerif.Lazy

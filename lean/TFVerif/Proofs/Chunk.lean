/-
Helper lemmas for C16: the code-shaped `chunks` (a `range` of start positions and one slice per
start) is the structural "peel off `bs` elements" recursion; everything else follows from that.
Core Lean only.
-/
import TFVerif.Model.Chunk

namespace TFVerif.Chunk

/-- peel off `bs` elements at a time (`fuel` bounds the number of chunks). -/
def chunksRec (bs : Nat) : Nat → List α → List (List α)
  | 0, _ => []
  | f + 1, xs => if xs.isEmpty then [] else xs.take bs :: chunksRec bs f (xs.drop bs)

theorem go_map_slice (xs : List α) (bs : Nat) (hbs : 0 < bs) :
    ∀ fuel x, (rangeStep.go xs.length bs fuel x).map (fun i => pySlice xs i (i + bs))
      = chunksRec bs fuel (xs.drop x) := by
  intro fuel
  induction fuel with
  | zero => intro x; simp [rangeStep.go, chunksRec]
  | succ f ih =>
    intro x
    by_cases hx : x < xs.length
    · have hne : (xs.drop x).isEmpty = false := by
        cases h : xs.drop x with
        | nil => rw [List.drop_eq_nil_iff] at h; omega
        | cons _ _ => rfl
      have hstep : x + (bs - 1) + 1 = x + bs := by omega
      have hsub : x + bs - x = bs := by omega
      have := ih (x + bs)
      simp only [rangeStep.go, hx, if_true, List.map_cons, chunksRec, hne, Bool.false_eq_true, if_false,
        hstep, List.drop_drop, this]
      simp [pySlice, hsub]
    · have he : (xs.drop x).isEmpty = true := by
        have : xs.drop x = [] := by rw [List.drop_eq_nil_iff]; omega
        rw [this]; rfl
      simp [rangeStep.go, hx, chunksRec, he]

theorem chunks_eq_rec (bs : Nat) (hbs : 0 < bs) (xs : List α) :
    chunks bs xs = chunksRec bs xs.length xs := by
  have := go_map_slice xs bs hbs xs.length 0
  simpa [chunks, rangeStep] using this

theorem chunksRec_nil (bs f : Nat) : chunksRec bs f ([] : List α) = [] := by
  cases f <;> simp [chunksRec]

/-- one unfolding step -/
theorem chunksRec_cons (bs f : Nat) (a : α) (as : List α) :
    chunksRec bs (f + 1) (a :: as) = (a :: as).take bs :: chunksRec bs f ((a :: as).drop bs) := by
  simp [chunksRec]

theorem drop_len_le {bs f : Nat} (hbs : 0 < bs) (a : α) (as : List α) (h : (a :: as).length ≤ f + 1) :
    ((a :: as).drop bs).length ≤ f := by
  rw [List.length_drop]; simp at h ⊢; omega

theorem chunksRec_flatten (bs : Nat) (hbs : 0 < bs) :
    ∀ (f : Nat) (xs : List α), xs.length ≤ f → (chunksRec bs f xs).flatten = xs := by
  intro f
  induction f with
  | zero => intro xs h; have : xs = [] := List.length_eq_zero_iff.mp (by omega); simp [this, chunksRec]
  | succ f ih =>
    intro xs h
    cases xs with
    | nil => simp [chunksRec]
    | cons a as =>
      rw [chunksRec_cons, List.flatten_cons, ih _ (drop_len_le hbs a as h)]
      exact List.take_append_drop _ _

theorem chunksRec_mem (bs : Nat) (hbs : 0 < bs) :
    ∀ (f : Nat) (xs : List α), ∀ c ∈ chunksRec bs f xs, c ≠ [] ∧ c.length ≤ bs := by
  intro f
  induction f with
  | zero => intro xs c hc; simp [chunksRec] at hc
  | succ f ih =>
    intro xs c hc
    cases xs with
    | nil => simp [chunksRec] at hc
    | cons a as =>
      rw [chunksRec_cons] at hc
      rcases List.mem_cons.mp hc with h | h
      · subst h
        constructor
        · intro h0
          have := congrArg List.length h0
          simp [List.length_take] at this
          omega
        · simp [List.length_take]; omega
      · exact ih _ c h

theorem chunksRec_init_full (bs : Nat) (hbs : 0 < bs) :
    ∀ (f : Nat) (xs : List α), xs.length ≤ f → ∀ c ∈ (chunksRec bs f xs).dropLast, c.length = bs := by
  intro f
  induction f with
  | zero => intro xs _ c hc; simp [chunksRec] at hc
  | succ f ih =>
    intro xs hlen c hc
    cases xs with
    | nil => simp [chunksRec] at hc
    | cons a as =>
      rw [chunksRec_cons] at hc
      have hl := drop_len_le hbs a as hlen
      by_cases hrest : chunksRec bs f ((a :: as).drop bs) = []
      · rw [hrest] at hc; simp at hc
      · rw [List.dropLast_cons_of_ne_nil hrest] at hc
        rcases List.mem_cons.mp hc with h | h
        · subst h
          -- the rest is non-empty, hence more than `bs` elements were available
          have hd : (a :: as).drop bs ≠ [] := by
            intro h0; rw [h0, chunksRec_nil] at hrest; exact hrest rfl
          have : bs < (a :: as).length := by
            rcases Nat.lt_or_ge bs (a :: as).length with h1 | h1
            · exact h1
            · exact absurd (List.drop_eq_nil_iff.mpr h1) hd
          rw [List.length_take]; omega
        · exact ih _ hl c h

theorem ceil_step (n bs : Nat) (hbs : 0 < bs) (hn : 0 < n) :
    (n - bs + bs - 1) / bs + 1 = (n + bs - 1) / bs := by
  by_cases hle : bs ≤ n
  · have : n + bs - 1 = (n - bs + bs - 1) + bs := by omega
    rw [this, Nat.add_div_right _ hbs]
  · have h1 : n - bs + bs - 1 = bs - 1 := by omega
    have h2 : (n + bs - 1) / bs = 1 := by
      have : n + bs - 1 = (n - 1) + bs := by omega
      rw [this, Nat.add_div_right _ hbs, Nat.div_eq_of_lt (by omega)]
    rw [h1, h2, Nat.div_eq_of_lt (by omega)]

theorem chunksRec_length (bs : Nat) (hbs : 0 < bs) :
    ∀ (f : Nat) (xs : List α), xs.length ≤ f → (chunksRec bs f xs).length = (xs.length + bs - 1) / bs := by
  intro f
  induction f with
  | zero =>
    intro xs h
    have : xs = [] := List.length_eq_zero_iff.mp (by omega)
    subst this
    simp only [chunksRec, List.length_nil]
    exact (Nat.div_eq_of_lt (by omega)).symm
  | succ f ih =>
    intro xs h
    cases xs with
    | nil => simp only [chunksRec_nil, List.length_nil]; exact (Nat.div_eq_of_lt (by omega)).symm
    | cons a as =>
      rw [chunksRec_cons, List.length_cons, ih _ (drop_len_le hbs a as h), List.length_drop]
      exact ceil_step _ bs hbs (by simp)

/-- chunking commutes with a per-element map -/
theorem chunksRec_map (g : α → β) (bs : Nat) :
    ∀ (f : Nat) (xs : List α), chunksRec bs f (xs.map g) = (chunksRec bs f xs).map (List.map g) := by
  intro f
  induction f with
  | zero => intro xs; simp [chunksRec]
  | succ f ih =>
    intro xs
    cases xs with
    | nil => simp [chunksRec]
    | cons a as =>
      have := ih ((a :: as).drop bs)
      rw [chunksRec_cons, List.map_cons, List.map_cons, ← this, chunksRec_cons, List.map_take, List.map_drop,
        List.map_cons]

/-! ### the code-shaped `chunks` inherits everything -/

theorem chunks_flatten' (bs : Nat) (hbs : 0 < bs) (xs : List α) : (chunks bs xs).flatten = xs := by
  rw [chunks_eq_rec bs hbs]; exact chunksRec_flatten bs hbs _ _ (Nat.le_refl _)

theorem chunks_map (g : α → β) (bs : Nat) (hbs : 0 < bs) (xs : List α) :
    chunks bs (xs.map g) = (chunks bs xs).map (List.map g) := by
  rw [chunks_eq_rec bs hbs, chunks_eq_rec bs hbs, List.length_map, chunksRec_map]

theorem chunks_ne_nil (bs : Nat) (hbs : 0 < bs) (xs : List α) (h : xs ≠ []) : chunks bs xs ≠ [] := by
  intro h0
  have := chunks_flatten' bs hbs xs
  rw [h0] at this
  exact h this.symm

/-! ### `traverse`, `lookup` -/

theorem traverse_some (h : α → β) (xs : List α) : traverse (fun x => some (h x)) xs = some (xs.map h) := by
  induction xs with
  | nil => rfl
  | cons x xs ih => simp [traverse, ih]

theorem traverse_congr {g g' : α → Option β} (xs : List α) (h : ∀ x ∈ xs, g x = g' x) :
    traverse g xs = traverse g' xs := by
  induction xs with
  | nil => rfl
  | cons x xs ih =>
    have h1 := h x (by simp)
    have h2 := ih (fun y hy => h y (by simp [hy]))
    simp [traverse, h1, h2]

theorem lookup_map_self (v : Key → β) (keys : List Key) (k : Key) (hk : k ∈ keys) :
    (keys.map fun k => (k, v k)).lookup k = some (v k) := by
  induction keys with
  | nil => simp at hk
  | cons k0 ks ih =>
    by_cases h : k = k0
    · subst h; simp
    · have hk' : k ∈ ks := by
        rcases List.mem_cons.mp hk with h' | h'
        · exact absurd h' h
        · exact h'
      have hb : (k == k0) = false := by simpa using h
      simp [List.lookup, hb, ih hk']

variable {V : Type}

theorem mkMET_uniform (n w : Nat) (values : List (List V)) (hne : values ≠ [])
    (hw : ∀ v ∈ values, v.length = w) :
    mkMET n values = some { numRows := n, numCols := 1, width := w, values := values, offset := [0, w] } := by
  cases values with
  | nil => exact absurd rfl hne
  | cons v0 vs =>
    have h0 : v0.length = w := hw v0 (by simp)
    have hall : (v0 :: vs).all (fun v => v.length == v0.length) = true := by
      rw [List.all_eq_true]
      intro v hv
      simp [hw v hv, h0]
    rw [h0] at hall
    simp only [mkMET, h0, hall, if_true]

/-! ### assembling the output of a deterministic per-sentence tokenizer -/

theorem keys_fst (keys : List Key) (v : Key → β) : (keys.map fun k => (k, v k)).map Prod.fst = keys := by
  simp [Function.comp_def]

/-- looking one key up in every per-sentence mapping of a call -/
theorem traverse_lookup_sentences (keys : List Key) (g : String → Key → List V) (k : Key) (hk : k ∈ keys)
    (xs : List String) :
    traverse (fun (d : List (Key × List V)) => d.lookup k) (xs.map fun s => keys.map fun k => (k, g s k))
      = some (xs.map fun s => g s k) := by
  induction xs with
  | nil => rfl
  | cons a as ih => simp [traverse, ih, lookup_map_self (fun k => g a k) keys k hk]

theorem assembleUnbatched_mapping (keys : List Key) (g : String → Key → List V) (xs : List String) :
    assembleUnbatched (tokMapping keys g xs) = some (keys.map fun k => (k, xs.map fun s => g s k)) := by
  simp only [tokMapping, assembleUnbatched]
  rw [keys_fst keys (fun k => xs.map fun s => g s k), ← traverse_some]
  apply traverse_congr
  intro k hk
  rw [lookup_map_self (fun k => xs.map fun s => g s k) keys k hk]
  rfl

theorem assembleUnbatched_sentences (keys : List Key) (g : String → Key → List V) (xs : List String)
    (hne : xs ≠ []) :
    assembleUnbatched (tokSentences keys g xs) = some (keys.map fun k => (k, xs.map fun s => g s k)) := by
  cases xs with
  | nil => exact absurd rfl hne
  | cons s0 ss =>
    simp only [tokSentences, List.map_cons, assembleUnbatched]
    rw [keys_fst keys (fun k => g s0 k), ← traverse_some]
    apply traverse_congr
    intro k hk
    have := traverse_lookup_sentences keys g k hk (s0 :: ss)
    simp only [List.map_cons] at this
    rw [this]
    rfl

theorem traverse_batches_mapping (keys : List Key) (g : String → Key → List V) (k : Key) (hk : k ∈ keys)
    (cs : List (List String)) :
    traverse (fun (o : TokOut V) => match o with
        | .mapping m => m.lookup k
        | .sentences _ => none) (cs.map (tokMapping keys g))
      = some (cs.map fun xs => xs.map fun s => g s k) := by
  induction cs with
  | nil => rfl
  | cons a as ih =>
    simp only [List.map_cons, traverse, ih]
    simp [tokMapping, lookup_map_self (fun k => a.map fun s => g s k) keys k hk]

theorem traverse_batches_sentences (keys : List Key) (g : String → Key → List V) (k : Key) (hk : k ∈ keys)
    (cs : List (List String)) :
    traverse (fun (o : TokOut V) => match o with
        | .sentences l => traverse (fun (d : List (Key × List V)) => d.lookup k) l
        | .mapping _ => none) (cs.map (tokSentences keys g))
      = some (cs.map fun xs => xs.map fun s => g s k) := by
  induction cs with
  | nil => rfl
  | cons a as ih =>
    simp only [List.map_cons, traverse, ih]
    simp [tokSentences, traverse_lookup_sentences keys g k hk a]

theorem assembleBatched_mapping (keys : List Key) (g : String → Key → List V) (cs : List (List String))
    (hne : cs ≠ []) :
    assembleBatched (cs.map (tokMapping keys g)) = some (keys.map fun k => (k, cs.flatten.map fun s => g s k)) := by
  cases cs with
  | nil => exact absurd rfl hne
  | cons c0 cs' =>
    have hshape : assembleBatched ((c0 :: cs').map (tokMapping keys g)) =
        traverse (fun k =>
          (traverse (fun (o : TokOut V) => match o with
              | .mapping m => m.lookup k
              | .sentences _ => none) ((c0 :: cs').map (tokMapping keys g))).map fun parts => (k, parts.flatten))
          keys := by
      simp only [List.map_cons, tokMapping, assembleBatched]
      rw [keys_fst keys (fun k => c0.map fun s => g s k)]
      rfl
    rw [hshape, ← traverse_some]
    apply traverse_congr
    intro k hk
    rw [traverse_batches_mapping keys g k hk, List.map_flatten]
    rfl

theorem assembleBatched_sentences (keys : List Key) (g : String → Key → List V) (cs : List (List String))
    (hne : cs ≠ []) (hhead : ∀ c ∈ cs.head?, c ≠ []) :
    assembleBatched (cs.map (tokSentences keys g)) = some (keys.map fun k => (k, cs.flatten.map fun s => g s k)) := by
  cases cs with
  | nil => exact absurd rfl hne
  | cons c0 cs' =>
    cases c0 with
    | nil => exact absurd rfl (hhead [] (by simp))
    | cons s0 ss =>
      have hshape : assembleBatched (((s0 :: ss) :: cs').map (tokSentences keys g)) =
          traverse (fun k =>
            (traverse (fun (o : TokOut V) => match o with
                | .sentences l => traverse (fun (d : List (Key × List V)) => d.lookup k) l
                | .mapping _ => none) (((s0 :: ss) :: cs').map (tokSentences keys g))).map
              fun parts => (k, parts.flatten))
            keys := by
        simp only [List.map_cons, tokSentences, assembleBatched]
        rw [keys_fst keys (fun k => g s0 k)]
        rfl
      rw [hshape, ← traverse_some]
      apply traverse_congr
      intro k hk
      rw [traverse_batches_sentences keys g k hk, List.map_flatten]
      rfl

/-- per key, the rows of a deterministic per-sentence tokenizer, whatever the format and the
    batch size. -/
theorem tokenizeRows_det (tbl : Missing → String) (keys : List Key) (g : String → Key → List V)
    (tok : List String → TokOut V) (htok : tok = tokSentences keys g ∨ tok = tokMapping keys g)
    (bs : Option Nat) (hbs : bs ≠ some 0) (cells : List Cell) (hne : cells ≠ []) :
    tokenizeRows tbl tok bs cells =
      some (keys.map fun k => (k, cells.map fun c => g (renderWith tbl c) k)) := by
  have hser : cells.map (renderWith tbl) ≠ [] := by simpa using hne
  have hmm : ∀ k, (cells.map (renderWith tbl)).map (fun s => g s k) = cells.map fun c => g (renderWith tbl c) k := by
    intro k; rw [List.map_map]; rfl
  match bs, hbs with
  | none, _ =>
    simp only [tokenizeRows]
    rcases htok with h | h <;> subst h
    · rw [assembleUnbatched_sentences keys g _ hser]; simp only [hmm]
    · rw [assembleUnbatched_mapping]; simp only [hmm]
  | some 0, h => exact absurd rfl h
  | some (b + 1), _ =>
    have hb : 0 < b + 1 := by omega
    have hne' := chunks_ne_nil (b + 1) hb _ hser
    have hfl := chunks_flatten' (b + 1) hb (cells.map (renderWith tbl))
    have hhead : ∀ c ∈ (chunks (b + 1) (cells.map (renderWith tbl))).head?, c ≠ [] := by
      intro c hc
      have hmem : c ∈ chunks (b + 1) (cells.map (renderWith tbl)) := List.mem_of_mem_head? hc
      rw [chunks_eq_rec _ hb] at hmem
      exact (chunksRec_mem (b + 1) hb _ _ c hmem).1
    simp only [tokenizeRows]
    rcases htok with h | h <;> subst h
    · rw [assembleBatched_sentences keys g _ hne' hhead, hfl]; simp only [hmm]
    · rw [assembleBatched_mapping keys g _ hne', hfl]; simp only [hmm]

/-- embedders: a deterministic per-string `f` of width `w` -/
theorem embedColumn_det (tbl : Missing → String) (f : String → List V) (w : Nat) (hw : ∀ s, (f s).length = w)
    (bs : Option Nat) (hbs : bs ≠ some 0) (cells : List Cell) (hne : cells ≠ []) :
    embedColumn tbl (fun xs => xs.map f) bs cells =
      some { numRows := cells.length, numCols := 1, width := w,
             values := cells.map fun c => f (renderWith tbl c), offset := [0, w] } := by
  have hvals : (cells.map fun c => f (renderWith tbl c)) ≠ [] := by simpa using hne
  have hwid : ∀ v ∈ (cells.map fun c => f (renderWith tbl c)), v.length = w := by
    intro v hv; rw [List.mem_map] at hv; obtain ⟨c, _, rfl⟩ := hv; exact hw _
  match bs, hbs with
  | none, _ =>
    simp only [embedColumn, List.map_map]
    exact mkMET_uniform _ w _ hvals hwid
  | some 0, h => exact absurd rfl h
  | some (b + 1), _ =>
    have hb : 0 < b + 1 := by omega
    have hser : cells.map (renderWith tbl) ≠ [] := by simpa using hne
    have hce : ((chunks (b + 1) (cells.map (renderWith tbl))).map fun xs => xs.map f).isEmpty = false := by
      have := chunks_ne_nil (b + 1) hb _ hser
      cases h : chunks (b + 1) (cells.map (renderWith tbl)) with
      | nil => exact absurd h this
      | cons _ _ => rfl
    have hfl : ((chunks (b + 1) (cells.map (renderWith tbl))).map fun xs => xs.map f).flatten
        = cells.map fun c => f (renderWith tbl c) := by
      rw [← List.map_flatten, chunks_flatten' _ hb, List.map_map]; rfl
    simp only [embedColumn, hce, Bool.false_eq_true, if_false, hfl]
    exact mkMET_uniform _ w _ hvals hwid

end TFVerif.Chunk

/-
Helper lemmas for the calendar model: ranges of the era decomposition and the round trip
`daysFromCivil ∘ civilFromDays = id`.  Everything is linear integer arithmetic with division
by literals, discharged by `omega` once the intermediate quantities are named.
-/
import TFVerif.Model.Calendar

namespace TFVerif.Cal

theorem yoeDoy_range (doe : Int) (h0 : 0 ≤ doe) (h1 : doe ≤ 146096) :
    0 ≤ (yoeDoy doe).1 ∧ (yoeDoy doe).1 ≤ 399 ∧ 0 ≤ (yoeDoy doe).2 ∧ (yoeDoy doe).2 ≤ 365 := by
  simp only [yoeDoy]
  omega

/-- the day of the era is recovered from (year of era, day of year) by the usual leap-year count. -/
theorem yoeDoy_inverse (doe : Int) (h0 : 0 ≤ doe) (h1 : doe ≤ 146096) :
    (yoeDoy doe).1 * 365 + (yoeDoy doe).1 / 4 - (yoeDoy doe).1 / 100 + (yoeDoy doe).2 = doe := by
  simp only [yoeDoy]
  generalize hc : min (doe / 36524) 3 = c
  generalize hq : (doe - c * 36524) / 1461 = q
  generalize hyr : min ((doe - c * 36524 - q * 1461) / 365) 3 = yr
  have h1 : 0 ≤ c ∧ c ≤ 3 := by omega
  have h2 : 0 ≤ q ∧ q ≤ 24 := by omega
  have h3 : 0 ≤ yr ∧ yr ≤ 3 := by omega
  have h4 : (c * 100 + q * 4 + yr) / 4 = 25 * c + q := by omega
  have h5 : (c * 100 + q * 4 + yr) / 100 = c := by omega
  rw [h4, h5]
  omega

theorem monthIdx_range (doy : Int) (h0 : 0 ≤ doy) (h1 : doy ≤ 365) :
    0 ≤ monthIdx doy ∧ monthIdx doy ≤ 11 ∧
    1 ≤ doy - (153 * monthIdx doy + 2) / 5 + 1 ∧ doy - (153 * monthIdx doy + 2) / 5 + 1 ≤ 31 := by
  simp only [monthIdx]
  omega

theorem civil_ranges (z : Int) :
    1 ≤ (civilFromDays z).2.1 ∧ (civilFromDays z).2.1 ≤ 12 ∧
    1 ≤ (civilFromDays z).2.2 ∧ (civilFromDays z).2.2 ≤ 31 := by
  have hd0 : 0 ≤ (z + 719468) % 146097 := Int.emod_nonneg _ (by decide)
  have hd1 : (z + 719468) % 146097 ≤ 146096 := by omega
  have hy := yoeDoy_range _ hd0 hd1
  have hm := monthIdx_range _ hy.2.2.1 hy.2.2.2
  simp only [civilFromDays]
  split <;> omega

theorem roundtrip_aux (era yoe doy : Int) (hy : 0 ≤ yoe ∧ yoe ≤ 399 ∧ 0 ≤ doy ∧ doy ≤ 365) :
    daysFromCivil
      (yoe + era * 400 + (if (if monthIdx doy < 10 then monthIdx doy + 3 else monthIdx doy - 9) ≤ 2 then 1 else 0))
      (if monthIdx doy < 10 then monthIdx doy + 3 else monthIdx doy - 9)
      (doy - (153 * monthIdx doy + 2) / 5 + 1)
      = era * 146097 + (yoe * 365 + yoe / 4 - yoe / 100 + doy) - 719468 := by
  have hm := monthIdx_range doy hy.2.2.1 hy.2.2.2
  generalize monthIdx doy = mp at hm ⊢
  simp only [daysFromCivil]
  by_cases h10 : mp < 10
  · simp only [h10, if_true]
    have h2 : ¬ (mp + 3 ≤ 2) := by omega
    have h3 : mp + 3 > 2 := by omega
    simp only [h2, h3, if_true, if_false]
    have e2 : (yoe + era * 400 + 0) / 400 = era := by omega
    have e3 : (yoe + era * 400 + 0) % 400 = yoe := by omega
    rw [e2, e3]
    omega
  · simp only [h10, if_false]
    have h2 : mp - 9 ≤ 2 := by omega
    have h3 : ¬ (mp - 9 > 2) := by omega
    simp only [h2, h3, if_true, if_false]
    have e2 : (yoe + era * 400 + 1 - 1) / 400 = era := by omega
    have e3 : (yoe + era * 400 + 1 - 1) % 400 = yoe := by omega
    rw [e2, e3]
    omega

theorem days_civil_roundtrip (z : Int) :
    daysFromCivil (civilFromDays z).1 (civilFromDays z).2.1 (civilFromDays z).2.2 = z := by
  have hd0 : 0 ≤ (z + 719468) % 146097 := Int.emod_nonneg _ (by decide)
  have hd1 : (z + 719468) % 146097 ≤ 146096 := by omega
  have hy := yoeDoy_range _ hd0 hd1
  have hi := yoeDoy_inverse _ hd0 hd1
  simp only [civilFromDays]
  rw [roundtrip_aux _ _ _ hy, hi]
  omega

theorem components_ranges (s : Int) :
    ∃ y mo d wd h mi sec, components s = [y, mo, d, wd, h, mi, sec] ∧
      0 ≤ mo ∧ mo ≤ 11 ∧ 0 ≤ d ∧ d ≤ 30 ∧ 0 ≤ wd ∧ wd ≤ 6 ∧
      0 ≤ h ∧ h ≤ 23 ∧ 0 ≤ mi ∧ mi ≤ 59 ∧ 0 ≤ sec ∧ sec ≤ 59 := by
  have hc := civil_ranges (s / 86400)
  refine ⟨_, _, _, _, _, _, _, rfl, ?_⟩
  simp only [weekday]
  omega

end TFVerif.Cal

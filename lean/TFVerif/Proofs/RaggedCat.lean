/-
Construction / concatenation / padding / fill lemmas for the ragged containers (C06).
Core Lean only.
-/
import TFVerif.Proofs.RaggedMET

namespace TFVerif

open Grid

/-! ### prefix sums of an append -/

theorem ps_append (acc : Nat) (A B : List Nat) :
    ps acc (A ++ B) = (ps acc A).dropLast ++ ps (acc + A.sum) B := by
  induction A generalizing acc with
  | nil => simp [ps]
  | cons x xs ih =>
    simp only [List.cons_append, ps, List.sum_cons]
    rw [List.dropLast_cons_of_ne_nil (ps_ne_nil _ _), ih (acc + x), Nat.add_assoc]
    rfl

theorem ps_shift' (acc : Nat) (ls : List Nat) : (ps 0 ls).map (· + acc) = ps acc ls :=
  (ps_shift acc ls).symm

/-! ### catRows -/

theorem catRows_go_ps {α : Type} (L : MNT α → List Nat) (xs : List (MNT α)) (hne : xs ≠ [])
    (h : ∀ x ∈ xs, x.offset = ps 0 (L x)) (acc : Nat) :
    MNT.catRows.go acc xs = ps acc (xs.flatMap L) := by
  induction xs generalizing acc with
  | nil => exact absurd rfl hne
  | cons x rest ih =>
    cases rest with
    | nil =>
      have hx := h x (by simp)
      simp only [MNT.catRows.go, List.flatMap_cons, List.flatMap_nil, List.append_nil, hx]
      exact ps_shift' acc _
    | cons y r =>
      have hx := h x (by simp)
      have ih' := ih (by simp) (fun z hz => h z (by simp [hz])) (acc + x.offset.getLastD 0)
      have e : MNT.catRows.go acc (x :: y :: r)
          = x.offset.dropLast.map (· + acc) ++ MNT.catRows.go (acc + x.offset.getLastD 0) (y :: r) := by
        simp [MNT.catRows.go]
      have hfm : (x :: y :: r).flatMap L = L x ++ (y :: r).flatMap L := List.flatMap_cons
      rw [e, hfm, ps_append, ih', hx, ps_getLastD, Nat.zero_add]
      congr 1
      rw [← ps_shift' acc, List.map_dropLast]

theorem sum_numRows_ofGrid {α : Type} (gs : List (Grid α)) :
    ((gs.map MNT.ofGrid).map (·.numRows)).sum = (gs.flatMap (·.rows)).length := by
  induction gs with
  | nil => rfl
  | cons g gs ih =>
    simp only [List.map_cons, List.sum_cons, List.flatMap_cons, List.length_append, ih]
    rfl

theorem values_ofGrid_flatten {α : Type} (gs : List (Grid α)) :
    ((gs.map MNT.ofGrid).map (·.values)).flatten = (gs.flatMap (·.rows)).flatten.flatten := by
  induction gs with
  | nil => rfl
  | cons g gs ih =>
    simp only [List.map_cons, List.flatten_cons, List.flatMap_cons, List.flatten_append, ih]
    rfl

theorem counts_ofGrid_flatMap {α : Type} (gs : List (Grid α)) :
    (gs.map MNT.ofGrid).flatMap (·.counts) = ((gs.flatMap (·.rows)).flatten).map List.length := by
  induction gs with
  | nil => rfl
  | cons g gs ih =>
    simp only [List.map_cons, List.flatMap_cons, List.flatten_append, List.map_append, ih]
    rw [MNT.ofGrid_eq, ofCells_counts]

/-- **Concatenation along rows** of canonical containers with equal column counts is the canonical
    container of the concatenated row lists. -/
theorem catRows_ofGrid {α : Type} (g0 : Grid α) (rest : List (Grid α))
    (hC : ∀ g ∈ g0 :: rest, g.numCols = g0.numCols) :
    MNT.catRows ((g0 :: rest).map MNT.ofGrid)
      = some (MNT.ofGrid { numCols := g0.numCols, rows := (g0 :: rest).flatMap (·.rows) }) := by
  have hall : ((g0 :: rest).map MNT.ofGrid).all (fun x => x.numCols == (MNT.ofGrid g0).numCols) = true := by
    rw [List.all_eq_true]
    intro x hx
    simp only [List.mem_map] at hx
    obtain ⟨g, hg, rfl⟩ := hx
    simpa [MNT.ofGrid] using hC g hg
  have hgo := catRows_go_ps (fun m : MNT α => m.counts) ((g0 :: rest).map MNT.ofGrid) (by simp)
    (by
      intro x hx
      simp only [List.mem_map] at hx
      obtain ⟨g, _, rfl⟩ := hx
      rw [MNT.ofGrid_eq, ofCells_counts]; rfl) 0
  have h1 := sum_numRows_ofGrid (g0 :: rest)
  have h2 := values_ofGrid_flatten (g0 :: rest)
  have h3 := counts_ofGrid_flatMap (g0 :: rest)
  rw [h3] at hgo
  generalize hxs : (g0 :: rest).map MNT.ofGrid = xs at *
  have hx0 : ∃ x0 rest', xs = x0 :: rest' ∧ x0.numCols = g0.numCols := by
    rw [← hxs]; exact ⟨_, _, rfl, rfl⟩
  obtain ⟨x0, rest', hxs', hx0c⟩ := hx0
  subst hxs'
  unfold MNT.catRows
  have hall2 : ((x0 :: rest').all fun x => x.numCols == g0.numCols) = true := hall
  simp only [hx0c, hall2, if_true, hgo, h1, h2]
  rw [MNT.ofGrid_eq]
  rfl

end TFVerif

namespace TFVerif

open Grid

theorem catRows_rejects {α : Type} :
    MNT.catRows ([] : List (MNT α)) = none ∧
    (∀ (x0 : MNT α) (rest : List (MNT α)), (∃ x ∈ rest, x.numCols ≠ x0.numCols) →
      MNT.catRows (x0 :: rest) = none) := by
  refine ⟨rfl, ?_⟩
  intro x0 rest ⟨x, hx, hne⟩
  unfold MNT.catRows
  have : ((x0 :: rest).all fun y => y.numCols == x0.numCols) = false := by
    rw [List.all_eq_false]
    exact ⟨x, by simp [hx], by simpa using hne⟩
  simp [this]

/-! ### catCols -/

theorem row_cells {β : Type} (rows : List (List β)) (C : Nat) (h : ∀ r ∈ rows, r.length = C)
    (r : Nat) (hr : r < rows.length) : (rows.flatten.drop (r * C)).take C = rows.getD r [] := by
  have := row_seg rows C h r 0 C hr (by omega)
  have hlen : (rows.getD r []).length = C := h _ (getD_mem_or rows r [] hr)
  simpa [← hlen] using this

theorem counts_row_ofGrid {α : Type} (g : Grid α) (hg : g.WF) (r : Nat) (hr : r < g.rows.length) :
    pySlice (MNT.ofGrid g).counts (r * g.numCols) (r * g.numCols + g.numCols)
      = (g.rows.getD r []).map List.length := by
  rw [MNT.ofGrid_eq, ofCells_counts]
  unfold pySlice
  rw [Nat.add_sub_cancel_left, ← List.map_drop, ← List.map_take, row_cells g.rows g.numCols hg r hr]

theorem values_row_ofGrid {α : Type} (g : Grid α) (hg : g.WF) (r : Nat) (hr : r < g.rows.length) :
    pySlice (MNT.ofGrid g).values ((MNT.ofGrid g).offset.getD (r * g.numCols) 0)
        ((MNT.ofGrid g).offset.getD (r * g.numCols + g.numCols) 0)
      = (g.rows.getD r []).flatten := by
  rw [MNT.ofGrid_eq]
  have hb : r * g.numCols + g.numCols ≤ g.rows.flatten.length := by
    rw [Grid.cells_length g hg]
    have : (r + 1) * g.numCols ≤ g.rows.length * g.numCols := Nat.mul_le_mul_right _ hr
    rw [Nat.add_mul] at this; omega
  have := ofCells_segment g.rows.length g.numCols g.rows.flatten (r * g.numCols) g.numCols hb
  unfold pySlice
  rw [this, row_cells g.rows g.numCols hg r hr]

theorem flatMap_flatten_eq {ι β : Type} (l : List ι) (F : ι → List (List β)) :
    l.flatMap (fun x => (F x).flatten) = (l.map F).flatten.flatten := by
  induction l with
  | nil => rfl
  | cons a l ih => rw [List.flatMap_cons, List.map_cons, List.flatten_cons, List.flatten_append, ih]

theorem map_map_length_flatten {ι β : Type} (l : List ι) (F : ι → List (List β)) :
    (l.map fun a => (F a).map List.length).flatten = ((l.map F).flatten).map List.length := by
  induction l with
  | nil => rfl
  | cons a l ih => rw [List.map_cons, List.map_cons, List.flatten_cons, List.flatten_cons, List.map_append, ih]

/-- **Concatenation along columns** of canonical containers with equal row counts is the canonical
    container of the row-wise concatenated cell lists. -/
theorem catCols_ofGrid {α : Type} (g0 : Grid α) (rest : List (Grid α))
    (hwf : ∀ g ∈ g0 :: rest, g.WF) (hR : ∀ g ∈ g0 :: rest, g.rows.length = g0.rows.length) :
    MNT.catCols ((g0 :: rest).map MNT.ofGrid)
      = some (MNT.ofGrid { numCols := ((g0 :: rest).map (·.numCols)).sum,
                           rows := (List.range g0.rows.length).map fun r =>
                             (g0 :: rest).flatMap fun g => g.rows.getD r [] }) := by
  have hall : ((g0 :: rest).map MNT.ofGrid).all (fun x => x.numRows == (MNT.ofGrid g0).numRows) = true := by
    rw [List.all_eq_true]
    intro x hx
    simp only [List.mem_map] at hx
    obtain ⟨g, hg, rfl⟩ := hx
    simpa [MNT.ofGrid] using hR g hg
  have hlen : ∀ r ∈ List.range g0.rows.length,
      (((g0 :: rest).map MNT.ofGrid).flatMap fun x =>
          pySlice x.counts (r * x.numCols) (r * x.numCols + x.numCols))
        = ((g0 :: rest).flatMap fun g => g.rows.getD r []).map List.length := by
    intro r hr
    rw [List.flatMap_map, List.map_flatMap]
    apply flatMap_congr'
    intro g hg
    exact counts_row_ofGrid g (hwf g hg) r (by rw [hR g hg]; simpa using hr)
  have hval : ∀ r ∈ List.range g0.rows.length,
      (((g0 :: rest).map MNT.ofGrid).flatMap fun x =>
          pySlice x.values (x.offset.getD (r * x.numCols) 0) (x.offset.getD (r * x.numCols + x.numCols) 0))
        = ((g0 :: rest).flatMap fun g => g.rows.getD r []).flatten := by
    intro r hr
    rw [List.flatMap_map, flatten_flatMap']
    apply flatMap_congr'
    intro g hg
    exact values_row_ofGrid g (hwf g hg) r (by rw [hR g hg]; simpa using hr)
  have hnc : (((g0 :: rest).map MNT.ofGrid).map (·.numCols)).sum = ((g0 :: rest).map (·.numCols)).sum := by
    simp [List.map_map, Function.comp_def, MNT.ofGrid]
  generalize hxs : (g0 :: rest).map MNT.ofGrid = xs at *
  have hx0 : ∃ x0 rest', xs = x0 :: rest' ∧ x0.numRows = g0.rows.length := by
    rw [← hxs]; exact ⟨_, _, rfl, rfl⟩
  obtain ⟨x0, rest', hxs', hx0r⟩ := hx0
  subst hxs'
  unfold MNT.catCols
  have hall2 : ((x0 :: rest').all fun x => x.numRows == g0.rows.length) = true := hall
  simp only [hx0r, hall2, if_true, hnc]
  rw [List.map_congr_left hlen, flatMap_congr' _ _ _ hval]
  rw [MNT.ofGrid_eq]
  simp only [MNT.ofCells, List.length_map, List.length_range, psums_eq]
  congr 2
  · exact flatMap_flatten_eq _ _
  · rw [map_map_length_flatten]

end TFVerif

namespace TFVerif

open Grid

theorem catCols_rejects {α : Type} :
    MNT.catCols ([] : List (MNT α)) = none ∧
    (∀ (x0 : MNT α) (rest : List (MNT α)), (∃ x ∈ rest, x.numRows ≠ x0.numRows) →
      MNT.catCols (x0 :: rest) = none) := by
  refine ⟨rfl, ?_⟩
  intro x0 rest ⟨x, hx, hne⟩
  unfold MNT.catCols
  have : ((x0 :: rest).all fun y => y.numRows == x0.numRows) = false := by
    rw [List.all_eq_false]
    exact ⟨x, by simp [hx], by simpa using hne⟩
  simp [this]

/-! ### construction from a cell matrix -/

theorem fromCells_spec {α : Type} (mat : List (List (List α))) (m : MNT α)
    (h : MNT.fromCells mat = some m) :
    ∃ r0 rest, mat = r0 :: rest ∧ (∀ row ∈ mat, row.length = r0.length) ∧ mat.flatten ≠ [] ∧
      m = MNT.ofGrid { numCols := r0.length, rows := mat } := by
  unfold MNT.fromCells at h
  cases mat with
  | nil => simp at h
  | cons r0 rest =>
    simp only at h
    by_cases hall : ((r0 :: rest).all fun x => x.length == r0.length) = true
    · simp only [hall, if_true] at h
      by_cases hemp : (r0 :: rest).flatten.isEmpty = true
      · rw [if_pos hemp] at h; exact absurd h (by simp)
      · simp only [hemp, Bool.false_eq_true, if_false, Option.some.injEq] at h
        refine ⟨r0, rest, rfl, ?_, ?_, ?_⟩
        · intro row hrow
          rw [List.all_eq_true] at hall
          simpa using hall row hrow
        · intro hc; apply hemp; simp [hc]
        · rw [← h]; rfl
    · simp [hall] at h

theorem fromCells_accepts {α : Type} (r0 : List (List α)) (rest : List (List (List α)))
    (hu : ∀ row ∈ r0 :: rest, row.length = r0.length) (hne : (r0 :: rest).flatten ≠ []) :
    MNT.fromCells (r0 :: rest) = some (MNT.ofGrid { numCols := r0.length, rows := r0 :: rest }) := by
  unfold MNT.fromCells
  have hall : ((r0 :: rest).all fun x => x.length == r0.length) = true := by
    rw [List.all_eq_true]; intro row hrow; simpa using hu row hrow
  have hemp : (r0 :: rest).flatten.isEmpty = false := by
    cases h : (r0 :: rest).flatten with
    | nil => exact absurd h hne
    | cons _ _ => rfl
  simp only [hall, if_true, hemp, Bool.false_eq_true, if_false]
  rfl

/-! ### dense padding -/

theorem foldl_max_ge_init (l : List Nat) (a : Nat) : a ≤ l.foldl max a := by
  induction l generalizing a with
  | nil => exact Nat.le_refl _
  | cons x xs ih => exact Nat.le_trans (Nat.le_max_left a x) (ih (max a x))

theorem foldl_max_ge (l : List Nat) (a : Nat) : ∀ x ∈ l, x ≤ l.foldl max a := by
  induction l generalizing a with
  | nil => simp
  | cons y ys ih =>
    intro x hx
    simp only [List.mem_cons] at hx
    rcases hx with rfl | hx
    · exact Nat.le_trans (Nat.le_max_right a x) (foldl_max_ge_init ys (max a x))
    · exact ih (max a y) x hx

theorem cells_map_ofGrid {α β : Type} (g : Grid α) (hg : g.WF) (F : List α → β) :
    ((List.range (MNT.ofGrid g).numRows).map fun r => (List.range (MNT.ofGrid g).numCols).map fun c =>
        F ((MNT.ofGrid g).cellAt (r * (MNT.ofGrid g).numCols + c)))
      = g.rows.map (List.map F) := by
  have hgrid := grid_ofGrid g hg
  unfold MNT.grid at hgrid
  have hrows := congrArg (fun x => x.rows.map (List.map F)) hgrid
  simp only [List.map_map, Function.comp_def] at hrows
  exact hrows

/-- padding to a dense tensor: every cell is followed only by the fill value, up to the common
    length `mx` = the longest cell. -/
theorem toDense_ofGrid {α : Type} (g : Grid α) (hg : g.WF) (fill : α) (hne : g.rows.flatten ≠ []) :
    (MNT.ofGrid g).toDense fill
      = some (g.rows.map fun row => row.map fun cell =>
          cell ++ List.replicate ((g.rows.flatten.map List.length).foldl max 0 - cell.length) fill) ∧
    (∀ row ∈ g.rows, ∀ cell ∈ row, cell.length ≤ (g.rows.flatten.map List.length).foldl max 0) := by
  refine ⟨?_, ?_⟩
  · unfold MNT.toDense
    have hcnt : (MNT.ofGrid g).counts = g.rows.flatten.map List.length := by
      rw [MNT.ofGrid_eq, ofCells_counts]
    have hemp : (g.rows.flatten.map List.length).isEmpty = false := by
      cases h : g.rows.flatten with
      | nil => exact absurd h hne
      | cons _ _ => rfl
    simp only [hcnt, hemp, Bool.false_eq_true, if_false]
    congr 1
    exact cells_map_ofGrid g hg (fun cell =>
      cell ++ List.replicate ((g.rows.flatten.map List.length).foldl max 0 - cell.length) fill)
  · intro row hrow cell hcell
    apply foldl_max_ge
    simp only [List.mem_map, List.mem_flatten]
    exact ⟨cell, ⟨row, hrow, hcell⟩, rfl⟩

/-! ### MultiEmbeddingTensor concatenation -/

theorem met_catRows_ofW {α : Type} (w0 : WGrid α) (rest : List (WGrid α))
    (hW : ∀ w ∈ w0 :: rest, w.widths = w0.widths ∧ w.grid.numCols = w0.grid.numCols) :
    MET.catRows ((w0 :: rest).map MET.ofW)
      = some (MET.ofW { grid := { numCols := w0.grid.numCols, rows := (w0 :: rest).flatMap (·.grid.rows) },
                        widths := w0.widths }) := by
  cases rest with
  | nil => simp [MET.catRows, MET.ofW, MET.ofGrid]
  | cons w1 rest' =>
    have h1 : (((w0 :: w1 :: rest').map MET.ofW).all fun x => x.numCols == (MET.ofW w0).numCols) = true := by
      rw [List.all_eq_true]
      intro x hx
      simp only [List.mem_map] at hx
      obtain ⟨w, hw, rfl⟩ := hx
      simpa [MET.ofW, MET.ofGrid] using (hW w hw).2
    have h2 : (((w0 :: w1 :: rest').map MET.ofW).all fun x => x.width == (MET.ofW w0).width) = true := by
      rw [List.all_eq_true]
      intro x hx
      simp only [List.mem_map] at hx
      obtain ⟨w, hw, rfl⟩ := hx
      simp [MET.ofW, MET.ofGrid, (hW w hw).1]
    have hrows : (((w0 :: w1 :: rest').map MET.ofW).map (·.numRows)).sum
        = ((w0 :: w1 :: rest').flatMap (·.grid.rows)).length := by
      generalize (w0 :: w1 :: rest') = ws
      induction ws with
      | nil => rfl
      | cons w ws ih =>
        simp only [List.map_cons, List.sum_cons, List.flatMap_cons, List.length_append, ih]; rfl
    have hvals : ((w0 :: w1 :: rest').map MET.ofW).flatMap (·.values)
        = ((w0 :: w1 :: rest').flatMap (·.grid.rows)).map List.flatten := by
      generalize (w0 :: w1 :: rest') = ws
      induction ws with
      | nil => rfl
      | cons w ws ih =>
        simp only [List.map_cons, List.flatMap_cons, List.map_append, ih]; rfl
    unfold MET.catRows
    simp only [List.map_cons] at h1 h2 hrows hvals ⊢
    simp only [h1, h2, Bool.and_self, if_true, hrows, hvals]
    rfl

theorem ps_append_tail (A W : List Nat) :
    ps 0 (A ++ W) = ps 0 A ++ ((ps 0 W).tail).map (· + (ps 0 A).getLastD 0) := by
  rw [ps_append, ps_getLastD, Nat.zero_add]
  have h1 : ps 0 A = (ps 0 A).dropLast ++ [A.sum] := by
    have h := ps_getLast? 0 A
    rw [List.getLast?_eq_some_getLast (ps_ne_nil 0 A)] at h
    have h' : (ps 0 A).getLast (ps_ne_nil 0 A) = A.sum := by simpa using h
    rw [← h']
    exact (List.dropLast_concat_getLast (ps_ne_nil 0 A)).symm
  have h2 : ps A.sum W = A.sum :: ((ps 0 W).tail).map (· + A.sum) := by
    rw [ps_shift A.sum W]
    cases W with
    | nil => simp [ps]
    | cons x xs => simp [ps]
  rw [h2]
  conv => rhs; rw [h1]
  simp

theorem met_catCols_offsets {α : Type} (ws : List (WGrid α)) (A : List Nat) :
    (ws.map MET.ofW).foldl (fun acc x => acc ++ x.offset.tail.map (· + acc.getLastD 0)) (ps 0 A)
      = ps 0 (A ++ ws.flatMap (·.widths)) := by
  induction ws generalizing A with
  | nil => simp
  | cons w ws ih =>
    simp only [List.map_cons, List.foldl_cons, List.flatMap_cons]
    have hO : (MET.ofW w).offset = ps 0 w.widths := by simp [MET.ofW, MET.ofGrid, psums_eq]
    rw [hO, ← ps_append_tail, ih (A ++ w.widths), List.append_assoc]

theorem met_catCols_ofW {α : Type} (w0 w1 : WGrid α) (rest : List (WGrid α))
    (hR : ∀ w ∈ w0 :: w1 :: rest, w.grid.rows.length = w0.grid.rows.length) :
    MET.catCols ((w0 :: w1 :: rest).map MET.ofW)
      = some (MET.ofW { grid := { numCols := ((w0 :: w1 :: rest).map (·.grid.numCols)).sum,
                                  rows := (List.range w0.grid.rows.length).map fun r =>
                                    (w0 :: w1 :: rest).flatMap fun w => w.grid.rows.getD r [] },
                        widths := (w0 :: w1 :: rest).flatMap (·.widths) }) := by
  have h1 : (((w0 :: w1 :: rest).map MET.ofW).all fun x => x.numRows == (MET.ofW w0).numRows) = true := by
    rw [List.all_eq_true]
    intro x hx
    simp only [List.mem_map] at hx
    obtain ⟨w, hw, rfl⟩ := hx
    simpa [MET.ofW, MET.ofGrid] using hR w hw
  have hoff := met_catCols_offsets (w0 :: w1 :: rest) []
  have hnc : (((w0 :: w1 :: rest).map MET.ofW).map (·.numCols)).sum
      = ((w0 :: w1 :: rest).map (·.grid.numCols)).sum := by
    simp [List.map_map, Function.comp_def, MET.ofW, MET.ofGrid]
  have hwd : (((w0 :: w1 :: rest).map MET.ofW).map (·.width)).sum
      = ((w0 :: w1 :: rest).flatMap (·.widths)).sum := by
    generalize (w0 :: w1 :: rest) = ws
    induction ws with
    | nil => rfl
    | cons w ws ih =>
      simp only [List.map_cons, List.sum_cons, List.flatMap_cons, List.sum_append, ih]; rfl
  have hval : ∀ r ∈ List.range w0.grid.rows.length,
      (((w0 :: w1 :: rest).map MET.ofW).flatMap fun x => x.values.getD r [])
        = ((w0 :: w1 :: rest).flatMap fun w => w.grid.rows.getD r []).flatten := by
    intro r hr
    rw [List.flatMap_map, flatten_flatMap']
    apply flatMap_congr'
    intro w hw
    have hr' : r < w.grid.rows.length := by rw [hR w hw]; simpa using hr
    simp [MET.ofW, MET.ofGrid, List.getD_eq_getElem?_getD, hr']
  unfold MET.catCols
  simp only [List.map_cons, ps, List.nil_append] at h1 hoff hnc hwd hval ⊢
  simp only [h1, if_true, hoff, hnc, hwd]
  have hR0 : (MET.ofW w0).numRows = w0.grid.rows.length := rfl
  rw [hR0, List.map_congr_left hval]
  simp only [MET.ofW, MET.ofGrid, List.length_map, List.length_range, List.map_map, Function.comp_def,
    psums_eq]

end TFVerif

namespace TFVerif

open Grid

/-! ### fillna_col -/

/-- replacing missing entries of a cell -/
def replMissing {α : Type} (isMissing : α → Bool) (fill : α) (cell : List α) : List α :=
  cell.map fun v => if isMissing v then fill else v

theorem zipIdx_map_const {α : Type} (c : List α) (o : Nat) (P : Nat → Bool) (b : Bool)
    (isMissing : α → Bool) (fill : α) (h : ∀ p, o ≤ p → p < o + c.length → P p = b) :
    (c.zipIdx o).map (fun (v, p) => if P p && isMissing v then fill else v)
      = if b then replMissing isMissing fill c else c := by
  induction c generalizing o with
  | nil => cases b <;> rfl
  | cons x xs ih =>
    have hx := h o (Nat.le_refl _) (by simp)
    have := ih (o + 1) (fun p h1 h2 => h p (by omega) (by simp; omega))
    simp only [List.zipIdx_cons, List.map_cons, this, hx]
    cases b <;> simp [replMissing]

/-- positional update of the flattened storage = per-cell update, when the position predicate is
    constant on every cell's interval. -/
theorem flatten_zipIdx_map {α : Type} (cells : List (List α)) (o k0 : Nat) (P : Nat → Bool) (Q : Nat → Bool)
    (isMissing : α → Bool) (fill : α)
    (h : ∀ k, k < cells.length → ∀ p,
        o + ((cells.take k).map List.length).sum ≤ p →
        p < o + ((cells.take (k + 1)).map List.length).sum → P p = Q (k0 + k)) :
    (cells.flatten.zipIdx o).map (fun (v, p) => if P p && isMissing v then fill else v)
      = ((cells.zipIdx k0).map fun (cell, k) => if Q k then replMissing isMissing fill cell else cell).flatten := by
  induction cells generalizing o k0 with
  | nil => rfl
  | cons c cs ih =>
    simp only [List.flatten_cons, List.zipIdx_append, List.map_append, List.zipIdx_cons, List.map_cons]
    congr 1
    · apply zipIdx_map_const
      intro p h1 h2
      have := h 0 (by simp) p (by simpa using h1) (by simpa using h2)
      simpa using this
    · have := ih (o + c.length) (k0 + 1) (by
        intro k hk p h1 h2
        have := h (k + 1) (by simp; omega) p
          (by simp only [List.take_succ_cons, List.map_cons, List.sum_cons]; omega)
          (by simp only [List.take_succ_cons, List.map_cons, List.sum_cons]; omega)
        rw [this]; congr 1; omega)
      exact this

theorem take_sum_mono (ls : List Nat) (a b : Nat) (h : a ≤ b) : (ls.take a).sum ≤ (ls.take b).sum := by
  obtain ⟨d, rfl⟩ := Nat.exists_eq_add_of_le h
  rw [List.take_add, List.sum_append]; omega

theorem zipIdx_mem_getD (l : List Nat) (c i : Nat) (h : (c, i) ∈ l.zipIdx) :
    i < l.length ∧ l.getD i 0 = c := by
  rw [List.mem_zipIdx_iff_getElem?] at h
  have hi : i < l.length := by
    by_cases hi : i < l.length
    · exact hi
    · rw [List.getElem?_eq_none (by omega)] at h; cases h
  exact ⟨hi, by simp [List.getD_eq_getElem?_getD, h]⟩

/-- membership in the gathered positions of a set of cells. -/
theorem mem_gatherPositions (starts counts : List Nat) (p : Nat) :
    p ∈ gatherPositions starts counts ↔
      ∃ i, i < counts.length ∧ starts.getD i 0 ≤ p ∧ p < starts.getD i 0 + counts.getD i 0 := by
  unfold gatherPositions batchedArange
  constructor
  · intro h
    rw [List.mem_map] at h
    obtain ⟨⟨b, a⟩, hba, rfl⟩ := h
    rw [List.mem_flatMap] at hba
    obtain ⟨⟨c, i⟩, hci, hmem⟩ := hba
    simp only [List.mem_map, List.mem_range, Prod.mk.injEq] at hmem
    obtain ⟨a', ha', rfl, rfl⟩ := hmem
    obtain ⟨hi, hc⟩ := zipIdx_mem_getD counts c i hci
    refine ⟨i, hi, ?_, ?_⟩
    · show starts.getD i 0 ≤ starts.getD i 0 + a'
      omega
    · show starts.getD i 0 + a' < starts.getD i 0 + counts.getD i 0
      omega
  · rintro ⟨i, hi, h1, h2⟩
    rw [List.mem_map]
    have hlast : (match (i, p - starts.getD i 0) with | (b, a) => starts.getD b 0 + a) = p := by
      show starts.getD i 0 + (p - starts.getD i 0) = p
      omega
    refine ⟨(i, p - starts.getD i 0), ?_, hlast⟩
    rw [List.mem_flatMap]
    refine ⟨(counts.getD i 0, i), ?_, ?_⟩
    · rw [List.mem_zipIdx_iff_getElem?]
      simp [List.getD_eq_getElem?_getD, hi]
    · rw [List.mem_map]
      exact ⟨p - starts.getD i 0, by rw [List.mem_range]; omega, rfl⟩

end TFVerif

namespace TFVerif

open Grid

theorem replMissing_length {α : Type} (isMissing : α → Bool) (fill : α) (cell : List α) :
    (replMissing isMissing fill cell).length = cell.length := by simp [replMissing]

/-- per-cell update by the cell's column index, over the flattened rows of a uniform grid. -/
theorem zipIdx_flatten_uniform {β : Type} (rows : List (List β)) (C : Nat) (hC : 0 < C)
    (h : ∀ r ∈ rows, r.length = C) (i : Nat) (F : Nat → β → β) :
    (rows.flatten.zipIdx (i * C)).map (fun (cell, k) => F (k % C) cell)
      = (rows.map fun row => (row.zipIdx 0).map fun (cell, c) => F c cell).flatten := by
  induction rows generalizing i with
  | nil => rfl
  | cons r rs ih =>
    have hr : r.length = C := h r (by simp)
    simp only [List.flatten_cons, List.zipIdx_append, List.map_append, List.map_cons]
    congr 1
    · -- the row itself
      have : ∀ (l : List β) (o : Nat), o + l.length ≤ C →
          (l.zipIdx (i * C + o)).map (fun (cell, k) => F (k % C) cell)
            = (l.zipIdx o).map (fun (cell, c) => F c cell) := by
        intro l
        induction l with
        | nil => intros; rfl
        | cons x xs ihx =>
          intro o ho
          simp only [List.zipIdx_cons, List.map_cons, List.length_cons] at ho ⊢
          congr 1
          · have : (i * C + o) % C = o := by
              rw [Nat.add_comm, Nat.add_mul_mod_self_right]; exact Nat.mod_eq_of_lt (by omega)
            rw [this]
          · have := ihx (o + 1) (by omega)
            rw [← Nat.add_assoc] at this
            exact this
      have := this r 0 (by omega)
      simpa using this
    · have := ih (fun r hr => h r (by simp [hr])) (i + 1)
      rw [Nat.add_mul, Nat.one_mul, ← hr] at this
      rw [hr] at this ⊢
      exact this

theorem zipIdx_map_len {β : Type} (l : List (List β)) (o : Nat) (f : List β × Nat → List β)
    (hf : ∀ x, (f x).length = x.1.length) : (l.zipIdx o).map (List.length ∘ f) = l.map List.length := by
  induction l generalizing o with
  | nil => rfl
  | cons x xs ih => simp [List.zipIdx_cons, hf, ih (o + 1)]

theorem fillnaCol_ofGrid {α : Type} (g : Grid α) (hg : g.WF) (isMissing : α → Bool) (col : Nat) (fill : α)
    (hcol : col < g.numCols) :
    (MNT.ofGrid g).fillnaCol isMissing col fill
      = MNT.ofGrid { g with rows := g.rows.map fun row => (row.zipIdx 0).map fun (cell, c) =>
          if c = col then replMissing isMissing fill cell else cell } := by
  have hlen := Grid.cells_length g hg
  have hCpos : 0 < g.numCols := by omega
  -- the new cell list
  have hcells : ((g.rows.map fun row => (row.zipIdx 0).map fun (cell, c) =>
        if c = col then replMissing isMissing fill cell else cell).flatten)
      = (g.rows.flatten.zipIdx 0).map fun (cell, k) =>
          if decide (k % g.numCols = col) then replMissing isMissing fill cell else cell := by
    have := zipIdx_flatten_uniform g.rows g.numCols hCpos hg 0
      (fun c cell => if c = col then replMissing isMissing fill cell else cell)
    simp only [Nat.zero_mul] at this
    rw [← this]
    apply List.map_congr_left
    intro ⟨cell, k⟩ _
    simp
  unfold MNT.fillnaCol
  have hR : (MNT.ofGrid g).numRows = g.rows.length := rfl
  have hC : (MNT.ofGrid g).numCols = g.numCols := rfl
  simp only [hR, hC]
  -- positions predicate is constant on each cell
  have hoff : ∀ k, k ≤ g.rows.flatten.length →
      (MNT.ofGrid g).offset.getD k 0 = ((g.rows.flatten.take k).map List.length).sum := by
    intro k hk; rw [MNT.ofGrid_eq]; exact ofCells_off _ _ _ k hk
  have hP : ∀ k, k < g.rows.flatten.length → ∀ p,
      0 + ((g.rows.flatten.take k).map List.length).sum ≤ p →
      p < 0 + ((g.rows.flatten.take (k + 1)).map List.length).sum →
      (gatherPositions
          (((List.range g.rows.length).map fun r => col + r * g.numCols).map
            ((MNT.ofGrid g).offset.getD · 0))
          (((List.range g.rows.length).map fun r => col + r * g.numCols).map fun k =>
            (MNT.ofGrid g).offset.getD (k + 1) 0 - (MNT.ofGrid g).offset.getD k 0)).contains p
        = decide ((0 + k) % g.numCols = col) := by
    intro k hk p h1 h2
    rw [Nat.zero_add] at h1 h2 ⊢
    have hkR : k / g.numCols < g.rows.length := by
      rw [hlen] at hk
      exact Nat.div_lt_of_lt_mul (by rw [Nat.mul_comm]; exact hk)
    rw [Bool.eq_iff_iff, List.contains_iff_mem, mem_gatherPositions, decide_eq_true_iff]
    simp only [List.length_map, List.length_range]
    constructor
    · rintro ⟨i, hi, h3, h4⟩
      have hki : col + i * g.numCols < g.rows.flatten.length := by
        rw [hlen]
        have : (i + 1) * g.numCols ≤ g.rows.length * g.numCols := Nat.mul_le_mul_right _ hi
        rw [Nat.add_mul] at this; omega
      have e1 : (((List.range g.rows.length).map fun r => col + r * g.numCols).map
          ((MNT.ofGrid g).offset.getD · 0)).getD i 0
          = ((g.rows.flatten.take (col + i * g.numCols)).map List.length).sum := by
        rw [List.getD_eq_getElem?_getD]
        simp only [List.map_map, List.getElem?_map, List.getElem?_range hi, Option.map_some,
          Function.comp, Option.getD_some]
        exact hoff _ (by omega)
      have e2 : (((List.range g.rows.length).map fun r => col + r * g.numCols).map fun k =>
          (MNT.ofGrid g).offset.getD (k + 1) 0 - (MNT.ofGrid g).offset.getD k 0).getD i 0
          = ((g.rows.flatten.take (col + i * g.numCols + 1)).map List.length).sum
            - ((g.rows.flatten.take (col + i * g.numCols)).map List.length).sum := by
        rw [List.getD_eq_getElem?_getD]
        simp only [List.map_map, List.getElem?_map, List.getElem?_range hi, Option.map_some,
          Function.comp, Option.getD_some]
        rw [hoff _ (by omega), hoff _ (by omega)]
      rw [e1] at h3 h4
      rw [e2] at h4
      have hm1 := take_sum_mono (g.rows.flatten.map List.length) (col + i * g.numCols) (col + i * g.numCols + 1) (by omega)
      simp only [← List.map_take] at hm1
      -- k = col + i*C
      have hk_eq : k = col + i * g.numCols := by
        by_cases hlt : k < col + i * g.numCols
        · have := take_sum_mono (g.rows.flatten.map List.length) (k + 1) (col + i * g.numCols) (by omega)
          simp only [← List.map_take] at this
          omega
        · by_cases hgt : col + i * g.numCols < k
          · have := take_sum_mono (g.rows.flatten.map List.length) (col + i * g.numCols + 1) k (by omega)
            simp only [← List.map_take] at this
            omega
          · omega
      rw [hk_eq, Nat.add_mul_mod_self_right]
      exact Nat.mod_eq_of_lt hcol
    · intro hmod
      refine ⟨k / g.numCols, hkR, ?_, ?_⟩
      · have hk_eq : col + k / g.numCols * g.numCols = k := by
          have := Nat.div_add_mod k g.numCols
          rw [hmod, Nat.mul_comm] at this; omega
        rw [List.getD_eq_getElem?_getD]
        simp only [List.map_map, List.getElem?_map, List.getElem?_range hkR, Option.map_some,
          Function.comp, Option.getD_some, hk_eq]
        rw [hoff k (by omega)]
        exact h1
      · have hk_eq : col + k / g.numCols * g.numCols = k := by
          have := Nat.div_add_mod k g.numCols
          rw [hmod, Nat.mul_comm] at this; omega
        rw [List.getD_eq_getElem?_getD, List.getD_eq_getElem?_getD]
        simp only [List.map_map, List.getElem?_map, List.getElem?_range hkR, Option.map_some,
          Function.comp, Option.getD_some, hk_eq]
        rw [hoff k (by omega), hoff (k + 1) (by omega)]
        have hm := take_sum_mono (g.rows.flatten.map List.length) k (k + 1) (by omega)
        simp only [← List.map_take] at hm
        omega
  have hvals := flatten_zipIdx_map g.rows.flatten 0 0 _ (fun k => decide (k % g.numCols = col))
    isMissing fill hP
  have hV : (MNT.ofGrid g).values = g.rows.flatten.flatten := rfl
  rw [hV, hvals, ← hcells]
  -- assemble
  rw [MNT.ofGrid_eq, MNT.ofGrid_eq]
  simp only [MNT.ofCells, List.length_map]
  congr 1
  -- offsets unchanged: cell lengths are preserved
  congr 1
  rw [hcells]
  simp only [List.map_map]
  symm
  apply zipIdx_map_len
  intro ⟨cell, k⟩
  simp only
  split <;> simp [replMissing_length]

end TFVerif

namespace TFVerif

open Grid

theorem met_fillnaCol_ofW {α : Type} (w : WGrid α) (hw : w.WF) (isMissing : α → Bool) (col : Nat) (fill : α)
    (hcol : col < w.grid.numCols) :
    (MET.ofW w).fillnaCol isMissing col fill
      = MET.ofW { w with grid := { w.grid with rows := (w.grid.rows.map fun row => (row.zipIdx 0).map fun (cell, c) =>
          if c = col then replMissing isMissing fill cell else cell) } } := by
  have hO : (MET.ofW w).offset = ps 0 w.widths := by simp [MET.ofW, MET.ofGrid, psums_eq]
  have hCw : w.grid.numCols = w.widths.length := hw.1
  unfold MET.fillnaCol
  simp only [MET.ofW, MET.ofGrid, psums_eq, List.length_map, List.map_map]
  congr 1
  apply List.map_congr_left
  intro row hrow
  simp only [Function.comp]
  have hrl : row.length = w.grid.numCols := hw.grid row hrow
  have hwd : row.map List.length = w.widths := hw.2 row hrow
  have hoff : ∀ k, k ≤ row.length → (ps 0 w.widths).getD k 0 = ((row.take k).map List.length).sum := by
    intro k hk
    rw [ps_getD 0 w.widths k (by rw [← hwd]; simpa using hk), ← hwd, List.map_take]; simp
  have hP : ∀ k, k < row.length → ∀ p,
      0 + ((row.take k).map List.length).sum ≤ p →
      p < 0 + ((row.take (k + 1)).map List.length).sum →
      (decide ((ps 0 w.widths).getD col 0 ≤ p) && decide (p < (ps 0 w.widths).getD (col + 1) 0))
        = decide (0 + k = col) := by
    intro k hk p h1 h2
    rw [Nat.zero_add] at h1 h2 ⊢
    rw [hoff col (by omega), hoff (col + 1) (by omega)]
    rw [Bool.eq_iff_iff, Bool.and_eq_true, decide_eq_true_iff, decide_eq_true_iff, decide_eq_true_iff]
    constructor
    · rintro ⟨h3, h4⟩
      by_cases hlt : k < col
      · have := take_sum_mono (row.map List.length) (k + 1) col (by omega)
        simp only [← List.map_take] at this
        omega
      · by_cases hgt : col < k
        · have := take_sum_mono (row.map List.length) (col + 1) k (by omega)
          simp only [← List.map_take] at this
          omega
        · omega
    · rintro rfl
      exact ⟨h1, h2⟩
  have := flatten_zipIdx_map row 0 0
    (fun p => decide ((ps 0 w.widths).getD col 0 ≤ p) && decide (p < (ps 0 w.widths).getD (col + 1) 0))
    (fun k => decide (k = col)) isMissing fill hP
  simp only [Bool.and_assoc] at this ⊢
  rw [this]
  congr 1
  apply List.map_congr_left
  intro ⟨cell, k⟩ _
  simp

end TFVerif

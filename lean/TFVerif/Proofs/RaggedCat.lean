/-
Construction / concatenation / padding / fill lemmas for the ragged containers (C06).
Core Lean only.
-/
import TFVerif.Proofs.RaggedMET

namespace TFVerif

open Grid

/-! ### prefix sums of an append -/

theorem ps_append (acc : Nat) (A B : List Nat) :
    ps acc (A ++ B) = (ps acc A).dropLast ++ ps (acc + A.sum) B := by
  induction A generalizing acc with
  | nil => simp [ps]
  | cons x xs ih =>
    simp only [List.cons_append, ps, List.sum_cons]
    rw [List.dropLast_cons_of_ne_nil (ps_ne_nil _ _), ih (acc + x), Nat.add_assoc]
    rfl

theorem ps_shift' (acc : Nat) (ls : List Nat) : (ps 0 ls).map (· + acc) = ps acc ls :=
  (ps_shift acc ls).symm

/-! ### catRows -/

theorem catRows_go_ps {α : Type} (L : MNT α → List Nat) (xs : List (MNT α)) (hne : xs ≠ [])
    (h : ∀ x ∈ xs, x.offset = ps 0 (L x)) (acc : Nat) :
    MNT.catRows.go acc xs = ps acc (xs.flatMap L) := by
  induction xs generalizing acc with
  | nil => exact absurd rfl hne
  | cons x rest ih =>
    cases rest with
    | nil =>
      have hx := h x (by simp)
      simp only [MNT.catRows.go, List.flatMap_cons, List.flatMap_nil, List.append_nil, hx]
      exact ps_shift' acc _
    | cons y r =>
      have hx := h x (by simp)
      have ih' := ih (by simp) (fun z hz => h z (by simp [hz])) (acc + x.offset.getLastD 0)
      have e : MNT.catRows.go acc (x :: y :: r)
          = x.offset.dropLast.map (· + acc) ++ MNT.catRows.go (acc + x.offset.getLastD 0) (y :: r) := by
        simp [MNT.catRows.go]
      have hfm : (x :: y :: r).flatMap L = L x ++ (y :: r).flatMap L := List.flatMap_cons
      rw [e, hfm, ps_append, ih', hx, ps_getLastD, Nat.zero_add]
      congr 1
      rw [← ps_shift' acc, List.map_dropLast]

theorem sum_numRows_ofGrid {α : Type} (gs : List (Grid α)) :
    ((gs.map MNT.ofGrid).map (·.numRows)).sum = (gs.flatMap (·.rows)).length := by
  induction gs with
  | nil => rfl
  | cons g gs ih =>
    simp only [List.map_cons, List.sum_cons, List.flatMap_cons, List.length_append, ih]
    rfl

theorem values_ofGrid_flatten {α : Type} (gs : List (Grid α)) :
    ((gs.map MNT.ofGrid).map (·.values)).flatten = (gs.flatMap (·.rows)).flatten.flatten := by
  induction gs with
  | nil => rfl
  | cons g gs ih =>
    simp only [List.map_cons, List.flatten_cons, List.flatMap_cons, List.flatten_append, ih]
    rfl

theorem counts_ofGrid_flatMap {α : Type} (gs : List (Grid α)) :
    (gs.map MNT.ofGrid).flatMap (·.counts) = ((gs.flatMap (·.rows)).flatten).map List.length := by
  induction gs with
  | nil => rfl
  | cons g gs ih =>
    simp only [List.map_cons, List.flatMap_cons, List.flatten_append, List.map_append, ih]
    rw [MNT.ofGrid_eq, ofCells_counts]

/-- **Concatenation along rows** of canonical containers with equal column counts is the canonical
    container of the concatenated row lists. -/
theorem catRows_ofGrid {α : Type} (g0 : Grid α) (rest : List (Grid α))
    (hC : ∀ g ∈ g0 :: rest, g.numCols = g0.numCols) :
    MNT.catRows ((g0 :: rest).map MNT.ofGrid)
      = some (MNT.ofGrid { numCols := g0.numCols, rows := (g0 :: rest).flatMap (·.rows) }) := by
  have hall : ((g0 :: rest).map MNT.ofGrid).all (fun x => x.numCols == (MNT.ofGrid g0).numCols) = true := by
    rw [List.all_eq_true]
    intro x hx
    simp only [List.mem_map] at hx
    obtain ⟨g, hg, rfl⟩ := hx
    simpa [MNT.ofGrid] using hC g hg
  have hgo := catRows_go_ps (fun m : MNT α => m.counts) ((g0 :: rest).map MNT.ofGrid) (by simp)
    (by
      intro x hx
      simp only [List.mem_map] at hx
      obtain ⟨g, _, rfl⟩ := hx
      rw [MNT.ofGrid_eq, ofCells_counts]; rfl) 0
  have h1 := sum_numRows_ofGrid (g0 :: rest)
  have h2 := values_ofGrid_flatten (g0 :: rest)
  have h3 := counts_ofGrid_flatMap (g0 :: rest)
  rw [h3] at hgo
  generalize hxs : (g0 :: rest).map MNT.ofGrid = xs at *
  have hx0 : ∃ x0 rest', xs = x0 :: rest' ∧ x0.numCols = g0.numCols := by
    rw [← hxs]; exact ⟨_, _, rfl, rfl⟩
  obtain ⟨x0, rest', hxs', hx0c⟩ := hx0
  subst hxs'
  unfold MNT.catRows
  have hall2 : ((x0 :: rest').all fun x => x.numCols == g0.numCols) = true := hall
  simp only [hx0c, hall2, if_true, hgo, h1, h2]
  rw [MNT.ofGrid_eq]
  rfl

end TFVerif

namespace TFVerif

open Grid

theorem catRows_rejects {α : Type} :
    MNT.catRows ([] : List (MNT α)) = none ∧
    (∀ (x0 : MNT α) (rest : List (MNT α)), (∃ x ∈ rest, x.numCols ≠ x0.numCols) →
      MNT.catRows (x0 :: rest) = none) := by
  refine ⟨rfl, ?_⟩
  intro x0 rest ⟨x, hx, hne⟩
  unfold MNT.catRows
  have : ((x0 :: rest).all fun y => y.numCols == x0.numCols) = false := by
    rw [List.all_eq_false]
    exact ⟨x, by simp [hx], by simpa using hne⟩
  simp [this]

/-! ### catCols -/

theorem row_cells {β : Type} (rows : List (List β)) (C : Nat) (h : ∀ r ∈ rows, r.length = C)
    (r : Nat) (hr : r < rows.length) : (rows.flatten.drop (r * C)).take C = rows.getD r [] := by
  have := row_seg rows C h r 0 C hr (by omega)
  have hlen : (rows.getD r []).length = C := h _ (getD_mem_or rows r [] hr)
  simpa [← hlen] using this

theorem counts_row_ofGrid {α : Type} (g : Grid α) (hg : g.WF) (r : Nat) (hr : r < g.rows.length) :
    pySlice (MNT.ofGrid g).counts (r * g.numCols) (r * g.numCols + g.numCols)
      = (g.rows.getD r []).map List.length := by
  rw [MNT.ofGrid_eq, ofCells_counts]
  unfold pySlice
  rw [Nat.add_sub_cancel_left, ← List.map_drop, ← List.map_take, row_cells g.rows g.numCols hg r hr]

theorem values_row_ofGrid {α : Type} (g : Grid α) (hg : g.WF) (r : Nat) (hr : r < g.rows.length) :
    pySlice (MNT.ofGrid g).values ((MNT.ofGrid g).offset.getD (r * g.numCols) 0)
        ((MNT.ofGrid g).offset.getD (r * g.numCols + g.numCols) 0)
      = (g.rows.getD r []).flatten := by
  rw [MNT.ofGrid_eq]
  have hb : r * g.numCols + g.numCols ≤ g.rows.flatten.length := by
    rw [Grid.cells_length g hg]
    have : (r + 1) * g.numCols ≤ g.rows.length * g.numCols := Nat.mul_le_mul_right _ hr
    rw [Nat.add_mul] at this; omega
  have := ofCells_segment g.rows.length g.numCols g.rows.flatten (r * g.numCols) g.numCols hb
  unfold pySlice
  rw [this, row_cells g.rows g.numCols hg r hr]

theorem flatMap_flatten_eq {ι β : Type} (l : List ι) (F : ι → List (List β)) :
    l.flatMap (fun x => (F x).flatten) = (l.map F).flatten.flatten := by
  induction l with
  | nil => rfl
  | cons a l ih => rw [List.flatMap_cons, List.map_cons, List.flatten_cons, List.flatten_append, ih]

theorem map_map_length_flatten {ι β : Type} (l : List ι) (F : ι → List (List β)) :
    (l.map fun a => (F a).map List.length).flatten = ((l.map F).flatten).map List.length := by
  induction l with
  | nil => rfl
  | cons a l ih => rw [List.map_cons, List.map_cons, List.flatten_cons, List.flatten_cons, List.map_append, ih]

/-- **Concatenation along columns** of canonical containers with equal row counts is the canonical
    container of the row-wise concatenated cell lists. -/
theorem catCols_ofGrid {α : Type} (g0 : Grid α) (rest : List (Grid α))
    (hwf : ∀ g ∈ g0 :: rest, g.WF) (hR : ∀ g ∈ g0 :: rest, g.rows.length = g0.rows.length) :
    MNT.catCols ((g0 :: rest).map MNT.ofGrid)
      = some (MNT.ofGrid { numCols := ((g0 :: rest).map (·.numCols)).sum,
                           rows := (List.range g0.rows.length).map fun r =>
                             (g0 :: rest).flatMap fun g => g.rows.getD r [] }) := by
  have hall : ((g0 :: rest).map MNT.ofGrid).all (fun x => x.numRows == (MNT.ofGrid g0).numRows) = true := by
    rw [List.all_eq_true]
    intro x hx
    simp only [List.mem_map] at hx
    obtain ⟨g, hg, rfl⟩ := hx
    simpa [MNT.ofGrid] using hR g hg
  have hlen : ∀ r ∈ List.range g0.rows.length,
      (((g0 :: rest).map MNT.ofGrid).flatMap fun x =>
          pySlice x.counts (r * x.numCols) (r * x.numCols + x.numCols))
        = ((g0 :: rest).flatMap fun g => g.rows.getD r []).map List.length := by
    intro r hr
    rw [List.flatMap_map, List.map_flatMap]
    apply flatMap_congr'
    intro g hg
    exact counts_row_ofGrid g (hwf g hg) r (by rw [hR g hg]; simpa using hr)
  have hval : ∀ r ∈ List.range g0.rows.length,
      (((g0 :: rest).map MNT.ofGrid).flatMap fun x =>
          pySlice x.values (x.offset.getD (r * x.numCols) 0) (x.offset.getD (r * x.numCols + x.numCols) 0))
        = ((g0 :: rest).flatMap fun g => g.rows.getD r []).flatten := by
    intro r hr
    rw [List.flatMap_map, flatten_flatMap']
    apply flatMap_congr'
    intro g hg
    exact values_row_ofGrid g (hwf g hg) r (by rw [hR g hg]; simpa using hr)
  have hnc : (((g0 :: rest).map MNT.ofGrid).map (·.numCols)).sum = ((g0 :: rest).map (·.numCols)).sum := by
    simp [List.map_map, Function.comp_def, MNT.ofGrid]
  generalize hxs : (g0 :: rest).map MNT.ofGrid = xs at *
  have hx0 : ∃ x0 rest', xs = x0 :: rest' ∧ x0.numRows = g0.rows.length := by
    rw [← hxs]; exact ⟨_, _, rfl, rfl⟩
  obtain ⟨x0, rest', hxs', hx0r⟩ := hx0
  subst hxs'
  unfold MNT.catCols
  have hall2 : ((x0 :: rest').all fun x => x.numRows == g0.rows.length) = true := hall
  simp only [hx0r, hall2, if_true, hnc]
  rw [List.map_congr_left hlen, flatMap_congr' _ _ _ hval]
  rw [MNT.ofGrid_eq]
  simp only [MNT.ofCells, List.length_map, List.length_range, psums_eq]
  congr 2
  · exact flatMap_flatten_eq _ _
  · rw [map_map_length_flatten]

end TFVerif

namespace TFVerif

open Grid

theorem catCols_rejects {α : Type} :
    MNT.catCols ([] : List (MNT α)) = none ∧
    (∀ (x0 : MNT α) (rest : List (MNT α)), (∃ x ∈ rest, x.numRows ≠ x0.numRows) →
      MNT.catCols (x0 :: rest) = none) := by
  refine ⟨rfl, ?_⟩
  intro x0 rest ⟨x, hx, hne⟩
  unfold MNT.catCols
  have : ((x0 :: rest).all fun y => y.numRows == x0.numRows) = false := by
    rw [List.all_eq_false]
    exact ⟨x, by simp [hx], by simpa using hne⟩
  simp [this]

/-! ### construction from a cell matrix -/

theorem fromCells_spec {α : Type} (mat : List (List (List α))) (m : MNT α)
    (h : MNT.fromCells mat = some m) :
    ∃ r0 rest, mat = r0 :: rest ∧ (∀ row ∈ mat, row.length = r0.length) ∧ mat.flatten ≠ [] ∧
      m = MNT.ofGrid { numCols := r0.length, rows := mat } := by
  unfold MNT.fromCells at h
  cases mat with
  | nil => simp at h
  | cons r0 rest =>
    simp only at h
    by_cases hall : ((r0 :: rest).all fun x => x.length == r0.length) = true
    · simp only [hall, if_true] at h
      by_cases hemp : (r0 :: rest).flatten.isEmpty = true
      · rw [if_pos hemp] at h; exact absurd h (by simp)
      · simp only [hemp, Bool.false_eq_true, if_false, Option.some.injEq] at h
        refine ⟨r0, rest, rfl, ?_, ?_, ?_⟩
        · intro row hrow
          rw [List.all_eq_true] at hall
          simpa using hall row hrow
        · intro hc; apply hemp; simp [hc]
        · rw [← h]; rfl
    · simp [hall] at h

theorem fromCells_accepts {α : Type} (r0 : List (List α)) (rest : List (List (List α)))
    (hu : ∀ row ∈ r0 :: rest, row.length = r0.length) (hne : (r0 :: rest).flatten ≠ []) :
    MNT.fromCells (r0 :: rest) = some (MNT.ofGrid { numCols := r0.length, rows := r0 :: rest }) := by
  unfold MNT.fromCells
  have hall : ((r0 :: rest).all fun x => x.length == r0.length) = true := by
    rw [List.all_eq_true]; intro row hrow; simpa using hu row hrow
  have hemp : (r0 :: rest).flatten.isEmpty = false := by
    cases h : (r0 :: rest).flatten with
    | nil => exact absurd h hne
    | cons _ _ => rfl
  simp only [hall, if_true, hemp, Bool.false_eq_true, if_false]
  rfl

/-! ### dense padding -/

theorem foldl_max_ge_init (l : List Nat) (a : Nat) : a ≤ l.foldl max a := by
  induction l generalizing a with
  | nil => exact Nat.le_refl _
  | cons x xs ih => exact Nat.le_trans (Nat.le_max_left a x) (ih (max a x))

theorem foldl_max_ge (l : List Nat) (a : Nat) : ∀ x ∈ l, x ≤ l.foldl max a := by
  induction l generalizing a with
  | nil => simp
  | cons y ys ih =>
    intro x hx
    simp only [List.mem_cons] at hx
    rcases hx with rfl | hx
    · exact Nat.le_trans (Nat.le_max_right a x) (foldl_max_ge_init ys (max a x))
    · exact ih (max a y) x hx

theorem cells_map_ofGrid {α β : Type} (g : Grid α) (hg : g.WF) (F : List α → β) :
    ((List.range (MNT.ofGrid g).numRows).map fun r => (List.range (MNT.ofGrid g).numCols).map fun c =>
        F ((MNT.ofGrid g).cellAt (r * (MNT.ofGrid g).numCols + c)))
      = g.rows.map (List.map F) := by
  have hgrid := grid_ofGrid g hg
  unfold MNT.grid at hgrid
  have hrows := congrArg (fun x => x.rows.map (List.map F)) hgrid
  simp only [List.map_map, Function.comp_def] at hrows
  exact hrows

/-- padding to a dense tensor: every cell is followed only by the fill value, up to the common
    length `mx` = the longest cell. -/
theorem toDense_ofGrid {α : Type} (g : Grid α) (hg : g.WF) (fill : α) (hne : g.rows.flatten ≠ []) :
    (MNT.ofGrid g).toDense fill
      = some (g.rows.map fun row => row.map fun cell =>
          cell ++ List.replicate ((g.rows.flatten.map List.length).foldl max 0 - cell.length) fill) ∧
    (∀ row ∈ g.rows, ∀ cell ∈ row, cell.length ≤ (g.rows.flatten.map List.length).foldl max 0) := by
  refine ⟨?_, ?_⟩
  · unfold MNT.toDense
    have hcnt : (MNT.ofGrid g).counts = g.rows.flatten.map List.length := by
      rw [MNT.ofGrid_eq, ofCells_counts]
    have hemp : (g.rows.flatten.map List.length).isEmpty = false := by
      cases h : g.rows.flatten with
      | nil => exact absurd h hne
      | cons _ _ => rfl
    simp only [hcnt, hemp, Bool.false_eq_true, if_false]
    congr 1
    exact cells_map_ofGrid g hg (fun cell =>
      cell ++ List.replicate ((g.rows.flatten.map List.length).foldl max 0 - cell.length) fill)
  · intro row hrow cell hcell
    apply foldl_max_ge
    simp only [List.mem_map, List.mem_flatten]
    exact ⟨cell, ⟨row, hrow, hcell⟩, rfl⟩

/-! ### MultiEmbeddingTensor concatenation -/

theorem met_catRows_ofW {α : Type} (w0 : WGrid α) (rest : List (WGrid α))
    (hW : ∀ w ∈ w0 :: rest, w.widths = w0.widths ∧ w.grid.numCols = w0.grid.numCols) :
    MET.catRows ((w0 :: rest).map MET.ofW)
      = some (MET.ofW { grid := { numCols := w0.grid.numCols, rows := (w0 :: rest).flatMap (·.grid.rows) },
                        widths := w0.widths }) := by
  cases rest with
  | nil => simp [MET.catRows, MET.ofW, MET.ofGrid]
  | cons w1 rest' =>
    have h1 : (((w0 :: w1 :: rest').map MET.ofW).all fun x => x.numCols == (MET.ofW w0).numCols) = true := by
      rw [List.all_eq_true]
      intro x hx
      simp only [List.mem_map] at hx
      obtain ⟨w, hw, rfl⟩ := hx
      simpa [MET.ofW, MET.ofGrid] using (hW w hw).2
    have h2 : (((w0 :: w1 :: rest').map MET.ofW).all fun x => x.width == (MET.ofW w0).width) = true := by
      rw [List.all_eq_true]
      intro x hx
      simp only [List.mem_map] at hx
      obtain ⟨w, hw, rfl⟩ := hx
      simp [MET.ofW, MET.ofGrid, (hW w hw).1]
    have hrows : (((w0 :: w1 :: rest').map MET.ofW).map (·.numRows)).sum
        = ((w0 :: w1 :: rest').flatMap (·.grid.rows)).length := by
      generalize (w0 :: w1 :: rest') = ws
      induction ws with
      | nil => rfl
      | cons w ws ih =>
        simp only [List.map_cons, List.sum_cons, List.flatMap_cons, List.length_append, ih]; rfl
    have hvals : ((w0 :: w1 :: rest').map MET.ofW).flatMap (·.values)
        = ((w0 :: w1 :: rest').flatMap (·.grid.rows)).map List.flatten := by
      generalize (w0 :: w1 :: rest') = ws
      induction ws with
      | nil => rfl
      | cons w ws ih =>
        simp only [List.map_cons, List.flatMap_cons, List.map_append, ih]; rfl
    unfold MET.catRows
    simp only [List.map_cons] at h1 h2 hrows hvals ⊢
    simp only [h1, h2, Bool.and_self, if_true, hrows, hvals]
    rfl

theorem ps_append_tail (A W : List Nat) :
    ps 0 (A ++ W) = ps 0 A ++ ((ps 0 W).tail).map (· + (ps 0 A).getLastD 0) := by
  rw [ps_append, ps_getLastD, Nat.zero_add]
  have h1 : ps 0 A = (ps 0 A).dropLast ++ [A.sum] := by
    have h := ps_getLast? 0 A
    rw [List.getLast?_eq_some_getLast (ps_ne_nil 0 A)] at h
    have h' : (ps 0 A).getLast (ps_ne_nil 0 A) = A.sum := by simpa using h
    rw [← h']
    exact (List.dropLast_concat_getLast (ps_ne_nil 0 A)).symm
  have h2 : ps A.sum W = A.sum :: ((ps 0 W).tail).map (· + A.sum) := by
    rw [ps_shift A.sum W]
    cases W with
    | nil => simp [ps]
    | cons x xs => simp [ps]
  rw [h2]
  conv => rhs; rw [h1]
  simp

theorem met_catCols_offsets {α : Type} (ws : List (WGrid α)) (A : List Nat) :
    (ws.map MET.ofW).foldl (fun acc x => acc ++ x.offset.tail.map (· + acc.getLastD 0)) (ps 0 A)
      = ps 0 (A ++ ws.flatMap (·.widths)) := by
  induction ws generalizing A with
  | nil => simp
  | cons w ws ih =>
    simp only [List.map_cons, List.foldl_cons, List.flatMap_cons]
    have hO : (MET.ofW w).offset = ps 0 w.widths := by simp [MET.ofW, MET.ofGrid, psums_eq]
    rw [hO, ← ps_append_tail, ih (A ++ w.widths), List.append_assoc]

theorem met_catCols_ofW {α : Type} (w0 w1 : WGrid α) (rest : List (WGrid α))
    (hR : ∀ w ∈ w0 :: w1 :: rest, w.grid.rows.length = w0.grid.rows.length) :
    MET.catCols ((w0 :: w1 :: rest).map MET.ofW)
      = some (MET.ofW { grid := { numCols := ((w0 :: w1 :: rest).map (·.grid.numCols)).sum,
                                  rows := (List.range w0.grid.rows.length).map fun r =>
                                    (w0 :: w1 :: rest).flatMap fun w => w.grid.rows.getD r [] },
                        widths := (w0 :: w1 :: rest).flatMap (·.widths) }) := by
  have h1 : (((w0 :: w1 :: rest).map MET.ofW).all fun x => x.numRows == (MET.ofW w0).numRows) = true := by
    rw [List.all_eq_true]
    intro x hx
    simp only [List.mem_map] at hx
    obtain ⟨w, hw, rfl⟩ := hx
    simpa [MET.ofW, MET.ofGrid] using hR w hw
  have hoff := met_catCols_offsets (w0 :: w1 :: rest) []
  have hnc : (((w0 :: w1 :: rest).map MET.ofW).map (·.numCols)).sum
      = ((w0 :: w1 :: rest).map (·.grid.numCols)).sum := by
    simp [List.map_map, Function.comp_def, MET.ofW, MET.ofGrid]
  have hwd : (((w0 :: w1 :: rest).map MET.ofW).map (·.width)).sum
      = ((w0 :: w1 :: rest).flatMap (·.widths)).sum := by
    generalize (w0 :: w1 :: rest) = ws
    induction ws with
    | nil => rfl
    | cons w ws ih =>
      simp only [List.map_cons, List.sum_cons, List.flatMap_cons, List.sum_append, ih]; rfl
  have hval : ∀ r ∈ List.range w0.grid.rows.length,
      (((w0 :: w1 :: rest).map MET.ofW).flatMap fun x => x.values.getD r [])
        = ((w0 :: w1 :: rest).flatMap fun w => w.grid.rows.getD r []).flatten := by
    intro r hr
    rw [List.flatMap_map, flatten_flatMap']
    apply flatMap_congr'
    intro w hw
    have hr' : r < w.grid.rows.length := by rw [hR w hw]; simpa using hr
    simp [MET.ofW, MET.ofGrid, List.getD_eq_getElem?_getD, hr']
  unfold MET.catCols
  simp only [List.map_cons, ps, List.nil_append] at h1 hoff hnc hwd hval ⊢
  simp only [h1, if_true, hoff, hnc, hwd]
  have hR0 : (MET.ofW w0).numRows = w0.grid.rows.length := rfl
  rw [hR0, List.map_congr_left hval]
  simp only [MET.ofW, MET.ofGrid, List.length_map, List.length_range, List.map_map, Function.comp_def,
    psums_eq]

end TFVerif

/-
Helper lemmas for the encoder properties C12 / C13 (core Lean part: list combinators, per-cell
refinement of the batched encoders, index arithmetic; the ordered-field part is at the end).
-/
import TFVerif.Model.Encoder
import Mathlib.Tactic.Linarith
import Mathlib.Algebra.Order.Field.Basic

namespace TFVerif.Enc
open TFVerif

/-! ## codes used by the generated tables -/

def Stype.idx (s : Stype) : Nat := Stype.all.idxOf s
def EncClass.idx (c : EncClass) : Nat := EncClass.all.idxOf c
def naCode : Option NA → Nat
  | none => 0
  | some n => NA.all.idxOf n + 1
def tripleCode (t : EncClass × Stype × Option NA) : Nat × Nat × Nat := (t.1.idx, t.2.1.idx, naCode t.2.2)

def Stype.name : Stype → String
  | .numerical => "numerical" | .categorical => "categorical" | .text_embedded => "text_embedded"
  | .text_tokenized => "text_tokenized" | .multicategorical => "multicategorical"
  | .sequence_numerical => "sequence_numerical" | .timestamp => "timestamp"
  | .image_embedded => "image_embedded" | .embedding => "embedding"
def NA.name : NA → String
  | .mean => "mean" | .mostFrequent => "most_frequent" | .zeros => "zeros"
  | .oldest => "oldest_timestamp" | .newest => "newest_timestamp" | .median => "median_timestamp"
def EncClass.name : EncClass → String
  | .embedding => "EmbeddingEncoder" | .multiCategorical => "MultiCategoricalEmbeddingEncoder"
  | .linear => "LinearEncoder" | .stack => "StackEncoder" | .linearBucket => "LinearBucketEncoder"
  | .linearPeriodic => "LinearPeriodicEncoder" | .excelFormer => "ExcelFormerEncoder"
  | .linearEmbedding => "LinearEmbeddingEncoder" | .linearModel => "LinearModelEncoder"
  | .timestamp => "TimestampEncoder"

/-! ## a small exact scalar for the non-vacuity examples (integers; the transcendental slots are arbitrary maps) -/

def toy : SOps Int where
  zero := 0
  one := 1
  nan := 0
  add := (· + ·)
  sub := (· - ·)
  mul := (· * ·)
  div := (· / ·)
  sin x := x
  cos x := x + 1
  tanh x := x
  sqrt x := x
  pow x _ := x
  ofInt i := i
  ofSci m _ := m
  pi := 3
  lt a b := decide (a < b)
  isNaN _ := false
  isZero x := x == 0
  nanToNum x := x
  round32 x := x

/-! ## combinators -/

theorem cell_map2 {α β} (f : α → β) (x : Mat α) (r c : Nat) :
    cell (map2 f x) r c = (cell x r c).map f := by
  unfold cell map2
  simp only [List.getElem?_map]
  cases x[r]? <;> simp

theorem cell_bcast2 {α β γ} (f : α → β → γ) (x : Mat α) (v : List β) (r c : Nat) :
    cell (bcast2 f x v) r c = (cell x r c).bind fun a => (v[c]?).map fun b => f a b := by
  unfold cell bcast2
  simp only [List.getElem?_map]
  cases x[r]? with
  | none => simp
  | some row =>
    simp only [Option.map_some, Option.bind_some, List.getElem?_zipWith]
    cases row[c]? <;> cases v[c]? <;> simp

theorem cell_zip2 {α β γ} (f : α → β → γ) (x : Mat α) (y : Mat β) (r c : Nat) :
    cell (zip2 f x y) r c = (cell x r c).bind fun a => (cell y r c).map fun b => f a b := by
  unfold cell zip2
  simp only [List.getElem?_zipWith]
  cases x[r]? with
  | none => simp
  | some row =>
    cases y[r]? with
    | none => cases row[c]? <;> simp
    | some row' =>
      simp only [Option.bind_some, List.getElem?_zipWith]
      cases row[c]? <;> cases row'[c]? <;> simp

theorem stackDim1_rows {ρ β} (rows : List ρ) (C : Nat) (h : Nat → ρ → β) :
    stackDim1 rows.length ((List.range C).map fun i => rows.map (h i)) =
      rows.map fun r => (List.range C).map fun i => h i r := by
  unfold stackDim1
  apply List.ext_getElem?
  intro b
  simp only [List.getElem?_map]
  by_cases hb : b < rows.length
  · rw [List.getElem?_range hb]
    have : rows[b]? = some rows[b] := List.getElem?_eq_getElem hb
    simp only [this, Option.map_some, List.filterMap_map]
    congr 1
    rw [← List.filterMap_eq_map]
    congr 1
    funext i
    simp [this]
  · have h1 : (List.range rows.length)[b]? = none := by simp; omega
    have h2 : rows[b]? = none := by simp; omega
    simp [h1, h2]

section
variable {R : Type} (S : SOps R)

theorem cell_normalize (n : Norm R) (feat : Mat R) (r c : Nat) :
    cell (normalize S n feat) r c =
      (cell feat r c).bind fun x => (n.mean[c]?).bind fun m => (n.std[c]?).map fun s => S.div (S.sub x m) s := by
  unfold normalize
  simp only [cell_bcast2]
  cases cell feat r c <;> cases n.mean[c]? <;> cases n.std[c]? <;> simp

theorem linear_per_cell (n : Norm R) (w b : Mat R) (feat : Mat R) (r c : Nat) :
    cell (linearEncode S n w b feat) r c =
      (cell feat r c).bind fun x => (n.mean[c]?).bind fun m => (n.std[c]?).bind fun s =>
        (w[c]?).bind fun wc => (b[c]?).map fun bc => cellLinear S m s wc bc x := by
  unfold linearEncode
  simp only [cell_bcast2, cell_normalize]
  cases cell feat r c <;> cases n.mean[c]? <;> cases n.std[c]? <;> cases w[c]? <;> cases b[c]? <;> simp [cellLinear]

theorem stack_per_cell (n : Norm R) (ch : Nat) (feat : Mat R) (r c : Nat) :
    cell (stackEncode S n ch feat) r c =
      (cell feat r c).bind fun x => (n.mean[c]?).bind fun m => (n.std[c]?).map fun s => cellStack S m s ch x := by
  unfold stackEncode
  simp only [cell_map2, cell_normalize]
  cases cell feat r c <;> cases n.mean[c]? <;> cases n.std[c]? <;> simp [cellStack]

theorem periodic_per_cell (n : Norm R) (li : Mat R) (lo : T3 R) (ch : Nat) (feat : Mat R) (r c : Nat) :
    cell (periodicEncode S n li lo ch feat) r c =
      (cell feat r c).bind fun x => (n.mean[c]?).bind fun m => (n.std[c]?).bind fun s =>
        (li[c]?).bind fun l => (lo[c]?).map fun W => cellPeriodic S m s l W ch x := by
  unfold periodicEncode
  simp only [cell_bcast2, cell_map2, cell_normalize]
  cases cell feat r c <;> cases n.mean[c]? <;> cases n.std[c]? <;> cases li[c]? <;> cases lo[c]? <;> simp [cellPeriodic]

theorem excel_per_cell (n : Norm R) (w1 w2 b1 b2 : Mat R) (feat : Mat R) (r c : Nat) :
    cell (excelEncode S n w1 w2 b1 b2 feat) r c =
      (cell feat r c).bind fun x => (n.mean[c]?).bind fun m => (n.std[c]?).bind fun s =>
        (w1[c]?).bind fun u1 => (w2[c]?).bind fun u2 => (b1[c]?).bind fun v1 => (b2[c]?).map fun v2 =>
          cellExcel S m s u1 u2 v1 v2 x := by
  unfold excelEncode
  simp only [cell_zip2, cell_bcast2, cell_normalize]
  cases cell feat r c <;> cases n.mean[c]? <;> cases n.std[c]? <;> cases w1[c]? <;> cases w2[c]? <;>
    cases b1[c]? <;> cases b2[c]? <;> simp [cellExcel]

end

theorem cell_rows_range {ρ β} (rows : List ρ) (C : Nat) (h : Nat → ρ → β) (r c : Nat) :
    cell (rows.map fun row => (List.range C).map fun i => h i row) r c =
      (rows[r]?).bind fun row => if c < C then some (h c row) else none := by
  unfold cell
  simp only [List.getElem?_map]
  cases rows[r]? with
  | none => simp
  | some row =>
    simp only [Option.map_some, Option.bind_some, List.getElem?_map]
    by_cases hc : c < C
    · simp [hc]
    · have : (List.range C)[c]? = none := by simp; omega
      simp [hc]

section
variable {R : Type} (S : SOps R)

theorem bucket_per_cell (q : Mat R) (w : T3 R) (b : Mat R) (ch C : Nat) (feat : Mat R) (r c : Nat)
    (row : List R) (x : R) (hr : feat[r]? = some row) (hx : row[c]? = some x) (hc : c < C) :
    cell (bucketEncode S q w b ch C feat) r c =
      (w[c]?).bind fun W => (b[c]?).map fun bc => cellBucket S (q.getD c []) W bc ch x := by
  unfold bucketEncode
  simp only [List.map_map]
  have hst := stackDim1_rows feat C (fun i (row : List R) => bucketRow S (q.getD i []) (row.getD i S.zero))
  simp only [Function.comp_def] at hst ⊢
  rw [hst]
  simp only [cell_bcast2, cell_rows_range, hr, Option.bind_some, hc, if_true]
  have : row.getD c S.zero = x := by simp [List.getD, hx]
  rw [this]
  cases w[c]? <;> cases b[c]? <;> simp [cellBucket]

end

section
variable {R : Type} (S : SOps R)

theorem embedding_per_cell (off : List Int) (t : Mat R) (feat : Mat Int) (y : T3 R)
    (h : embeddingEncode off t feat = some y) (r c : Nat) :
    cell y r c = (cell feat r c).bind fun v => (off[c]?).map fun o => t.getD (embIndex o v).toNat [] := by
  unfold embeddingEncode at h
  simp only at h
  split at h
  · injection h with h
    subst h
    simp only [cell_map2, cell_zip2, cell_bcast2]
    cases cell feat r c with
    | none => simp
    | some v =>
      cases off[c]? with
      | none => simp
      | some o =>
        by_cases hv : v < 0 <;> simp [embIndex, hv]
  · cases h

theorem bag_per_cell (mode : BagMode) (tables : T3 R) (ch : Nat) (feat : Mat (List Int)) (y : T3 R)
    (h : bagEncode S mode tables ch feat = some y) (r c : Nat) (row : List (List Int)) (bag : List Int)
    (hr : feat[r]? = some row) (hx : row[c]? = some bag) (hc : c < tables.length) :
    cell y r c = some (bagReduce S mode (tables.getD c []) ch bag) := by
  unfold bagEncode at h
  split at h
  · injection h with h
    subst h
    simp only [List.map_map]
    have hst := stackDim1_rows feat tables.length
      (fun i (row : List (List Int)) => bagReduce S mode (tables.getD i []) ch (row.getD i []))
    simp only [Function.comp_def] at hst ⊢
    rw [hst]
    simp only [cell_rows_range, hr, Option.bind_some, hc, if_true]
    have : row.getD c [] = bag := by simp [List.getD, hx]
    rw [this]
  · cases h

theorem timestamp_per_cell (minYear maxValues : List Int) (outSize : Nat) (weight : List (T3 R)) (bias : Mat R)
    (ch : Nat) (feat : Mat (List Int)) (y : T3 R)
    (h : timestampEncode S minYear maxValues outSize weight bias ch feat = some y) (r c : Nat) :
    cell y r c = (cell feat r c).bind fun ts => (minYear[c]?).bind fun my => (weight[c]?).bind fun W =>
      (bias[c]?).map fun b => cellTimestamp S my maxValues outSize W b ch ts := by
  unfold timestampEncode at h
  simp only at h
  split at h
  · injection h with h
    subst h
    simp only [cell_zip2, cell_bcast2, cell_map2]
    cases cell feat r c with
    | none => simp
    | some ts =>
      cases minYear[c]? with
      | none => simp
      | some my =>
        cases weight[c]? with
        | none => simp
        | some W =>
          cases bias[c]? with
          | none => simp
          | some b =>
            by_cases hm : tsMissing ts <;> simp [cellTimestamp, hm]
  · cases h

theorem linearEmb_per_cell (dims : List Nat) (weights : T3 R) (biases : Mat R) (ch : Nat) (values : Mat R) (y : T3 R)
    (h : linearEmbEncode S dims weights biases ch values = some y) (r c : Nat) (row : List R)
    (hr : values[r]? = some row) (hc : c < dims.length) :
    cell y r c = (biases[c]?).map fun bc =>
      cellLinearEmb S (weights.getD c []) bc ch ((row.drop ((embStarts dims).getD c 0)).take (dims.getD c 0)) := by
  unfold linearEmbEncode at h
  split at h
  · injection h with h
    subst h
    have hst := stackDim1_rows values dims.length
      (fun i (row : List R) => vecMat S ((row.drop ((embStarts dims).getD i 0)).take (dims.getD i 0)) (weights.getD i []) ch)
    rw [hst]
    simp only [cell_bcast2, cell_rows_range, hr, Option.bind_some, hc, if_true]
    cases biases[c]? <;> simp [cellLinearEmb]
  · cases h

end

end TFVerif.Enc

/-
Helper lemmas for the encoder properties C12 / C13 (core Lean part: list combinators, per-cell
refinement of the batched encoders, index arithmetic; the ordered-field part is at the end).
-/
import TFVerif.Model.Encoder
import Mathlib.Tactic.Linarith
import Mathlib.Algebra.Order.Field.Basic

namespace TFVerif.Enc
open TFVerif

/-! ## codes used by the generated tables -/

def Stype.idx (s : Stype) : Nat := Stype.all.idxOf s
def EncClass.idx (c : EncClass) : Nat := EncClass.all.idxOf c
def naCode : Option NA → Nat
  | none => 0
  | some n => NA.all.idxOf n + 1
def tripleCode (t : EncClass × Stype × Option NA) : Nat × Nat × Nat := (t.1.idx, t.2.1.idx, naCode t.2.2)

def Stype.name : Stype → String
  | .numerical => "numerical" | .categorical => "categorical" | .text_embedded => "text_embedded"
  | .text_tokenized => "text_tokenized" | .multicategorical => "multicategorical"
  | .sequence_numerical => "sequence_numerical" | .timestamp => "timestamp"
  | .image_embedded => "image_embedded" | .embedding => "embedding"
def NA.name : NA → String
  | .mean => "mean" | .mostFrequent => "most_frequent" | .zeros => "zeros"
  | .oldest => "oldest_timestamp" | .newest => "newest_timestamp" | .median => "median_timestamp"
def EncClass.name : EncClass → String
  | .embedding => "EmbeddingEncoder" | .multiCategorical => "MultiCategoricalEmbeddingEncoder"
  | .linear => "LinearEncoder" | .stack => "StackEncoder" | .linearBucket => "LinearBucketEncoder"
  | .linearPeriodic => "LinearPeriodicEncoder" | .excelFormer => "ExcelFormerEncoder"
  | .linearEmbedding => "LinearEmbeddingEncoder" | .linearModel => "LinearModelEncoder"
  | .timestamp => "TimestampEncoder"

/-! ## a small exact scalar for the non-vacuity examples (integers; the transcendental slots are arbitrary maps) -/

def toy : SOps Int where
  zero := 0
  one := 1
  nan := 0
  add := (· + ·)
  sub := (· - ·)
  mul := (· * ·)
  div := (· / ·)
  sin x := x
  cos x := x + 1
  tanh x := x
  sqrt x := x
  pow x _ := x
  ofInt i := i
  ofSci m _ := m
  pi := 3
  lt a b := decide (a < b)
  isNaN _ := false
  isZero x := x == 0
  nanToNum x := x
  round32 x := x

/-! ## combinators -/

theorem cell_map2 {α β} (f : α → β) (x : Mat α) (r c : Nat) :
    cell (map2 f x) r c = (cell x r c).map f := by
  unfold cell map2
  simp only [List.getElem?_map]
  cases x[r]? <;> simp

theorem cell_bcast2 {α β γ} (f : α → β → γ) (x : Mat α) (v : List β) (r c : Nat) :
    cell (bcast2 f x v) r c = (cell x r c).bind fun a => (v[c]?).map fun b => f a b := by
  unfold cell bcast2
  simp only [List.getElem?_map]
  cases x[r]? with
  | none => simp
  | some row =>
    simp only [Option.map_some, Option.bind_some, List.getElem?_zipWith]
    cases row[c]? <;> cases v[c]? <;> simp

theorem cell_zip2 {α β γ} (f : α → β → γ) (x : Mat α) (y : Mat β) (r c : Nat) :
    cell (zip2 f x y) r c = (cell x r c).bind fun a => (cell y r c).map fun b => f a b := by
  unfold cell zip2
  simp only [List.getElem?_zipWith]
  cases x[r]? with
  | none => simp
  | some row =>
    cases y[r]? with
    | none => cases row[c]? <;> simp
    | some row' =>
      simp only [Option.bind_some, List.getElem?_zipWith]
      cases row[c]? <;> cases row'[c]? <;> simp

theorem stackDim1_rows {ρ β} (rows : List ρ) (C : Nat) (h : Nat → ρ → β) :
    stackDim1 rows.length ((List.range C).map fun i => rows.map (h i)) =
      rows.map fun r => (List.range C).map fun i => h i r := by
  unfold stackDim1
  apply List.ext_getElem?
  intro b
  simp only [List.getElem?_map]
  by_cases hb : b < rows.length
  · rw [List.getElem?_range hb]
    have : rows[b]? = some rows[b] := List.getElem?_eq_getElem hb
    simp only [this, Option.map_some, List.filterMap_map]
    congr 1
    rw [← List.filterMap_eq_map]
    congr 1
    funext i
    simp [this]
  · have h1 : (List.range rows.length)[b]? = none := by simp; omega
    have h2 : rows[b]? = none := by simp; omega
    simp [h1, h2]

section
variable {R : Type} (S : SOps R)

theorem cell_normalize (n : Norm R) (feat : Mat R) (r c : Nat) :
    cell (normalize S n feat) r c =
      (cell feat r c).bind fun x => (n.mean[c]?).bind fun m => (n.std[c]?).map fun s => S.div (S.sub x m) s := by
  unfold normalize
  simp only [cell_bcast2]
  cases cell feat r c <;> cases n.mean[c]? <;> cases n.std[c]? <;> simp

theorem linear_per_cell (n : Norm R) (w b : Mat R) (feat : Mat R) (r c : Nat) :
    cell (linearEncode S n w b feat) r c =
      (cell feat r c).bind fun x => (n.mean[c]?).bind fun m => (n.std[c]?).bind fun s =>
        (w[c]?).bind fun wc => (b[c]?).map fun bc => cellLinear S m s wc bc x := by
  unfold linearEncode
  simp only [cell_bcast2, cell_normalize]
  cases cell feat r c <;> cases n.mean[c]? <;> cases n.std[c]? <;> cases w[c]? <;> cases b[c]? <;> simp [cellLinear]

theorem stack_per_cell (n : Norm R) (ch : Nat) (feat : Mat R) (r c : Nat) :
    cell (stackEncode S n ch feat) r c =
      (cell feat r c).bind fun x => (n.mean[c]?).bind fun m => (n.std[c]?).map fun s => cellStack S m s ch x := by
  unfold stackEncode
  simp only [cell_map2, cell_normalize]
  cases cell feat r c <;> cases n.mean[c]? <;> cases n.std[c]? <;> simp [cellStack]

theorem periodic_per_cell (n : Norm R) (li : Mat R) (lo : T3 R) (ch : Nat) (feat : Mat R) (r c : Nat) :
    cell (periodicEncode S n li lo ch feat) r c =
      (cell feat r c).bind fun x => (n.mean[c]?).bind fun m => (n.std[c]?).bind fun s =>
        (li[c]?).bind fun l => (lo[c]?).map fun W => cellPeriodic S m s l W ch x := by
  unfold periodicEncode
  simp only [cell_bcast2, cell_map2, cell_normalize]
  cases cell feat r c <;> cases n.mean[c]? <;> cases n.std[c]? <;> cases li[c]? <;> cases lo[c]? <;> simp [cellPeriodic]

theorem excel_per_cell (n : Norm R) (w1 w2 b1 b2 : Mat R) (feat : Mat R) (r c : Nat) :
    cell (excelEncode S n w1 w2 b1 b2 feat) r c =
      (cell feat r c).bind fun x => (n.mean[c]?).bind fun m => (n.std[c]?).bind fun s =>
        (w1[c]?).bind fun u1 => (w2[c]?).bind fun u2 => (b1[c]?).bind fun v1 => (b2[c]?).map fun v2 =>
          cellExcel S m s u1 u2 v1 v2 x := by
  unfold excelEncode
  simp only [cell_zip2, cell_bcast2, cell_normalize]
  cases cell feat r c <;> cases n.mean[c]? <;> cases n.std[c]? <;> cases w1[c]? <;> cases w2[c]? <;>
    cases b1[c]? <;> cases b2[c]? <;> simp [cellExcel]

end

theorem cell_rows_range {ρ β} (rows : List ρ) (C : Nat) (h : Nat → ρ → β) (r c : Nat) :
    cell (rows.map fun row => (List.range C).map fun i => h i row) r c =
      (rows[r]?).bind fun row => if c < C then some (h c row) else none := by
  unfold cell
  simp only [List.getElem?_map]
  cases rows[r]? with
  | none => simp
  | some row =>
    simp only [Option.map_some, Option.bind_some, List.getElem?_map]
    by_cases hc : c < C
    · simp [hc]
    · have : (List.range C)[c]? = none := by simp; omega
      simp [hc]

section
variable {R : Type} (S : SOps R)

theorem bucket_per_cell (q : Mat R) (w : T3 R) (b : Mat R) (ch C : Nat) (feat : Mat R) (r c : Nat)
    (row : List R) (x : R) (hr : feat[r]? = some row) (hx : row[c]? = some x) (hc : c < C) :
    cell (bucketEncode S q w b ch C feat) r c =
      (w[c]?).bind fun W => (b[c]?).map fun bc => cellBucket S (q.getD c []) W bc ch x := by
  unfold bucketEncode
  simp only [List.map_map]
  have hst := stackDim1_rows feat C (fun i (row : List R) => bucketRow S (q.getD i []) (row.getD i S.zero))
  simp only [Function.comp_def] at hst ⊢
  rw [hst]
  simp only [cell_bcast2, cell_rows_range, hr, Option.bind_some, hc, if_true]
  have : row.getD c S.zero = x := by simp [List.getD, hx]
  rw [this]
  cases w[c]? <;> cases b[c]? <;> simp [cellBucket]

end

section
variable {R : Type} (S : SOps R)

theorem embedding_per_cell (off : List Int) (t : Mat R) (feat : Mat Int) (y : T3 R)
    (h : embeddingEncode off t feat = some y) (r c : Nat) :
    cell y r c = (cell feat r c).bind fun v => (off[c]?).map fun o => t.getD (embIndex o v).toNat [] := by
  unfold embeddingEncode at h
  simp only at h
  split at h
  · injection h with h
    subst h
    simp only [cell_map2, cell_zip2, cell_bcast2]
    cases cell feat r c with
    | none => simp
    | some v =>
      cases off[c]? with
      | none => simp
      | some o =>
        by_cases hv : v < 0 <;> simp [embIndex, hv]
  · cases h

theorem bag_per_cell (mode : BagMode) (tables : T3 R) (ch : Nat) (feat : Mat (List Int)) (y : T3 R)
    (h : bagEncode S mode tables ch feat = some y) (r c : Nat) (row : List (List Int)) (bag : List Int)
    (hr : feat[r]? = some row) (hx : row[c]? = some bag) (hc : c < tables.length) :
    cell y r c = some (bagReduce S mode (tables.getD c []) ch bag) := by
  unfold bagEncode at h
  split at h
  · injection h with h
    subst h
    simp only [List.map_map]
    have hst := stackDim1_rows feat tables.length
      (fun i (row : List (List Int)) => bagReduce S mode (tables.getD i []) ch (row.getD i []))
    simp only [Function.comp_def] at hst ⊢
    rw [hst]
    simp only [cell_rows_range, hr, Option.bind_some, hc, if_true]
    have : row.getD c [] = bag := by simp [List.getD, hx]
    rw [this]
  · cases h

theorem timestamp_per_cell (minYear maxValues : List Int) (outSize : Nat) (weight : List (T3 R)) (bias : Mat R)
    (ch : Nat) (feat : Mat (List Int)) (y : T3 R)
    (h : timestampEncode S minYear maxValues outSize weight bias ch feat = some y) (r c : Nat) :
    cell y r c = (cell feat r c).bind fun ts => (minYear[c]?).bind fun my => (weight[c]?).bind fun W =>
      (bias[c]?).map fun b => cellTimestamp S my maxValues outSize W b ch ts := by
  unfold timestampEncode at h
  simp only at h
  split at h
  · injection h with h
    subst h
    simp only [cell_zip2, cell_bcast2, cell_map2]
    cases cell feat r c with
    | none => simp
    | some ts =>
      cases minYear[c]? with
      | none => simp
      | some my =>
        cases weight[c]? with
        | none => simp
        | some W =>
          cases bias[c]? with
          | none => simp
          | some b =>
            by_cases hm : tsMissing ts <;> simp [cellTimestamp, hm]
  · cases h

theorem linearEmb_per_cell (dims : List Nat) (weights : T3 R) (biases : Mat R) (ch : Nat) (values : Mat R) (y : T3 R)
    (h : linearEmbEncode S dims weights biases ch values = some y) (r c : Nat) (row : List R)
    (hr : values[r]? = some row) (hc : c < dims.length) :
    cell y r c = (biases[c]?).map fun bc =>
      cellLinearEmb S (weights.getD c []) bc ch ((row.drop ((embStarts dims).getD c 0)).take (dims.getD c 0)) := by
  unfold linearEmbEncode at h
  split at h
  · injection h with h
    subst h
    have hst := stackDim1_rows values dims.length
      (fun i (row : List R) => vecMat S ((row.drop ((embStarts dims).getD i 0)).take (dims.getD i 0)) (weights.getD i []) ch)
    rw [hst]
    simp only [cell_bcast2, cell_rows_range, hr, Option.bind_some, hc, if_true]
    cases biases[c]? <;> simp [cellLinearEmb]
  · cases h

end


/-! ## prefix sums: `cumsum`, embedding offsets, MET offsets -/

theorem cumsum_length (xs : List Nat) : (cumsum xs).length = xs.length := by
  induction xs with
  | nil => rfl
  | cons x xs ih => simp [cumsum, ih]

theorem cumsum_getElem? (xs : List Nat) (i : Nat) :
    (cumsum xs)[i]? = if i < xs.length then some (xs.take (i + 1)).sum else none := by
  induction xs generalizing i with
  | nil => simp [cumsum]
  | cons x xs ih =>
    cases i with
    | zero => simp [cumsum]
    | succ i =>
      simp only [cumsum, List.getElem?_cons_succ, List.getElem?_map, ih, List.length_cons]
      by_cases h : i < xs.length
      · simp [h, List.take_succ_cons]; omega
      · simp [h]

theorem sum_take_le (xs : List Nat) (i : Nat) : (xs.take i).sum ≤ xs.sum := by
  induction xs generalizing i with
  | nil => simp
  | cons x xs ih =>
    cases i with
    | zero => simp
    | succ i => simp [List.take_succ_cons]; exact ih i

theorem sum_take_succ (xs : List Nat) (i : Nat) (h : i < xs.length) :
    (xs.take (i + 1)).sum = (xs.take i).sum + xs[i] := by
  induction xs generalizing i with
  | nil => simp at h
  | cons x xs ih =>
    cases i with
    | zero => simp
    | succ i =>
      simp only [List.length_cons, Nat.add_lt_add_iff_right] at h
      simp only [List.take_succ_cons, List.sum_cons, List.getElem_cons_succ, ih i h]
      omega

theorem sum_take_mono (xs : List Nat) {i j : Nat} (h : i ≤ j) : (xs.take i).sum ≤ (xs.take j).sum := by
  have : xs.take i = (xs.take j).take i := by rw [List.take_take]; congr 1; omega
  rw [this]
  exact sum_take_le _ _

theorem embOffsets_getElem? (ns : List Nat) (c : Nat) (h : c < ns.length) :
    (embOffsets ns)[c]? = some (Int.ofNat (ns.take c).sum) := by
  unfold embOffsets
  simp only [List.getElem?_map, cumsum_getElem?]
  have hl : (0 :: ns).dropLast.length = ns.length := by simp
  rw [hl]
  simp only [h, if_true, Option.map_some]
  congr 2
  have : ((0 :: ns).dropLast).take (c + 1) = 0 :: ns.take c := by
    rw [List.dropLast_eq_take, List.take_take]
    simp only [List.length_cons, Nat.add_sub_cancel]
    have : min (c + 1) ns.length = c + 1 := by omega
    rw [this, List.take_succ_cons]
  rw [this]
  simp

theorem embStarts_getElem? (dims : List Nat) (c : Nat) :
    (embStarts dims)[c]? = if c < dims.length then some (dims.take c).sum else none := by
  induction dims generalizing c with
  | nil => simp [embStarts]
  | cons d ds ih =>
    cases c with
    | zero => simp [embStarts]
    | succ c =>
      simp only [embStarts, List.getElem?_cons_succ, List.getElem?_map, ih, List.length_cons]
      by_cases h : c < ds.length
      · simp [h, List.take_succ_cons]; omega
      · simp [h]

theorem metOffsets_getElem? (dims : List Nat) (c : Nat) :
    (metOffsets dims)[c]? = if c ≤ dims.length then some (dims.take c).sum else none := by
  unfold metOffsets
  cases c with
  | zero => simp
  | succ c =>
    simp only [List.getElem?_cons_succ, cumsum_getElem?]
    by_cases h : c < dims.length
    · simp [h]; omega
    · simp [h]; omega


/-! ## domain lemmas -/

theorem foldl_min_le (ys : List Int) (a : Int) : ys.foldl min a ≤ a ∧ ∀ y ∈ ys, ys.foldl min a ≤ y := by
  induction ys generalizing a with
  | nil => simp
  | cons z zs ih =>
    simp only [List.foldl_cons, List.mem_cons]
    have h := ih (min a z)
    refine ⟨by have := h.1; omega, ?_⟩
    intro y hy
    rcases hy with rfl | hy
    · have := h.1; omega
    · exact h.2 y hy

theorem yearMin_le (ys : List Int) : ∀ y ∈ ys, yearMin ys ≤ y := by
  cases ys with
  | nil => simp
  | cons z zs =>
    intro y hy
    simp only [yearMin]
    have h := foldl_min_le zs z
    rcases List.mem_cons.mp hy with rfl | hy
    · exact h.1
    · exact h.2 y hy

theorem bagInRange_of_bounds {R} (table : Mat R) (n : Nat) (bag : List Int) (ht : table.length = n + 1)
    (hb : ∀ t ∈ bag, -1 ≤ t ∧ t < n) : bagInRange table bag = true := by
  unfold bagInRange
  simp only [List.all_eq_true, Bool.and_eq_true, decide_eq_true_eq]
  intro t ht'
  have := hb t ht'
  omega

theorem bucketize_le {R} (S : SOps R) (bs : List R) (x : R) : bucketize S bs x ≤ bs.length := by
  unfold bucketize
  split
  · exact Nat.le_refl _
  · exact List.countP_le_length

theorem tsDomainOk_of_ranges (minYear y mo d wd h mi s : Int)
    (hy : minYear ≤ y) (h1 : 0 ≤ mo ∧ mo ≤ 11) (h2 : 0 ≤ d ∧ d ≤ 30) (h3 : 0 ≤ wd ∧ wd ≤ 6)
    (h4 : 0 ≤ h ∧ h ≤ 23) (h5 : 0 ≤ mi ∧ mi ≤ 59) (h6 : 0 ≤ s ∧ s ≤ 59) :
    tsDomainOk cyclicConst [y, mo, d, wd, h, mi, s] minYear = true := by
  simp [tsDomainOk, cyclicConst, hy]
  omega



/-! ## embedding index arithmetic -/

theorem embIndex_in_range (ns : List Nat) (c : Nat) (hc : c < ns.length) (off v : Int)
    (hoff : (embOffsets ns)[c]? = some off) (h0 : 0 ≤ v) (h1 : v < ns[c]) :
    1 ≤ embIndex off v ∧ embIndex off v ≤ ns.sum := by
  rw [embOffsets_getElem? ns c hc] at hoff
  injection hoff with hoff
  have h2 := sum_take_succ ns c hc
  have h3 := sum_take_le ns (c + 1)
  have : ¬ v < 0 := by omega
  simp only [embIndex, this, if_false]
  subst hoff
  simp only [Int.ofNat_eq_natCast]
  omega

theorem embIndex_lt_of_col_lt (ns : List Nat) (c c' : Nat) (hcc : c < c') (hc' : c' < ns.length) (off off' v v' : Int)
    (hoff : (embOffsets ns)[c]? = some off) (hoff' : (embOffsets ns)[c']? = some off')
    (h0 : 0 ≤ v) (h1 : v < ns[c]'(by omega)) (h0' : 0 ≤ v') :
    embIndex off v < embIndex off' v' := by
  have hc : c < ns.length := by omega
  rw [embOffsets_getElem? ns c hc] at hoff
  rw [embOffsets_getElem? ns c' hc'] at hoff'
  injection hoff with hoff
  injection hoff' with hoff'
  have h2 := sum_take_succ ns c hc
  have h3 : (ns.take (c + 1)).sum ≤ (ns.take c').sum := sum_take_mono ns (by omega)
  have n1 : ¬ v < 0 := by omega
  have n2 : ¬ v' < 0 := by omega
  simp only [embIndex, n1, n2, if_false]
  subst hoff hoff'
  simp only [Int.ofNat_eq_natCast]
  omega

theorem embIndex_injective (ns : List Nat) (c c' : Nat) (hc : c < ns.length) (hc' : c' < ns.length)
    (off off' v v' : Int)
    (hoff : (embOffsets ns)[c]? = some off) (hoff' : (embOffsets ns)[c']? = some off')
    (h0 : 0 ≤ v) (h1 : v < ns[c]) (h0' : 0 ≤ v') (h1' : v' < ns[c'])
    (heq : embIndex off v = embIndex off' v') : c = c' ∧ v = v' := by
  rcases Nat.lt_trichotomy c c' with h | h | h
  · have := embIndex_lt_of_col_lt ns c c' h hc' off off' v v' hoff hoff' h0 h1 h0'
    omega
  · subst h
    rw [hoff] at hoff'
    injection hoff' with hoff'
    subst hoff'
    have n1 : ¬ v < 0 := by omega
    have n2 : ¬ v' < 0 := by omega
    simp only [embIndex, n1, n2, if_false] at heq
    exact ⟨rfl, by omega⟩
  · have := embIndex_lt_of_col_lt ns c' c h hc off' off v' v hoff' hoff h0' h1' h0
    omega


/-! ## shapes -/

def Rect {α : Type} (x : Mat α) (B C : Nat) : Prop := x.length = B ∧ ∀ row ∈ x, row.length = C

def T3WF {α : Type} (x : T3 α) (B C ch : Nat) : Prop :=
  x.length = B ∧ ∀ row ∈ x, row.length = C ∧ ∀ v ∈ row, v.length = ch

theorem mem_zipWith {α β γ : Type} {f : α → β → γ} {l1 : List α} {l2 : List β} {z : γ}
    (h : z ∈ List.zipWith f l1 l2) : ∃ a ∈ l1, ∃ b ∈ l2, z = f a b := by
  induction l1 generalizing l2 with
  | nil => simp at h
  | cons a as ih =>
    cases l2 with
    | nil => simp at h
    | cons b bs =>
      simp only [List.zipWith_cons_cons, List.mem_cons] at h
      rcases h with rfl | h
      · exact ⟨a, List.mem_cons_self .., b, List.mem_cons_self .., rfl⟩
      · obtain ⟨a', ha, b', hb, hz⟩ := ih h
        exact ⟨a', List.mem_cons_of_mem _ ha, b', List.mem_cons_of_mem _ hb, hz⟩

theorem rect_bcast2 {α β γ : Type} (f : α → β → γ) (x : Mat α) (v : List β) (B C : Nat)
    (h : Rect x B C) (hv : v.length = C) : Rect (bcast2 f x v) B C := by
  refine ⟨by simp [bcast2, h.1], ?_⟩
  intro row hrow
  simp only [bcast2, List.mem_map] at hrow
  obtain ⟨r0, hr0, rfl⟩ := hrow
  simp [h.2 r0 hr0, hv]

theorem rect_map2 {α β : Type} (f : α → β) (x : Mat α) (B C : Nat) (h : Rect x B C) : Rect (map2 f x) B C := by
  refine ⟨by simp [map2, h.1], ?_⟩
  intro row hrow
  simp only [map2, List.mem_map] at hrow
  obtain ⟨r0, hr0, rfl⟩ := hrow
  simp [h.2 r0 hr0]

theorem rect_zip2 {α β γ : Type} (f : α → β → γ) (x : Mat α) (y : Mat β) (B C : Nat)
    (hx : Rect x B C) (hy : Rect y B C) : Rect (zip2 f x y) B C := by
  refine ⟨by simp [zip2, hx.1, hy.1], ?_⟩
  intro row hrow
  obtain ⟨a, ha, b, hb, rfl⟩ := mem_zipWith hrow
  simp [hx.2 a ha, hy.2 b hb]

theorem rect_rows_range {ρ β : Type} (rows : List ρ) (C : Nat) (h : Nat → ρ → β) :
    Rect (rows.map fun row => (List.range C).map fun i => h i row) rows.length C := by
  refine ⟨by simp, ?_⟩
  intro row hrow
  simp only [List.mem_map] at hrow
  obtain ⟨r0, _, rfl⟩ := hrow
  simp

/-- every entry of a broadcast result satisfies `P` when every `f a b` does -/
theorem all_bcast2 {α β γ : Type} (P : γ → Prop) (f : α → β → γ) (x : Mat α) (v : List β)
    (h : ∀ a, ∀ b ∈ v, P (f a b)) : ∀ row ∈ bcast2 f x v, ∀ z ∈ row, P z := by
  intro row hrow z hz
  simp only [bcast2, List.mem_map] at hrow
  obtain ⟨r0, _, rfl⟩ := hrow
  obtain ⟨a, _, b, hb, rfl⟩ := mem_zipWith hz
  exact h a b hb

theorem all_map2 {α β : Type} (P : β → Prop) (f : α → β) (x : Mat α) (h : ∀ a, P (f a)) :
    ∀ row ∈ map2 f x, ∀ z ∈ row, P z := by
  intro row hrow z hz
  simp only [map2, List.mem_map] at hrow
  obtain ⟨r0, _, rfl⟩ := hrow
  simp only [List.mem_map] at hz
  obtain ⟨a, _, rfl⟩ := hz
  exact h a

theorem all_zip2 {α β γ : Type} (P : γ → Prop) (f : α → β → γ) (x : Mat α) (y : Mat β)
    (h : ∀ a b, P (f a b)) : ∀ row ∈ zip2 f x y, ∀ z ∈ row, P z := by
  intro row hrow z hz
  obtain ⟨a, _, b, _, rfl⟩ := mem_zipWith hrow
  obtain ⟨a', _, b', _, rfl⟩ := mem_zipWith hz
  exact h a' b'

theorem t3wf_of {α : Type} (x : T3 α) (B C ch : Nat) (h : Rect x B C)
    (hc : ∀ row ∈ x, ∀ v ∈ row, v.length = ch) : T3WF x B C ch :=
  ⟨h.1, fun row hr => ⟨h.2 row hr, hc row hr⟩⟩

section
variable {R : Type} (S : SOps R)

theorem vecMat_length (x : List R) (W : Mat R) (ch : Nat) : (vecMat S x W ch).length = ch := by simp [vecMat]
theorem matT3_length (x : Mat R) (W : T3 R) (ch : Nat) : (matT3 S x W ch).length = ch := by simp [matT3]

theorem rect_normalize (n : Norm R) (feat : Mat R) (B C : Nat) (h : Rect feat B C)
    (hm : n.mean.length = C) (hs : n.std.length = C) : Rect (normalize S n feat) B C :=
  rect_bcast2 _ _ _ B C (rect_bcast2 _ _ _ B C h hm) hs

theorem mem_cell {α : Type} {x : Mat α} {row : List α} {v : α} (hr : row ∈ x) (hv : v ∈ row) :
    ∃ r c, cell x r c = some v := by
  obtain ⟨r, hr'⟩ := List.mem_iff_getElem?.mp hr
  obtain ⟨c, hc'⟩ := List.mem_iff_getElem?.mp hv
  exact ⟨r, c, by simp [cell, hr', hc']⟩

theorem mem_of_getElem? {α : Type} {l : List α} {i : Nat} {a : α} (h : l[i]? = some a) : a ∈ l :=
  List.mem_iff_getElem?.mpr ⟨i, h⟩

theorem cellLinear_length (m s : R) (w b : List R) (x : R) (ch : Nat) (hw : w.length = ch) (hb : b.length = ch) :
    (cellLinear S m s w b x).length = ch := by simp [cellLinear, hw, hb]

theorem linear_shape (n : Norm R) (w b : Mat R) (feat : Mat R) (B C ch : Nat) (h : Rect feat B C)
    (hm : n.mean.length = C) (hs : n.std.length = C) (hw : w.length = C) (hb : b.length = C)
    (hwc : ∀ v ∈ w, v.length = ch) (hbc : ∀ v ∈ b, v.length = ch) :
    T3WF (linearEncode S n w b feat) B C ch := by
  apply t3wf_of
  · unfold linearEncode
    exact rect_bcast2 _ _ _ B C (rect_bcast2 _ _ _ B C (rect_normalize S n feat B C h hm hs) hw) hb
  · intro row hrow v hv
    obtain ⟨r, c, hc⟩ := mem_cell hrow hv
    rw [linear_per_cell] at hc
    simp only [Option.bind_eq_some_iff, Option.map_eq_some_iff] at hc
    obtain ⟨x, _, m, _, s, _, wc, hwc', bc, hbc', rfl⟩ := hc
    exact cellLinear_length S m s wc bc x ch (hwc wc (mem_of_getElem? hwc')) (hbc bc (mem_of_getElem? hbc'))

theorem all_bcast2' {α β γ : Type} (Q : α → Prop) (P : γ → Prop) (f : α → β → γ) (x : Mat α) (v : List β)
    (hx : ∀ row ∈ x, ∀ a ∈ row, Q a) (h : ∀ a, Q a → ∀ b ∈ v, P (f a b)) :
    ∀ row ∈ bcast2 f x v, ∀ z ∈ row, P z := by
  intro row hrow z hz
  simp only [bcast2, List.mem_map] at hrow
  obtain ⟨r0, hr0, rfl⟩ := hrow
  obtain ⟨a, ha, b, hb, rfl⟩ := mem_zipWith hz
  exact h a (hx r0 hr0 a ha) b hb

theorem all_map2' {α β : Type} (Q : α → Prop) (P : β → Prop) (f : α → β) (x : Mat α)
    (hx : ∀ row ∈ x, ∀ a ∈ row, Q a) (h : ∀ a, Q a → P (f a)) : ∀ row ∈ map2 f x, ∀ z ∈ row, P z := by
  intro row hrow z hz
  simp only [map2, List.mem_map] at hrow
  obtain ⟨r0, hr0, rfl⟩ := hrow
  simp only [List.mem_map] at hz
  obtain ⟨a, ha, rfl⟩ := hz
  exact h a (hx r0 hr0 a ha)

theorem all_zip2' {α β γ : Type} (Q : β → Prop) (P : γ → Prop) (f : α → β → γ) (x : Mat α) (y : Mat β)
    (hy : ∀ row ∈ y, ∀ b ∈ row, Q b) (h : ∀ a b, Q b → P (f a b)) : ∀ row ∈ zip2 f x y, ∀ z ∈ row, P z := by
  intro row hrow z hz
  obtain ⟨ra, _, rb, hrb, rfl⟩ := mem_zipWith hrow
  obtain ⟨a', _, b', hb', rfl⟩ := mem_zipWith hz
  exact h a' b' (hy rb hrb b' hb')

theorem all_rows_range {ρ β : Type} (P : β → Prop) (rows : List ρ) (C : Nat) (h : Nat → ρ → β)
    (hp : ∀ i row, P (h i row)) : ∀ row' ∈ (rows.map fun row => (List.range C).map fun i => h i row), ∀ z ∈ row', P z := by
  intro row' hrow z hz
  simp only [List.mem_map] at hrow
  obtain ⟨r0, _, rfl⟩ := hrow
  simp only [List.mem_map] at hz
  obtain ⟨i, _, rfl⟩ := hz
  exact hp i r0

theorem stack_shape (n : Norm R) (ch : Nat) (feat : Mat R) (B C : Nat) (h : Rect feat B C)
    (hm : n.mean.length = C) (hs : n.std.length = C) : T3WF (stackEncode S n ch feat) B C ch := by
  unfold stackEncode
  apply t3wf_of
  · exact rect_map2 _ _ B C (rect_normalize S n feat B C h hm hs)
  · exact all_map2 (fun z : List R => z.length = ch) _ _ (by simp)

theorem periodic_shape (n : Norm R) (li : Mat R) (lo : T3 R) (ch : Nat) (feat : Mat R) (B C : Nat) (h : Rect feat B C)
    (hm : n.mean.length = C) (hs : n.std.length = C) (hli : li.length = C) (hlo : lo.length = C) :
    T3WF (periodicEncode S n li lo ch feat) B C ch := by
  unfold periodicEncode
  apply t3wf_of
  · exact rect_bcast2 _ _ _ B C (rect_map2 _ _ B C (rect_bcast2 _ _ _ B C (rect_normalize S n feat B C h hm hs) hli)) hlo
  · exact all_bcast2 (fun z : List R => z.length = ch) _ _ _ (by intro a b _; exact vecMat_length S _ _ _)

theorem excel_shape (n : Norm R) (w1 w2 b1 b2 : Mat R) (feat : Mat R) (B C ch : Nat) (h : Rect feat B C)
    (hm : n.mean.length = C) (hs : n.std.length = C)
    (h1 : w1.length = C) (h2 : w2.length = C) (h3 : b1.length = C) (h4 : b2.length = C)
    (c1 : ∀ v ∈ w1, v.length = ch) (c2 : ∀ v ∈ w2, v.length = ch) (c3 : ∀ v ∈ b1, v.length = ch)
    (c4 : ∀ v ∈ b2, v.length = ch) : T3WF (excelEncode S n w1 w2 b1 b2 feat) B C ch := by
  apply t3wf_of
  · unfold excelEncode
    have hn := rect_normalize S n feat B C h hm hs
    exact rect_zip2 _ _ _ B C (rect_bcast2 _ _ _ B C (rect_bcast2 _ _ _ B C hn h1) h3)
      (rect_bcast2 _ _ _ B C (rect_bcast2 _ _ _ B C hn h2) h4)
  · intro row hrow v hv
    obtain ⟨r, c, hc⟩ := mem_cell hrow hv
    rw [excel_per_cell] at hc
    simp only [Option.bind_eq_some_iff, Option.map_eq_some_iff] at hc
    obtain ⟨x, _, m, _, s, _, u1, hu1, u2, hu2, v1, hv1, v2, hv2, rfl⟩ := hc
    simp [cellExcel, c1 u1 (mem_of_getElem? hu1), c2 u2 (mem_of_getElem? hu2), c3 v1 (mem_of_getElem? hv1),
          c4 v2 (mem_of_getElem? hv2)]

theorem bucket_shape (q : Mat R) (w : T3 R) (b : Mat R) (ch C : Nat) (feat : Mat R) (B : Nat) (hB : feat.length = B)
    (hw : w.length = C) (hb : b.length = C) (hbc : ∀ v ∈ b, v.length = ch) :
    T3WF (bucketEncode S q w b ch C feat) B C ch := by
  unfold bucketEncode
  simp only [List.map_map]
  have hst := stackDim1_rows feat C (fun i (row : List R) => bucketRow S (q.getD i []) (row.getD i S.zero))
  simp only [Function.comp_def] at hst ⊢
  rw [hst]
  apply t3wf_of
  · have h0 := rect_rows_range feat C (fun i (row : List R) => bucketRow S (q.getD i []) (row.getD i S.zero))
    rw [hB] at h0
    exact rect_bcast2 _ _ _ B C (rect_bcast2 _ _ _ B C h0 hw) hb
  · apply all_bcast2' (fun z : List R => z.length = ch) (fun z : List R => z.length = ch)
    · exact all_bcast2 (fun z : List R => z.length = ch) _ _ _ (by intro a b _; exact vecMat_length S _ _ _)
    · intro a ha bj hbj
      simp [ha, hbc bj hbj]

theorem embedding_shape (off : List Int) (t : Mat R) (feat : Mat Int) (y : T3 R) (B C ch : Nat)
    (h : Rect feat B C) (hoff : off.length = C) (ht : ∀ v ∈ t, v.length = ch)
    (he : embeddingEncode off t feat = some y) : T3WF y B C ch := by
  unfold embeddingEncode at he
  simp only at he
  split at he
  · rename_i hall
    injection he with he
    subst he
    have hidx : Rect (zip2 (fun (m : Bool) (i : Int) => if m then 0 else i) (map2 (fun v => decide (v < 0)) feat)
        (map2 (· + 1) (bcast2 (· + ·) feat off))) B C :=
      rect_zip2 _ _ _ B C (rect_map2 _ _ B C h) (rect_map2 _ _ B C (rect_bcast2 _ _ _ B C h hoff))
    apply t3wf_of
    · exact rect_map2 _ _ B C hidx
    · apply all_map2' (fun i : Int => 0 ≤ i ∧ i < t.length) (fun z : List R => z.length = ch)
      · intro row hrow a ha
        simp only [List.all_eq_true, Bool.and_eq_true, decide_eq_true_eq] at hall
        exact hall row hrow a ha
      · intro i hi
        have hlt : i.toNat < t.length := by omega
        have : t.getD i.toNat [] = t[i.toNat] := by simp [List.getD, List.getElem?_eq_getElem hlt]
        rw [this]
        exact ht _ (List.getElem_mem hlt)
  · cases he

theorem bag_shape (mode : BagMode) (tables : T3 R) (ch : Nat) (feat : Mat (List Int)) (y : T3 R) (B C : Nat)
    (hB : feat.length = B) (ht : tables.length = C) (he : bagEncode S mode tables ch feat = some y) :
    T3WF y B C ch := by
  unfold bagEncode at he
  split at he
  · injection he with he
    subst he
    simp only [List.map_map]
    have hst := stackDim1_rows feat tables.length
      (fun i (row : List (List Int)) => bagReduce S mode (tables.getD i []) ch (row.getD i []))
    simp only [Function.comp_def] at hst ⊢
    rw [hst]
    apply t3wf_of
    · have h0 := rect_rows_range feat tables.length
        (fun i (row : List (List Int)) => bagReduce S mode (tables.getD i []) ch (row.getD i []))
      rw [hB, ht] at h0
      rw [ht]
      exact h0
    · exact all_rows_range (fun z : List R => z.length = ch) _ _ _ (by intro i row; simp [bagReduce])
  · cases he

theorem timestamp_shape (minYear maxValues : List Int) (outSize : Nat) (weight : List (T3 R)) (bias : Mat R)
    (ch : Nat) (feat : Mat (List Int)) (y : T3 R) (B C : Nat) (h : Rect feat B C)
    (hy : minYear.length = C) (hw : weight.length = C) (hb : bias.length = C) (hbc : ∀ v ∈ bias, v.length = ch)
    (he : timestampEncode S minYear maxValues outSize weight bias ch feat = some y) : T3WF y B C ch := by
  unfold timestampEncode at he
  simp only at he
  split at he
  · injection he with he
    subst he
    have hmask := rect_map2 tsMissing feat B C h
    have hF := rect_map2 (fun ts : List Int => ts.map fun t => S.round32 (S.ofInt t)) feat B C h
    apply t3wf_of
    · refine rect_zip2 _ _ _ B C hmask (rect_bcast2 _ _ _ B C (rect_bcast2 _ _ _ B C (rect_zip2 _ _ _ B C ?_ ?_) hw) hb)
      · exact rect_zip2 _ _ _ B C hmask (rect_bcast2 _ _ _ B C hF hy)
      · exact rect_zip2 _ _ _ B C hmask (rect_map2 _ _ B C hF)
    · apply all_zip2' (fun z : List R => z.length = ch) (fun z : List R => z.length = ch)
      · apply all_bcast2' (fun z : List R => z.length = ch) (fun z : List R => z.length = ch)
        · exact all_bcast2 (fun z : List R => z.length = ch) _ _ _ (by intro a b _; exact matT3_length S _ _ _)
        · intro a ha bj hbj
          simp [ha, hbc bj hbj]
      · intro m v hv
        by_cases hm : m <;> simp [hm, hv]
  · cases he

theorem linearEmb_shape (dims : List Nat) (weights : T3 R) (biases : Mat R) (ch : Nat) (values : Mat R) (y : T3 R)
    (B C : Nat) (hB : values.length = B) (hd : dims.length = C) (hb : biases.length = C)
    (hbc : ∀ v ∈ biases, v.length = ch)
    (he : linearEmbEncode S dims weights biases ch values = some y) : T3WF y B C ch := by
  unfold linearEmbEncode at he
  split at he
  · injection he with he
    subst he
    subst hd
    have hst := stackDim1_rows values dims.length
      (fun i (row : List R) => vecMat S ((row.drop ((embStarts dims).getD i 0)).take (dims.getD i 0)) (weights.getD i []) ch)
    rw [hst]
    apply t3wf_of
    · have h0 := rect_rows_range values dims.length
        (fun i (row : List R) => vecMat S ((row.drop ((embStarts dims).getD i 0)).take (dims.getD i 0)) (weights.getD i []) ch)
      rw [hB] at h0
      exact rect_bcast2 _ _ _ B _ h0 hb
    · apply all_bcast2' (fun z : List R => z.length = ch) (fun z : List R => z.length = ch)
      · exact all_rows_range (fun z : List R => z.length = ch) _ _ _ (by intro i row; exact vecMat_length S _ _ _)
      · intro a ha bj hbj
        simp [ha, hbc bj hbj]
  · cases he
end


/-! ## well-formedness and the shape of `forward` -/

section
variable {R : Type} (S : SOps R)

def Params.WF (p : Params R) (C ch : Nat) : Prop :=
  match p with
  | .linear n w b => n.mean.length = C ∧ n.std.length = C ∧ w.length = C ∧ b.length = C ∧
      (∀ v ∈ w, v.length = ch) ∧ (∀ v ∈ b, v.length = ch)
  | .stack n => n.mean.length = C ∧ n.std.length = C
  | .bucket _ w b => w.length = C ∧ b.length = C ∧ ∀ v ∈ b, v.length = ch
  | .periodic n li lo => n.mean.length = C ∧ n.std.length = C ∧ li.length = C ∧ lo.length = C
  | .excel n w1 w2 b1 b2 => n.mean.length = C ∧ n.std.length = C ∧ w1.length = C ∧ w2.length = C ∧
      b1.length = C ∧ b2.length = C ∧ (∀ v ∈ w1, v.length = ch) ∧ (∀ v ∈ w2, v.length = ch) ∧
      (∀ v ∈ b1, v.length = ch) ∧ (∀ v ∈ b2, v.length = ch)
  | .embedding off t => off.length = C ∧ ∀ v ∈ t, v.length = ch
  | .bag _ ts => ts.length = C
  | .timestamp ys _ _ w b => ys.length = C ∧ w.length = C ∧ b.length = C ∧ ∀ v ∈ b, v.length = ch
  | .linearEmb ds _ bs => ds.length = C ∧ bs.length = C ∧ ∀ v ∈ bs, v.length = ch

def Feat.WF (f : Feat R) (B C : Nat) : Prop :=
  match f with
  | .num x => Rect x B C
  | .cat x => Rect x B C
  | .bags x => Rect x B C
  | .time x => Rect x B C
  | .emb _ vals => vals.length = B

def Fill.WF (f : Option (Fill R)) (C : Nat) : Prop :=
  match f with
  | none => True
  | some (.num v) => v.length = C
  | some (.int v) => v.length = C
  | some (.time v) => v.length = C

def Post.WF (p : Post R) (ch : Nat) : Prop :=
  match p with
  | .layerNorm g b => g.length = ch ∧ b.length = ch
  | _ => True

structure Encoder.WF (e : Encoder R) (C : Nat) : Prop where
  params : Params.WF e.params C e.ch
  fill : Fill.WF e.fill C
  post : Post.WF e.post e.ch

theorem encode_shape (p : Params R) (ch C B : Nat) (feat : Feat R) (y : T3 R)
    (hp : Params.WF p C ch) (hf : Feat.WF feat B C) (h : encodeForward S p ch C feat = some y) :
    T3WF y B C ch := by
  cases p <;> cases feat <;> simp only [encodeForward] at h <;> try (cases h; done)
  all_goals simp only [Params.WF, Feat.WF] at hp hf
  · injection h with h; subst h
    obtain ⟨a1, a2, a3, a4, a5, a6⟩ := hp
    exact linear_shape S _ _ _ _ B C ch hf a1 a2 a3 a4 a5 a6
  · injection h with h; subst h
    exact stack_shape S _ ch _ B C hf hp.1 hp.2
  · injection h with h; subst h
    exact bucket_shape S _ _ _ ch C _ B hf.1 hp.1 hp.2.1 hp.2.2
  · injection h with h; subst h
    obtain ⟨a1, a2, a3, a4⟩ := hp
    exact periodic_shape S _ _ _ ch _ B C hf a1 a2 a3 a4
  · injection h with h; subst h
    obtain ⟨a1, a2, a3, a4, a5, a6, a7, a8, a9, a10⟩ := hp
    exact excel_shape S _ _ _ _ _ _ B C ch hf a1 a2 a3 a4 a5 a6 a7 a8 a9 a10
  · exact embedding_shape _ _ _ y B C ch hf hp.1 hp.2 h
  · exact bag_shape S _ _ ch _ y B C hf.1 hp h
  · obtain ⟨a1, a2, a3, a4⟩ := hp
    exact timestamp_shape S _ _ _ _ _ ch _ y B C hf a1 a2 a3 a4 h
  · obtain ⟨a1, a2, a3⟩ := hp
    exact linearEmb_shape S _ _ _ ch _ y B C hf a1 a2 a3 h

theorem naForward_wf (fill : Option (Fill R)) (feat feat' : Feat R) (B C : Nat)
    (hfill : Fill.WF fill C) (hf : Feat.WF feat B C) (h : naForward S fill feat = some feat') :
    Feat.WF feat' B C := by
  cases fill with
  | none => simp only [naForward] at h; injection h with h; subst h; exact hf
  | some fl =>
    cases fl <;> cases feat <;> simp only [naForward] at h <;> try (cases h; done)
    all_goals (injection h with h; subst h; simp only [Feat.WF, Fill.WF] at hf hfill ⊢;
               exact rect_bcast2 _ _ _ B C hf hfill)

theorem t3wf_map2 {α : Type} (f : List α → List α) (x : T3 α) (B C ch : Nat)
    (hf : ∀ v, v.length = ch → (f v).length = ch) (h : T3WF x B C ch) : T3WF (map2 f x) B C ch := by
  have hr : Rect x B C := ⟨h.1, fun row hrow => (h.2 row hrow).1⟩
  apply t3wf_of _ B C ch (rect_map2 f x B C hr)
  exact all_map2' (fun v : List α => v.length = ch) (fun v : List α => v.length = ch) f x
    (fun row hrow => (h.2 row hrow).2) hf

theorem post_length (p : Post R) (ch : Nat) (hp : Post.WF p ch) (v : List R) (hv : v.length = ch) :
    (Post.apply S p v).length = ch := by
  cases p <;> simp only [Post.apply, Post.WF] at hp ⊢
  · exact hv
  · simp [hv]
  · simp [hv]
  · simp [layerNormVec, hv, hp.1, hp.2]

/-- `StypeEncoder.forward`: the output has the shape `[rows, cols, out_channels]` for every batch size -/
theorem forward_shape (e : Encoder R) (B C n : Nat) (feat : Feat R) (o : Out R)
    (he : Encoder.WF e C) (hf : Feat.WF feat B C) (h : forward S e B C n feat = some o) :
    n = C ∧ o.b = B ∧ o.c = C ∧ o.ch = e.ch ∧ T3WF o.data B C e.ch := by
  unfold forward at h
  split at h
  · cases h
  · rename_i hn
    have hn' : n = C := by
      simp only [bne_iff_ne, ne_eq, Decidable.not_not] at hn; exact hn.symm
    cases h1 : naForward S e.fill feat with
    | none => simp [h1, bind, Option.bind] at h
    | some f1 =>
      cases h2 : encodeForward S e.params e.ch C f1 with
      | none => simp [h1, h2, bind, Option.bind] at h
      | some x =>
        simp only [h1, h2, bind, Option.bind, pure] at h
        injection h with h
        subst h
        have w1 := naForward_wf S e.fill feat f1 B C he.fill hf h1
        have w2 := encode_shape S e.params e.ch C B f1 x he.params w1 h2
        have w3 := t3wf_map2 (fun v => v.map S.nanToNum) x B C e.ch (by intro v hv; simp [hv]) w2
        have w4 := t3wf_map2 (Post.apply S e.post) _ B C e.ch (post_length S e.post e.ch he.post) w3
        exact ⟨hn', rfl, rfl, rfl, w4⟩
end


/-! ## the stype-wise encoder -/

theorem gather_forall₂ {α β : Type} (f : α → Option β) (xs : List α) (ys : List β)
    (h : gather f xs = some ys) : List.Forall₂ (fun x y => f x = some y) xs ys := by
  induction xs generalizing ys with
  | nil => simp only [gather] at h; injection h with h; subst h; exact List.Forall₂.nil
  | cons x xs ih =>
    simp only [gather] at h
    cases hx : f x with
    | none => simp [hx] at h
    | some y =>
      cases hxs : gather f xs with
      | none => simp [hx, hxs] at h
      | some ys' =>
        simp only [hx, hxs] at h
        injection h with h
        subst h
        exact List.Forall₂.cons hx (ih ys' hxs)

theorem forall₂_mem_right {α β : Type} {P : α → β → Prop} {xs : List α} {ys : List β}
    (h : List.Forall₂ P xs ys) : ∀ y ∈ ys, ∃ x ∈ xs, P x y := by
  induction h with
  | nil => intro y hy; cases hy
  | cons hp _ ih =>
    intro y hy
    rcases List.mem_cons.mp hy with rfl | hy
    · exact ⟨_, List.mem_cons_self .., hp⟩
    · obtain ⟨x, hx, hpx⟩ := ih y hy
      exact ⟨x, List.mem_cons_of_mem _ hx, hpx⟩

theorem forall₂_flatMap {α β γ : Type} {P : α → β → Prop} {xs : List α} {ys : List β} (f : α → List γ) (g : β → List γ)
    (h : List.Forall₂ P xs ys) (hfg : ∀ x y, P x y → f x = g y) : xs.flatMap f = ys.flatMap g := by
  induction h with
  | nil => rfl
  | cons hp _ ih => simp [List.flatMap_cons, hfg _ _ hp, ih]

section
variable {R : Type} (S : SOps R)

/-- what `forward_shape` gives for one block of the stype-wise encoder -/
def GoodPart (B ch : Nat) (p : Out R × List String) : Prop :=
  p.1.b = B ∧ p.1.ch = ch ∧ p.1.c = p.2.length ∧ T3WF p.1.data B p.1.c ch

theorem catDim1_shape (parts : List (Out R × List String)) (B ch : Nat) (x : Out R)
    (hgood : ∀ p ∈ parts, GoodPart B ch p) (h : catDim1 (parts.map (·.1)) = some x) :
    x.b = B ∧ x.ch = ch ∧ x.c = (parts.flatMap (·.2)).length ∧ T3WF x.data B x.c ch ∧
    x.data = (List.range B).map fun r => parts.flatMap fun p => p.1.data.getD r [] := by
  cases parts with
  | nil => simp [catDim1] at h
  | cons p0 rest =>
    simp only [List.map_cons, catDim1] at h
    split at h
    · injection h with h
      subst h
      have g0 := hgood p0 (List.mem_cons_self ..)
      have hc : ((p0 :: rest).map (fun p => p.1.c)).sum = ((p0 :: rest).flatMap (·.2)).length := by
        rw [List.length_flatMap]
        congr 1
        apply List.map_congr_left
        intro p hp
        exact (hgood p hp).2.2.1
      have hdata : ∀ r, r < B → ∀ p ∈ (p0 :: rest), (p.1.data.getD r []).length = p.1.c ∧
          ∀ v ∈ p.1.data.getD r [], v.length = ch := by
        intro r hr p hp
        obtain ⟨hb, _, _, hwf⟩ := hgood p hp
        have hlt : r < p.1.data.length := by rw [hwf.1]; exact hr
        have : p.1.data.getD r [] = p.1.data[r] := by simp [List.getD, List.getElem?_eq_getElem hlt]
        rw [this]
        exact hwf.2 _ (List.getElem_mem hlt)
      refine ⟨g0.1, g0.2.1, ?_, ?_, ?_⟩
      · simpa [List.map_map, Function.comp_def] using hc
      · refine ⟨by simp [g0.1], ?_⟩
        intro row hrow
        simp only [List.mem_map, List.mem_range] at hrow
        obtain ⟨r, hr, rfl⟩ := hrow
        rw [g0.1] at hr
        refine ⟨?_, ?_⟩
        · have hm : p0.1 :: List.map (fun x => x.1) rest = List.map (fun x => x.1) (p0 :: rest) := rfl
          show _ = (p0.1.c :: List.map (fun x => x.c) (List.map (fun x => x.1) rest)).sum
          have hm2 : p0.1.c :: List.map (fun x => x.c) (List.map (fun x => x.1) rest)
              = List.map (fun x => x.1.c) (p0 :: rest) := by simp [List.map_map, Function.comp_def]
          rw [hm, hm2, List.flatMap_map, List.length_flatMap]
          congr 1
          apply List.map_congr_left
          intro p hp
          exact (hdata r hr p hp).1
        · intro v hv
          have hm : p0.1 :: List.map (fun x => x.1) rest = List.map (fun x => x.1) (p0 :: rest) := rfl
          rw [hm, List.flatMap_map] at hv
          simp only [List.mem_flatMap] at hv
          obtain ⟨p, hp, hvp⟩ := hv
          exact (hdata r hr p hp).2 v hvp
      · simp only [g0.1]
        congr 1
        funext r
        have hm : p0.1 :: List.map (fun x => x.1) rest = List.map (fun x => x.1) (p0 :: rest) := rfl
        rw [hm, List.flatMap_map]
    · cases h

theorem wisePart_good (w : Wise R) (tf : List (Group R)) (B ch : Nat) (s : Stype) (p : Out R × List String)
    (hg : ∀ s g nm e, tf.find? (·.st == s) = some g → w.colNames.lookup s = some nm → w.encoders.lookup s = some e →
          g.rows = B ∧ e.ch = ch ∧ Encoder.WF e g.cols ∧ Feat.WF g.feat B g.cols)
    (h : wisePart S w tf s = some p) : GoodPart B ch p ∧ (w.colNames.lookup s).getD [] = p.2 := by
  unfold wisePart at h
  cases h1 : tf.find? (·.st == s) with
  | none => simp [h1, bind, Option.bind] at h
  | some g =>
    cases h2 : w.colNames.lookup s with
    | none => simp [h1, h2, bind, Option.bind] at h
    | some nm =>
      cases h3 : w.encoders.lookup s with
      | none => simp [h1, h2, h3, bind, Option.bind] at h
      | some e =>
        cases h4 : forward S e g.rows g.cols nm.length g.feat with
        | none => simp [h1, h2, h3, h4, bind, Option.bind] at h
        | some o =>
          simp only [h1, h2, h3, h4, bind, Option.bind, pure] at h
          injection h with h
          subst h
          obtain ⟨hB, hch, hwf, hfeat⟩ := hg s g nm e h1 h2 h3
          rw [hB] at h4
          obtain ⟨a1, a2, a3, a4, a5⟩ := forward_shape S e B g.cols nm.length g.feat o hwf hfeat h4
          refine ⟨⟨a2, by rw [a4, hch], by rw [a3, a1], ?_⟩, by simp⟩
          rw [a3, ← hch, ← a4]
          rw [a4]
          exact a5

/-- `StypeWiseFeatureEncoder.forward`: shape `[B, Σ group sizes, ch]`, names = the groups' names in canonical
    stype order = the order of the tensor's column axis (names and every row are concatenations over the same
    blocks, block by block of equal length) -/
theorem wise_shape_and_names (w : Wise R) (tf : List (Group R)) (B ch : Nat) (x : Out R) (names : List String)
    (hg : ∀ s g nm e, tf.find? (·.st == s) = some g → w.colNames.lookup s = some nm → w.encoders.lookup s = some e →
          g.rows = B ∧ e.ch = ch ∧ Encoder.WF e g.cols ∧ Feat.WF g.feat B g.cols)
    (h : wiseForward S w tf = some (x, names)) :
    ∃ parts, gather (wisePart S w tf) (canonicalStypes tf) = some parts ∧
      x.b = B ∧ x.ch = ch ∧ x.c = names.length ∧ T3WF x.data B x.c ch ∧
      names = (canonicalStypes tf).flatMap (fun s => (w.colNames.lookup s).getD []) ∧
      names = parts.flatMap (·.2) ∧
      x.data = (List.range B).map (fun r => parts.flatMap fun p => p.1.data.getD r []) ∧
      ∀ p ∈ parts, GoodPart B ch p := by
  unfold wiseForward at h
  cases hp : gather (wisePart S w tf) (canonicalStypes tf) with
  | none => simp [hp, bind, Option.bind] at h
  | some parts =>
    cases hc : catDim1 (parts.map (·.1)) with
    | none => simp [hp, hc, bind, Option.bind] at h
    | some x' =>
      simp only [hp, hc, bind, Option.bind, pure] at h
      injection h with h
      injection h with hx hn
      subst hx hn
      have hf2 := gather_forall₂ _ _ _ hp
      have hgood : ∀ p ∈ parts, GoodPart B ch p := by
        intro p hpm
        obtain ⟨s, _, hs⟩ := forall₂_mem_right hf2 p hpm
        exact (wisePart_good S w tf B ch s p hg hs).1
      obtain ⟨b1, b2, b3, b4, b5⟩ := catDim1_shape parts B ch x' hgood hc
      refine ⟨parts, rfl, b1, b2, b3, b4, ?_, rfl, b5, hgood⟩
      exact (forall₂_flatMap _ _ hf2 (fun s p hs => (wisePart_good S w tf B ch s p hg hs).2)).symm
end


/-! ## `init_modules` produces well-formed encoders -/

theorem gather_length {α β : Type} (f : α → Option β) (xs : List α) (ys : List β)
    (h : gather f xs = some ys) : ys.length = xs.length := by
  induction xs generalizing ys with
  | nil => simp only [gather] at h; injection h with h; subst h; rfl
  | cons x xs ih =>
    simp only [gather] at h
    cases hx : f x with
    | none => simp [hx] at h
    | some y =>
      cases hxs : gather f xs with
      | none => simp [hx, hxs] at h
      | some ys' =>
        simp only [hx, hxs] at h
        injection h with h
        subst h
        simp [ih ys' hxs]

theorem gather_getElem? {α β : Type} (f : α → Option β) (xs : List α) (ys : List β)
    (h : gather f xs = some ys) (i : Nat) : ys[i]? = (xs[i]?).bind f := by
  induction xs generalizing ys i with
  | nil => simp only [gather] at h; injection h with h; subst h; simp
  | cons x xs ih =>
    simp only [gather] at h
    cases hx : f x with
    | none => simp [hx] at h
    | some y =>
      cases hxs : gather f xs with
      | none => simp [hx, hxs] at h
      | some ys' =>
        simp only [hx, hxs] at h
        injection h with h
        subst h
        cases i with
        | zero => simp [hx]
        | succ i => simp [ih ys' hxs i]

section
variable {R : Type} (S : SOps R)

theorem shapeOk_spec (C ch : Nat) (x : Mat R) (h : shapeOk C ch x = true) :
    x.length = C ∧ ∀ v ∈ x, v.length = ch := by
  simp only [shapeOk, Bool.and_eq_true, beq_iff_eq, List.all_eq_true] at h
  exact h

theorem mkNorm_wf (stats : List (ColStat R)) (n : Norm R) (h : mkNorm S stats = some n) :
    n.mean.length = stats.length ∧ n.std.length = stats.length := by
  unfold mkNorm at h
  cases h1 : gather statMean stats with
  | none => simp [h1, bind, Option.bind] at h
  | some m =>
    cases h2 : gather statStd stats with
    | none => simp [h1, h2, bind, Option.bind] at h
    | some s =>
      simp only [h1, h2, bind, Option.bind, pure] at h
      injection h with h
      subst h
      exact ⟨gather_length _ _ _ h1, by simp [gather_length _ _ _ h2]⟩

/-- what `init_modules` builds from a statistics list of `C` columns is well-formed for `C` columns -/
theorem mkParams_wf (stats : List (ColStat R)) (ch : Nat) (w : Weights R) (p : Params R)
    (h : mkParams S stats ch w = some p) : Params.WF p stats.length ch := by
  cases w with
  | linear wt b =>
    simp only [mkParams] at h
    cases hn : mkNorm S stats with
    | none => simp [hn, bind, Option.bind] at h
    | some n =>
      simp only [hn, bind, Option.bind] at h
      split at h
      · rename_i hc
        simp only [Bool.and_eq_true] at hc
        injection h with h; subst h
        obtain ⟨m1, m2⟩ := mkNorm_wf S stats n hn
        obtain ⟨a1, a2⟩ := shapeOk_spec _ _ _ hc.1
        obtain ⟨a3, a4⟩ := shapeOk_spec _ _ _ hc.2
        exact ⟨m1, m2, a1, a3, a2, a4⟩
      · cases h
  | stack =>
    simp only [mkParams] at h
    cases hn : mkNorm S stats with
    | none => simp [hn, bind, Option.bind] at h
    | some n =>
      simp only [hn, bind, Option.bind, pure] at h
      injection h with h; subst h
      exact mkNorm_wf S stats n hn
  | bucket wt b =>
    simp only [mkParams] at h
    cases hq : gather statQuantiles stats with
    | none => simp [hq, bind, Option.bind] at h
    | some q =>
      simp only [hq, bind, Option.bind] at h
      split at h
      · rename_i hc
        simp only [Bool.and_eq_true, beq_iff_eq] at hc
        injection h with h; subst h
        obtain ⟨a3, a4⟩ := shapeOk_spec _ _ _ hc.1.2
        exact ⟨hc.1.1, a3, a4⟩
      · cases h
  | periodic li lo =>
    simp only [mkParams] at h
    cases hn : mkNorm S stats with
    | none => simp [hn, bind, Option.bind] at h
    | some n =>
      simp only [hn, bind, Option.bind] at h
      split at h
      · rename_i hc
        simp only [Bool.and_eq_true, beq_iff_eq] at hc
        injection h with h; subst h
        obtain ⟨m1, m2⟩ := mkNorm_wf S stats n hn
        exact ⟨m1, m2, hc.1.1, hc.1.2⟩
      · cases h
  | excel w1 w2 b1 b2 =>
    simp only [mkParams] at h
    cases hn : mkNorm S stats with
    | none => simp [hn, bind, Option.bind] at h
    | some n =>
      simp only [hn, bind, Option.bind] at h
      split at h
      · rename_i hc
        simp only [Bool.and_eq_true] at hc
        injection h with h; subst h
        obtain ⟨m1, m2⟩ := mkNorm_wf S stats n hn
        obtain ⟨a1, a2⟩ := shapeOk_spec _ _ _ hc.1.1.1
        obtain ⟨a3, a4⟩ := shapeOk_spec _ _ _ hc.1.1.2
        obtain ⟨a5, a6⟩ := shapeOk_spec _ _ _ hc.1.2
        obtain ⟨a7, a8⟩ := shapeOk_spec _ _ _ hc.2
        exact ⟨m1, m2, a1, a3, a5, a7, a2, a4, a6, a8⟩
      · cases h
  | embedding table =>
    simp only [mkParams] at h
    cases hq : gather statNumCat stats with
    | none => simp [hq, bind, Option.bind] at h
    | some ns =>
      simp only [hq, bind, Option.bind] at h
      split at h
      · rename_i hc
        simp only [Bool.and_eq_true, beq_iff_eq, List.all_eq_true] at hc
        injection h with h; subst h
        refine ⟨?_, hc.2⟩
        simp [embOffsets, cumsum_length, gather_length _ _ _ hq]
      · cases h
  | bag mode tables =>
    simp only [mkParams] at h
    cases hq : gather statNumMulti stats with
    | none => simp [hq, bind, Option.bind] at h
    | some ns =>
      simp only [hq, bind, Option.bind] at h
      split at h
      · rename_i hc
        simp only [Bool.and_eq_true, beq_iff_eq] at hc
        injection h with h; subst h
        show tables.length = stats.length
        rw [hc.1, gather_length _ _ _ hq]
      · cases h
  | timestamp os wt b =>
    simp only [mkParams] at h
    cases hq : gather statMinYear stats with
    | none => simp [hq, bind, Option.bind] at h
    | some ys =>
      simp only [hq, bind, Option.bind] at h
      split at h
      · cases h
      · split at h
        · rename_i hc
          simp only [Bool.and_eq_true, beq_iff_eq] at hc
          injection h with h; subst h
          obtain ⟨a3, a4⟩ := shapeOk_spec _ _ _ hc.1.2
          exact ⟨gather_length _ _ _ hq, hc.1.1, a3, a4⟩
        · cases h
  | linearEmb ws bs =>
    simp only [mkParams] at h
    cases hq : gather statDim stats with
    | none => simp [hq, bind, Option.bind] at h
    | some ds =>
      simp only [hq, bind, Option.bind] at h
      split at h
      · rename_i hc
        simp only [Bool.and_eq_true, beq_iff_eq] at hc
        injection h with h; subst h
        obtain ⟨a3, a4⟩ := shapeOk_spec _ _ _ hc.2
        exact ⟨gather_length _ _ _ hq, a3, a4⟩
      · cases h

theorem mkFill_wf (st : Stype) (na : Option NA) (stats : List (ColStat R)) (fill : Option (Fill R))
    (h : mkFill S st na stats = some fill) : Fill.WF fill stats.length := by
  cases na with
  | none => simp only [mkFill] at h; injection h with h; subst h; trivial
  | some na =>
    simp only [mkFill] at h
    split at h
    · cases h
    · cases na <;> simp only at h
      · cases hq : gather statMean stats with
        | none => simp [hq] at h
        | some v => simp only [hq, Option.map_some] at h; injection h with h; subst h; exact gather_length _ _ _ hq
      · injection h with h; subst h; simp [Fill.WF]
      · split at h <;> (injection h with h; subst h; simp [Fill.WF])
      all_goals
        rename_i na'
        first
        | (cases hq : gather (statTime NA.oldest) stats with
           | none => simp [hq] at h
           | some v => simp only [hq, Option.map_some] at h; injection h with h; subst h; exact gather_length _ _ _ hq)
        | (cases hq : gather (statTime NA.newest) stats with
           | none => simp [hq] at h
           | some v => simp only [hq, Option.map_some] at h; injection h with h; subst h; exact gather_length _ _ _ hq)
        | (cases hq : gather (statTime NA.median) stats with
           | none => simp [hq] at h
           | some v => simp only [hq, Option.map_some] at h; injection h with h; subst h; exact gather_length _ _ _ hq)

/-- an encoder produced by `init_modules` from the statistics of `C` columns is well-formed for `C` columns
    (given a post module of the right width) -/
theorem initModules_wf (st : Stype) (na : Option NA) (stats : List (ColStat R)) (ch : Nat) (w : Weights R)
    (post : Post R) (e : Encoder R) (hpost : Post.WF post ch)
    (h : initModules S st na stats ch w post = some e) : Encoder.WF e stats.length ∧ e.ch = ch := by
  unfold initModules at h
  cases h1 : mkFill S st na stats with
  | none => simp [h1, bind, Option.bind] at h
  | some fill =>
    cases h2 : mkParams S stats ch w with
    | none => simp [h1, h2, bind, Option.bind] at h
    | some p =>
      simp only [h1, h2, bind, Option.bind, pure] at h
      injection h with h
      subst h
      exact ⟨⟨mkParams_wf S stats ch w p h2, mkFill_wf S st na stats fill h1, hpost⟩, rfl⟩
end


/-! ## `forward` is a per-cell function -/

section
variable {R : Type} (S : SOps R)

theorem cell_some_split {α : Type} {x : Mat α} {r c : Nat} {a : α} (h : cell x r c = some a) :
    ∃ row, x[r]? = some row ∧ row[c]? = some a := by
  unfold cell at h
  cases hr : x[r]? with
  | none => simp [hr] at h
  | some row => simp only [hr, Option.bind_some] at h; exact ⟨row, rfl, h⟩

theorem bag_cell_eq (mode : BagMode) (tables : T3 R) (ch : Nat) (feat : Mat (List Int)) (y : T3 R)
    (h : bagEncode S mode tables ch feat = some y) (r c : Nat) :
    cell y r c = (feat[r]?).bind fun row =>
      if c < tables.length then some (bagReduce S mode (tables.getD c []) ch (row.getD c [])) else none := by
  unfold bagEncode at h
  split at h
  · injection h with h
    subst h
    simp only [List.map_map]
    have hst := stackDim1_rows feat tables.length
      (fun i (row : List (List Int)) => bagReduce S mode (tables.getD i []) ch (row.getD i []))
    simp only [Function.comp_def] at hst ⊢
    rw [hst, cell_rows_range]
  · cases h

/-- `na_forward` acts cell by cell -/
theorem naForward_per_cell (p : Params R) (fill : Option (Fill R)) (feat f1 : Feat R) (r c : Nat)
    (h : naForward S fill feat = some f1) :
    cellAt p f1 r c = (cellAt p feat r c).bind (cellImpute S fill c) := by
  cases fill with
  | none =>
    simp only [naForward] at h; injection h with h; subst h
    cases cellAt p feat r c <;> simp [cellImpute]
  | some fl =>
    cases fl <;> cases feat <;> simp only [naForward] at h <;> try (cases h; done)
    all_goals
      injection h with h; subst h
      simp only [cellAt, cell_bcast2]
      rename_i v x
      cases cell x r c <;> cases hvc : v[c]? <;> simp [cellImpute, hvc]

/-- `encode_forward` acts cell by cell with the parameters of the cell's column -/
theorem encodeForward_per_cell (p : Params R) (ch C : Nat) (f1 : Feat R) (y : T3 R) (r c : Nat) (v : CellVal R)
    (h : encodeForward S p ch C f1 = some y) (hc : c < C) (hv : cellAt p f1 r c = some v) :
    cell y r c = cellEncode S p ch c v := by
  cases p <;> cases f1 <;> simp only [encodeForward] at h <;> try (cases h; done)
  all_goals simp only [cellAt, Option.map_eq_some_iff] at hv
  · injection h with h; subst h
    obtain ⟨x, hx, rfl⟩ := hv
    rw [linear_per_cell, hx]; simp [cellEncode]
  · injection h with h; subst h
    obtain ⟨x, hx, rfl⟩ := hv
    rw [stack_per_cell, hx]; simp [cellEncode]
  · injection h with h; subst h
    obtain ⟨x, hx, rfl⟩ := hv
    obtain ⟨row, hr, hx'⟩ := cell_some_split hx
    rw [bucket_per_cell S _ _ _ ch C _ r c row x hr hx' hc]; simp [cellEncode]
  · injection h with h; subst h
    obtain ⟨x, hx, rfl⟩ := hv
    rw [periodic_per_cell, hx]; simp [cellEncode]
  · injection h with h; subst h
    obtain ⟨x, hx, rfl⟩ := hv
    rw [excel_per_cell, hx]; simp [cellEncode]
  · obtain ⟨i, hx, rfl⟩ := hv
    rw [embedding_per_cell _ _ _ y h, hx]; simp [cellEncode]
  · obtain ⟨b, hx, rfl⟩ := hv
    obtain ⟨row, hr, hx'⟩ := cell_some_split hx
    rename_i mode ts x
    by_cases hct : c < ts.length
    · rw [bag_per_cell S mode ts ch x y h r c row b hr hx' hct]; simp [cellEncode, hct]
    · -- column beyond the encoder's tables: the stacked result has no such column
      rw [bag_cell_eq S mode ts ch x y h r c, hr]; simp [cellEncode, hct]
  · obtain ⟨ts, hx, rfl⟩ := hv
    rw [timestamp_per_cell S _ _ _ _ _ ch _ y h, hx]; simp [cellEncode]
  · rename_i ds ws bs off vals
    cases hr : vals[r]? with
    | none => simp [hr] at hv
    | some row =>
      simp only [hr, Option.bind_some] at hv
      split at hv
      · rename_i hcd
        injection hv with hv; subst hv
        rw [linearEmb_per_cell S ds ws bs ch vals y h r c row hr hcd]; simp [cellEncode]
      · cases hv

theorem cellImpute_some (p : Params R) (fill : Option (Fill R)) (feat f1 : Feat R) (r c C : Nat) (v : CellVal R)
    (h1 : naForward S fill feat = some f1) (hfill : Fill.WF fill C) (hc : c < C)
    (hv : cellAt p feat r c = some v) : ∃ v1, cellImpute S fill c v = some v1 := by
  cases fill with
  | none => exact ⟨v, by cases v <;> rfl⟩
  | some fl =>
    cases fl with
    | num fv =>
      cases feat <;> simp only [naForward] at h1 <;> try (cases h1; done)
      simp only [cellAt, Option.map_eq_some_iff] at hv
      obtain ⟨x, _, rfl⟩ := hv
      simp only [Fill.WF] at hfill
      have hlt : c < fv.length := by omega
      simp [cellImpute, List.getElem?_eq_getElem hlt]
    | int fv =>
      cases feat <;> simp only [naForward] at h1 <;> try (cases h1; done)
      all_goals
        simp only [cellAt, Option.map_eq_some_iff] at hv
        obtain ⟨x, _, rfl⟩ := hv
        simp only [Fill.WF] at hfill
        have hlt : c < fv.length := by omega
        simp [cellImpute, List.getElem?_eq_getElem hlt]
    | time fv =>
      cases feat <;> simp only [naForward] at h1 <;> try (cases h1; done)
      simp only [cellAt, Option.map_eq_some_iff] at hv
      obtain ⟨x, _, rfl⟩ := hv
      simp only [Fill.WF] at hfill
      have hlt : c < fv.length := by omega
      simp [cellImpute, List.getElem?_eq_getElem hlt]

/-- the batched `forward` computes, in entry `[r, c]`, the per-cell function of the cell `(r, c)`:
    impute with the column's fill value, encode with the column's parameters, `nan_to_num`, post module -/
theorem forward_per_cell (e : Encoder R) (B C n : Nat) (feat : Feat R) (o : Out R) (r c : Nat) (v : CellVal R)
    (hfill : Fill.WF e.fill C)
    (h : forward S e B C n feat = some o) (hc : c < C) (hv : cellAt e.params feat r c = some v) :
    cell o.data r c = cellForward S e c v := by
  unfold forward at h
  split at h
  · cases h
  · cases h1 : naForward S e.fill feat with
    | none => simp [h1, bind, Option.bind] at h
    | some f1 =>
      cases h2 : encodeForward S e.params e.ch C f1 with
      | none => simp [h1, h2, bind, Option.bind] at h
      | some y =>
        simp only [h1, h2, bind, Option.bind, pure] at h
        injection h with h
        subst h
        simp only [cell_map2]
        have hna := naForward_per_cell S e.params e.fill feat f1 r c h1
        rw [hv, Option.bind_some] at hna
        obtain ⟨v1, hi⟩ := cellImpute_some S e.params e.fill feat f1 r c C v h1 hfill hc hv
        rw [hi] at hna
        unfold cellForward
        rw [hi, Option.bind_some, encodeForward_per_cell S e.params e.ch C f1 y r c v1 h2 hc hna]
        cases hce : cellEncode S e.params e.ch c v1 <;> simp

/-- changing cells other than `(r, c)` (even the batch size) does not change the embedding of `(r, c)` -/
theorem perturb_local (e : Encoder R) (B B' C n : Nat) (feat feat' : Feat R) (o o' : Out R) (r r' c : Nat)
    (v : CellVal R) (hfill : Fill.WF e.fill C) (hc : c < C)
    (h : forward S e B C n feat = some o) (h' : forward S e B' C n feat' = some o')
    (hv : cellAt e.params feat r c = some v) (hv' : cellAt e.params feat' r' c = some v) :
    cell o.data r c = cell o'.data r' c := by
  rw [forward_per_cell S e B C n feat o r c v hfill h hc hv,
      forward_per_cell S e B' C n feat' o' r' c v hfill h' hc hv']
end


/-! ## batches: acceptance and row equivariance -/

theorem mem_selectRows {α : Type} {idx : List Nat} {x : List α} {a : α} (h : a ∈ selectRows idx x) : a ∈ x := by
  simp only [selectRows, List.mem_filterMap] at h
  obtain ⟨i, _, hi⟩ := h
  exact mem_of_getElem? hi

theorem selectRows_getElem? {α : Type} (idx : List Nat) (x : List α) (hidx : ∀ i ∈ idx, i < x.length) (k : Nat) :
    (selectRows idx x)[k]? = (idx[k]?).bind (x[·]?) := by
  induction idx generalizing k with
  | nil => simp [selectRows]
  | cons i is ih =>
    have hi : i < x.length := hidx i (List.mem_cons_self ..)
    have his : ∀ j ∈ is, j < x.length := fun j hj => hidx j (List.mem_cons_of_mem _ hj)
    have hx : x[i]? = some x[i] := List.getElem?_eq_getElem hi
    simp only [selectRows, List.filterMap_cons, hx]
    cases k with
    | zero => simp [hx]
    | succ k => simpa [selectRows] using ih his k

theorem selectRows_length {α : Type} (idx : List Nat) (x : List α) (hidx : ∀ i ∈ idx, i < x.length) :
    (selectRows idx x).length = idx.length := by
  induction idx with
  | nil => simp [selectRows]
  | cons i is ih =>
    have hi : i < x.length := hidx i (List.mem_cons_self ..)
    have his : ∀ j ∈ is, j < x.length := fun j hj => hidx j (List.mem_cons_of_mem _ hj)
    have hx : x[i]? = some x[i] := List.getElem?_eq_getElem hi
    simp only [selectRows, List.filterMap_cons, hx, List.length_cons]
    simpa [selectRows] using ih his

theorem zipWith_map_same {ρ α β γ : Type} (F : α → β → γ) (g : ρ → α) (h : ρ → β) (x : List ρ) :
    List.zipWith F (x.map g) (x.map h) = x.map fun a => F (g a) (h a) := by
  induction x with
  | nil => rfl
  | cons a as ih => simp [ih]

theorem rect_selectRows {α : Type} (idx : List Nat) (x : Mat α) (B C : Nat) (h : Rect x B C)
    (hidx : ∀ i ∈ idx, i < B) : Rect (selectRows idx x) idx.length C := by
  refine ⟨selectRows_length idx x (by rw [h.1]; exact hidx), ?_⟩
  intro row hrow
  exact h.2 row (mem_selectRows hrow)

section
variable {R : Type} (S : SOps R)

theorem feat_selectRows_wf (idx : List Nat) (feat : Feat R) (B C : Nat) (h : Feat.WF feat B C)
    (hidx : ∀ i ∈ idx, i < B) : Feat.WF (feat.selectRows idx) idx.length C := by
  cases feat <;> simp only [Feat.selectRows, Feat.WF] at h ⊢
  · exact rect_selectRows idx _ B C h hidx
  · exact rect_selectRows idx _ B C h hidx
  · exact rect_selectRows idx _ B C h hidx
  · exact rect_selectRows idx _ B C h hidx
  · exact selectRows_length idx _ (by rw [h]; exact hidx)

/-- `na_forward` commutes with taking a batch -/
theorem naForward_selectRows (fill : Option (Fill R)) (feat f1 : Feat R) (idx : List Nat)
    (h : naForward S fill feat = some f1) :
    naForward S fill (feat.selectRows idx) = some (f1.selectRows idx) := by
  have hsel : ∀ {α β γ : Type} (f : α → β → γ) (x : Mat α) (v : List β),
      bcast2 f (selectRows idx x) v = selectRows idx (bcast2 f x v) := by
    intro α β γ f x v
    simp only [bcast2, selectRows, List.map_filterMap, List.getElem?_map]
  cases fill with
  | none => simp only [naForward] at h ⊢; injection h with h; subst h; rfl
  | some fl =>
    cases fl <;> cases feat <;> simp only [naForward, Feat.selectRows] at h ⊢ <;> try (cases h; done)
    all_goals (injection h with h; subst h; simp only [hsel])

theorem all_selectRows {α : Type} (p : α → Bool) (idx : List Nat) (x : List α) (h : x.all p = true) :
    (selectRows idx x).all p = true := by
  simp only [List.all_eq_true] at h ⊢
  intro a ha
  exact h a (mem_selectRows ha)

/-- `encode_forward` accepts every batch of a frame it accepts (empty batches and repeated rows included) -/
theorem encodeForward_accepts_batch (p : Params R) (ch C : Nat) (feat : Feat R) (y : T3 R) (idx : List Nat)
    (h : encodeForward S p ch C feat = some y) :
    ∃ y', encodeForward S p ch C (feat.selectRows idx) = some y' := by
  cases p <;> cases feat <;> simp only [encodeForward, Feat.selectRows] at h ⊢ <;> try (cases h; done)
  · exact ⟨_, rfl⟩
  · exact ⟨_, rfl⟩
  · exact ⟨_, rfl⟩
  · exact ⟨_, rfl⟩
  · exact ⟨_, rfl⟩
  · -- EmbeddingEncoder: the index matrix is a row-wise function of the input
    rename_i off t x
    have hrow : ∀ z : Mat Int,
        zip2 (fun (m : Bool) (i : Int) => if m then 0 else i) (map2 (fun v => decide (v < 0)) z)
          (map2 (· + 1) (bcast2 (· + ·) z off)) =
        z.map fun row => List.zipWith (fun (m : Bool) (i : Int) => if m then 0 else i)
          (row.map fun v => decide (v < 0)) ((List.zipWith (· + ·) row off).map (· + 1)) := by
      intro z
      simp only [zip2, map2, bcast2, List.map_map, Function.comp_def, zipWith_map_same]
    unfold embeddingEncode at h ⊢
    simp only [hrow] at h ⊢
    split at h
    · rename_i hall
      rw [List.all_map] at hall
      have := all_selectRows _ idx x hall
      rw [← List.all_map] at this
      simp only [this, if_true]
      exact ⟨_, rfl⟩
    · cases h
  · rename_i mode ts x
    unfold bagEncode at h ⊢
    split at h
    · rename_i hall
      have := all_selectRows _ idx x hall
      simp only [this, if_true]
      exact ⟨_, rfl⟩
    · cases h
  · rename_i ys mv os w b x
    unfold timestampEncode at h ⊢
    simp only at h ⊢
    split at h
    · rename_i hall
      simp only [bcast2, List.all_map] at hall ⊢
      have := all_selectRows _ idx x hall
      simp only [this, if_true]
      exact ⟨_, rfl⟩
    · cases h
  · rename_i ds ws bs off vals
    unfold linearEmbEncode at h ⊢
    split at h
    · rename_i hall
      have := all_selectRows _ idx vals hall
      simp only [this, if_true]
      exact ⟨_, rfl⟩
    · cases h

/-- C12 "accepts any batch": if the encoder accepts a frame it accepts every selection of its rows - a single
    row, the empty selection, repetitions, permutations - and returns the shape `[|idx|, C, ch]` -/
theorem forward_accepts_batch (e : Encoder R) (B C n : Nat) (feat : Feat R) (o : Out R) (idx : List Nat)
    (h : forward S e B C n feat = some o) :
    ∃ o', forward S e idx.length C n (feat.selectRows idx) = some o' ∧ o'.b = idx.length ∧ o'.c = C ∧ o'.ch = e.ch := by
  unfold forward at h ⊢
  split at h
  · cases h
  · rename_i hn
    simp only [hn]
    cases h1 : naForward S e.fill feat with
    | none => simp [h1, bind, Option.bind] at h
    | some f1 =>
      cases h2 : encodeForward S e.params e.ch C f1 with
      | none => simp [h1, h2, bind, Option.bind] at h
      | some y =>
        obtain ⟨y', hy'⟩ := encodeForward_accepts_batch S e.params e.ch C f1 y idx h2
        simp only [naForward_selectRows S e.fill feat f1 idx h1, hy', bind, Option.bind, pure]
        exact ⟨_, rfl, rfl, rfl, rfl⟩

/-- number of rows actually stored in a block -/
def Feat.len : Feat R → Nat
  | .num x => x.length | .cat x => x.length | .bags x => x.length | .time x => x.length
  | .emb _ vals => vals.length

theorem cell_selectRows {α : Type} (idx : List Nat) (x : Mat α) (hidx : ∀ i ∈ idx, i < x.length) (k c : Nat) :
    cell (selectRows idx x) k c = (idx[k]?).bind fun i => cell x i c := by
  unfold cell
  rw [selectRows_getElem? idx x hidx k]
  cases idx[k]? <;> simp

theorem cellAt_selectRows (p : Params R) (feat : Feat R) (idx : List Nat) (hidx : ∀ i ∈ idx, i < feat.len) (k c : Nat) :
    cellAt p (feat.selectRows idx) k c = (idx[k]?).bind fun i => cellAt p feat i c := by
  cases feat <;> simp only [Feat.len] at hidx <;> simp only [cellAt, Feat.selectRows]
  · rw [cell_selectRows idx _ hidx]; cases idx[k]? <;> simp
  · rw [cell_selectRows idx _ hidx]; cases idx[k]? <;> simp
  · rw [cell_selectRows idx _ hidx]; cases idx[k]? <;> simp
  · rw [cell_selectRows idx _ hidx]; cases idx[k]? <;> simp
  · cases p <;> simp only <;> try (cases idx[k]? <;> simp; done)
    rw [selectRows_getElem? idx _ hidx]
    cases idx[k]? <;> simp

/-- row `k` of the encoding of the batch `tf[idx]` is row `idx[k]` of the encoding of `tf`: encoders are
    equivariant under every row selection, in particular under every permutation of the rows -/
theorem batch_rows_equivariant (e : Encoder R) (B C n : Nat) (feat : Feat R) (o o' : Out R) (idx : List Nat)
    (k i c : Nat) (v : CellVal R) (hfill : Fill.WF e.fill C) (hc : c < C)
    (hidx : ∀ j ∈ idx, j < feat.len)
    (h : forward S e B C n feat = some o)
    (h' : forward S e idx.length C n (feat.selectRows idx) = some o')
    (hk : idx[k]? = some i) (hv : cellAt e.params feat i c = some v) :
    cell o'.data k c = cell o.data i c := by
  have hv' : cellAt e.params (feat.selectRows idx) k c = some v := by
    rw [cellAt_selectRows e.params feat idx hidx k c, hk]; exact hv
  exact (perturb_local S e B idx.length C n feat (feat.selectRows idx) o o' i k c v hfill hc h h' hv hv').symm
end


/-! ## missing-value semantics -/

section
variable {R : Type} (S : SOps R)

/-! ## NaN-lifted scalar -/

@[simp] theorem lift_sub_none (b : Option R) : S.lift.sub none b = none := by cases b <;> rfl
@[simp] theorem lift_div_none (b : Option R) : S.lift.div none b = none := by cases b <;> rfl
@[simp] theorem lift_mul_none_left (b : Option R) : S.lift.mul none b = none := by cases b <;> rfl
@[simp] theorem lift_mul_none_right (a : Option R) : S.lift.mul a none = none := by cases a <;> rfl
@[simp] theorem lift_add_none_left (b : Option R) : S.lift.add none b = none := by cases b <;> rfl
@[simp] theorem lift_add_none_right (a : Option R) : S.lift.add a none = none := by cases a <;> rfl
@[simp] theorem lift_tanh_none : S.lift.tanh none = none := rfl
@[simp] theorem lift_sin_none : S.lift.sin none = none := rfl
@[simp] theorem lift_cos_none : S.lift.cos none = none := rfl
@[simp] theorem lift_nanToNum_none : S.lift.nanToNum none = some S.zero := rfl
@[simp] theorem lift_nanToNum_some (x : R) : S.lift.nanToNum (some x) = some x := rfl
@[simp] theorem lift_isNaN_none : S.lift.isNaN none = true := rfl
@[simp] theorem lift_lt_none_right (a : Option R) : S.lift.lt a none = false := by cases a <;> rfl
@[simp] theorem lift_nan : S.lift.nan = none := rfl
@[simp] theorem lift_zero : S.lift.zero = some S.zero := rfl

theorem lift_nanToNum_isSome (a : Option R) : (S.lift.nanToNum a).isSome = true := by cases a <;> rfl

theorem foldl_add_none (xs : List (Option R)) : xs.foldl S.lift.add none = none := by
  induction xs with
  | nil => rfl
  | cons x xs ih => simp [List.foldl_cons, ih]

theorem sum_none_of_mem (xs : List (Option R)) (h : none ∈ xs) : S.lift.sum xs = none := by
  unfold SOps.sum
  generalize S.lift.zero = acc
  induction xs generalizing acc with
  | nil => cases h
  | cons x xs ih =>
    simp only [List.foldl_cons]
    rcases List.mem_cons.mp h with hx | hx
    · subst hx
      simp [foldl_add_none]
    · exact ih hx _

/-- "all entries are the zero of the base scalar" -/
def AllZero (v : List (Option R)) : Prop := ∀ x ∈ v, x = some S.zero

theorem allZero_map_nanToNum_of_none (v : List (Option R)) (h : ∀ x ∈ v, x = none) :
    AllZero S (v.map S.lift.nanToNum) := by
  intro x hx
  simp only [List.mem_map] at hx
  obtain ⟨a, ha, rfl⟩ := hx
  rw [h a ha]; rfl

theorem zipWith_add_none_left (w : List α) (b : List (Option R)) :
    ∀ x ∈ List.zipWith S.lift.add (w.map fun _ => none) b, x = none := by
  intro x hx
  obtain ⟨a, ha, c, _, rfl⟩ := mem_zipWith hx
  simp only [List.mem_map] at ha
  obtain ⟨_, _, rfl⟩ := ha
  simp

/-- LinearEncoder without NA strategy: a missing (NaN) cell is embedded as the zero vector -/
theorem linear_missing_zero (m s : Option R) (w b : List (Option R)) :
    AllZero S ((cellLinear S.lift m s w b none).map S.lift.nanToNum) := by
  apply allZero_map_nanToNum_of_none
  unfold cellLinear
  simp only [lift_sub_none, lift_div_none, lift_mul_none_left]
  exact zipWith_add_none_left S w b

theorem stack_missing_zero (m s : Option R) (ch : Nat) :
    AllZero S ((cellStack S.lift m s ch none).map S.lift.nanToNum) := by
  apply allZero_map_nanToNum_of_none
  unfold cellStack
  simp only [lift_sub_none, lift_div_none]
  intro x hx
  exact (List.mem_replicate.mp hx).2

theorem excel_missing_zero (m s : Option R) (w1 w2 b1 b2 : List (Option R)) :
    AllZero S ((cellExcel S.lift m s w1 w2 b1 b2 none).map S.lift.nanToNum) := by
  apply allZero_map_nanToNum_of_none
  unfold cellExcel
  simp only [lift_sub_none, lift_div_none, lift_mul_none_right]
  intro x hx
  obtain ⟨p, hp, q, _, rfl⟩ := mem_zipWith hx
  have := zipWith_add_none_left S w1 b1 p hp
  subst this
  simp

theorem vecMat_all_none (x : List (Option R)) (W : Mat (Option R)) (ch : Nat) (h : ∀ a ∈ x, a = none) :
    AllZero S ((vecMat S.lift x W ch).map S.lift.nanToNum) := by
  intro y hy
  simp only [vecMat, List.map_map, List.mem_map, List.mem_range, Function.comp_def] at hy
  obtain ⟨l, _, rfl⟩ := hy
  have hall : ∀ t ∈ List.zipWith (fun xk wk => S.lift.mul xk (wk.getD l S.lift.zero)) x W, t = none := by
    intro t ht
    obtain ⟨a, ha, wk, _, rfl⟩ := mem_zipWith ht
    rw [h a ha]; simp
  cases hl : List.zipWith (fun xk wk => S.lift.mul xk (wk.getD l S.lift.zero)) x W with
  | nil => simp [SOps.sum]
  | cons t ts =>
    have : none ∈ List.zipWith (fun xk wk => S.lift.mul xk (wk.getD l S.lift.zero)) x W := by
      rw [hl]; have := hall t (by rw [hl]; exact List.mem_cons_self ..); subst this; exact List.mem_cons_self ..
    rw [← hl, sum_none_of_mem S _ this]; rfl

theorem periodic_missing_zero (m s : Option R) (lin : List (Option R)) (W : Mat (Option R)) (ch : Nat) :
    AllZero S ((cellPeriodic S.lift m s lin W ch none).map S.lift.nanToNum) := by
  unfold cellPeriodic
  apply vecMat_all_none
  intro a ha
  simp only [lift_sub_none, lift_div_none, lift_mul_none_right, List.map_map, Function.comp_def, List.mem_append,
    List.mem_map] at ha
  rcases ha with ⟨_, _, rfl⟩ | ⟨_, _, rfl⟩ <;> rfl


theorem vecMat_has_none (x : List (Option R)) (W : Mat (Option R)) (ch k : Nat) (hk : x[k]? = some none)
    (hW : k < W.length) : AllZero S ((vecMat S.lift x W ch).map S.lift.nanToNum) := by
  intro y hy
  simp only [vecMat, List.map_map, List.mem_map, List.mem_range, Function.comp_def] at hy
  obtain ⟨l, _, rfl⟩ := hy
  have : none ∈ List.zipWith (fun xk wk => S.lift.mul xk (wk.getD l S.lift.zero)) x W := by
    apply List.mem_iff_getElem?.mpr
    refine ⟨k, ?_⟩
    simp [List.getElem?_zipWith, hk, List.getElem?_eq_getElem hW]
  rw [sum_none_of_mem S _ this]; rfl

theorem allZero_add_bias (v b : List (Option R)) (_h : AllZero S (v.map S.lift.nanToNum))
    (hv : ∀ x ∈ v, x = none) : AllZero S ((List.zipWith S.lift.add v b).map S.lift.nanToNum) := by
  apply allZero_map_nanToNum_of_none
  intro x hx
  obtain ⟨a, ha, c, _, rfl⟩ := mem_zipWith hx
  rw [hv a ha]; simp

theorem vecMat_none_entries (x : List (Option R)) (W : Mat (Option R)) (ch k : Nat) (hk : x[k]? = some none)
    (hW : k < W.length) : ∀ y ∈ vecMat S.lift x W ch, y = none := by
  intro y hy
  simp only [vecMat, List.mem_map, List.mem_range] at hy
  obtain ⟨l, _, rfl⟩ := hy
  have : none ∈ List.zipWith (fun xk wk => S.lift.mul xk (wk.getD l S.lift.zero)) x W := by
    apply List.mem_iff_getElem?.mpr
    refine ⟨k, ?_⟩
    simp [List.getElem?_zipWith, hk, List.getElem?_eq_getElem hW]
  exact sum_none_of_mem S _ this

/-- LinearBucketEncoder: NaN goes to the last bucket, its `frac` is NaN, the contraction propagates it -/
theorem bucket_missing_zero (bnd : List (Option R)) (W : Mat (Option R)) (b : List (Option R)) (ch : Nat)
    (hb : 2 ≤ bnd.length) (hW : bnd.length - 1 ≤ W.length) :
    AllZero S ((cellBucket S.lift bnd W b ch none).map S.lift.nanToNum) := by
  unfold cellBucket
  apply allZero_map_nanToNum_of_none
  intro x hx
  obtain ⟨a, ha, c, _, rfl⟩ := mem_zipWith hx
  have hk : (bucketRow S.lift bnd none)[bnd.length - 2]? = some none := by
    unfold bucketRow bucketize
    simp only [lift_isNaN_none, if_true, List.length_dropLast, List.length_drop, lift_sub_none, lift_div_none,
      lift_lt_none_right]
    have h1 : bnd.length - 1 - 1 = bnd.length - 2 := by omega
    rw [h1, List.getElem?_set_self]
    simp; omega
  have := vecMat_none_entries S _ W ch (bnd.length - 2) hk (by omega) a ha
  rw [this]; simp

/-- EmbeddingEncoder: a missing cell (index −1) reads the padding row of the table -/
theorem embedding_missing_is_padding_row (off : Int) (t : Mat R) (v : Int) (hv : v < 0) :
    t.getD (embIndex off v).toNat [] = t.getD 0 [] := by
  simp [embIndex, hv]

/-- MultiCategoricalEmbeddingEncoder: the missing cell `[-1]` becomes the padding index, which every bag
    mode excludes: the result is the zero vector whatever the table holds -/
theorem bag_missing_zero (mode : BagMode) (table : Mat R) (ch : Nat) :
    bagReduce S mode table ch [-1] = List.replicate ch S.zero := by
  unfold bagReduce
  cases mode <;> simp [SOps.sum, List.map_const']

/-- TimestampEncoder: a missing timestamp is masked to NaN after the linear layer -/
theorem timestamp_missing_zero (my : Int) (mv : List Int) (os : Nat) (W : T3 (Option R)) (b : List (Option R))
    (ch : Nat) (ts : List Int) (hm : tsMissing ts = true) :
    AllZero S ((cellTimestamp S.lift my mv os W b ch ts).map S.lift.nanToNum) := by
  apply allZero_map_nanToNum_of_none
  unfold cellTimestamp
  simp only [hm, if_true]
  intro x hx
  simp only [List.mem_map] at hx
  obtain ⟨_, _, rfl⟩ := hx
  rfl

/-- LinearEmbeddingEncoder: an embedding cell with a NaN component -/
theorem linearEmb_missing_zero (W : Mat (Option R)) (b : List (Option R)) (ch : Nat) (v : List (Option R)) (k : Nat)
    (hk : v[k]? = some none) (hW : k < W.length) :
    AllZero S ((cellLinearEmb S.lift W b ch v).map S.lift.nanToNum) := by
  unfold cellLinearEmb
  apply allZero_map_nanToNum_of_none
  intro x hx
  obtain ⟨a, ha, c, _, rfl⟩ := mem_zipWith hx
  rw [vecMat_none_entries S v W ch k hk hW a ha]; simp

/-! ## no NaN in the output -/

def PostNaNSafe : Post (Option R) → Prop
  | .none => True | .relu => True | .tanh => True | .layerNorm _ _ => False

theorem post_keeps_some (p : Post (Option R)) (hp : PostNaNSafe p) (v : List (Option R))
    (hv : ∀ x ∈ v, x.isSome = true) : ∀ x ∈ Post.apply S.lift p v, x.isSome = true := by
  cases p <;> simp only [PostNaNSafe] at hp <;> simp only [Post.apply]
  · exact hv
  · intro x hx
    simp only [List.mem_map] at hx
    obtain ⟨a, ha, rfl⟩ := hx
    have := hv a ha
    cases a with
    | none => cases this
    | some a =>
      unfold SOps.relu
      simp only [SOps.lift, Option.isNone_some, Bool.false_eq_true, if_false]
      by_cases hlt : S.lt S.zero a = true <;> simp [hlt]
  · intro x hx
    simp only [List.mem_map] at hx
    obtain ⟨a, ha, rfl⟩ := hx
    have := hv a ha
    cases a with
    | none => cases this
    | some a => rfl

/-- with the NaN-lifted scalar: whatever the input (any missing pattern), the output of `forward` has no NaN -/
theorem forward_no_nan (e : Encoder (Option R)) (B C n : Nat) (feat : Feat (Option R)) (o : Out (Option R))
    (hp : PostNaNSafe e.post) (h : forward S.lift e B C n feat = some o) :
    ∀ row ∈ o.data, ∀ v ∈ row, ∀ x ∈ v, x.isSome = true := by
  unfold forward at h
  split at h
  · cases h
  · cases h1 : naForward S.lift e.fill feat with
    | none => simp [h1, bind, Option.bind] at h
    | some f1 =>
      cases h2 : encodeForward S.lift e.params e.ch C f1 with
      | none => simp [h1, h2, bind, Option.bind] at h
      | some y =>
        simp only [h1, h2, bind, Option.bind, pure] at h
        injection h with h
        subst h
        apply all_map2' (fun v : List (Option R) => ∀ x ∈ v, x.isSome = true)
          (fun v : List (Option R) => ∀ x ∈ v, x.isSome = true)
        · apply all_map2 (fun v : List (Option R) => ∀ x ∈ v, x.isSome = true)
          intro a x hx
          simp only [List.mem_map] at hx
          obtain ⟨z, _, rfl⟩ := hx
          exact lift_nanToNum_isSome S z
        · intro a ha
          exact post_keeps_some S e.post hp a ha
end


section
variable {R : Type} (S : SOps R)

/-! ## fill values are the column's own statistic -/

theorem mkFill_mean_spec (st : Stype) (stats : List (ColStat R)) (v : List R)
    (h : mkFill S st (some .mean) stats = some (some (.num v))) (c : Nat) :
    v[c]? = (stats[c]?).bind statMean := by
  simp only [mkFill] at h
  split at h
  · cases h
  · cases hq : gather statMean stats with
    | none => simp [hq] at h
    | some v' =>
      simp only [hq, Option.map_some] at h
      injection h with h; injection h with h; injection h with h
      subst h
      exact gather_getElem? _ _ _ hq c

theorem mkFill_time_spec (st : Stype) (na : NA) (hna : na = .oldest ∨ na = .newest ∨ na = .median)
    (stats : List (ColStat R)) (v : Mat Int)
    (h : mkFill S st (some na) stats = some (some (.time v))) (c : Nat) :
    v[c]? = (stats[c]?).bind (statTime na) := by
  simp only [mkFill] at h
  split at h
  · cases h
  · rcases hna with rfl | rfl | rfl <;> simp only at h
    all_goals
      first
      | (cases hq : gather (statTime NA.oldest) stats with
         | none => simp [hq] at h
         | some v' =>
           simp only [hq, Option.map_some] at h
           injection h with h; injection h with h; injection h with h
           subst h
           exact gather_getElem? _ _ _ hq c)
      | (cases hq : gather (statTime NA.newest) stats with
         | none => simp [hq] at h
         | some v' =>
           simp only [hq, Option.map_some] at h
           injection h with h; injection h with h; injection h with h
           subst h
           exact gather_getElem? _ _ _ hq c)
      | (cases hq : gather (statTime NA.median) stats with
         | none => simp [hq] at h
         | some v' =>
           simp only [hq, Option.map_some] at h
           injection h with h; injection h with h; injection h with h
           subst h
           exact gather_getElem? _ _ _ hq c)

theorem mkFill_const_spec (st : Stype) (na : NA) (hna : na = .zeros ∨ na = .mostFrequent)
    (stats : List (ColStat R)) (fill : Fill R)
    (h : mkFill S st (some na) stats = some (some fill)) :
    fill = .num (stats.map fun _ => S.zero) ∨ fill = .int (stats.map fun _ => 0) := by
  simp only [mkFill] at h
  split at h
  · cases h
  · rcases hna with rfl | rfl <;> simp only at h
    · split at h <;> (injection h with h; injection h with h; subst h; simp)
    · injection h with h; injection h with h; subst h; simp
end

/-! ## denominators in an ordered field -/

section field
variable {R : Type} [Field R] [LinearOrder R] [IsStrictOrderedRing R]

/-- the scalar record of an ordered field; the transcendental slots are arbitrary functions -/
def fieldOps (sin cos tanh sqrt : R → R) (pow : R → R → R) (pi : R) : SOps R where
  zero := 0
  one := 1
  nan := 0
  add := (· + ·)
  sub := (· - ·)
  mul := (· * ·)
  div := (· / ·)
  sin := sin
  cos := cos
  tanh := tanh
  sqrt := sqrt
  pow := pow
  ofInt i := (i : R)
  ofSci m e := (m : R) / 10 ^ e
  pi := pi
  lt a b := decide (a < b)
  isNaN _ := false
  isZero x := decide (x = 0)
  nanToNum x := x
  round32 x := x

variable (sin cos tanh sqrt : R → R) (pow : R → R → R) (pi : R)

theorem ofSci_pos (e : Nat) : (0 : R) < (fieldOps sin cos tanh sqrt pow pi).ofSci 1 e := by
  simp only [fieldOps, Nat.cast_one]
  positivity

/-- `std + 1e-6` is never zero: a standard deviation is non-negative -/
theorem std_denominator_ne_zero (std : R) (h : 0 ≤ std) :
    let F := fieldOps sin cos tanh sqrt pow pi
    F.isZero (F.add std (F.ofSci 1 6)) = false := by
  intro F
  have hp := ofSci_pos sin cos tanh sqrt pow pi 6
  have : std + F.ofSci 1 6 ≠ 0 := by
    have : 0 < std + F.ofSci 1 6 := by linarith
    exact ne_of_gt this
  simpa [F, fieldOps] using this

/-- `boundary_end - boundary_start + 1e-8` is never zero: the boundaries are non-decreasing quantiles -/
theorem bucket_denominator_ne_zero (st en : R) (h : st ≤ en) :
    let F := fieldOps sin cos tanh sqrt pow pi
    F.isZero (F.add (F.sub en st) (F.ofSci 1 8)) = false := by
  intro F
  have hp := ofSci_pos sin cos tanh sqrt pow pi 8
  have : en - st + F.ofSci 1 8 ≠ 0 := by
    have : 0 < en - st + F.ofSci 1 8 := by linarith
    exact ne_of_gt this
  simpa [F, fieldOps] using this

/-- with the division-checking lifted scalar, a non-missing finite cell with finite parameters and a
    non-negative standard deviation is embedded without producing any non-finite value: `nan_to_num` only ever
    acts on missing cells -/
theorem linear_nonmissing_finite (m std x : R) (w b : List R) (h : 0 ≤ std) :
    let L := (fieldOps sin cos tanh sqrt pow pi).lift
    ∀ y ∈ cellLinear L (some m) (L.add (some std) (L.ofSci 1 6)) (w.map some) (b.map some) (some x),
      y.isSome = true := by
  intro L y hy
  have hz := std_denominator_ne_zero sin cos tanh sqrt pow pi std h
  simp only at hz
  unfold cellLinear at hy
  obtain ⟨a, ha, c, hc, rfl⟩ := mem_zipWith hy
  simp only [List.mem_map] at ha hc
  obtain ⟨a', ha', rfl⟩ := ha
  obtain ⟨wv, _, rfl⟩ := ha'
  obtain ⟨bv, _, rfl⟩ := hc
  simp [L, SOps.lift, hz]
end field

end TFVerif.Enc

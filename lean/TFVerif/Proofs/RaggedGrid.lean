/-
Grid-level refinement lemmas: the container primitives on the canonical storage of a grid
are the nested-list selections (C05, C06).  Core Lean only.
-/
import TFVerif.Proofs.Ragged

namespace TFVerif

open Grid

/-! ### `pick`, `rangeStep`, `maskPositions`, index normalisation -/

theorem pick_nil {β : Type} (xs : List β) : pick xs [] = [] := rfl

theorem pick_cons {β : Type} (xs : List β) (p : Nat) (ps : List Nat) :
    pick xs (p :: ps) = (xs[p]?).toList ++ pick xs ps := by
  simp [pick, List.flatMap_cons]

theorem pick_eq_map_getD {β : Type} (xs : List β) (ps : List Nat) (d : β)
    (h : ∀ p ∈ ps, p < xs.length) : pick xs ps = ps.map (xs.getD · d) := by
  induction ps with
  | nil => rfl
  | cons p ps ih =>
    have hp : p < xs.length := h p (by simp)
    rw [pick_cons, ih (fun q hq => h q (by simp [hq]))]
    simp [List.getD_eq_getElem?_getD, hp]

theorem pick_length {β : Type} (xs : List β) (ps : List Nat)
    (h : ∀ p ∈ ps, p < xs.length) : (pick xs ps).length = ps.length := by
  induction ps with
  | nil => rfl
  | cons p ps ih =>
    have hp : p < xs.length := h p (by simp)
    rw [pick_cons, List.length_append, ih (fun q hq => h q (by simp [hq]))]
    simp [hp]; omega

theorem pick_range' {β : Type} (xs : List β) (a n : Nat) (h : a + n ≤ xs.length) :
    pick xs (List.range' a n) = (xs.drop a).take n := by
  induction n generalizing a with
  | zero => simp [pick]
  | succ n ih =>
    rw [List.range'_succ, pick_cons, ih (a + 1) (by omega)]
    have ha : a < xs.length := by omega
    have e : xs.drop a = xs[a] :: xs.drop (a + 1) := List.drop_eq_getElem_cons ha
    rw [e, List.take_succ_cons]
    simp [ha]

theorem rangeStep_go_one (b : Nat) (fuel x : Nat) (h : b - x ≤ fuel) :
    rangeStep.go b 1 fuel x = List.range' x (b - x) := by
  induction fuel generalizing x with
  | zero =>
    have : b - x = 0 := by omega
    simp [rangeStep.go, this]
  | succ f ih =>
    unfold rangeStep.go
    by_cases hx : x < b
    · simp only [hx, if_true]
      have e : b - x = (b - (x + 1)) + 1 := by omega
      rw [e, List.range'_succ]
      congr 1
      have := ih (x + 1) (by omega)
      simpa using this
    · have : b - x = 0 := by omega
      simp [hx, this]

theorem rangeStep_one (a b : Nat) : rangeStep a b 1 = List.range' a (b - a) := by
  unfold rangeStep
  exact rangeStep_go_one b (b - a) a (Nat.le_refl _)

theorem rangeStep_go_lt (b k fuel x : Nat) : ∀ p ∈ rangeStep.go b k fuel x, p < b := by
  induction fuel generalizing x with
  | zero => simp [rangeStep.go]
  | succ f ih =>
    unfold rangeStep.go
    by_cases hx : x < b
    · simp only [hx, if_true, List.mem_cons]
      intro p hp
      rcases hp with rfl | hp
      · exact hx
      · exact ih _ p hp
    · simp [hx]

theorem rangeStep_lt (a b k : Nat) : ∀ p ∈ rangeStep a b k, p < b := by
  unfold rangeStep; exact rangeStep_go_lt b k _ a

theorem clampBound_le (n : Nat) (b : Option Int) (d : Nat) (hd : d ≤ n) : clampBound n b d ≤ n := by
  unfold clampBound
  cases b with
  | none => exact hd
  | some x =>
    simp only
    split
    · split
      · omega
      · omega
    · split
      · omega
      · omega

theorem slicePositions_lt (n : Nat) (a b : Option Int) (k : Nat) :
    ∀ p ∈ slicePositions n a b k, p < n := by
  intro p hp
  unfold slicePositions sliceBounds at hp
  have := rangeStep_lt _ _ _ p hp
  have := clampBound_le n b n (Nat.le_refl n)
  omega

theorem maskPositions_go_lt (bs : List Bool) (k : Nat) :
    ∀ p ∈ maskPositions.go k bs, p < k + bs.length := by
  induction bs generalizing k with
  | nil => simp [maskPositions.go]
  | cons b bs ih =>
    intro p hp
    unfold maskPositions.go at hp
    by_cases hb : b = true
    · simp only [hb, if_true, List.mem_cons] at hp
      rcases hp with rfl | hp
      · simp
      · have := ih (k + 1) p hp; simp; omega
    · simp only [hb] at hp
      have := ih (k + 1) p hp; simp; omega

theorem normIndex_lt (n : Nat) (i : Int) (j : Nat) (h : normIndex n i = some j) : j < n := by
  unfold normIndex at h
  by_cases hi : i < 0 <;> simp [hi] at h <;> omega

theorem normIndices_lt (n : Nat) (is : List Int) (js : List Nat) (h : normIndices n is = some js) :
    ∀ p ∈ js, p < n := by
  induction is generalizing js with
  | nil => simp [normIndices] at h; subst h; simp
  | cons i is ih =>
    simp only [normIndices, Option.bind_eq_bind, Option.pure_def] at h
    cases h1 : normIndex n i with
    | none => simp [h1] at h
    | some j =>
      cases h2 : normIndices n is with
      | none => simp [h1, h2] at h
      | some js' =>
        simp [h1, h2] at h
        subst h
        intro p hp
        simp only [List.mem_cons] at hp
        rcases hp with rfl | hp
        · exact normIndex_lt n i _ h1
        · exact ih js' h2 p hp

/-- every position selected by an index expression on an axis of length `n` is `< n`. -/
theorem positions_lt (n : Nat) (ix : Index) (ps : List Nat) (h : ix.positions n = some ps) :
    ∀ p ∈ ps, p < n := by
  cases ix with
  | int i =>
    simp only [Index.positions, Option.map_eq_some_iff] at h
    obtain ⟨j, hj, rfl⟩ := h
    intro p hp; simp at hp; subst hp; exact normIndex_lt n i _ hj
  | slice a b s =>
    cases s with
    | none =>
      simp only [Index.positions, Option.some.injEq] at h; subst h
      exact slicePositions_lt n a b 1
    | some k =>
      simp only [Index.positions] at h
      by_cases hk : k ≤ 0
      · simp [hk] at h
      · simp only [hk, if_false, Option.some.injEq] at h; subst h
        exact slicePositions_lt n a b _
  | list is => exact normIndices_lt n is ps h
  | mask bs =>
    simp only [Index.positions] at h
    by_cases hb : bs.length = n
    · simp only [hb, if_true, Option.some.injEq] at h; subst h
      intro p hp
      have := maskPositions_go_lt bs 0 p hp
      omega
    · simp [hb] at h

end TFVerif

namespace TFVerif

open Grid

/-! ### rows of a well-formed grid inside the flattened cell list -/

theorem range_map_getD {β γ : Type} (l : List β) (d : β) (F : β → γ) :
    (List.range l.length).map (fun r => F (l.getD r d)) = l.map F := by
  apply List.ext_getElem
  · simp
  · intro i h1 h2
    have hi : i < l.length := by simpa using h1
    simp [List.getD_eq_getElem?_getD, hi]

theorem range_flatMap_getD {β γ : Type} (l : List β) (d : β) (F : β → List γ) :
    (List.range l.length).flatMap (fun r => F (l.getD r d)) = l.flatMap F := by
  rw [List.flatMap_def, List.flatMap_def, range_map_getD l d F]

theorem getD_mem_or {β : Type} (l : List β) (r : Nat) (d : β) (h : r < l.length) : l.getD r d ∈ l := by
  simp [List.getD_eq_getElem?_getD, h]

/-- row `r` of the flattened cell list. -/
theorem flatten_drop_row {β : Type} (rows : List (List β)) (C : Nat)
    (h : ∀ r ∈ rows, r.length = C) (r : Nat) (hr : r < rows.length) :
    rows.flatten.drop (r * C) = rows.getD r [] ++ (rows.drop (r + 1)).flatten := by
  rw [uniform_flatten_drop rows C h r, List.drop_eq_getElem_cons hr, List.flatten_cons]
  simp [List.getD_eq_getElem?_getD, hr]

theorem row_seg {β : Type} (rows : List (List β)) (C : Nat)
    (h : ∀ r ∈ rows, r.length = C) (r s l : Nat) (hr : r < rows.length) (hs : s + l ≤ C) :
    (rows.flatten.drop (r * C + s)).take l = ((rows.getD r []).drop s).take l := by
  have hlen : (rows.getD r []).length = C := h _ (getD_mem_or rows r [] hr)
  rw [← List.drop_drop, flatten_drop_row rows C h r hr]
  rw [List.drop_append_of_le_length (by omega)]
  rw [List.take_append_of_le_length (by rw [List.length_drop, hlen]; omega)]

theorem cells_getD {β : Type} (rows : List (List β)) (C : Nat)
    (h : ∀ r ∈ rows, r.length = C) (r c : Nat) (d : β) (hr : r < rows.length) (hc : c < C) :
    rows.flatten.getD (r * C + c) d = (rows.getD r []).getD c d := by
  have hlen : (rows.getD r []).length = C := h _ (getD_mem_or rows r [] hr)
  have h1 := row_seg rows C h r c 1 hr (by omega)
  have hc' : c < (rows.getD r []).length := by omega
  have htot : r * C + c < rows.flatten.length := by
    rw [uniform_flatten_length rows C h]
    have : (r + 1) * C ≤ rows.length * C := Nat.mul_le_mul_right C hr
    rw [Nat.add_mul] at this; omega
  rw [drop_take_one _ _ d htot, drop_take_one _ _ d hc'] at h1
  simpa using h1

/-! ### the primitives on the canonical storage of a grid -/

theorem Grid.cells_length {α : Type} (g : Grid α) (hg : g.WF) :
    g.rows.flatten.length = g.rows.length * g.numCols :=
  uniform_flatten_length g.rows g.numCols hg

theorem rowNarrow_ofGrid {α : Type} (g : Grid α) (hg : g.WF) (s l : Nat) (h : s + l ≤ g.rows.length) :
    (MNT.ofGrid g).rowNarrow s l = MNT.ofGrid { g with rows := (g.rows.drop s).take l } := by
  rw [MNT.ofGrid_eq, MNT.ofGrid_eq, rowNarrow_ofCells _ _ _ s l (Grid.cells_length g hg) h]
  have hd : ∀ r ∈ g.rows.drop s, r.length = g.numCols := fun r hr => hg r (List.mem_of_mem_drop hr)
  rw [uniform_flatten_drop g.rows g.numCols hg s, uniform_flatten_take _ g.numCols hd l]
  simp only [List.length_take, List.length_drop]
  congr 1
  omega

theorem drop_take_one_toList {β : Type} (l : List β) (k : Nat) :
    (l.drop k).take 1 = (l[k]?).toList := by
  induction l generalizing k with
  | nil => simp
  | cons x xs ih =>
    cases k with
    | zero => simp
    | succ k' => simpa using ih k'

theorem rowIndexSelect_ofGrid {α : Type} (g : Grid α) (hg : g.WF) (idx : List Nat)
    (hne : idx ≠ []) (hidx : ∀ i ∈ idx, i < g.rows.length) :
    (MNT.ofGrid g).rowIndexSelect idx = MNT.ofGrid { g with rows := pick g.rows idx } := by
  rw [MNT.ofGrid_eq, MNT.ofGrid_eq,
    rowIndexSelect_ofCells _ _ _ idx (Grid.cells_length g hg) hne hidx]
  simp only [pick_length g.rows idx hidx]
  congr 1
  unfold pick
  rw [flatten_flatMap']
  apply flatMap_congr'
  intro i _
  have hd : ∀ r ∈ g.rows.drop i, r.length = g.numCols := fun r hr => hg r (List.mem_of_mem_drop hr)
  have := uniform_flatten_take (g.rows.drop i) g.numCols hd 1
  rw [Nat.one_mul] at this
  rw [uniform_flatten_drop g.rows g.numCols hg i, this, drop_take_one_toList]

theorem colNarrow_ofGrid {α : Type} (g : Grid α) (hg : g.WF) (s l : Nat) (h : s + l ≤ g.numCols) :
    (MNT.ofGrid g).colNarrow s l
      = MNT.ofGrid { numCols := l, rows := g.rows.map fun row => (row.drop s).take l } := by
  rw [MNT.ofGrid_eq, MNT.ofGrid_eq, colNarrow_ofCells _ _ _ s l (Grid.cells_length g hg) h]
  simp only [List.length_map]
  congr 1
  have : ∀ r ∈ List.range g.rows.length,
      (g.rows.flatten.drop (r * g.numCols + s)).take l = ((g.rows.getD r []).drop s).take l := by
    intro r hr
    exact row_seg g.rows g.numCols hg r s l (by simpa using hr) h
  rw [flatMap_congr' _ _ _ this, range_flatMap_getD g.rows [] (fun row => (row.drop s).take l)]
  rw [List.flatMap_def]

theorem colIndexSelect_ofGrid {α : Type} (g : Grid α) (hg : g.WF) (idx : List Nat)
    (hne : idx ≠ []) (hidx : ∀ c ∈ idx, c < g.numCols) :
    (MNT.ofGrid g).colIndexSelect idx
      = MNT.ofGrid { numCols := idx.length, rows := g.rows.map fun row => pick row idx } := by
  rw [MNT.ofGrid_eq, MNT.ofGrid_eq,
    colIndexSelect_ofCells _ _ _ idx (Grid.cells_length g hg) hne hidx]
  simp only [List.length_map]
  congr 1
  have : ∀ r ∈ List.range g.rows.length,
      (idx.map fun c => g.rows.flatten.getD (c + r * g.numCols) []) = pick (g.rows.getD r []) idx := by
    intro r hr
    have hr' : r < g.rows.length := by simpa using hr
    have hlen : (g.rows.getD r []).length = g.numCols := hg _ (getD_mem_or g.rows r [] hr')
    rw [pick_eq_map_getD _ idx [] (by intro p hp; rw [hlen]; exact hidx p hp)]
    apply List.map_congr_left
    intro c hc
    rw [Nat.add_comm]
    exact cells_getD g.rows g.numCols hg r c [] hr' (hidx c hc)
  rw [flatMap_congr' _ _ _ this, range_flatMap_getD g.rows [] (fun row => pick row idx)]
  rw [List.flatMap_def]

theorem singleIndexSelect1_ofGrid {α : Type} (g : Grid α) (hg : g.WF) (i : Nat) (hi : i < g.numCols) :
    (MNT.ofGrid g).singleIndexSelect i 1
      = MNT.ofGrid { numCols := 1, rows := g.rows.map fun row => pick row [i] } := by
  rw [MNT.ofGrid_eq, MNT.ofGrid_eq,
    singleIndexSelect1_ofCells _ _ _ i (Grid.cells_length g hg) hi]
  simp only [List.length_map]
  congr 1
  have : ∀ r ∈ List.range g.rows.length,
      [g.rows.flatten.getD (r * g.numCols + i) []] = pick (g.rows.getD r []) [i] := by
    intro r hr
    have hr' : r < g.rows.length := by simpa using hr
    have hlen : (g.rows.getD r []).length = g.numCols := hg _ (getD_mem_or g.rows r [] hr')
    rw [pick_eq_map_getD _ [i] [] (by intro p hp; simp at hp; subst hp; omega)]
    rw [cells_getD g.rows g.numCols hg r i [] hr' hi]
    rfl
  rw [← flatMap_singleton_map, flatMap_congr' _ _ _ this,
    range_flatMap_getD g.rows [] (fun row => pick row [i]), List.flatMap_def]

end TFVerif

namespace TFVerif

open Grid

/-! ### assembling `select` -/

theorem flatten_map_nil {β γ : Type} (l : List β) : (l.map fun _ => ([] : List γ)).flatten = [] := by
  induction l with
  | nil => rfl
  | cons x xs ih => simp [ih]

theorem empty_ofGrid {α : Type} (g : Grid α) (dim : Nat) (hd : dim = 0 ∨ dim = 1) :
    (MNT.ofGrid g).empty dim = MNT.ofGrid (g.pickDim [] dim) := by
  rcases hd with rfl | rfl
  · simp [MNT.empty, MNT.ofGrid, Grid.pickDim, pick, cumsum, cumsumFrom]
  · simp [MNT.empty, MNT.ofGrid, Grid.pickDim, pick, cumsum, cumsumFrom, flatten_map_nil]

theorem ofGrid_size {α : Type} (g : Grid α) (dim : Nat) : (MNT.ofGrid g).size dim = g.size dim := by
  simp [MNT.size, Grid.size, MNT.ofGrid]

theorem indexSelect_ofGrid {α : Type} (g : Grid α) (hg : g.WF) (js : List Nat) (dim : Nat)
    (hd : dim = 0 ∨ dim = 1) (hjs : ∀ p ∈ js, p < g.size dim) :
    (MNT.ofGrid g).indexSelect js dim = MNT.ofGrid (g.pickDim js dim) := by
  by_cases hne : js = []
  · subst hne
    rcases hd with rfl | rfl
    · simpa [MNT.indexSelect, MNT.rowIndexSelect] using empty_ofGrid g 0 (Or.inl rfl)
    · simpa [MNT.indexSelect, MNT.colIndexSelect] using empty_ofGrid g 1 (Or.inr rfl)
  · rcases hd with rfl | rfl
    · simp only [MNT.indexSelect, if_true, Grid.pickDim]
      exact rowIndexSelect_ofGrid g hg js hne (by simpa [Grid.size] using hjs)
    · simp only [MNT.indexSelect, Nat.one_ne_zero, if_false, Grid.pickDim]
      exact colIndexSelect_ofGrid g hg js hne (by simpa [Grid.size] using hjs)

theorem singleIndexSelect_ofGrid {α : Type} (g : Grid α) (hg : g.WF) (j : Nat) (dim : Nat)
    (hd : dim = 0 ∨ dim = 1) (hj : j < g.size dim) :
    (MNT.ofGrid g).singleIndexSelect j dim = MNT.ofGrid (g.pickDim [j] dim) := by
  rcases hd with rfl | rfl
  · have hj' : j < g.rows.length := by simpa [Grid.size] using hj
    rw [singleIndexSelect0_eq_rowNarrow, rowNarrow_ofGrid g hg j 1 (by omega)]
    simp [Grid.pickDim, pick_cons, pick_nil, drop_take_one_toList]
  · have hj' : j < g.numCols := by simpa [Grid.size] using hj
    rw [singleIndexSelect1_ofGrid g hg j hj']
    simp [Grid.pickDim]

theorem pick_all {β : Type} (xs : List β) : pick xs (List.range' 0 xs.length) = xs := by
  rw [pick_range' xs 0 xs.length (by omega)]; simp

theorem pickDim_all {α : Type} (g : Grid α) (hg : g.WF) (dim : Nat) (hd : dim = 0 ∨ dim = 1) :
    g.pickDim (List.range' 0 (g.size dim)) dim = g := by
  rcases hd with rfl | rfl
  · simp [Grid.pickDim, Grid.size, pick_all]
  · simp only [Grid.pickDim, Grid.size, Nat.one_ne_zero, if_false, List.length_range']
    have : g.rows.map (fun row => pick row (List.range' 0 g.numCols)) = g.rows := by
      conv => rhs; rw [← List.map_id g.rows]
      apply List.map_congr_left
      intro row hrow
      have := pick_all row
      rw [hg row hrow] at this
      simpa using this
    rw [this]

theorem narrow_ofGrid {α : Type} (g : Grid α) (hg : g.WF) (dim : Nat) (hd : dim = 0 ∨ dim = 1)
    (s e : Nat) (he : e ≤ g.size dim) :
    (MNT.ofGrid g).narrow dim s ((e : Int) - s) = MNT.ofGrid (g.pickDim (rangeStep s e 1) dim) := by
  rw [rangeStep_one]
  unfold MNT.narrow
  simp only [ofGrid_size]
  by_cases h1 : s = 0 ∧ (s : Int) + ((e : Int) - s) ≥ (g.size dim : Nat)
  · simp only [h1, and_self, if_true]
    obtain ⟨hs, hge⟩ := h1
    subst hs
    have : e = g.size dim := by omega
    subst this
    simp [pickDim_all g hg dim hd]
  · simp only [h1, if_false]
    by_cases h2 : (e : Int) - s ≤ 0
    · simp only [h2, if_true]
      have : e - s = 0 := by omega
      rw [this]
      exact empty_ofGrid g dim hd
    · simp only [h2, if_false]
      have hl : ((e : Int) - s).toNat = e - s := by omega
      rw [hl]
      rcases hd with rfl | rfl
      · simp only [if_true, Grid.pickDim]
        have he' : e ≤ g.rows.length := by simpa [Grid.size] using he
        rw [rowNarrow_ofGrid g hg s (e - s) (by omega), pick_range' g.rows s (e - s) (by omega)]
      · simp only [Nat.one_ne_zero, if_false, Grid.pickDim, List.length_range']
        have he' : e ≤ g.numCols := by simpa [Grid.size] using he
        rw [colNarrow_ofGrid g hg s (e - s) (by omega)]
        congr 2
        apply List.map_congr_left
        intro row hrow
        rw [pick_range' row s (e - s) (by rw [hg row hrow]; omega)]

/-- **Refinement of one selection**: on the canonical storage of any well-formed grid, the
    container's `select` is the nested-list selection (and raises exactly when it raises). -/
theorem select_ofGrid {α : Type} (g : Grid α) (hg : g.WF) (ix : Index) (dim : Nat)
    (hd : dim = 0 ∨ dim = 1) :
    (MNT.ofGrid g).select ix dim = (g.select ix dim).map MNT.ofGrid := by
  unfold MNT.select Grid.select
  simp only [ofGrid_size]
  cases ix with
  | int i =>
    simp only [Index.positions, Option.map_map]
    cases h : normIndex (g.size dim) i with
    | none => rfl
    | some j =>
      simp only [Option.map_some, Function.comp]
      rw [singleIndexSelect_ofGrid g hg j dim hd (normIndex_lt _ _ _ h)]
  | list is =>
    simp only [Index.positions]
    cases h : normIndices (g.size dim) is with
    | none => rfl
    | some js =>
      simp only [Option.map_some]
      rw [indexSelect_ofGrid g hg js dim hd (normIndices_lt _ _ _ h)]
  | mask bs =>
    simp only [Index.positions]
    by_cases hb : bs.length = g.size dim
    · simp only [hb, if_true, Option.map_some]
      rw [indexSelect_ofGrid g hg _ dim hd]
      intro p hp
      have := maskPositions_go_lt bs 0 p hp
      omega
    · simp [hb]
  | slice a b st =>
    have hnarrow : (MNT.ofGrid g).narrow dim (sliceBounds (g.size dim) a b).1
          (((sliceBounds (g.size dim) a b).2 : Int) - ((sliceBounds (g.size dim) a b).1 : Nat))
        = MNT.ofGrid (g.pickDim (slicePositions (g.size dim) a b 1) dim) := by
      unfold slicePositions
      exact narrow_ofGrid g hg dim hd _ _ (clampBound_le _ _ _ (Nat.le_refl _))
    unfold MNT.slice
    simp only [ofGrid_size]
    cases st with
    | none =>
      simp only [Index.positions, Option.map_some]
      rw [← hnarrow]
    | some k =>
      simp only [Index.positions]
      by_cases hk : k ≤ 0
      · simp [hk]
      · simp only [hk, if_false, Option.map_some]
        by_cases hk1 : k > 1
        · simp only [hk1, if_true]
          rw [indexSelect_ofGrid g hg _ dim hd (slicePositions_lt _ _ _ _)]
        · simp only [hk1, if_false]
          have : k.toNat = 1 := by omega
          rw [this, ← hnarrow]

theorem pickDim_WF {α : Type} (g : Grid α) (hg : g.WF) (ps : List Nat) (dim : Nat)
    (hps : ∀ p ∈ ps, p < g.size dim) : (g.pickDim ps dim).WF := by
  unfold Grid.pickDim
  by_cases hd : dim = 0
  · subst hd
    simp only [if_true]
    intro row hrow
    simp only [pick, List.mem_flatMap, Option.mem_toList] at hrow
    obtain ⟨p, _, hp⟩ := hrow
    exact hg row (List.mem_of_getElem? hp)
  · simp only [hd, if_false]
    intro row hrow
    simp only [List.mem_map] at hrow
    obtain ⟨r, hr, rfl⟩ := hrow
    apply pick_length
    intro p hp
    rw [hg r hr]
    simpa [Grid.size, hd] using hps p hp

theorem select_WF {α : Type} (g g' : Grid α) (hg : g.WF) (ix : Index) (dim : Nat)
    (h : g.select ix dim = some g') : g'.WF := by
  unfold Grid.select at h
  simp only [Option.map_eq_some_iff] at h
  obtain ⟨ps, hps, rfl⟩ := h
  exact pickDim_WF g hg ps dim (positions_lt _ _ _ hps)

end TFVerif

namespace TFVerif

open Grid

/-! ### reading cells back, validation, chains -/

theorem cellAt_ofCells {α : Type} (R C : Nat) (cells : List (List α)) (k : Nat) (h : k < cells.length) :
    (MNT.ofCells R C cells).cellAt k = cells.getD k [] := by
  unfold MNT.cellAt pySlice
  have := ofCells_segment R C cells k 1 (by omega)
  simp only [] at this
  rw [this, drop_take_one cells k [] h]
  simp

theorem grid_ofGrid {α : Type} (g : Grid α) (hg : g.WF) : (MNT.ofGrid g).grid = g := by
  have hlen := Grid.cells_length g hg
  unfold MNT.grid
  have hR : (MNT.ofGrid g).numRows = g.rows.length := rfl
  have hC : (MNT.ofGrid g).numCols = g.numCols := rfl
  simp only [hR, hC]
  have hrows : ((List.range g.rows.length).map fun r => (List.range g.numCols).map fun c =>
      (MNT.ofGrid g).cellAt (r * g.numCols + c)) = g.rows := by
    have : ∀ r ∈ List.range g.rows.length,
        ((List.range g.numCols).map fun c => (MNT.ofGrid g).cellAt (r * g.numCols + c))
          = g.rows.getD r [] := by
      intro r hr
      have hr' : r < g.rows.length := by simpa using hr
      have hrl : (g.rows.getD r []).length = g.numCols := hg _ (getD_mem_or g.rows r [] hr')
      have : ∀ c ∈ List.range g.numCols,
          (MNT.ofGrid g).cellAt (r * g.numCols + c) = (g.rows.getD r []).getD c [] := by
        intro c hc
        have hc' : c < g.numCols := by simpa using hc
        rw [MNT.ofGrid_eq, cellAt_ofCells _ _ _ _ (by
          rw [hlen]
          have : (r + 1) * g.numCols ≤ g.rows.length * g.numCols := Nat.mul_le_mul_right _ hr'
          rw [Nat.add_mul] at this; omega)]
        exact cells_getD g.rows g.numCols hg r c [] hr' hc'
      rw [List.map_congr_left this]
      have := range_map_getD (g.rows.getD r []) [] (fun x => x)
      rw [hrl] at this
      simpa using this
    rw [List.map_congr_left this]
    simpa using range_map_getD g.rows [] (fun x => x)
  rw [hrows]

theorem ps_head? (acc : Nat) (ls : List Nat) : (ps acc ls).head? = some acc := by
  cases ls <;> simp [ps]

theorem ps_getLast? (acc : Nat) (ls : List Nat) : (ps acc ls).getLast? = some (acc + ls.sum) := by
  induction ls generalizing acc with
  | nil => simp [ps]
  | cons x xs ih =>
    have := ih (acc + x)
    cases hxs : ps (acc + x) xs with
    | nil => exact absurd hxs (ps_ne_nil _ _)
    | cons y ys =>
      rw [hxs] at this
      simp only [ps, hxs, List.getLast?_cons_cons, this, List.sum_cons]
      congr 1; omega

theorem validate_ofCells {α : Type} (R C : Nat) (cells : List (List α)) (h : cells.length = R * C) :
    (MNT.ofCells R C cells).validate = true := by
  unfold MNT.validate MNT.ofCells
  simp only [ps_head?, ps_getLast?, ps_length, List.length_map, h, List.length_flatten,
    Nat.zero_add, beq_self_eq_true, Bool.and_self]

theorem validate_ofGrid {α : Type} (g : Grid α) (hg : g.WF) : (MNT.ofGrid g).validate = true := by
  rw [MNT.ofGrid_eq]
  exact validate_ofCells _ _ _ (Grid.cells_length g hg)

/-- a program: a list of `(index, axis)` selections applied left to right. -/
def MNT.run {α : Type} (m : MNT α) : List (Index × Nat) → Option (MNT α)
  | [] => some m
  | (ix, d) :: rest => (m.select ix d).bind fun m' => MNT.run m' rest

def Grid.run {α : Type} (g : Grid α) : List (Index × Nat) → Option (Grid α)
  | [] => some g
  | (ix, d) :: rest => (g.select ix d).bind fun g' => Grid.run g' rest

theorem run_ofGrid {α : Type} (g : Grid α) (hg : g.WF) (prog : List (Index × Nat))
    (hd : ∀ p ∈ prog, p.2 = 0 ∨ p.2 = 1) :
    (MNT.ofGrid g).run prog = (g.run prog).map MNT.ofGrid := by
  induction prog generalizing g with
  | nil => rfl
  | cons p rest ih =>
    obtain ⟨ix, d⟩ := p
    simp only [MNT.run, Grid.run]
    rw [select_ofGrid g hg ix d (hd (ix, d) (by simp))]
    cases h : g.select ix d with
    | none => rfl
    | some g' =>
      simp only [Option.map_some, Option.bind_some]
      exact ih g' (select_WF g g' hg ix d h) (fun p hp => hd p (by simp [hp]))

theorem run_WF {α : Type} (g g' : Grid α) (hg : g.WF) (prog : List (Index × Nat))
    (h : g.run prog = some g') : g'.WF := by
  induction prog generalizing g with
  | nil => simp [Grid.run] at h; subst h; exact hg
  | cons p rest ih =>
    obtain ⟨ix, d⟩ := p
    simp only [Grid.run] at h
    cases h1 : g.select ix d with
    | none => simp [h1] at h
    | some g1 =>
      simp only [h1, Option.bind_some] at h
      exact ih g1 (select_WF g g1 hg ix d h1) h

theorem getValue_ofGrid {α : Type} (g : Grid α) (hg : g.WF) (i j : Int) :
    (MNT.ofGrid g).getValue i j =
      (normIndex g.rows.length i).bind fun i' => (normIndex g.numCols j).map fun j' =>
        (g.rows.getD i' []).getD j' [] := by
  unfold MNT.getValue
  have hR : (MNT.ofGrid g).numRows = g.rows.length := rfl
  have hC : (MNT.ofGrid g).numCols = g.numCols := rfl
  simp only [hR, hC, Option.bind_eq_bind, Option.pure_def]
  cases h1 : normIndex g.rows.length i with
  | none => rfl
  | some i' =>
    cases h2 : normIndex g.numCols j with
    | none => rfl
    | some j' =>
      simp only [Option.bind_some, Option.map_some]
      have hi := normIndex_lt _ _ _ h1
      have hj := normIndex_lt _ _ _ h2
      have hk : i' * g.numCols + j' < g.rows.flatten.length := by
        rw [Grid.cells_length g hg]
        have : (i' + 1) * g.numCols ≤ g.rows.length * g.numCols := Nat.mul_le_mul_right _ hi
        rw [Nat.add_mul] at this; omega
      have := cellAt_ofCells g.rows.length g.numCols g.rows.flatten _ hk
      rw [← MNT.ofGrid_eq] at this
      unfold MNT.cellAt at this
      rw [this, cells_getD g.rows g.numCols hg i' j' [] hi hj]

end TFVerif

/-
Helper lemmas for C17 (core Lean only): the column-block construction of `_forward` is the
row-wise specification; dict-key insertion of distinct keys; guards.
-/
import TFVerif.Model.CatToNum

namespace TFVerif.CatToNum

variable {R : Type}

/-- integer scalars with truncating division: only used for `decide`d examples -/
def intOps : FOps Int := { zero := 0, ofInt := id, add := (· + ·), div := (· / ·), isNaN := fun _ => false }

/-! ### dict keys -/

theorem foldl_insertKey (l : List String) : ∀ acc : List String, (acc ++ l).Nodup → l.foldl insertKey acc = acc ++ l := by
  induction l with
  | nil => intro acc _; simp
  | cons k ks ih =>
    intro acc h
    have hk : k ∉ acc := by
      intro hmem
      rw [List.nodup_append] at h
      exact h.2.2 k hmem k (by simp) rfl
    have h' : ((acc ++ [k]) ++ ks).Nodup := by simpa [List.append_assoc] using h
    simp only [List.foldl_cons, insertKey, hk, if_false]
    rw [ih _ h']
    simp [List.append_assoc]

theorem foldl_insertKey_nil (l : List String) (h : l.Nodup) : l.foldl insertKey [] = l := by
  simpa using foldl_insertKey l [] (by simpa using h)

/-! ### from column blocks to rows -/

theorem zip_map_self {α β : Type} (xs : List α) (G : α → β) : xs.zip (xs.map G) = xs.map fun x => (x, G x) := by
  induction xs with
  | nil => rfl
  | cons x xs ih => simp [ih]

/-- reading row `r` out of every column block = applying every column's function to row `r` -/
theorem blocks_rows {α β : Type} (tensor : List α) (ncat : Nat) (E : Nat → α → List β) :
    (List.range tensor.length).map (fun r => (((List.range ncat).map fun i => tensor.map (E i)).map (·.getD r [])).flatten)
      = tensor.map fun t => ((List.range ncat).map fun i => E i t).flatten := by
  apply List.ext_getElem
  · simp
  · intro r h1 h2
    have hr : r < tensor.length := by simpa using h1
    simp only [List.getElem_map, List.getElem_range, List.map_map]
    congr 1
    apply List.map_congr_left
    intro i _
    simp [Function.comp, List.getD_eq_getElem?_getD, List.getElem?_map, List.getElem?_eq_getElem hr]

theorem range_map_zip {α β γ : Type} (h : α → β → γ) (da : α) (db : β) :
    ∀ (as : List α) (bs : List β), as.length = bs.length →
      (List.range as.length).map (fun i => h (as.getD i da) (bs.getD i db)) = (as.zip bs).map fun p => h p.1 p.2 := by
  intro as
  induction as with
  | nil => intro bs _; simp
  | cons a as ih =>
    intro bs hl
    cases bs with
    | nil => simp at hl
    | cons b bs =>
      have hl' : as.length = bs.length := by simpa using hl
      rw [List.length_cons, List.range_succ_eq_map, List.map_cons, List.map_map, List.zip_cons_cons, List.map_cons]
      congr 1
      rw [← ih bs hl']
      apply List.map_congr_left
      intro i _
      simp

theorem replaceNans_some {x : List (List Int)} {n : Nat} {t : List (List Int)} (h : replaceNans x n = some t) :
    t = x.map (·.map fixNeg) := by
  unfold replaceNans at h
  split at h
  · cases h
  · injection h with h; rw [← h]

/-- what `transform` returns on a fitted state and a frame with categorical columns, when it returns -/
theorem transform_fitted_some (ops : FOps R) (f : Fitted R) (fr out : Frame R) (hcat : fr.catNames ≠ [])
    (h : transform ops (.fitted f) fr = some out) :
    out = { numNames := fr.numNames ++ f.newColumns, catNames := [],
            rows := fr.rows.map fun row =>
              { num := row.num ++ ((List.range fr.catNames.length).map fun i =>
                  estimate ops ((f.colStats.lookup (fr.catNames.getD i "")).getD []) f.targetMean f.dataSize
                    ((row.cat.map fixNeg).getD i (-1))).flatten, cat := [] }
            y := fr.y } := by
  have hne : fr.catNames.isEmpty = false := by
    cases hc : fr.catNames with
    | nil => exact absurd hc hcat
    | cons _ _ => rfl
  unfold transform at h
  simp only [hne, Bool.false_eq_true, if_false] at h
  split at h
  · cases h
  · rename_i tensor ht
    have htens := replaceNans_some ht
    split at h
    · cases h
    · split at h
      · cases h
      · split at h
        · cases h
        · injection h with h
          rw [← h]
          have hlen : fr.rows.length = tensor.length := by rw [htens]; simp
          have hb := blocks_rows tensor fr.catNames.length (fun i t =>
            estimate ops ((f.colStats.lookup (fr.catNames.getD i "")).getD []) f.targetMean f.dataSize (t.getD i (-1)))
          have hblock : (List.range fr.catNames.length).map (block ops f fr.catNames tensor)
              = (List.range fr.catNames.length).map fun i => tensor.map (fun t =>
                  estimate ops ((f.colStats.lookup (fr.catNames.getD i "")).getD []) f.targetMean f.dataSize (t.getD i (-1))) := by
            apply List.map_congr_left
            intro i _
            simp [block, colOf, List.map_map, Function.comp_def]
          rw [hblock, hlen, hb, htens]
          simp only [List.map_map]
          rw [zip_map_self]
          simp [List.map_map, Function.comp_def]

/-- the same in the documented row-wise form -/
theorem transform_fitted_rowSpec (ops : FOps R) (f : Fitted R) (fr out : Frame R) (hcat : fr.catNames ≠ [])
    (hwf : fr.WF) (h : transform ops (.fitted f) fr = some out) :
    out.rows = fr.rows.map (rowSpec ops f fr.catNames) := by
  rw [transform_fitted_some ops f fr out hcat h]
  apply List.map_congr_left
  intro row hrow
  have hl : fr.catNames.length = (row.cat.map fixNeg).length := by simp [(hwf row hrow).2]
  have := range_map_zip (fun name c => estimate ops ((f.colStats.lookup name).getD []) f.targetMean f.dataSize c)
    "" (-1) fr.catNames (row.cat.map fixNeg) hl
  simp only [rowSpec]
  rw [this, List.zip_map_right, List.map_map, List.flatMap_def]
  rfl

/-! ### guards -/

theorem transform_guard_seen (ops : FOps R) (f : Fitted R) (fr out : Frame R) (hcat : fr.catNames ≠ [])
    (h : transform ops (.fitted f) fr = some out) :
    ∃ tensor, replaceNans (fr.rows.map (·.cat)) fr.catNames.length = some tensor ∧
      (List.range fr.catNames.length).all (colSeen f fr.catNames tensor) = true := by
  have hne : fr.catNames.isEmpty = false := by
    cases hc : fr.catNames with
    | nil => exact absurd hc hcat
    | cons _ _ => rfl
  unfold transform at h
  simp only [hne, Bool.false_eq_true, if_false] at h
  split at h
  · cases h
  · rename_i tensor ht
    refine ⟨tensor, ht, ?_⟩
    split at h
    · cases h
    · split at h
      · cases h
      · rename_i hseen
        simpa using hseen

/-- all raise conditions of `_forward` on a frame with categorical columns, as one Boolean -/
def okGuard (f : Fitted R) (fr : Frame R) : Bool :=
  let cats := fr.rows.map (·.cat)
  let ncat := fr.catNames.length
  !(List.range ncat).any (fun c => (colOf cats c).all (· < 0))
    && decide (f.targetMean.length = f.numClasses - 1)
    && (List.range ncat).all (colSeen f fr.catNames (cats.map (·.map fixNeg)))
    && decide (f.newColumns.length = ncat * (f.numClasses - 1))

theorem transform_isSome_iff (ops : FOps R) (f : Fitted R) (fr : Frame R) (hcat : fr.catNames ≠ []) :
    (transform ops (.fitted f) fr).isSome = okGuard f fr := by
  have hne : fr.catNames.isEmpty = false := by
    cases hc : fr.catNames with
    | nil => exact absurd hc hcat
    | cons _ _ => rfl
  unfold transform okGuard replaceNans
  simp only [hne, Bool.false_eq_true, if_false]
  cases h1 : (List.range fr.catNames.length).any (fun c => (colOf (fr.rows.map (·.cat)) c).all (· < 0))
  · simp only [Bool.false_eq_true, if_false, Bool.not_false, Bool.true_and]
    by_cases h2 : f.targetMean.length = f.numClasses - 1
    · cases h3 : (List.range fr.catNames.length).all
          (colSeen f fr.catNames ((fr.rows.map (·.cat)).map (·.map fixNeg)))
      · simp only [h2, ne_eq, not_true_eq_false, if_false, Bool.not_false, if_true, Option.isSome_none,
          decide_true, Bool.true_and, Bool.false_and]
      · by_cases h4 : f.newColumns.length = fr.catNames.length * (f.numClasses - 1)
        · simp only [h2, h4, ne_eq, not_true_eq_false, if_false, Bool.not_true, Bool.false_eq_true,
            Option.isSome_some, decide_true, Bool.true_and]
        · simp only [h2, h4, ne_eq, not_true_eq_false, not_false_eq_true, if_false, if_true, Bool.not_true,
            Bool.false_eq_true, Option.isSome_none, decide_true, decide_false, Bool.true_and, Bool.and_false]
    · simp only [h2, ne_eq, not_false_eq_true, if_true, Option.isSome_none, decide_false, Bool.false_and]
  · simp only [if_true, Option.isSome_none, Bool.not_true, Bool.false_and]

/-! ### indexing a concatenation of equally wide blocks -/

theorem flatMap_uniform_getElem? {α β : Type} (g : α → List β) (w : Nat) :
    ∀ (xs : List α), (∀ x ∈ xs, (g x).length = w) → ∀ (i k : Nat), k < w →
      (xs.flatMap g)[i * w + k]? = (xs[i]?).bind fun x => (g x)[k]? := by
  intro xs
  induction xs with
  | nil => intro _ i k _; simp
  | cons x xs ih =>
    intro hw i k hk
    have hx : (g x).length = w := hw x (by simp)
    rw [List.flatMap_cons]
    cases i with
    | zero =>
      simp only [Nat.zero_mul, Nat.zero_add, List.getElem?_cons_zero, Option.bind_some]
      rw [List.getElem?_append_left (by omega)]
    | succ i =>
      have hidx : (i + 1) * w + k = (g x).length + (i * w + k) := by rw [hx, Nat.succ_mul]; omega
      rw [hidx, List.getElem?_append_right (by omega), Nat.add_sub_cancel_left]
      simpa using ih (fun y hy => hw y (by simp [hy])) i k hk

/-! ### `_fit` leaves exactly the documented state -/

theorem fit_fitted (ops : FOps R) (fr : Frame R) (cs : List (String × List Nat)) (ks : List String) (f : Fitted R)
    (h : fit ops fr cs ks = some (.fitted f)) :
    ∃ y K mean, fr.y = some y ∧ prior ops y = some (K, mean) ∧ fr.catNames ≠ [] ∧
      f = { colStats := cs, dataSize := fr.rows.length, numClasses := K, targetMean := mean,
            newColumns := fr.catNames.flatMap fun c => (List.range (K - 1)).map (genName c),
            statsKeys := (fr.numNames ++ fr.catNames.flatMap fun c => (List.range (K - 1)).map (genName c)).foldl
              insertKey [] } := by
  unfold fit at h
  split at h
  · cases h
  · rename_i y hy
    split at h
    · cases h
    · rename_i hne
      split at h
      · cases h
      · split at h
        · cases h
        · rename_i K mean hp
          dsimp only at h
          split at h
          · injection h with h
            injection h with h
            refine ⟨y, K, mean, hy, hp, ?_, h.symm⟩
            intro h0
            rw [h0] at hne
            exact hne rfl
          · cases h

/-! ### row subsets -/

theorem colOf_all_of_subset (p : Int → Bool) (i : Nat) (xs ys : List (List Int)) (hsub : ∀ x ∈ xs, x ∈ ys)
    (h : (colOf ys i).all p = true) : (colOf xs i).all p = true := by
  rw [List.all_eq_true] at h ⊢
  intro v hv
  simp only [colOf, List.mem_map] at hv
  obtain ⟨x, hx, rfl⟩ := hv
  exact h _ (by simp only [colOf, List.mem_map]; exact ⟨x, hsub x hx, rfl⟩)

/-- a frame made of rows of a frame that transforms also transforms, as soon as each of its
    categorical columns has a non-missing entry -/
theorem okGuard_subset (f : Fitted R) (fr sub : Frame R) (hnames : sub.catNames = fr.catNames)
    (hsub : ∀ row ∈ sub.rows, row ∈ fr.rows)
    (hpresent : ∀ i, i < fr.catNames.length → ∃ row ∈ sub.rows, ¬ (row.cat.getD i (-1) < 0))
    (h : okGuard f fr = true) : okGuard f sub = true := by
  unfold okGuard at h ⊢
  simp only [Bool.and_eq_true, Bool.not_eq_true', decide_eq_true_eq] at h ⊢
  obtain ⟨⟨⟨_, h2⟩, h3⟩, h4⟩ := h
  rw [hnames]
  refine ⟨⟨⟨?_, h2⟩, ?_⟩, h4⟩
  · rw [List.any_eq_false]
    intro i hi
    have hi' : i < fr.catNames.length := by simpa using hi
    obtain ⟨row, hrow, hnn⟩ := hpresent i hi'
    intro hall
    rw [List.all_eq_true] at hall
    have := hall (row.cat.getD i (-1)) (by
      simp only [colOf, List.mem_map]
      exact ⟨row.cat, ⟨row, hrow, rfl⟩, rfl⟩)
    exact hnn (by simpa using this)
  · rw [List.all_eq_true] at h3 ⊢
    intro i hi
    have := h3 i hi
    unfold colSeen at this ⊢
    split
    · rename_i hl; rw [hl] at this; exact this
    · rename_i count hl
      rw [hl] at this
      refine colOf_all_of_subset _ i _ _ ?_ this
      intro x hx
      simp only [List.mem_map] at hx ⊢
      obtain ⟨c, ⟨row, hrow, rfl⟩, rfl⟩ := hx
      exact ⟨row.cat, ⟨row, hsub row hrow, rfl⟩, rfl⟩

/-- an unseen category index makes the guard fail -/
theorem okGuard_unseen (f : Fitted R) (fr : Frame R) (i : Nat) (hi : i < fr.catNames.length) (row : Row R)
    (hrow : row ∈ fr.rows) (count : List Nat) (hcount : f.colStats.lookup (fr.catNames.getD i "") = some count)
    (hunseen : (count.length : Int) ≤ row.cat.getD i (-1)) : okGuard f fr = false := by
  unfold okGuard
  have : (List.range fr.catNames.length).all
      (colSeen f fr.catNames ((fr.rows.map (·.cat)).map (·.map fixNeg))) = false := by
    rw [List.all_eq_false]
    refine ⟨i, by simpa using hi, ?_⟩
    unfold colSeen
    rw [hcount]
    simp only [Bool.not_eq_true]
    rw [List.all_eq_false]
    refine ⟨(row.cat.map fixNeg).getD i (-1), ?_, ?_⟩
    · simp only [colOf, List.mem_map]
      exact ⟨row.cat.map fixNeg, ⟨row.cat, ⟨row, hrow, rfl⟩, rfl⟩, rfl⟩
    · have hlen : i < row.cat.length := by
        by_cases hl : i < row.cat.length
        · exact hl
        · have : row.cat.getD i (-1) = -1 := by
            rw [List.getD_eq_getElem?_getD, List.getElem?_eq_none (by omega)]; rfl
          omega
      have hget : (row.cat.map fixNeg).getD i (-1) = fixNeg (row.cat.getD i (-1)) := by
        simp [List.getD_eq_getElem?_getD, List.getElem?_map, List.getElem?_eq_getElem hlen]
      rw [hget]
      have hnn : ¬ (row.cat.getD i (-1) < 0) := by omega
      simp only [fixNeg, hnn, if_false, decide_eq_true_eq]
      omega
  simp only [this, Bool.and_false, Bool.false_and]

/-! ### the result only depends on names and feature values -/

theorem transform_noCat (ops : FOps R) (ks : List String) (fr : Frame R) :
    transform ops (.fittedNoCat ks) fr = if fr.catNames.isEmpty then some fr else none := rfl

theorem transform_fitted_nil (ops : FOps R) (f : Fitted R) (fr : Frame R) (h : fr.catNames = []) :
    transform ops (.fitted f) fr = some fr := by
  unfold transform
  simp only [h, List.isEmpty_nil, if_true]

theorem okGuard_congr (f : Fitted R) (fr fr' : Frame R) (h : fr.feats = fr'.feats) : okGuard f fr = okGuard f fr' := by
  simp only [Frame.feats, Prod.mk.injEq] at h
  unfold okGuard
  rw [h.2.1, h.2.2]

theorem transform_feats_congr (ops : FOps R) (st : State R) (fr fr' : Frame R) (h : fr.feats = fr'.feats) :
    (transform ops st fr).map Frame.feats = (transform ops st fr').map Frame.feats := by
  have h' := h
  simp only [Frame.feats, Prod.mk.injEq] at h'
  cases st with
  | unfitted => rfl
  | fittedNoCat ks =>
    rw [transform_noCat, transform_noCat, h'.2.1]
    split
    · simp only [Option.map_some, h]
    · rfl
  | fitted f =>
    by_cases hcat : fr.catNames = []
    · have hcat' : fr'.catNames = [] := by rw [← h'.2.1]; exact hcat
      rw [transform_fitted_nil ops f fr hcat, transform_fitted_nil ops f fr' hcat']
      simp only [Option.map_some, h]
    · have hcat' : fr'.catNames ≠ [] := by rw [← h'.2.1]; exact hcat
      have hs := transform_isSome_iff ops f fr hcat
      have hs' := transform_isSome_iff ops f fr' hcat'
      rw [okGuard_congr f fr fr' h] at hs
      cases ht : transform ops (.fitted f) fr with
      | none =>
        cases ht' : transform ops (.fitted f) fr' with
        | none => rfl
        | some o => rw [ht] at hs; rw [ht'] at hs'; rw [← hs] at hs'; cases hs'
      | some out =>
        cases ht' : transform ops (.fitted f) fr' with
        | none => rw [ht] at hs; rw [ht'] at hs'; rw [← hs'] at hs; cases hs
        | some out' =>
          rw [transform_fitted_some ops f fr out hcat ht, transform_fitted_some ops f fr' out' hcat' ht']
          simp only [Option.map_some, Frame.feats, h'.1, h'.2.1, h'.2.2]

/-! ### witnesses for the non-vacuity examples and the pre-fix counter-example -/

/-- exact unnormalised fractions `(numerator, denominator)`: a scalar type on which `decide` computes -/
def fracOps : FOps (Int × Int) :=
  { zero := (0, 1), ofInt := fun n => (n, 1), add := fun a b => (a.1 * b.2 + b.1 * a.2, a.2 * b.2),
    div := fun a b => (a.1 * b.2, a.2 * b.1), isNaN := fun _ => false }

/-- four training rows, one numerical and one categorical column (last entry missing), labels 0,1,2,0 -/
def wTrain : Frame (Int × Int) :=
  { numNames := ["n"], catNames := ["c"],
    rows := [⟨[(10, 1)], [0]⟩, ⟨[(20, 1)], [0]⟩, ⟨[(30, 1)], [1]⟩, ⟨[(40, 1)], [-1]⟩],
    y := some (.ints [0, 1, 2, 0]) }

def wStats : List (String × List Nat) := [("c", [3, 1])]
def wKeys : List String := ["y", "n", "c"]

/-- the state after `fit(wTrain, stats)` -/
def wState : State (Int × Int) := (fit fracOps wTrain wStats wKeys).getD .unfitted

def wFitted : Fitted (Int × Int) :=
  { colStats := wStats, dataSize := 4, numClasses := 3, targetMean := [(2, 4), (1, 4)],
    newColumns := ["c_0", "c_1"], statsKeys := ["n", "c_0", "c_1"] }

/-- rows 0 and 1 of the training frame: their labels are all `≤ 1` -/
def wSub : Frame (Int × Int) := wTrain.selectRows [0, 1]

/-- a training frame whose numerical column is called like a generated column (`"c_0"` next to the
    categorical column `"c"`), binary labels -/
def wCollide : Frame (Int × Int) :=
  { numNames := ["c_0"], catNames := ["c"],
    rows := [⟨[(1, 1)], [0]⟩, ⟨[(2, 1)], [0]⟩, ⟨[(3, 1)], [1]⟩], y := some (.ints [0, 1, 1]) }

end TFVerif.CatToNum

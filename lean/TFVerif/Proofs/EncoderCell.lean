/-
Helper lemmas for property C13 (stype encoders are per-cell functions with documented missing-value semantics)
on top of `Proofs/Encoder.lean`: tensor-level forms of locality and row equivariance, the zero embedding of a
missing cell through the whole `forward`, imputation = the column's own statistic, rejection at construction.
-/
import TFVerif.Proofs.Encoder

namespace TFVerif.Enc
open TFVerif

/-! ## cells of well-shaped tensors -/

theorem cell_of_rect {α : Type} (x : Mat α) (B C r c : Nat) (h : Rect x B C) (hr : r < B) (hc : c < C) :
    ∃ z, cell x r c = some z := by
  have hr' : r < x.length := by rw [h.1]; exact hr
  have hrow : x[r]? = some x[r] := List.getElem?_eq_getElem hr'
  have hlen : (x[r]).length = C := h.2 _ (List.getElem_mem hr')
  have hc' : c < (x[r]).length := by rw [hlen]; exact hc
  exact ⟨(x[r])[c], by simp [cell, hrow, List.getElem?_eq_getElem hc']⟩

theorem cell_of_t3wf {α : Type} (x : T3 α) (B C ch r c : Nat) (h : T3WF x B C ch) (hr : r < B) (hc : c < C) :
    ∃ z, cell x r c = some z ∧ z.length = ch := by
  have hrect : Rect x B C := ⟨h.1, fun row hrow => (h.2 row hrow).1⟩
  obtain ⟨z, hz⟩ := cell_of_rect x B C r c hrect hr hc
  obtain ⟨row, hrow, hzc⟩ := cell_some_split hz
  exact ⟨z, hz, (h.2 row (mem_of_getElem? hrow)).2 z (mem_of_getElem? hzc)⟩

theorem cell_none_of_rect {α : Type} (x : Mat α) (B C r c : Nat) (h : Rect x B C) (hrc : ¬ (r < B ∧ c < C)) :
    cell x r c = none := by
  unfold cell
  cases hrow : x[r]? with
  | none => rfl
  | some row =>
    have hr : r < B := by
      have := (List.getElem?_eq_some_iff.mp hrow).1
      rw [h.1] at this; exact this
    have hlen : row.length = C := h.2 row (mem_of_getElem? hrow)
    have hc : ¬ c < row.length := by rw [hlen]; exact fun hc => hrc ⟨hr, hc⟩
    simp only [Option.bind_some]
    exact List.getElem?_eq_none (by omega)

/-- two `[B, C]` matrices with the same entries are equal -/
theorem mat_ext_of_cells {α : Type} (x y : Mat α) (B C : Nat) (hx : Rect x B C) (hy : Rect y B C)
    (h : ∀ r c, r < B → c < C → cell x r c = cell y r c) : x = y := by
  apply List.ext_getElem?
  intro r
  by_cases hr : r < B
  · have hrx : r < x.length := by rw [hx.1]; exact hr
    have hry : r < y.length := by rw [hy.1]; exact hr
    rw [List.getElem?_eq_getElem hrx, List.getElem?_eq_getElem hry]
    congr 1
    apply List.ext_getElem?
    intro c
    have lx : (x[r]).length = C := hx.2 _ (List.getElem_mem hrx)
    have ly : (y[r]).length = C := hy.2 _ (List.getElem_mem hry)
    by_cases hc : c < C
    · have := h r c hr hc
      simpa [cell, List.getElem?_eq_getElem hrx, List.getElem?_eq_getElem hry] using this
    · rw [List.getElem?_eq_none (by omega), List.getElem?_eq_none (by omega)]
  · rw [List.getElem?_eq_none (by rw [hx.1]; omega), List.getElem?_eq_none (by rw [hy.1]; omega)]

theorem rect_of_t3wf {α : Type} (x : T3 α) (B C ch : Nat) (h : T3WF x B C ch) : Rect x B C :=
  ⟨h.1, fun row hrow => (h.2 row hrow).1⟩

section
variable {R : Type} (S : SOps R)

/-! ## every cell of an accepted frame is seen by the encoder -/

/-- a frame the encoder accepts has a cell value at every position `(r, c)` of its `[B, C]` shape -/
theorem cellAt_exists (e : Encoder R) (B C n : Nat) (feat : Feat R) (o : Out R) (r c : Nat)
    (he : Encoder.WF e C) (hf : Feat.WF feat B C) (h : forward S e B C n feat = some o)
    (hr : r < B) (hc : c < C) : ∃ v, cellAt e.params feat r c = some v := by
  cases feat with
  | num x => obtain ⟨z, hz⟩ := cell_of_rect x B C r c hf hr hc; exact ⟨.num z, by simp [cellAt, hz]⟩
  | cat x => obtain ⟨z, hz⟩ := cell_of_rect x B C r c hf hr hc; exact ⟨.cat z, by simp [cellAt, hz]⟩
  | bags x => obtain ⟨z, hz⟩ := cell_of_rect x B C r c hf hr hc; exact ⟨.bag z, by simp [cellAt, hz]⟩
  | time x => obtain ⟨z, hz⟩ := cell_of_rect x B C r c hf hr hc; exact ⟨.time z, by simp [cellAt, hz]⟩
  | emb off vals =>
    unfold forward at h
    split at h
    · cases h
    · cases h1 : naForward S e.fill (.emb off vals) with
      | none => simp [h1, bind, Option.bind] at h
      | some f1 =>
        cases h2 : encodeForward S e.params e.ch C f1 with
        | none => simp [h1, h2, bind, Option.bind] at h
        | some y =>
          have hf1 : f1 = .emb off vals := by
            cases hfill : e.fill with
            | none => rw [hfill] at h1; simp only [naForward] at h1; injection h1 with h1; exact h1.symm
            | some fl => rw [hfill] at h1; cases fl <;> simp [naForward] at h1
          subst hf1
          have hp := he.params
          cases hpar : e.params with
          | linearEmb ds ws bs =>
            rw [hpar] at hp
            simp only [Params.WF] at hp
            simp only [Feat.WF] at hf
            have hr' : r < vals.length := by rw [hf]; exact hr
            have hc' : c < ds.length := by rw [hp.1]; exact hc
            exact ⟨.emb (((vals[r]).drop ((embStarts ds).getD c 0)).take (ds.getD c 0)),
              by simp [cellAt, List.getElem?_eq_getElem hr', hc']⟩
          | _ => rw [hpar] at h2; simp [encodeForward] at h2

/-! ## locality on the tensor level -/

/-- two accepted frames of the same shape that agree in every cell except possibly `(r0, c0)` are embedded
    identically everywhere except possibly at `(r0, c0)` -/
theorem perturb_one_cell (e : Encoder R) (B C n : Nat) (feat feat' : Feat R) (o o' : Out R) (r0 c0 : Nat)
    (he : Encoder.WF e C) (hf : Feat.WF feat B C)
    (h : forward S e B C n feat = some o) (h' : forward S e B C n feat' = some o')
    (hagree : ∀ r c, (r, c) ≠ (r0, c0) → cellAt e.params feat' r c = cellAt e.params feat r c) :
    ∀ r c, r < B → c < C → (r, c) ≠ (r0, c0) → cell o'.data r c = cell o.data r c := by
  intro r c hr hc hne
  obtain ⟨v, hv⟩ := cellAt_exists S e B C n feat o r c he hf h hr hc
  have hv' : cellAt e.params feat' r c = some v := by rw [hagree r c hne]; exact hv
  exact perturb_local S e B B C n feat' feat o' o r r c v he.fill hc h' h hv' hv

/-! ## row selections on the tensor level -/

theorem feat_len_of_wf (feat : Feat R) (B C : Nat) (hf : Feat.WF feat B C) : feat.len = B := by
  cases feat <;> simp only [Feat.WF, Feat.len] at hf ⊢
  · exact hf.1
  · exact hf.1
  · exact hf.1
  · exact hf.1
  · exact hf

/-- the encoding of the batch `tf[idx]` is the batch `[idx]` of the encoding, as whole tensors: for every index
    list (repetitions, the empty list, every permutation) -/
theorem forward_selectRows (e : Encoder R) (B C n : Nat) (feat : Feat R) (o : Out R) (idx : List Nat)
    (he : Encoder.WF e C) (hf : Feat.WF feat B C) (hidx : ∀ i ∈ idx, i < B)
    (h : forward S e B C n feat = some o) :
    ∃ o', forward S e idx.length C n (feat.selectRows idx) = some o' ∧ o'.data = selectRows idx o.data := by
  obtain ⟨o', ho', _⟩ := forward_accepts_batch S e B C n feat o idx h
  refine ⟨o', ho', ?_⟩
  have hf' := feat_selectRows_wf idx feat B C hf hidx
  obtain ⟨_, _, _, _, w⟩ := forward_shape S e B C n feat o he hf h
  obtain ⟨_, _, _, _, w'⟩ := forward_shape S e idx.length C n _ o' he hf' ho'
  have hlen : ∀ i ∈ idx, i < o.data.length := by rw [w.1]; exact hidx
  have hflen : ∀ i ∈ idx, i < feat.len := by rw [feat_len_of_wf feat B C hf]; exact hidx
  apply mat_ext_of_cells _ _ idx.length C (rect_of_t3wf _ _ _ _ w')
    (rect_selectRows idx o.data B C (rect_of_t3wf _ _ _ _ w) hidx)
  intro k c hk hc
  rw [cell_selectRows idx o.data hlen k c, List.getElem?_eq_getElem hk, Option.bind_some]
  have hi : idx[k] < B := hidx _ (List.getElem_mem hk)
  obtain ⟨v, hv⟩ := cellAt_exists S e B C n feat o idx[k] c he hf h hi hc
  exact batch_rows_equivariant S e B C n feat o o' idx k idx[k] c v he.fill hc hflen h ho'
    (List.getElem?_eq_getElem hk) hv

/-! ## the post module is applied last, vector by vector -/

/-- `forward` = (forward without post module) followed by the post module on every `[channels]` vector -/
theorem forward_post_last (e : Encoder R) (B C n : Nat) (feat : Feat R) (o : Out R)
    (h : forward S e B C n feat = some o) :
    ∃ o0, forward S { e with post := .none } B C n feat = some o0 ∧
      o.data = map2 (Post.apply S e.post) o0.data := by
  unfold forward at h ⊢
  split at h
  · cases h
  · rename_i hn
    simp only [hn]
    cases h1 : naForward S e.fill feat with
    | none => simp [h1, bind, Option.bind] at h
    | some f1 =>
      cases h2 : encodeForward S e.params e.ch C f1 with
      | none => simp [h1, h2, bind, Option.bind] at h
      | some y =>
        simp only [h1, h2, bind, Option.bind, pure] at h ⊢
        injection h with h
        subst h
        refine ⟨_, rfl, ?_⟩
        simp [map2, Post.apply]

end

/-! ## a missing cell is embedded as the zero vector -/

section
variable {R : Type} (S : SOps R)

/-- what the tensor mappers emit for a missing cell (C01): NaN, index −1, the bag `[-1]`, a negative calendar
    component, an embedding with a NaN component -/
def CellVal.Missing : CellVal (Option R) → Prop
  | .num x => x = none
  | .cat i => i < 0
  | .bag b => b = [-1]
  | .time ts => tsMissing ts = true
  | .emb v => none ∈ v

/-- the explicit side conditions of the zero-embedding theorem for column `c`:
    * `LinearBucketEncoder`: the column has at least two boundaries (`QUANTILES` has five) and one weight row per
      bucket (what `init_modules` allocates);
    * `EmbeddingEncoder`: row 0 of the table (`padding_idx=0`) is zero — checked by the harness on every exported table;
    * `LinearEmbeddingEncoder`: `weight_list[c]` has `emb_dim_list[c]` rows (what `init_modules` allocates). -/
def MissingHyp (p : Params (Option R)) (c : Nat) : Prop :=
  match p with
  | .bucket q w _ => 2 ≤ (q.getD c []).length ∧ (q.getD c []).length - 1 ≤ (w.getD c []).length
  | .embedding _ t => ∀ x ∈ t.getD 0 [], x = some S.zero
  | .linearEmb ds ws _ => ds.getD c 0 ≤ (ws.getD c []).length
  | _ => True

/-- the same, for one cell value -/
def MissingHypCell (p : Params (Option R)) (c : Nat) (v : CellVal (Option R)) : Prop :=
  match p with
  | .bucket q w _ => 2 ≤ (q.getD c []).length ∧ (q.getD c []).length - 1 ≤ (w.getD c []).length
  | .embedding _ t => ∀ x ∈ t.getD 0 [], x = some S.zero
  | .linearEmb _ ws _ => match v with
    | .emb u => u.length ≤ (ws.getD c []).length
    | _ => True
  | _ => True

theorem missingHypCell_of (p : Params (Option R)) (feat : Feat (Option R)) (r c : Nat) (v : CellVal (Option R))
    (hyp : MissingHyp S p c) (hv : cellAt p feat r c = some v) : MissingHypCell S p c v := by
  cases p <;> simp only [MissingHyp, MissingHypCell] at hyp ⊢ <;> try exact hyp
  rename_i ds ws bs
  cases v <;> try trivial
  rename_i u
  cases feat <;> simp only [cellAt, Option.map_eq_some_iff] at hv <;> try (obtain ⟨_, _, hv⟩ := hv; cases hv)
  rename_i off vals
  cases hrow : vals[r]? with
  | none => simp [hrow] at hv
  | some row =>
    simp only [hrow, Option.bind_some] at hv
    split at hv
    · injection hv with hv; injection hv with hv
      subst hv
      simp only [List.length_take]
      omega
    · cases hv

set_option linter.unusedTactic false in
/-- per-cell form: without NA strategy and before any post module, the specification function sends a missing
    cell to the zero vector -/
theorem cellForward_missing_zero (e : Encoder (Option R)) (c : Nat) (v : CellVal (Option R)) (y : List (Option R))
    (hfill : e.fill = none) (hpost : e.post = .none) (hm : CellVal.Missing v)
    (hyp : MissingHypCell S e.params c v) (h : cellForward S.lift e c v = some y) : AllZero S y := by
  unfold cellForward at h
  rw [hfill, hpost] at h
  have hi : cellImpute S.lift none c v = some v := by cases v <;> rfl
  rw [hi, Option.bind_some] at h
  obtain ⟨y0, hy0, rfl⟩ := Option.map_eq_some_iff.mp h
  simp only [Post.apply]
  cases hp : e.params <;> cases v <;> rw [hp] at hy0 hyp <;> simp only [cellEncode] at hy0 <;>
    try (cases hy0; done)
  · -- LinearEncoder
    simp only [CellVal.Missing] at hm; subst hm
    simp only [Option.bind_eq_some_iff, Option.map_eq_some_iff] at hy0
    obtain ⟨m, _, s, _, wc, _, bc, _, rfl⟩ := hy0
    exact linear_missing_zero S m s wc bc
  · -- StackEncoder
    simp only [CellVal.Missing] at hm; subst hm
    simp only [Option.bind_eq_some_iff, Option.map_eq_some_iff] at hy0
    obtain ⟨m, _, s, _, rfl⟩ := hy0
    exact stack_missing_zero S m s _
  · -- LinearBucketEncoder
    simp only [CellVal.Missing] at hm; subst hm
    simp only [Option.bind_eq_some_iff, Option.map_eq_some_iff] at hy0
    obtain ⟨W, hW, bc, hbc, rfl⟩ := hy0
    simp only [MissingHypCell] at hyp
    rename_i q w b
    have hWd : w.getD c [] = W := by simp [List.getD, hW]
    rw [hWd] at hyp
    exact bucket_missing_zero S _ W bc _ hyp.1 hyp.2
  · -- LinearPeriodicEncoder
    simp only [CellVal.Missing] at hm; subst hm
    simp only [Option.bind_eq_some_iff, Option.map_eq_some_iff] at hy0
    obtain ⟨m, _, s, _, l, _, W, _, rfl⟩ := hy0
    exact periodic_missing_zero S m s l W _
  · -- ExcelFormerEncoder
    simp only [CellVal.Missing] at hm; subst hm
    simp only [Option.bind_eq_some_iff, Option.map_eq_some_iff] at hy0
    obtain ⟨m, _, s, _, u1, _, u2, _, v1, _, v2, _, rfl⟩ := hy0
    exact excel_missing_zero S m s u1 u2 v1 v2
  · -- EmbeddingEncoder
    simp only [CellVal.Missing] at hm
    obtain ⟨o, _, rfl⟩ := Option.map_eq_some_iff.mp hy0
    simp only [MissingHypCell] at hyp
    rw [embedding_missing_is_padding_row o _ _ hm]
    intro x hx
    simp only [List.mem_map] at hx
    obtain ⟨a, ha, rfl⟩ := hx
    rw [hyp a ha]; rfl
  · -- MultiCategoricalEmbeddingEncoder
    simp only [CellVal.Missing] at hm; subst hm
    split at hy0
    · injection hy0 with hy0; subst hy0
      rw [bag_missing_zero]
      intro x hx
      simp only [List.map_replicate, List.mem_replicate] at hx
      rw [hx.2]; rfl
    · cases hy0
  · -- TimestampEncoder
    simp only [CellVal.Missing] at hm
    simp only [Option.bind_eq_some_iff, Option.map_eq_some_iff] at hy0
    obtain ⟨my, _, W, _, bc, _, rfl⟩ := hy0
    exact timestamp_missing_zero S my _ _ W bc _ _ hm
  · -- LinearEmbeddingEncoder
    simp only [CellVal.Missing] at hm
    obtain ⟨bc, hbc, rfl⟩ := Option.map_eq_some_iff.mp hy0
    simp only [MissingHypCell] at hyp
    rename_i u
    obtain ⟨k, hk⟩ := List.mem_iff_getElem?.mp hm
    have hk' : k < u.length := (List.getElem?_eq_some_iff.mp hk).1
    exact linearEmb_missing_zero S _ bc _ u k hk (by omega)

/-- `forward` without NA strategy and without post module embeds a missing cell `(r, c)` as the all-zero vector -/
theorem forward_missing_zero (e : Encoder (Option R)) (B C n : Nat) (feat : Feat (Option R)) (o : Out (Option R))
    (r c : Nat) (v : CellVal (Option R))
    (he : Encoder.WF e C) (hf : Feat.WF feat B C) (hfill : e.fill = none) (hpost : e.post = .none)
    (h : forward S.lift e B C n feat = some o) (hr : r < B) (hc : c < C)
    (hv : cellAt e.params feat r c = some v) (hm : CellVal.Missing v) (hyp : MissingHyp S e.params c) :
    cell o.data r c = some (List.replicate e.ch (some S.zero)) := by
  obtain ⟨_, _, _, _, w⟩ := forward_shape S.lift e B C n feat o he hf h
  obtain ⟨z, hz, hzl⟩ := cell_of_t3wf o.data B C e.ch r c w hr hc
  have hpc := forward_per_cell S.lift e B C n feat o r c v he.fill h hc hv
  rw [hz] at hpc
  have hzero := cellForward_missing_zero S e c v z hfill hpost hm
    (missingHypCell_of S e.params feat r c v hyp hv) hpc.symm
  rw [hz]
  congr 1
  exact List.eq_replicate_iff.mpr ⟨hzl, hzero⟩

end

/-! ## with a strategy: imputation by the column's own statistic -/

section
variable {R : Type} (S : SOps R)

/-- a replacement value -/
inductive FillVal (R : Type) where
  | num (x : R)
  | int (i : Int)
  | time (ts : List Int)

/-- the replacement value the documentation promises for a column with statistics `s`: its mean, zero, category
    index 0 (categories are indexed by decreasing count, so 0 is the most frequent), its oldest / newest / median
    timestamp -/
def docFill (st : Stype) (na : NA) (s : ColStat R) : Option (FillVal R) :=
  match na with
  | .mean => (statMean s).map .num
  | .zeros => if st == .numerical then some (.num S.zero) else some (.int 0)
  | .mostFrequent => some (.int 0)
  | .oldest => (statTime .oldest s).map .time
  | .newest => (statTime .newest s).map .time
  | .median => (statTime .median s).map .time

/-- replace a cell by `f` when it is missing (NaN / −1 / a timestamp with a −1 component; in a bag every −1 token) -/
def substitute (f : FillVal R) (v : CellVal R) : Option (CellVal R) :=
  match f, v with
  | .num f, .num x => some (.num (if S.isNaN x then f else x))
  | .int f, .cat i => some (.cat (if i == -1 then f else i))
  | .int f, .bag b => some (.bag (b.map fun t => if t == -1 then f else t))
  | .time f, .time ts => some (.time (if ts.any (· == -1) then f else ts))
  | _, _ => none

theorem getElem?_map_const {α β : Type} (xs : List α) (b : β) (c : Nat) :
    (xs.map fun _ => b)[c]? = (xs[c]?).map fun _ => b := by simp

/-- the `fill_values` buffer built by `init_modules` acts on a cell of column `c` exactly as the documented
    replacement value computed from `stats[c]` — column `c`'s own statistic, no other column's -/
theorem cellImpute_eq_docFill (st : Stype) (na : NA) (stats : List (ColStat R)) (fill : Option (Fill R))
    (h : mkFill S st (some na) stats = some fill) (c : Nat) (v : CellVal R) :
    cellImpute S fill c v = (stats[c]?).bind fun s => (docFill S st na s).bind fun f => substitute S f v := by
  simp only [mkFill] at h
  split at h
  · cases h
  · cases na <;> simp only at h
    · -- mean
      cases hq : gather statMean stats with
      | none => simp [hq] at h
      | some fv =>
        simp only [hq, Option.map_some] at h
        injection h with h; subst h
        have hg := gather_getElem? _ _ _ hq c
        cases v <;> simp only [cellImpute, hg, docFill] <;> cases stats[c]? <;>
          simp only [Option.bind_none, Option.bind_some, Option.map_none] <;>
          rename_i s <;> cases statMean s <;> simp [substitute]
    · -- most frequent
      injection h with h; subst h
      cases v <;> simp only [cellImpute, docFill, getElem?_map_const] <;> cases stats[c]? <;> simp [substitute]
    · -- zeros
      split at h <;> rename_i hst <;> injection h with h <;> subst h <;>
        cases v <;> simp only [cellImpute, docFill, getElem?_map_const, hst] <;> cases stats[c]? <;> simp [substitute]
    · cases hq : gather (statTime NA.oldest) stats with
      | none => simp [hq] at h
      | some fv =>
        simp only [hq, Option.map_some] at h
        injection h with h; subst h
        have hg := gather_getElem? _ _ _ hq c
        cases v <;> simp only [cellImpute, hg, docFill] <;> cases stats[c]? <;>
          simp only [Option.bind_none, Option.bind_some, Option.map_none] <;>
          rename_i s <;> cases statTime NA.oldest s <;> simp [substitute]
    · cases hq : gather (statTime NA.newest) stats with
      | none => simp [hq] at h
      | some fv =>
        simp only [hq, Option.map_some] at h
        injection h with h; subst h
        have hg := gather_getElem? _ _ _ hq c
        cases v <;> simp only [cellImpute, hg, docFill] <;> cases stats[c]? <;>
          simp only [Option.bind_none, Option.bind_some, Option.map_none] <;>
          rename_i s <;> cases statTime NA.newest s <;> simp [substitute]
    · cases hq : gather (statTime NA.median) stats with
      | none => simp [hq] at h
      | some fv =>
        simp only [hq, Option.map_some] at h
        injection h with h; subst h
        have hg := gather_getElem? _ _ _ hq c
        cases v <;> simp only [cellImpute, hg, docFill] <;> cases stats[c]? <;>
          simp only [Option.bind_none, Option.bind_some, Option.map_none] <;>
          rename_i s <;> cases statTime NA.median s <;> simp [substitute]

theorem initModules_parts (st : Stype) (na : Option NA) (stats : List (ColStat R)) (ch : Nat) (w : Weights R)
    (post : Post R) (e : Encoder R) (h : initModules S st na stats ch w post = some e) :
    mkFill S st na stats = some e.fill ∧ mkParams S stats ch w = some e.params ∧ e.ch = ch ∧ e.post = post := by
  unfold initModules at h
  cases h1 : mkFill S st na stats with
  | none => simp [h1, bind, Option.bind] at h
  | some fill =>
    cases h2 : mkParams S stats ch w with
    | none => simp [h1, h2, bind, Option.bind] at h
    | some p =>
      simp only [h1, h2, bind, Option.bind, pure] at h
      injection h with h
      subst h
      exact ⟨rfl, rfl, rfl, rfl⟩

/-- encoding with a strategy = encoding, without strategy, the frame whose missing cells were replaced; and
    the replaced frame is, cell by cell, the documented substitution with column `c`'s own statistic -/
theorem forward_is_imputation (st : Stype) (na : NA) (stats : List (ColStat R)) (ch : Nat) (w : Weights R)
    (post : Post R) (e : Encoder R) (B C n : Nat) (feat : Feat R) (o : Out R)
    (hinit : initModules S st (some na) stats ch w post = some e)
    (h : forward S e B C n feat = some o) :
    ∃ f1, naForward S e.fill feat = some f1 ∧
      forward S { e with fill := none } B C n f1 = some o ∧
      ∀ r c, cellAt e.params f1 r c = (cellAt e.params feat r c).bind fun v =>
        (stats[c]?).bind fun s => (docFill S st na s).bind fun f => substitute S f v := by
  have hfill := (initModules_parts S st (some na) stats ch w post e hinit).1
  unfold forward at h
  split at h
  · cases h
  · rename_i hn
    cases h1 : naForward S e.fill feat with
    | none => simp [h1, bind, Option.bind] at h
    | some f1 =>
      refine ⟨f1, rfl, ?_, ?_⟩
      · unfold forward
        simp only [hn]
        simp only [h1] at h
        simpa [naForward] using h
      · intro r c
        rw [naForward_per_cell S e.params e.fill feat f1 r c h1]
        congr 1
        funext v
        exact cellImpute_eq_docFill S st na stats e.fill hfill c v

/-! ## rejection at construction -/

/-- a strategy that is not valid for the stype makes `init_modules` raise, whatever the statistics and parameters -/
theorem initModules_rejects (st : Stype) (na : NA) (stats : List (ColStat R)) (ch : Nat) (w : Weights R)
    (post : Post R) (h : naValid st na = false) : initModules S st (some na) stats ch w post = none := by
  simp [initModules, mkFill, h, bind, Option.bind]

end

end TFVerif.Enc

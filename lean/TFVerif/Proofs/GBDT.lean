/-
Helper lemmas for C20 (GBDT adapters, metrics, guards).
-/
import TFVerif.Model.GBDT
import Mathlib.Tactic.Linarith
import Mathlib.Tactic.Ring
import Mathlib.Algebra.Order.Field.Basic
import Mathlib.Algebra.BigOperators.Group.List.Basic

namespace TFVerif.GBDT

set_option linter.unusedSectionVars false

/-! ### list plumbing -/
section lists
variable {α β : Type}

@[simp] theorem length_build (n : Nat) (f : Nat → β) : (build n f).length = n := by simp [build]

theorem getD_build {n i : Nat} (f : Nat → β) (d : β) (h : i < n) : (build n f).getD i d = f i := by
  simp [build, List.getD_eq_getElem?_getD, h]

theorem getD_mem_of_lt (l : List β) (d : β) {i : Nat} (h : i < l.length) : l.getD i d ∈ l := by
  simp [List.getD_eq_getElem?_getD, h]

/-- row `r` of a block mapped cell by cell -/
theorem getD_map_map (x : List (List α)) (g : α → β) (r : Nat) :
    (x.map fun row => row.map g).getD r [] = (x.getD r []).map g := by
  by_cases h : r < x.length
  · simp [List.getD_eq_getElem?_getD, h]
  · simp [List.getD_eq_getElem?_getD, Nat.le_of_not_lt h]

theorem getElem?_of_lt_getD (l : List β) (d : β) {k : Nat} (h : k < l.length) :
    l[k]? = some (l.getD k d) := by
  simp [List.getD_eq_getElem?_getD, h]

theorem getD_opt_map_map (x : List (List α)) (g : α → β) (r : Nat) :
    (Option.map (fun row => List.map g row) x[r]?).getD [] = List.map g (x[r]?.getD []) := by
  cases x[r]? <;> simp

/-- positions inside a three-part concatenation -/
theorem three_part (A B C : List β) {a b c : Nat} (hA : A.length = a) (hB : B.length = b)
    (hC : C.length = c) :
    (A ++ (B ++ C)).length = a + b + c ∧ ∀ k, k < a + b + c →
      (A ++ (B ++ C))[k]? = if k < a then A[k]? else if k < a + b then B[k - a]? else C[k - a - b]? := by
  subst hA hB hC
  refine ⟨by simp [Nat.add_assoc], ?_⟩
  intro k _
  by_cases h1 : k < A.length
  · rw [if_pos h1, List.getElem?_append_left h1]
  · rw [if_neg h1, List.getElem?_append_right (Nat.le_of_not_lt h1)]
    by_cases h2 : k < A.length + B.length
    · rw [if_pos h2, List.getElem?_append_left (by omega)]
    · rw [if_neg h2, List.getElem?_append_right (by omega)]

theorem getElem?_map_of_lt (l : List α) (g : α → β) (d : α) {k : Nat} (h : k < l.length) :
    (l.map g)[k]? = some (g (l.getD k d)) := by
  rw [List.getElem?_map, getElem?_of_lt_getD l d h]; rfl

/-- consecutive slices along monotone offsets glue back to a prefix -/
theorem flatten_slices (row : List α) (off : Nat → Nat) (n : Nat) (h0 : off 0 = 0)
    (hmono : ∀ c, c < n → off c ≤ off (c + 1)) :
    ((List.range n).map fun c => (row.drop (off c)).take (off (c + 1) - off c)).flatten
      = row.take (off n) := by
  induction n with
  | zero => simp [h0]
  | succ n ih =>
    rw [List.range_succ, List.map_append, List.flatten_append,
      ih (fun c hc => hmono c (Nat.lt_succ_of_lt hc))]
    have hle := hmono n (Nat.lt_succ_self n)
    have : off (n + 1) = off n + (off (n + 1) - off n) := by omega
    conv_rhs => rw [this, List.take_add]
    simp

end lists

/-! ### conversion -/
section convert
variable {α γ : Type}

theorem catCell_xgboost (i : Int) :
    catCell (α := α) .xgboost i = if i == -1 then Cell.nan else Cell.cat i := by
  by_cases h : i = -1 <;> simp [catCell, h]

theorem catCell_other {lib : Lib} (h : lib ≠ .xgboost) (i : Int) : catCell (α := α) lib i = .cat i := by
  simp [catCell, h]

/-- `neg_to_nan` (conditional cast-and-overwrite) is the pointwise map `-1 ↦ NaN` -/
theorem negToNan_pointwise (x : List (List Int)) :
    negToNan (α := α) x = x.map fun row => row.map (catCell .xgboost) := by
  unfold negToNan
  split
  · apply List.map_congr_left; intro row _
    apply List.map_congr_left; intro i _
    exact (catCell_xgboost i).symm
  · rename_i hno
    apply List.map_congr_left; intro row hrow
    apply List.map_congr_left; intro i hi
    have : i ≠ -1 := by
      intro hneg
      apply hno
      rw [List.any_eq_true]
      exact ⟨row, hrow, by rw [List.any_eq_true]; exact ⟨i, hi, by simp [hneg]⟩⟩
    simp [catCell, this]

theorem catBlock_pointwise (lib : Lib) (x : List (List Int)) :
    catBlock (α := α) lib x = x.map fun row => row.map (catCell lib) := by
  cases lib with
  | xgboost => exact negToNan_pointwise x
  | catboost =>
    apply List.map_congr_left; intro row _
    apply List.map_congr_left; intro i _
    exact (catCell_other (by decide) i).symm
  | lightgbm =>
    apply List.map_congr_left; intro row _
    apply List.map_congr_left; intro i _
    exact (catCell_other (by decide) i).symm

/-- row `r` of the concatenated matrix: categorical part, numerical part, embedding part -/
theorem hrow_eq (lib : Lib) (f : Frame α γ) (r : Nat) :
    ((blocks lib f).map fun b => b.rows.getD r []).flatten
      = ((f.cat.getD []).getD r []).map (catCell lib)
        ++ (((f.num.getD []).getD r []).map Cell.val
        ++ (((f.emb.map (·.values)).getD []).getD r []).map Cell.val) := by
  unfold blocks
  cases hc : f.cat <;> cases hn : f.num <;> cases he : f.emb <;>
    simp [catBlock_pointwise, valBlock, getD_opt_map_map]

theorem catPart_length {f : Frame α γ} (hf : f.WF) {r : Nat} (hr : r < f.numRows) :
    ((f.cat.getD []).getD r []).length = f.catW := by
  unfold Frame.catW
  cases hc : f.cat with
  | none => simp
  | some x =>
    obtain ⟨h1, h2⟩ := hf.cat x hc
    simpa using h2 _ (getD_mem_of_lt x [] (h1 ▸ hr))

theorem numPart_length {f : Frame α γ} (hf : f.WF) {r : Nat} (hr : r < f.numRows) :
    ((f.num.getD []).getD r []).length = f.numW := by
  unfold Frame.numW
  cases hc : f.num with
  | none => simp
  | some x =>
    obtain ⟨h1, h2⟩ := hf.num x hc
    simpa using h2 _ (getD_mem_of_lt x [] (h1 ▸ hr))

theorem embPart_length {f : Frame α γ} (hf : f.WF) {r : Nat} (hr : r < f.numRows) :
    (((f.emb.map (·.values)).getD []).getD r []).length = f.embW := by
  unfold Frame.embW
  cases hc : f.emb with
  | none => simp
  | some e =>
    obtain ⟨h1, h2⟩ := hf.emb e hc
    simpa using h2 _ (getD_mem_of_lt e.values [] (h1 ▸ hr))

theorem convert_some {lib : Lib} {f : Frame α γ} {c : Converted α γ} (h : convert lib f = some c) :
    blocks lib f ≠ [] ∧ c.rows = hcat f.numRows (blocks lib f) ∧ c.types = featureTypes (blocks lib f)
      ∧ c.catIdx = catFeatures 0 (blocks lib f) ∧ c.y = f.y := by
  unfold convert at h
  simp only at h
  split at h
  · simp at h
  · rename_i hne
    simp only [Option.some.injEq] at h
    subst h
    refine ⟨?_, rfl, rfl, rfl, rfl⟩
    intro he; simp [he] at hne

theorem blocks_eq_nil (lib : Lib) (f : Frame α γ) :
    blocks lib f = [] ↔ f.cat = none ∧ f.num = none ∧ f.emb = none := by
  unfold blocks
  cases f.cat <;> cases f.num <;> cases f.emb <;> simp

theorem featureTypes_blocks (lib : Lib) (f : Frame α γ) :
    featureTypes (blocks lib f)
      = List.replicate f.catW true ++ List.replicate (f.numW + f.embW) false := by
  unfold blocks featureTypes Frame.catW Frame.numW Frame.embW
  cases f.cat <;> cases f.num <;> cases f.emb <;> simp

theorem catFeatures_blocks (lib : Lib) (f : Frame α γ) :
    catFeatures 0 (blocks lib f) = List.range f.catW := by
  unfold blocks Frame.catW
  cases f.cat <;> cases f.num <;> cases f.emb <;> simp [catFeatures, List.range_eq_range']

end convert

/-! ### metrics over a linearly ordered field -/
section metrics
variable {R : Type} [Field R] [LinearOrder R] [IsStrictOrderedRing R]

/-- field operations; the square root is a parameter -/
def fieldMOps (sqrt : R → R) : MOps R where
  add := (· + ·)
  sub := (· - ·)
  mul := (· * ·)
  div := (· / ·)
  abs := fun x => |x|
  sqrt := sqrt
  lt := fun a b => decide (a < b)
  eq := fun a b => decide (a = b)
  ofNat := fun n => (n : R)

theorem msum_eq (sqrt : R → R) (xs : List R) : (fieldMOps sqrt).sum xs = xs.sum := by
  induction xs with
  | nil => simp [MOps.sum, fieldMOps]
  | cons a t ih =>
    simp only [MOps.sum, List.foldr_cons, List.sum_cons] at ih ⊢
    rw [ih]; rfl

theorem mean_eq (sqrt : R → R) (xs : List R) :
    (fieldMOps sqrt).mean xs = xs.sum / (xs.length : R) := by
  unfold MOps.mean; rw [msum_eq]; rfl

theorem sum_nonneg_of (xs : List R) (h : ∀ x ∈ xs, 0 ≤ x) : 0 ≤ xs.sum := by
  induction xs with
  | nil => simp
  | cons a t ih =>
    rw [List.sum_cons]
    exact add_nonneg (h a (by simp)) (ih fun x hx => h x (by simp [hx]))

theorem mem_zipWith {f : R → R → R} {p t : List R} {v : R} (h : v ∈ List.zipWith f p t) :
    ∃ a b, v = f a b := by
  induction p generalizing t with
  | nil => simp at h
  | cons a p ih =>
    cases t with
    | nil => simp at h
    | cons b t =>
      simp only [List.zipWith_cons_cons, List.mem_cons] at h
      rcases h with rfl | h
      · exact ⟨a, b, rfl⟩
      · exact ih h

theorem eq_eq (sqrt : R → R) (a b : R) : (fieldMOps sqrt).eq a b = decide (a = b) := rfl

theorem half_eq (sqrt : R → R) : (fieldMOps sqrt).half = (1 : R) / 2 := by
  simp [MOps.half, fieldMOps]

theorem threshold_eq (sqrt : R → R) (p : R) :
    threshold (fieldMOps sqrt) p = if (1 : R) / 2 < p then 1 else 0 := by
  unfold threshold
  rw [half_eq]
  simp [fieldMOps]

/-- the number of matching positions, as a count over the zipped pairs -/
theorem correct_eq (sqrt : R → R) (binary : Bool) (pred target : List R) :
    correct (fieldMOps sqrt) binary pred target
      = (pred.zip target).countP fun pt =>
          decide (pt.2 = if binary then (if (1 : R) / 2 < pt.1 then 1 else 0) else pt.1) := by
  unfold correct
  induction pred generalizing target with
  | nil => simp
  | cons p ps ih =>
    cases target with
    | nil => simp
    | cons t ts =>
      simp only [List.zipWith_cons_cons, List.zip_cons_cons, List.count_cons, List.countP_cons, ih]
      congr 1
      cases binary <;> simp [eq_eq, threshold_eq]

theorem correct_le (sqrt : R → R) (binary : Bool) (pred target : List R) :
    correct (fieldMOps sqrt) binary pred target ≤ target.length := by
  unfold correct
  calc _ ≤ (List.zipWith _ pred target).length := List.count_le_length
    _ ≤ target.length := by simp [List.length_zipWith]

end metrics

/-! ### guards -/

theorem runOps_append (b : Bool) (pre post : List Op) :
    runOps b (pre ++ post) =
      ((runOps b pre).1 ++ (runOps (runOps b pre).2 post).1, (runOps (runOps b pre).2 post).2) := by
  induction pre generalizing b with
  | nil => simp [runOps]
  | cons op pre ih =>
    simp only [List.cons_append, runOps]
    rw [ih]

theorem step_flag (b : Bool) (op : Op) : (step b op).2 = (b || op.fits) := by
  cases op with
  | tune a c d => cases a <;> cases c <;> cases d <;> cases b <;> rfl
  | predict => simp [step, Op.fits]
  | save => simp [step, Op.fits]
  | load c => cases c <;> cases b <;> rfl

theorem runOps_flag (b : Bool) (ops : List Op) : (runOps b ops).2 = (b || ops.any Op.fits) := by
  induction ops generalizing b with
  | nil => simp [runOps]
  | cons op ops ih =>
    simp only [runOps, List.any_cons]
    rw [ih, step_flag, Bool.or_assoc]

theorem runOps_length (b : Bool) (ops : List Op) : (runOps b ops).1.length = ops.length := by
  induction ops generalizing b with
  | nil => simp [runOps]
  | cons op ops ih => simp [runOps, ih]

end TFVerif.GBDT

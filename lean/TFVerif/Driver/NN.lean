/- Shared by the drivers of C14 and C15: the `Float` instance of `TOps` and the JSON readers for the
   exported `state_dict`s (floats travel as IEEE-754 bit patterns). -/
import TFVerif.Model.Models
import TFVerif.Driver.Json

open Lean TFVerif TFVerif.Driver

namespace NN

/-- `erf` by the all-positive series `2/sqrt(pi) * exp(-x^2) * sum_n 2^n x^(2n+1) / (2n+1)!!`
    (no cancellation; `|x| > 6` saturates to `+-1` in double precision).  `Float` has no `erf`. -/
def erfF (x : Float) : Float :=
  let a := x.abs
  if a > 6.0 then (if x > 0 then 1.0 else -1.0) else
  let x2 := a * a
  let rec go (fuel : Nat) (n : Nat) (term acc : Float) : Float :=
    match fuel with
    | 0 => acc
    | fuel + 1 =>
      let term' := term * (2.0 * x2) / (2.0 * n.toFloat + 3.0)
      let acc' := acc + term'
      if term' < 1e-19 * acc' then acc' else go fuel (n + 1) term' acc'
  let s := go 400 0 a a
  let r := 1.1283791670955126 * Float.exp (-x2) * s
  if x < 0 then -r else r

def fops : TOps Float where
  zero := 0.0
  one := 1.0
  add := (· + ·)
  sub := (· - ·)
  mul := (· * ·)
  div := (· / ·)
  neg := fun x => -x
  exp := Float.exp
  tanh := Float.tanh
  sqrt := Float.sqrt
  erf := erfF
  max := fun a b => if a < b then b else a
  min := fun a b => if b < a then b else a
  ofNat := Nat.toFloat
  negBig := -1e5
  half := 0.5
  sqrtHalf := 0.7071067811865476
  seluAlpha := 1.6732632423543772848170429916717
  seluScale := 1.0507009873554804934193349852946

def fl (j : Json) : Except String Float := do pure (floatOfBits (← j.getNat?))
def vec (j : Json) : Except String (Vec Float) := floatList j
def mat (j : Json) : Except String (Mat Float) := asList vec j
def t3 (j : Json) : Except String (T3 Float) := asList mat j
def fld (j : Json) (k : String) : Except String Json := j.getObjVal? k

def jMat (m : Mat Float) : Json := jList jFloats m
def jT3 (x : T3 Float) : Json := jList jMat x

def optVec (j : Json) (k : String) : Except String (Option (Vec Float)) := do
  match j.getObjVal? k with
  | .ok .null => pure none
  | .ok v => pure (some (← vec v))
  | .error _ => pure none

def linear (j : Json) : Except String (Linear Float) := do
  pure { w := ← mat (← fld j "w"), b := ← optVec j "b" }

def optLinear (j : Json) (k : String) : Except String (Option (Linear Float)) := do
  match j.getObjVal? k with
  | .ok .null => pure none
  | .ok v => pure (some (← linear v))
  | .error _ => pure none

def lnorm (j : Json) : Except String (LNorm Float) := do
  pure { w := ← vec (← fld j "w"), b := ← vec (← fld j "b"), eps := ← fl (← fld j "eps") }

def bnorm (j : Json) : Except String (BNorm Float) := do
  pure { w := ← vec (← fld j "w"), b := ← vec (← fld j "b"), rm := ← vec (← fld j "rm"),
         rv := ← vec (← fld j "rv"), eps := ← fl (← fld j "eps") }

def mha (j : Json) : Except String (MHA Float) := do
  pure { inW := ← mat (← fld j "inW"), inB := ← vec (← fld j "inB"), out := ← linear (← fld j "out"),
         heads := ← getNat j "heads" }

def teLayer (j : Json) : Except String (TELayer Float) := do
  pure { attn := ← mha (← fld j "attn"), lin1 := ← linear (← fld j "lin1"), lin2 := ← linear (← fld j "lin2"),
         norm1 := ← lnorm (← fld j "norm1"), norm2 := ← lnorm (← fld j "norm2") }

def ftConvs (j : Json) : Except String (FTConvs Float) := do
  pure { layers := ← asList teLayer (← fld j "layers"), norm := ← lnorm (← fld j "norm"), cls := ← vec (← fld j "cls") }

def selfAttn (j : Json) : Except String (SelfAttn Float) := do
  pure { q := ← linear (← fld j "q"), k := ← linear (← fld j "k"), v := ← linear (← fld j "v"),
         out := ← linear (← fld j "out"), heads := ← getNat j "heads" }

def tabTConv (j : Json) : Except String (TabTConv Float) := do
  let f ← fld j "ffn"
  pure { norm1 := ← lnorm (← fld j "norm1"), attn := ← selfAttn (← fld j "attn"),
         ffn := { lin1 := ← linear (← fld f "lin1"), lin2 := ← linear (← fld f "lin2") } }

def excelConv (j : Json) : Except String (ExcelConv Float) := do
  let d ← fld j "diam"
  let a ← fld j "aium"
  pure { norm1 := ← lnorm (← fld j "norm1"), norm2 := ← lnorm (← fld j "norm2"),
         diam := { q := ← linear (← fld d "q"), k := ← linear (← fld d "k"), v := ← linear (← fld d "v"),
                   out := ← optLinear d "out", heads := ← getNat d "heads",
                   seqIds := ← natList (← fld d "seqIds") },
         aium := { lin1 := ← linear (← fld a "lin1"), lin2 := ← linear (← fld a "lin2") } }

def tromptConv (j : Json) : Except String (TromptConv Float) := do
  pure { embCol := ← mat (← fld j "embCol"), embPrompt := ← mat (← fld j "embPrompt"),
         lin := ← linear (← fld j "lin"), weight := ← vec (← fld j "weight"), groups := ← getNat j "groups",
         gnW := ← vec (← fld j "gnW"), gnB := ← vec (← fld j "gnB"), gnEps := ← fl (← fld j "gnEps"),
         lnCol := ← lnorm (← fld j "lnCol"), lnPrompt := ← lnorm (← fld j "lnPrompt"),
         channels := ← getNat j "channels", numCols := ← getNat j "numCols", numPrompts := ← getNat j "numPrompts" }

def excelDec (j : Json) : Except String (ExcelDec Float) := do
  pure { linF := ← linear (← fld j "linF"), act := ← fl (← fld j "act"), linD := ← linear (← fld j "linD"),
         inChannels := ← getNat j "inChannels", outChannels := ← getNat j "outChannels" }

def tromptDec (j : Json) : Except String (TromptDec Float) := do
  pure { linAttn := ← linear (← fld j "linAttn"), lin1 := ← linear (← fld j "lin1"), norm := ← lnorm (← fld j "norm"),
         lin2 := ← linear (← fld j "lin2"), inChannels := ← getNat j "inChannels", numPrompts := ← getNat j "numPrompts" }

def raises : Json := "raises"

end NN

/-
Line-protocol helpers for the model drivers: one JSON value per input line, one JSON value
per output line.  Imports Lean's own JSON library only (links without Mathlib).
-/
import Lean.Data.Json

open Lean

namespace TFVerif.Driver

def err (msg : String) : Except String α := .error msg

def getNat (j : Json) (k : String) : Except String Nat := do
  (← j.getObjVal? k).getNat?

def getInt (j : Json) (k : String) : Except String Int := do
  (← j.getObjVal? k).getInt?

def getStr (j : Json) (k : String) : Except String String := do
  (← j.getObjVal? k).getStr?

def getBool (j : Json) (k : String) : Except String Bool := do
  (← j.getObjVal? k).getBool?

def getArr (j : Json) (k : String) : Except String (List Json) := do
  pure (← (← j.getObjVal? k).getArr?).toList

def optInt (j : Json) (k : String) : Except String (Option Int) := do
  match j.getObjVal? k with
  | .ok .null => pure none
  | .ok v => pure (some (← v.getInt?))
  | .error _ => pure none

def asList (f : Json → Except String α) (j : Json) : Except String (List α) := do
  (← j.getArr?).toList.mapM f

def intList (j : Json) : Except String (List Int) := asList (·.getInt?) j
def natList (j : Json) : Except String (List Nat) := asList (·.getNat?) j
def boolList (j : Json) : Except String (List Bool) := asList (·.getBool?) j
def strList (j : Json) : Except String (List String) := asList (·.getStr?) j

def jInts (xs : List Int) : Json := Json.arr (xs.map fun (x : Int) => (toJson x)).toArray
def jNats (xs : List Nat) : Json := Json.arr (xs.map fun (x : Nat) => (toJson x)).toArray
def jList (f : α → Json) (xs : List α) : Json := Json.arr (xs.map f).toArray
def jStrs (xs : List String) : Json := jList (fun (s : String) => (s : Json)) xs

/-- Floats travel as their IEEE-754 bit pattern (a natural number) so nothing is re-rounded. -/
def floatOfBits (n : Nat) : Float := Float.ofBits n.toUInt64
def jFloat (x : Float) : Json := toJson x.toBits.toNat
def floatList (j : Json) : Except String (List Float) := do
  pure ((← natList j).map floatOfBits)
def jFloats (xs : List Float) : Json := jList jFloat xs

/-- Read stdin line by line; answer each line with `handle line` (errors become
    `{"driver_error": msg}` so that the harness can tell a protocol bug from a model verdict). -/
partial def serve (handle : Json → Except String Json) : IO Unit := do
  let stdin ← IO.getStdin
  let stdout ← IO.getStdout
  let rec loop : IO Unit := do
    let line ← stdin.getLine
    if line.isEmpty then return ()
    let t := line.trimAscii.toString
    if t.isEmpty then loop else
    let out := match Json.parse t with
      | .error e => Json.mkObj [("driver_error", (s!"parse: {e}" : Json))]
      | .ok j => match handle j with
        | .ok r => r
        | .error e => Json.mkObj [("driver_error", (e : Json))]
    stdout.putStrLn out.compress
    loop
  loop
  stdout.flush

end TFVerif.Driver

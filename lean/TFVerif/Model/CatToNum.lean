/-
Model of `torch_frame.transforms.CatToNumTransform` (with `FittableBaseTransform` /
`BaseTransform`): `_fit`, `_forward`, the `is_fitted` gate, `_replace_nans(MOST_FREQUENT)`,
`state_dict` / `load_state_dict` (property C17).  Core Lean only; generic over a scalar type `R`
with the handful of operations the code uses (`FOps`), instantiated with `Float` in the driver.
`Option` = the code raises.
-/
namespace TFVerif.CatToNum

/-- the scalar operations `_fit` / `_forward` perform -/
structure FOps (R : Type) where
  zero : R
  ofInt : Int → R
  add : R → R → R
  div : R → R → R
  isNaN : R → Bool

/-- the target tensor `tf.y`: floating point (regression; may contain NaN) or integer labels -/
inductive Target (R : Type) where
  | floats (ys : List R)
  | ints (ys : List Int)
deriving Repr, DecidableEq

/-- one row of a `TensorFrame` restricted to the two stypes the transform touches:
    `feat_dict[numerical][r]` and `feat_dict[categorical][r]` (`-1` = missing category). -/
structure Row (R : Type) where
  num : List R
  cat : List Int
deriving Repr, DecidableEq

/-- a `TensorFrame`; an stype is present iff it has column names (`validate` rejects an stype
    without columns). -/
structure Frame (R : Type) where
  numNames : List String
  catNames : List String
  rows : List (Row R)
  y : Option (Target R)
deriving Repr, DecidableEq

/-- what the property observes of a frame besides `y`: names and feature values -/
def Frame.feats {R : Type} (fr : Frame R) : List String × List String × List (Row R) :=
  (fr.numNames, fr.catNames, fr.rows)

/-- `tf[idx]` for a list of in-range row positions (labels are selected alongside) -/
def Frame.selectRows {R : Type} (fr : Frame R) (idx : List Nat) : Frame R :=
  { fr with rows := idx.filterMap (fr.rows[·]?)
            y := fr.y.map fun
              | .floats ys => .floats (idx.filterMap (ys[·]?))
              | .ints ys => .ints (idx.filterMap (ys[·]?)) }

/-- every row has one entry per declared column -/
def Frame.WF {R : Type} (fr : Frame R) : Prop :=
  ∀ row ∈ fr.rows, row.num.length = fr.numNames.length ∧ row.cat.length = fr.catNames.length

/-- `f"{col_name}_{i}"` -/
def genName (col : String) (k : Nat) : String := col ++ "_" ++ toString k

/-- the state `_fit` leaves in the object -/
structure Fitted (R : Type) where
  /-- `self.col_stats[col][StatType.COUNT][1]` for the columns that have a COUNT statistic -/
  colStats : List (String × List Nat)
  /-- `self.data_size` -/
  dataSize : Nat
  /-- `self.num_classes` -/
  numClasses : Nat
  /-- `self.target_mean` (a 0-d tensor is kept as a one-element list) -/
  targetMean : List R
  /-- `self.new_columns` -/
  newColumns : List String
  /-- `list(self._transformed_stats.keys())` -/
  statsKeys : List String
deriving Repr, DecidableEq

inductive State (R : Type) where
  | unfitted
  /-- fitted on a frame without categorical columns: `_transformed_stats = col_stats`, nothing else is set -/
  | fittedNoCat (statsKeys : List String)
  | fitted (f : Fitted R)
deriving Repr, DecidableEq

variable {R : Type}

/-! ### helpers shared by `_fit` and `_forward` -/

/-- `tensor[:, c]` -/
def colOf (x : List (List Int)) (c : Nat) : List Int := x.map (·.getD c (-1))

/-- `column_data[nan_mask] = 0` for one entry -/
def fixNeg (v : Int) : Int := if v < 0 then 0 else v

/-- `_replace_nans(x, NAStrategy.MOST_FREQUENT)` on the categorical index tensor (`ncols = x.size(1)`):
    a column whose entries are all missing raises (also when there is no row: `nan_mask.all()` of an
    empty mask is true); otherwise a missing entry becomes category `0`, the most frequent one. -/
def replaceNans (x : List (List Int)) (ncols : Nat) : Option (List (List Int)) :=
  if (List.range ncols).any (fun c => (colOf x c).all (· < 0)) then none
  else some (x.map (·.map fixNeg))

def sumR (ops : FOps R) (xs : List R) : R := xs.foldl ops.add ops.zero

/-- `xs.mean()` -/
def meanR (ops : FOps R) (xs : List R) : R := ops.div (sumR ops xs) (ops.ofInt xs.length)

/-- `F.one_hot(y, K)[:, :-1].float().mean(dim=0)`: entry `k < K-1` is the mean of the indicator of class `k` -/
def classFreqs (ops : FOps R) (ys : List Int) (K : Nat) : List R :=
  (List.range (K - 1)).map fun (k : Nat) => meanR ops (ys.map fun y => if y = Int.ofNat k then ops.ofInt 1 else ops.ofInt 0)

/-- insertion into a Python dict, keys in insertion order -/
def insertKey (ks : List String) (k : String) : List String := if k ∈ ks then ks else ks ++ [k]

/-- the smoothed estimate written into one row of a column's block:
    `(count[c] + target_mean) / (data_size + 1)`, one entry per non-reference class -/
def estimate (ops : FOps R) (count : List Nat) (mean : List R) (dataSize : Nat) (c : Int) : List R :=
  mean.map fun m => ops.div (ops.add (ops.ofInt (count.getD c.toNat 0 : Nat)) m) (ops.ofInt ((dataSize : Int) + 1))

/-! ### `_fit` -/

/-- class count and prior (`self.num_classes`, `self.target_mean`); `none` = raises -/
def prior (ops : FOps R) : Target R → Option (Nat × List R)
  | .ints ys =>
    match ys.max? with
    | none => none                                   -- `tf_train.y.max()` of an empty tensor
    | some mx =>
      if mx > 1 then
        -- multiclass: `num_classes = y.max() + 1`, one-hot (raises on a negative label)
        if ys.any (· < 0) then none
        else some (mx.toNat + 1, classFreqs ops ys (mx.toNat + 1))
      else
        -- binary: `torch.isnan` of an integer tensor is all false
        some (2, [meanR ops (ys.map ops.ofInt)])
  | .floats ys =>
    let kept := ys.filter fun v => !ops.isNaN v
    if ys.any ops.isNaN && kept.isEmpty then none    -- "Target value contains only nans."
    else some (2, [meanR ops kept])

/-- `fit(tf_train, col_stats)`.  `colStats`: the COUNT[1] lists of `col_stats`, `statKeys`: all keys of
    `col_stats` in dict order.  `none` = raises (the object stays unfitted). -/
def fit (ops : FOps R) (fr : Frame R) (colStats : List (String × List Nat)) (statKeys : List String) :
    Option (State R) :=
  match fr.y with
  | none => none                                     -- RuntimeError: target column is None
  | some y =>
    if fr.catNames.isEmpty then some (.fittedNoCat statKeys)
    else
      match replaceNans (fr.rows.map (·.cat)) fr.catNames.length with
      | none => none
      | some tensor =>
        match prior ops y with
        | none => none
        | some (K, mean) =>
          -- the loop over the categorical columns: `col_stats[col][COUNT]` must exist and
          -- `index_select(count, 0, feat)` needs every index in range
          let colOk := fun (i : Nat) =>
            match colStats.lookup (fr.catNames.getD i "") with
            | none => false
            | some count => (colOf tensor i).all fun c => decide (c.toNat < count.length)
          -- ... and `copy.copy(col_stats[col])` for the numerical columns needs their statistics
          if (List.range fr.catNames.length).all colOk && fr.numNames.all (statKeys.contains ·) then
            let columns := fr.catNames.flatMap fun c => (List.range (K - 1)).map (genName c)
            some (.fitted {
              colStats := colStats
              dataSize := fr.rows.length
              numClasses := K
              targetMean := mean
              newColumns := columns
              statsKeys := (fr.numNames ++ columns).foldl insertKey [] })
          else none

/-! ### `_forward` (the code after `b25a0f3`) -/

/-- one categorical column's block `transformed_tensor[:, start:end]`, one row per frame row -/
def block (ops : FOps R) (f : Fitted R) (catNames : List String) (tensor : List (List Int)) (i : Nat) :
    List (List R) :=
  let count := (f.colStats.lookup (catNames.getD i "")).getD []
  (colOf tensor i).map (estimate ops count f.targetMean f.dataSize)

/-- the loop body's raise conditions for column `i`: the column has fitted counts and
    `max_cat < len(count)` -/
def colSeen (f : Fitted R) (catNames : List String) (tensor : List (List Int)) (i : Nat) : Bool :=
  match f.colStats.lookup (catNames.getD i "") with
  | none => false
  | some count => (colOf tensor i).all fun c => decide (c.toNat < count.length)

/-- `transform(tf)` = `forward(copy.copy(tf))`.  `none` = raises. -/
def transform (ops : FOps R) (st : State R) (fr : Frame R) : Option (Frame R) :=
  match st with
  | .unfitted => none                                -- ValueError: not yet fitted
  | .fittedNoCat _ =>
    if fr.catNames.isEmpty then some fr else none    -- AttributeError: no `num_classes`
  | .fitted f =>
    if fr.catNames.isEmpty then some fr              -- "The original TensorFrame will be returned."
    else
      match replaceNans (fr.rows.map (·.cat)) fr.catNames.length with
      | none => none
      | some tensor =>
        let ncat := fr.catNames.length
        -- the block assigned to `[:, start:end]` must have `num_classes - 1` columns
        if f.targetMean.length ≠ f.numClasses - 1 then none
        else if !(List.range ncat).all (colSeen f fr.catNames tensor) then none
        -- `transformed_tf.validate()`: as many names as feature columns
        else if f.newColumns.length ≠ ncat * (f.numClasses - 1) then none
        else
          let blocks := (List.range ncat).map (block ops f fr.catNames tensor)
          -- row `r` of `transformed_tensor`: the blocks side by side
          let transformed : List (List R) :=
            (List.range fr.rows.length).map fun r => (blocks.map (·.getD r [])).flatten
          some { numNames := fr.numNames ++ f.newColumns       -- numerical columns first
                 catNames := []                                  -- the categorical stype is popped
                 rows := (fr.rows.zip transformed).map fun (row, t) => { num := row.num ++ t, cat := [] }
                 y := fr.y }

/-- `tf.y.max() > 1` on an integer target — the test the code before `b25a0f3` applied to the frame
    being *transformed* -/
def labelsLookMulticlass : Target R → Option Bool
  | .ints ys => ys.max?.map (· > 1)
  | .floats _ => some false

/-- `_forward` before `b25a0f3`: the output width came from the transformed frame's own labels.
    `is_floating_point(None)` raises; when the width chosen from the labels (1 per column) differs
    from the fitted `num_classes - 1 > 1`, the slice assignment raises a shape error.  Kept only
    for the counter-example in `Props/C17`. -/
def transformOld (ops : FOps R) (st : State R) (fr : Frame R) : Option (Frame R) :=
  match st with
  | .fitted f =>
    if fr.catNames.isEmpty then some fr
    else
      match fr.y with
      | none => none
      | some y =>
        match labelsLookMulticlass y with
        | none => none
        | some multi => if f.numClasses > 2 && !multi then none else transform ops st fr
  | st => transform ops st fr

/-! ### specification layer -/

/-- the documented result for one row: the numerical entries, then for every categorical column and
    every non-reference class the estimate `(count + prior) / (N + 1)`, missing category ↦ category 0 -/
def rowSpec (ops : FOps R) (f : Fitted R) (catNames : List String) (row : Row R) : Row R :=
  { num := row.num ++ (catNames.zip row.cat).flatMap fun (name, c) =>
      estimate ops ((f.colStats.lookup name).getD []) f.targetMean f.dataSize (fixNeg c)
    cat := [] }

/-! ### `state_dict` / `load_state_dict` (`self.__dict__` / `self.__dict__.update`) -/

inductive Attr (R : Type) where
  | none
  | bool (b : Bool)
  | nat (n : Nat)
  | vec (v : List R)
  | names (l : List String)
  | stats (l : List (String × List Nat))
deriving Repr, DecidableEq

abbrev Attrs (R : Type) := List (String × Attr R)

/-- `__dict__` of an object in the given state -/
def attrsOf : State R → Attrs R
  | .unfitted => [("_transformed_stats", .none), ("_is_fitted", .bool false)]
  | .fittedNoCat ks => [("_transformed_stats", .names ks), ("_is_fitted", .bool true)]
  | .fitted f => [("_transformed_stats", .names f.statsKeys), ("_is_fitted", .bool true),
                  ("col_stats", .stats f.colStats), ("data_size", .nat f.dataSize),
                  ("num_classes", .nat f.numClasses), ("target_mean", .vec f.targetMean),
                  ("new_columns", .names f.newColumns)]

/-- `d[k] = v` -/
def setAttr (d : Attrs R) (k : String) (v : Attr R) : Attrs R :=
  if d.any (·.1 == k) then d.map fun kv => if kv.1 == k then (k, v) else kv else d ++ [(k, v)]

/-- `self.__dict__.update(state_dict)` -/
def updateAttrs (d sd : Attrs R) : Attrs R := sd.foldl (fun d kv => setAttr d kv.1 kv.2) d

/-- how `forward` / `_forward` / `transformed_stats` read the attributes back -/
def stateOf (d : Attrs R) : State R :=
  match d.lookup "_is_fitted", d.lookup "_transformed_stats" with
  | some (.bool true), some (.names ks) =>
    match d.lookup "col_stats", d.lookup "data_size", d.lookup "num_classes", d.lookup "target_mean",
        d.lookup "new_columns" with
    | some (.stats cs), some (.nat n), some (.nat k), some (.vec m), some (.names nc) =>
      .fitted { colStats := cs, dataSize := n, numClasses := k, targetMean := m, newColumns := nc, statsKeys := ks }
    | _, _, _, _, _ => .fittedNoCat ks
  | _, _ => .unfitted

/-- `CatToNumTransform().load_state_dict(t.state_dict())` -/
def roundTrip (st : State R) : State R := stateOf (updateAttrs (attrsOf .unfitted) (attrsOf st))

end TFVerif.CatToNum

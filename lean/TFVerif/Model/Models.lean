/-
The seven model-zoo backbones of `torch_frame.nn.models` with the code's axis choices (property C14).
Each model takes the *output of its stype-wise encoder* `x : [B, F, D]` (that the encoder is row-wise
is C13's theorem).  Eval mode: dropouts are identities, BatchNorm uses its running statistics.
Core Lean only.
-/
import TFVerif.Model.Conv
import TFVerif.Model.Decoder

namespace TFVerif

/-- `normalization in {None, "layer_norm", "batch_norm"}` of MLP / ResNet -/
inductive Norm (R : Type) where
  | none
  | layer (N : LNorm R)
  | batch (N : BNorm R)

structure MLPLayer (R : Type) where
  lin : Linear R
  norm : Norm R

/-- `MLP.mlp = (Linear, norm?, ReLU, Dropout) * (num_layers - 1), Linear` -/
structure MLP (R : Type) where
  hidden : List (MLPLayer R)
  out : Linear R
  channels : Nat

structure ResBlock (R : Type) where
  lin1 : Linear R
  lin2 : Linear R
  norm1 : Norm R
  norm2 : Norm R
  shortcut : Option (Linear R)

structure ResNet (R : Type) where
  blocks : List (ResBlock R)
  decNorm : LNorm R
  decLin : Linear R

structure FTTransformer (R : Type) where
  convs : FTConvs R
  decNorm : LNorm R
  decLin : Linear R
  channels : Nat
  numCols : Nat

structure TabTransformer (R : Type) where
  hasCat : Bool
  hasNum : Bool
  pad : Mat R
  convs : List (TabTConv R)
  numNorm : LNorm R
  lin1 : Linear R
  bn1 : BNorm R
  lin2 : Linear R
  bn2 : BNorm R
  lin3 : Linear R
  channels : Nat
  numCat : Nat

structure Trompt (R : Type) where
  xPrompt : Mat R
  convs : List (TromptConv R)
  dec : TromptDec R

structure GLUBlock (R : Type) where
  layers : List (Linear R)
  noFirstResidual : Bool

structure AttnTrans (R : Type) where
  lin : Linear R
  bn : BNorm R
  vbs : Nat

structure TabNet (R : Type) where
  bn : BNorm R
  /-- the GLU block *shared* by all feature transformers (`Identity` = `none`) -/
  shared : Option (GLUBlock R)
  /-- the dependent GLU block of `feat_transformers[0]` and of `feat_transformers[i+1]`, `i < num_layers` -/
  dep0 : Option (GLUBlock R)
  steps : List (AttnTrans R × Option (GLUBlock R))
  lin : Linear R
  splitFeat : Nat
  gamma : R

structure ExcelFormer (R : Type) where
  convs : List (ExcelConv R)
  dec : ExcelDec R
  channels : Nat
  numCols : Nat

/-- `torch.cat(xs, dim=1)` in `StypeWiseFeatureEncoder.forward`: the per-stype encoder outputs
    (each `[B, F_s, D]`) are concatenated along the column axis, in the order of `tf.stypes` -/
def catCols {R : Type} (B : Nat) (xs : List (T3 R)) : T3 R :=
  xs.foldl (fun acc x => List.zipWith (fun a b => a ++ b) acc x) (List.replicate B [])

/-- `all_col_names` of `StypeWiseFeatureEncoder.forward` -/
def allColNames (names : List (List String)) : List String := names.flatten

namespace TOps
variable {R : Type} (o : TOps R)

/-- one row through a normalisation layer in eval mode -/
def normV : Norm R → Vec R → Vec R
  | .none, x => x
  | .layer N, x => o.layerNormV N x
  | .batch N, x => o.bnEvalV N x

/-- a `[B, c]` batch through a normalisation layer in eval mode -/
def normApply : Norm R → Mat R → Mat R
  | .none, X => X
  | .layer N, X => o.layerNormLast N X
  | .batch N, X => o.bnEval N X

def reluM (X : Mat R) : Mat R := X.map fun v => v.map o.relu

/-! ### MLP -/

def mlp (θ : MLP R) (X : T3 R) : Mat R :=
  let x := X.map (o.meanAxis0 θ.channels)                       -- torch.mean(x, dim=1)
  let h := θ.hidden.foldl (fun x L => o.reluM (o.normApply L.norm (o.linearLast L.lin x))) x
  o.linearLast θ.out h

def mlpRow (θ : MLP R) (M : Mat R) : Vec R :=
  let x := o.meanAxis0 θ.channels M
  let h := θ.hidden.foldl (fun x L => (o.normV L.norm (o.linearV L.lin x)).map o.relu) x
  o.linearV θ.out h

/-! ### ResNet -/

def resBlock (b : ResBlock R) (X : Mat R) : Mat R :=
  let out := o.reluM (o.normApply b.norm1 (o.linearLast b.lin1 X))
  let out := o.reluM (o.normApply b.norm2 (o.linearLast b.lin2 out))
  let x := match b.shortcut with
    | none => X
    | some L => o.linearLast L X
  o.addM out x

def resBlockV (b : ResBlock R) (x : Vec R) : Vec R :=
  let out := (o.normV b.norm1 (o.linearV b.lin1 x)).map o.relu
  let out := (o.normV b.norm2 (o.linearV b.lin2 out)).map o.relu
  let x' := match b.shortcut with
    | none => x
    | some L => o.linearV L x
  o.vadd out x'

def resnet (θ : ResNet R) (X : T3 R) : Mat R :=
  let x := X.map fun M => M.flatten                             -- x.view(B, prod(shape[1:]))
  let x := θ.blocks.foldl (fun x b => o.resBlock b x) x
  o.linearLast θ.decLin (o.reluM (o.layerNormLast θ.decNorm x))

def resnetRow (θ : ResNet R) (M : Mat R) : Vec R :=
  let x := θ.blocks.foldl (fun x b => o.resBlockV b x) M.flatten
  o.linearV θ.decLin ((o.layerNormV θ.decNorm x).map o.relu)

/-! ### FT-Transformer -/

def ftTransformer (θ : FTTransformer R) (X : T3 R) : Mat R :=
  let xCls := (o.ftConvs θ.channels θ.numCols θ.convs X).2
  o.linearLast θ.decLin (o.reluM (o.layerNormLast θ.decNorm xCls))

def ftTransformerRow (θ : FTTransformer R) (M : Mat R) : Vec R :=
  let xCls := (o.ftSample θ.channels θ.numCols θ.convs M).2
  o.linearV θ.decLin ((o.layerNormV θ.decNorm xCls).map o.relu)

/-! ### TabTransformer -/

def seluM (X : Mat R) : Mat R := X.map fun v => v.map o.selu

/-- the decoder `Linear, BatchNorm1d, SELU, Linear, BatchNorm1d, SELU, Linear` on a `[B, k]` batch -/
def tabTDecoder (θ : TabTransformer R) (X : Mat R) : Mat R :=
  let h := o.seluM (o.bnEval θ.bn1 (o.linearLast θ.lin1 X))
  let h := o.seluM (o.bnEval θ.bn2 (o.linearLast θ.lin2 h))
  o.linearLast θ.lin3 h

def tabTDecoderV (θ : TabTransformer R) (x : Vec R) : Vec R :=
  let h := (o.bnEvalV θ.bn1 (o.linearV θ.lin1 x)).map o.selu
  let h := (o.bnEvalV θ.bn2 (o.linearV θ.lin2 h)).map o.selu
  o.linearV θ.lin3 h

/-- the categorical branch: pad the positional embedding, run the convolutions, flatten -/
def tabTCat (θ : TabTransformer R) (B : Nat) (Xcat : T3 R) : Mat R :=
  let pos : T3 R := List.replicate B θ.pad                                       -- weight.unsqueeze(0).repeat(B,1,1)
  let x := List.zipWith (List.zipWith fun a b => a ++ b) Xcat pos               -- torch.cat(dim=-1)
  let x := θ.convs.foldl (fun x cv => o.tabTConv θ.channels θ.numCat cv x) x
  x.map fun M => M.flatten                                                      -- reshape(B, -1)

def tabTCatRow (θ : TabTransformer R) (M : Mat R) : Vec R :=
  let x := List.zipWith (fun a b => a ++ b) M θ.pad
  (θ.convs.foldl (fun x cv => o.tabTSample θ.channels θ.numCat cv x) x).flatten

/-- the numerical branch: flatten `[B, Fn, 1]`, LayerNorm over the numerical features -/
def tabTNum (θ : TabTransformer R) (Xnum : T3 R) : Mat R :=
  o.layerNormLast θ.numNorm (Xnum.map fun M => M.flatten)

/-- `TabTransformer.forward` on the outputs of `cat_encoder` and `num_encoder` -/
def tabTransformer (θ : TabTransformer R) (Xcat Xnum : T3 R) : Mat R :=
  let B := if θ.hasCat then Xcat.length else Xnum.length                         -- len(tf)
  let x := match θ.hasCat, θ.hasNum with
    | true, true => List.zipWith (fun a b => a ++ b) (o.tabTCat θ B Xcat) (o.tabTNum θ Xnum)
    | true, false => o.tabTCat θ B Xcat
    | false, true => o.tabTNum θ Xnum
    | false, false => []
  o.tabTDecoder θ x

def tabTransformerRow (θ : TabTransformer R) (Mc Mn : Mat R) : Vec R :=
  let x := match θ.hasCat, θ.hasNum with
    | true, true => o.tabTCatRow θ Mc ++ o.layerNormV θ.numNorm Mn.flatten
    | true, false => o.tabTCatRow θ Mc
    | false, true => o.layerNormV θ.numNorm Mn.flatten
    | false, false => []
  o.tabTDecoderV θ x

/-! ### Trompt -/

/-- the layer loop: `x_prompt = conv_i(x_i, x_prompt); out_i = decoder(x_prompt)` -/
def tromptLoop (dec : TromptDec R) : List (TromptConv R × T3 R) → T3 R → List (Mat R)
  | [], _ => []
  | (θ, X) :: rest, XP =>
    let XP' := o.tromptConvCore θ X XP
    o.tromptDecCore dec XP' :: tromptLoop dec rest XP'

/-- `torch.cat([out.view(B, 1, C) for out in outs], dim=1)` -/
def stackLayers (B : Nat) (outs : List (Mat R)) : T3 R :=
  outs.foldl (fun acc out => List.zipWith (fun a v => a ++ [v]) acc out) (List.replicate B [])

/-- `Trompt.forward` on the outputs of its per-layer encoders; result `[B, num_layers, out_channels]` -/
def trompt (θ : Trompt R) (Xs : List (T3 R)) : T3 R :=
  let B := (Xs.headD []).length                                                  -- len(tf)
  let XP : T3 R := List.replicate B θ.xPrompt                                    -- x_prompt.repeat(B, 1, 1)
  stackLayers B (o.tromptLoop θ.dec (θ.convs.zip Xs) XP)

/-! ### TabNet -/

def gluLayerV (L : Linear R) (x : Vec R) : Vec R := o.gluV (o.linearV L x)

def gluResV (L : Linear R) (x : Vec R) : Vec R := o.vadd (o.vscale o.sqrtHalf x) (o.gluLayerV L x)

/-- `GLUBlock.forward` on one row -/
def gluBlockV (g : GLUBlock R) (x : Vec R) : Vec R :=
  match g.layers with
  | [] => x
  | L0 :: rest =>
    let x0 := if g.noFirstResidual then o.gluLayerV L0 x else o.gluResV L0 x
    rest.foldl (fun x L => o.gluResV L x) x0

def optGluV : Option (GLUBlock R) → Vec R → Vec R
  | none, x => x
  | some g, x => o.gluBlockV g x

/-- `FeatureTransformer.forward`: shared block then dependent block (all layers act on the last axis) -/
def featTrans (shared dep : Option (GLUBlock R)) (X : Mat R) : Mat R :=
  (X.map (o.optGluV shared)).map (o.optGluV dep)

/-- `AttentiveTransformer.forward`: `lin`, GhostBatchNorm (eval), `prior * x`, `softmax(dim=-1)` -/
def attnTrans (a : AttnTrans R) (X prior : Mat R) : Mat R :=
  let x := ghostBN a.vbs (o.bnEval a.bn) (o.linearLast a.lin X)
  (List.zipWith o.vmul prior x).map o.softmaxV

def attnTransV (a : AttnTrans R) (x prior : Vec R) : Vec R :=
  o.softmaxV (o.vmul prior (o.bnEvalV a.bn (o.linearV a.lin x)))

/-- the decision-step loop of `TabNet.forward`; returns the list `outs` -/
def tabnetLoop (shared : Option (GLUBlock R)) (splitFeat : Nat) (gamma : R) (x : Mat R) :
    List (AttnTrans R × Option (GLUBlock R)) → Mat R → Mat R → List (Mat R)
  | [], _, _ => []
  | (a, dep) :: rest, prior, att =>
    let mask := o.attnTrans a att prior
    let out := o.featTrans shared dep (List.zipWith o.vmul mask x)
    let feature := out.map fun v => (v.take splitFeat).map o.relu                -- relu(out[:, :split])
    let att' := out.map fun v => v.drop splitFeat                               -- out[:, split:]
    let prior' := List.zipWith (List.zipWith fun m p => o.mul (o.sub gamma m) p) mask prior
    feature :: tabnetLoop shared splitFeat gamma x rest prior' att'

/-- Python's `sum(outs)`: `0 + outs[0] + outs[1] + …` -/
def sumOuts : List (Mat R) → Mat R
  | [] => []
  | f :: fs => fs.foldl o.addM (f.map fun v => v.map fun t => o.add o.zero t)

def tabnet (θ : TabNet R) (X : T3 R) : Mat R :=
  let x := o.bnEval θ.bn (X.map fun M => M.flatten)                              -- view(B, -1); self.bn
  let prior := x.map fun v => v.map fun _ => o.one                               -- ones_like(x)
  let att := (o.featTrans θ.shared θ.dep0 x).map fun v => v.drop θ.splitFeat
  o.linearLast θ.lin (o.sumOuts (o.tabnetLoop θ.shared θ.splitFeat θ.gamma x θ.steps prior att))

/-! ### ExcelFormer -/

def excelFormer (θ : ExcelFormer R) (X : T3 R) : Mat R :=
  o.excelDec θ.dec (θ.convs.foldl (fun x cv => o.excelConv θ.channels θ.numCols cv x) X)

def excelFormerRow (θ : ExcelFormer R) (M : Mat R) : Vec R :=
  o.excelDecSample θ.dec (θ.convs.foldl (fun x cv => o.excelSample θ.channels θ.numCols cv x) M)

end TOps
end TFVerif

/-
Model of `torch_frame/utils/io.py` (`serialize_feat_dict`, `deserialize_feat_dict`, `save`, `load`)
and of the cache protocol of `Dataset.materialize(path=...)` (`torch_frame/data/dataset.py`),
written in the shape of the code: the same `if stype.use_* … elif … else` cascades, the same
constructor calls (`MultiNestedTensor(**d)` runs `validate`), `TensorFrame(**tf_dict)` runs
`TensorFrame.validate`, `materialize` = "already materialised? / file exists? load : compute, save".

What is abstract:
* a dense `torch.Tensor` is the value `(dtype, shape, elements)`; `torch.save`/`torch.load`
  (pickle + zip container) are NOT modelled: a file on disk is either `intact v` (the pickled python
  value `v = (tf_dict, col_stats)`) or `damaged` (anything `torch.load` rejects);
* `col_stats` is an opaque value of a type parameter `σ` (it is pickled as it is);
* python dicts are insertion-ordered association lists;
* the file system is a function `path ↦ Option File`.

Core Lean only (imports `TFVerif.Model.Ragged` read-only).
-/
import TFVerif.Model.Ragged

namespace TFVerif.IO

/-- decidable equality of outcomes (for the closed examples only). -/
instance decEqExcept {ε α : Type} [DecidableEq ε] [DecidableEq α] : DecidableEq (Except ε α)
  | .ok a, .ok b => if h : a = b then isTrue (by rw [h]) else isFalse (fun h' => by cases h'; exact h rfl)
  | .error a, .error b => if h : a = b then isTrue (by rw [h]) else isFalse (fun h' => by cases h'; exact h rfl)
  | .ok _, .error _ => isFalse (fun h => by cases h)
  | .error _, .ok _ => isFalse (fun h => by cases h)

/-! ### semantic types and their storage-kind flags (`torch_frame/_stype.py`) -/

inductive Stype where
  | numerical | categorical | text_embedded | text_tokenized | multicategorical
  | sequence_numerical | timestamp | image_embedded | embedding
deriving DecidableEq, Repr, Inhabited

namespace Stype

/-- members in declaration order (`list(stype)`). -/
def all : List Stype :=
  [numerical, categorical, text_embedded, text_tokenized, multicategorical,
   sequence_numerical, timestamp, image_embedded, embedding]

def name : Stype → String
  | numerical => "numerical" | categorical => "categorical" | text_embedded => "text_embedded"
  | text_tokenized => "text_tokenized" | multicategorical => "multicategorical"
  | sequence_numerical => "sequence_numerical" | timestamp => "timestamp"
  | image_embedded => "image_embedded" | embedding => "embedding"

def ofName? (s : String) : Option Stype := all.find? fun t => t.name == s

/-- `stype.use_multi_nested_tensor` -/
def useNested : Stype → Bool
  | multicategorical | sequence_numerical => true
  | _ => false

/-- `stype.use_multi_embedding_tensor` -/
def useEmbedding : Stype → Bool
  | text_embedded | image_embedded | embedding => true
  | _ => false

/-- `stype.use_dict_multi_nested_tensor` -/
def useDict : Stype → Bool
  | text_tokenized => true
  | _ => false

/-- `stype.use_multi_tensor` (defined in the code as the disjunction). -/
def useMultiTensor (s : Stype) : Bool := s.useNested || s.useEmbedding

end Stype

/-! ### values -/

/-- a dense `torch.Tensor` as an abstract value. -/
structure Tensor (α : Type) where
  dtype : String
  shape : List Nat
  data : List α
deriving DecidableEq, Repr

namespace Tensor
variable {α : Type}
def dim (t : Tensor α) : Nat := t.shape.length
/-- `t.size(d)` (0 where the real call would raise; only used behind a `dim ≥ 2` test). -/
def size (t : Tensor α) (d : Nat) : Nat := t.shape.getD d 0
end Tensor

/-- a `MultiNestedTensor` object together with the dtype of its `values`. -/
structure Nested (α : Type) where
  dtype : String
  m : MNT α
deriving DecidableEq, Repr

/-- a `MultiEmbeddingTensor` object together with the dtype of its `values`. -/
structure Embedded (α : Type) where
  dtype : String
  m : MET α
deriving DecidableEq, Repr

/-- one entry of `TensorFrame.feat_dict` (`TensorData`). -/
inductive Feat (α : Type) where
  | dense (t : Tensor α)
  | nested (n : Nested α)
  | emb (e : Embedded α)
  /-- `text_tokenized`: `dict[str, MultiNestedTensor]` (`input_ids`, `attention_mask`, …). -/
  | dict (d : List (String × Nested α))
deriving DecidableEq, Repr

/-- `TensorFrame` (`feat_dict`, `col_names_dict`, `y`); `_num_rows` is `None` for every frame the
    library itself produces from data and is not saved. -/
structure Frame (α : Type) where
  feats : List (Stype × Feat α)
  colNames : List (Stype × List String)
  y : Option (Tensor α)
deriving DecidableEq, Repr

/-! ### `_MultiTensor.to_dict` and the constructors -/

/-- the `values` tensor of a multi-tensor, passed along as it is: 1-D (nested) or 2-D (embedding). -/
inductive TVals (α : Type) where
  | d1 (xs : List α)
  | d2 (width : Nat) (rows : List (List α))
deriving DecidableEq, Repr

/-- the python dict returned by `to_dict`: `num_rows`, `num_cols`, `values`, `offset`. -/
structure MTDict (α : Type) where
  numRows : Nat
  numCols : Nat
  dtype : String
  values : TVals α
  offset : List Nat
deriving DecidableEq, Repr

variable {α : Type}

def Nested.toDict (n : Nested α) : MTDict α :=
  { numRows := n.m.numRows, numCols := n.m.numCols, dtype := n.dtype
    values := .d1 n.m.values, offset := n.m.offset }

def Embedded.toDict (e : Embedded α) : MTDict α :=
  { numRows := e.m.numRows, numCols := e.m.numCols, dtype := e.dtype
    values := .d2 e.m.width e.m.values, offset := e.m.offset }

/-- `MultiEmbeddingTensor.validate` (the shape assertions are inherent in `MET`). -/
def metValidate (m : MET α) : Bool :=
  m.offset.head? == some 0 && m.offset.length == m.numCols + 1

/-- `MultiNestedTensor(**d)`: the constructor stores the four fields and runs `validate`. -/
def Nested.ofDict (d : MTDict α) : Except String (Nested α) :=
  match d.values with
  | .d1 xs =>
    let m : MNT α := { numRows := d.numRows, numCols := d.numCols, values := xs, offset := d.offset }
    if m.validate then .ok { dtype := d.dtype, m := m }
    else .error "AssertionError (MultiNestedTensor.validate)"
  | .d2 _ _ => .error "2-D values in a MultiNestedTensor (never written by save)"

/-- `MultiEmbeddingTensor(**d)`. -/
def Embedded.ofDict (d : MTDict α) : Except String (Embedded α) :=
  match d.values with
  | .d2 w rows =>
    let m : MET α := { numRows := d.numRows, numCols := d.numCols, width := w, values := rows, offset := d.offset }
    if metValidate m then .ok { dtype := d.dtype, m := m }
    else .error "AssertionError (MultiEmbeddingTensor.validate)"
  | .d1 _ => .error "AssertionError (values.ndim == 2)"

/-! ### `serialize_feat_dict` / `deserialize_feat_dict` -/

/-- a value of `feat_serialized_dict`. -/
inductive SerFeat (α : Type) where
  | tensor (t : Tensor α)
  | mt (d : MTDict α)
  | dictMT (ds : List (String × MTDict α))
deriving DecidableEq, Repr

/-- body of the loop of `serialize_feat_dict`. -/
def serializeFeat (s : Stype) (f : Feat α) : Except String (SerFeat α) :=
  if s.useMultiTensor then
    match f with
    | .nested n => .ok (.mt n.toDict)
    | .emb e => .ok (.mt e.toDict)
    | _ => .error "AssertionError (isinstance(feat, _MultiTensor))"
  else if s.useDict then
    match f with
    | .dict d => .ok (.dictMT (d.map fun kv => (kv.1, kv.2.toDict)))
    | _ => .error "AssertionError (isinstance(feat, dict))"
  else
    match f with
    | .dense t => .ok (.tensor t)
    | _ => .error "AssertionError (isinstance(feat, Tensor))"

def serializeFeatDict : List (Stype × Feat α) → Except String (List (Stype × SerFeat α))
  | [] => .ok []
  | (s, f) :: rest => do
    let x ← serializeFeat s f
    let xs ← serializeFeatDict rest
    pure ((s, x) :: xs)

/-- the inner loop of the `use_dict_multi_nested_tensor` branch. -/
def deserializeDict : List (String × MTDict α) → Except String (List (String × Nested α))
  | [] => .ok []
  | (k, d) :: rest => do
    let n ← Nested.ofDict d
    let ns ← deserializeDict rest
    pure ((k, n) :: ns)

/-- body of the loop of `deserialize_feat_dict`. -/
def deserializeFeat (s : Stype) (x : SerFeat α) : Except String (Feat α) :=
  if s.useNested then
    match x with
    | .mt d => (Nested.ofDict d).map .nested
    | _ => .error "TypeError (MultiNestedTensor(**feat_serialized))"
  else if s.useEmbedding then
    match x with
    | .mt d => (Embedded.ofDict d).map .emb
    | _ => .error "TypeError (MultiEmbeddingTensor(**feat_serialized))"
  else if s.useDict then
    match x with
    | .dictMT ds => (deserializeDict ds).map .dict
    | _ => .error "AttributeError (feat_serialized.items())"
  else
    match x with
    | .tensor t => .ok (.dense t)
    | _ => .error "AssertionError (isinstance(feat_serialized, Tensor))"

def deserializeFeatDict : List (Stype × SerFeat α) → Except String (List (Stype × Feat α))
  | [] => .ok []
  | (s, x) :: rest => do
    let f ← deserializeFeat s x
    let fs ← deserializeFeatDict rest
    pure ((s, f) :: fs)

/-! ### `TensorFrame.validate` -/

/-- `(dim(), size(0), size(1))` of every tensor of a feature (`feats.values()` for a dict). -/
def Feat.parts : Feat α → List (Nat × Nat × Nat)
  | .dense t => [(t.dim, t.size 0, t.size 1)]
  | .nested n => [(3, n.m.numRows, n.m.numCols)]
  | .emb e => [(3, e.m.numRows, e.m.numCols)]
  | .dict d => d.map fun kv => (3, kv.2.m.numRows, kv.2.m.numCols)

/-- `len(feat)` (`len(next(iter(feat.values())))` for a dict); `none` = raises. -/
def Feat.len : Feat α → Option Nat
  | .dense t => t.shape.head?
  | .nested n => some n.m.numRows
  | .emb e => some e.m.numRows
  | .dict d => d.head?.map fun kv => kv.2.m.numRows

/-- `TensorFrame.num_rows` with `_num_rows = None`. -/
def Frame.numRows (tf : Frame α) : Option Nat :=
  match tf.feats with
  | [] => some 0
  | (_, f) :: _ => f.len

def lookup {β : Type} (s : Stype) : List (Stype × β) → Option β
  | [] => none
  | (k, v) :: rest => if k = s then some v else lookup s rest

/-- `TensorFrame.validate`: `true` = returns, `false` = raises. -/
def Frame.validate (tf : Frame α) : Bool :=
  let fk := tf.feats.map (·.1)
  let ck := tf.colNames.map (·.1)
  (fk.all (ck.contains ·) && ck.all (fk.contains ·)) &&
  match tf.numRows with
  | none => false
  | some n =>
    (tf.feats.all fun sf =>
      match lookup sf.1 tf.colNames with
      | none => false
      | some cols =>
        cols.length != 0 &&
        sf.2.parts.all fun p => decide (p.1 ≥ 2) && p.2.2 == cols.length && p.2.1 == n) &&
    (match tf.y with
     | none => true
     | some y => y.shape.head? == some n)

/-- the storage kind of a feature is the one its stype prescribes and the container passes its own
    constructor assertions (true of every feature the library builds). -/
def Feat.okFor (s : Stype) : Feat α → Bool
  | .dense _ => !s.useMultiTensor && !s.useDict
  | .nested n => s.useNested && n.m.validate
  | .emb e => s.useEmbedding && metValidate e.m
  | .dict d => s.useDict && d.all fun kv => kv.2.m.validate

/-- a well-formed frame: constructible through the library's constructors with the storage kind of
    each stype. -/
def Frame.WF (tf : Frame α) : Prop :=
  tf.validate = true ∧ ∀ sf ∈ tf.feats, sf.2.okFor sf.1 = true

instance (tf : Frame α) : Decidable tf.WF := by unfold Frame.WF; exact inferInstance

/-! ### `save` / `load` -/

/-- the python dict `tf_dict` written by `save`. -/
structure TFDict (α : Type) where
  y : Option (Tensor α)
  colNames : List (Stype × List String)
  featSer : List (Stype × SerFeat α)
deriving DecidableEq, Repr

/-- the pickled value `(tf_dict, col_stats)`. -/
structure FileVal (α σ : Type) where
  tfDict : TFDict α
  colStats : σ
deriving DecidableEq, Repr

/-- what is on disk under a path. -/
inductive File (V : Type) where
  | intact (v : V)
  /-- anything `torch.load` rejects (cut short, overwritten, …). -/
  | damaged
deriving DecidableEq, Repr

/-- `torch.load(path)` on an existing file. -/
def torchLoad {V : Type} : File V → Except String V
  | .intact v => .ok v
  | .damaged => .error "torch.load raises"

variable {σ : Type}

/-- the value `save` hands to `torch.save`. -/
def saveVal (tf : Frame α) (stats : σ) : Except String (FileVal α σ) := do
  let ser ← serializeFeatDict tf.feats
  pure { tfDict := { y := tf.y, colNames := tf.colNames, featSer := ser }, colStats := stats }

/-- `load` after `torch.load`: deserialise, then `TensorFrame(**tf_dict)` (validates), `.to(None)`. -/
def loadVal (v : FileVal α σ) : Except String (Frame α × σ) := do
  let feats ← deserializeFeatDict v.tfDict.featSer
  let tf : Frame α := { feats := feats, colNames := v.tfDict.colNames, y := v.tfDict.y }
  if tf.validate then pure (tf, v.colStats) else .error "ValueError (TensorFrame.validate)"

/-- the file system: `path ↦ file` (`none` = `osp.isfile(path)` is false). -/
abbrev Store (V : Type) := String → Option (File V)

def Store.write {V : Type} (st : Store V) (p : String) (f : File V) : Store V :=
  fun q => if q = p then some f else st q

def Store.remove {V : Type} (st : Store V) (p : String) : Store V :=
  fun q => if q = p then none else st q

def Store.empty {V : Type} : Store V := fun _ => none

/-- `torch_frame.save(tf, col_stats, path)`. -/
def save (tf : Frame α) (stats : σ) (p : String) (st : Store (FileVal α σ)) :
    Except String (Store (FileVal α σ)) := do
  let v ← saveVal tf stats
  pure (st.write p (.intact v))

/-- `torch_frame.load(path)`; a missing file raises as well. -/
def load (p : String) (st : Store (FileVal α σ)) : Except String (Frame α × σ) :=
  match st p with
  | none => .error "FileNotFoundError"
  | some f => do
    let v ← torchLoad f
    loadVal v

/-! ### `Dataset.materialize(path=...)` -/

/-- a `Dataset` object: constructor-supplied arguments `A` (`col_to_stype`, `target_col`,
    separators, embedder / tokenizer configurations, time formats), the data frame `D`, and
    `(_tensor_frame, _col_stats)` once `_is_materialized`. -/
structure DS (A D α σ : Type) where
  args : A
  df : D
  state : Option (Frame α × σ)

variable {A D Ω : Type}

/-- `Dataset.materialize(path=path)`.  `compute` stands for steps 1–3 of the method (statistics,
    conversion of `self.df`, `_update_col_stats`); `ω` is whatever else the computation may depend
    on (state of a user-supplied embedder, …).
    One simplification: the code sets `_is_materialized` before the final `save`, so if that `save`
    raised the object would stay materialised; here the whole call is an error.  `save` cannot raise
    on a well-formed frame (`loadVal_saveVal`), which is the only case the theorems speak about. -/
def DS.materialize (compute : Ω → A → D → Except String (Frame α × σ)) (ω : Ω)
    (ds : DS A D α σ) (path : Option String) (st : Store (FileVal α σ)) :
    Except String (DS A D α σ × Store (FileVal α σ)) :=
  match ds.state with
  | some (tf, stats) =>
    -- `if self.is_materialized:`
    match path with
    | some p =>
      if (st p).isNone then do
        let st' ← save tf stats p st
        pure (ds, st')
      else pure (ds, st)
    | none => pure (ds, st)
  | none =>
    match path with
    | some p =>
      if (st p).isSome then do
        -- `if path is not None and osp.isfile(path):`
        let r ← load p st
        pure ({ ds with state := some r }, st)
      else do
        let r ← compute ω ds.args ds.df
        let st' ← save r.1 r.2 p st
        pure ({ ds with state := some r }, st')
    | none => do
      let r ← compute ω ds.args ds.df
      pure ({ ds with state := some r }, st)

/-- everything `_get_tensorframe_converter` reads: constructor-supplied arguments and `_col_stats`. -/
structure Converter (A σ : Type) where
  args : A
  colStats : σ
deriving DecidableEq, Repr

/-- `dataset.convert_to_tensor_frame` (`none` = requires a materialised dataset). -/
def DS.converter (ds : DS A D α σ) : Option (Converter A σ) :=
  ds.state.map fun r => { args := ds.args, colStats := r.2 }

/-! ### histories of `materialize` calls on several dataset objects sharing one file system -/

structure Step (Ω : Type) where
  ds : Nat
  ω : Ω
  path : Option String

structure World (A D α σ : Type) where
  pool : Nat → DS A D α σ
  store : Store (FileVal α σ)

def updatePool (pool : Nat → DS A D α σ) (i : Nat) (d : DS A D α σ) : Nat → DS A D α σ :=
  fun j => if j = i then d else pool j

/-- one call `pool[s.ds].materialize(path=s.path)`; a raising call changes nothing. -/
def World.step (compute : Ω → A → D → Except String (Frame α × σ)) (w : World A D α σ)
    (s : Step Ω) : World A D α σ :=
  match (w.pool s.ds).materialize compute s.ω s.path w.store with
  | .ok (d, st) => { pool := updatePool w.pool s.ds d, store := st }
  | .error _ => w

def World.run (compute : Ω → A → D → Except String (Frame α × σ)) (w : World A D α σ) :
    List (Step Ω) → World A D α σ
  | [] => w
  | s :: rest => World.run compute (w.step compute s) rest

end TFVerif.IO

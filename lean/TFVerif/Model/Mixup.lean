/-
C19 — `feature_mixup` (torch_frame/nn/models/excelformer.py) and its wiring in
`ExcelFormer.forward(mixup_encoded=True)`.

Core Lean only.  The random draws of the code (`Beta(beta,beta).sample((B,1))`,
`torch.randperm(B)`, `torch.rand((B,F))` / `torch.rand((B,D))`) are INPUTS (`Draws`); every
theorem of `Props/C19.lean` holds for every draw.  The scalar type is a parameter given by a
record of operations (`Ops R`): the driver instantiates `R := Float`, the theorems instantiate an
arbitrary linearly ordered field.

The model is written in the shape of the code: tensors are dense nested lists with an explicit
shape, every output entry is produced by the code's *arithmetic* selection
`mask * x + ~mask * x[perm]` (booleans promoted to 0/1), `lam` is the code's
`sum(norm_mi_scores.unsqueeze(0) * mask, dim=1)`, the target is `lam * y + (1 - lam) * y[perm]`
on scalars or one-hot rows.  The specification layer (`pick`, `keptMass`, `oneHot`) is the
plain "take the entry from the row itself or from its partner" reading of the property.
-/
namespace TFVerif.Mixup

/-- scalar operations used by `feature_mixup` -/
structure Ops (R : Type) where
  zero : R
  one : R
  add : R → R → R
  sub : R → R → R
  mul : R → R → R
  div : R → R → R
  lt : R → R → Bool
  ofInt : Int → R

variable {R : Type}

/-- a `bool` tensor promoted inside `mask * x` -/
def Ops.ofBool (o : Ops R) (b : Bool) : R := if b then o.one else o.zero

/-- `torch.sum` of a 1-D tensor (summation order is not specified by torch; right fold here) -/
def Ops.sum (o : Ops R) (xs : List R) : R := xs.foldr o.add o.zero

/-- dense tensor `[f 0, …, f (n-1)]` -/
def build {α : Type} (n : Nat) (f : Nat → α) : List α := (List.range n).map f

def at1 (o : Ops R) (v : List R) (i : Nat) : R := v.getD i o.zero
def at2 (o : Ops R) (m : List (List R)) (i j : Nat) : R := (m.getD i []).getD j o.zero
def at3 (o : Ops R) (x : List (List (List R))) (i j k : Nat) : R :=
  ((x.getD i []).getD j []).getD k o.zero

/-- `mixup_type` -/
inductive Mode where
  | off | feature | hidden
deriving Repr, DecidableEq, Inhabited

/-- what the three RNG entry points returned during one call -/
structure Draws (R : Type) where
  /-- `beta_distribution.sample((B, 1))`, one rate per row -/
  rates : List R
  /-- `torch.randperm(B)` -/
  perm : List Nat
  /-- `torch.rand((B, F))` in feature mode, `torch.rand((B, D))` in hidden mode, unused otherwise -/
  u : List (List R)

/-- the partner row of row `i`: `shuffled_idx[i]` -/
def partner (dr : Draws R) (i : Nat) : Nat := dr.perm.getD i i

/-- hard mask before `unsqueeze`: `torch.rand(...) < shuffle_rates` (row `i`, position `c`) -/
def mask (o : Ops R) (dr : Draws R) (i c : Nat) : Bool := o.lt (at2 o dr.u i c) (at1 o dr.rates i)

/-- broadcast of the mask to `[B, F, D]`: `unsqueeze(2)` in feature mode (one flag per column),
    `unsqueeze(1)` in hidden mode (one flag per channel), `ones_like(x)` when off.
    `true` = keep the row's own entry. -/
def keep (o : Ops R) (mode : Mode) (dr : Draws R) (i j k : Nat) : Bool :=
  match mode with
  | .feature => mask o dr i j
  | .hidden => mask o dr i k
  | .off => true

/-- arithmetic selection `m * a + ~m * b` -/
def sel (o : Ops R) (m : Bool) (a b : R) : R :=
  o.add (o.mul (o.ofBool m) a) (o.mul (o.ofBool (!m)) b)

/-- `x_mixedup = mixup_mask * x + ~mixup_mask * x[shuffled_idx]` for `x` of shape `[B, F, D]` -/
def xMixed (o : Ops R) (mode : Mode) (dr : Draws R) (B F D : Nat) (x : List (List (List R))) :
    List (List (List R)) :=
  build B fun i => build F fun j => build D fun k =>
    sel o (keep o mode dr i j k) (at3 o x i j k) (at3 o x (partner dr i) j k)

/-- `mi_scores / mi_scores.sum()` -/
def normMi (o : Ops R) (mi : List R) : List R := mi.map fun s => o.div s (o.sum mi)

/-- row `i` of the feature-mode mask -/
def maskRow (o : Ops R) (dr : Draws R) (F i : Nat) : List Bool := build F (mask o dr i)

/-- `torch.sum(norm_mi_scores.unsqueeze(0) * mixup_mask, dim=1)` for one row -/
def lamFeature (o : Ops R) (mi : List R) (ms : List Bool) : R :=
  o.sum (List.zipWith (fun s m => o.mul s (o.ofBool m)) (normMi o mi) ms)

/-- mixup weight of row `i` -/
def lam (o : Ops R) (mode : Mode) (dr : Draws R) (F : Nat) (mi : List R) (i : Nat) : R :=
  match mode with
  | .feature => lamFeature o mi (maskRow o dr F i)
  | .hidden => at1 o dr.rates i
  | .off => o.one

/-- targets: a float tensor (`scalar`) or an integer tensor (`index`) -/
inductive Target (R : Type) where
  | scalar (ys : List R)
  | index (ys : List Int)

inductive TargetOut (R : Type) where
  | vec (ys : List R)
  | mat (ys : List (List R))
deriving DecidableEq

/-- entry `c` of `F.one_hot(y)` -/
def oneHot (o : Ops R) (y : Int) (c : Nat) : R := if y = (c : Int) then o.one else o.zero

/-- `lam * a + (1 - lam) * b` -/
def mix (o : Ops R) (l a b : R) : R := o.add (o.mul l a) (o.mul (o.sub o.one l) b)

def Target.length : Target R → Nat
  | .scalar ys => ys.length
  | .index ys => ys.length

/-- the target seen as scalars (`num_classes == 1`: an integer tensor is promoted by `lam * y`) -/
def Target.scalars (o : Ops R) : Target R → List R
  | .scalar ys => ys
  | .index ys => ys.map o.ofInt

/-- `y_mixedup`; `none` = the code raises (`F.one_hot` on a float tensor or on an index outside
    `[0, num_classes)`, shape mismatch) -/
def yMixed (o : Ops R) (mode : Mode) (dr : Draws R) (B F C : Nat) (mi : List R) (y : Target R) :
    Option (TargetOut R) :=
  if y.length ≠ B then none else
  if C = 1 then
    let ys := y.scalars o
    some (.vec (build B fun i => mix o (lam o mode dr F mi i) (at1 o ys i) (at1 o ys (partner dr i))))
  else
    match y with
    | .scalar _ => none
    | .index ys =>
      if ys.all (fun v => decide (0 ≤ v ∧ v < (C : Int))) then
        some (.mat (build B fun i => build C fun c =>
          mix o (lam o mode dr F mi i) (oneHot o (ys.getD i 0) c) (oneHot o (ys.getD (partner dr i) 0) c)))
      else none

structure Out (R : Type) where
  x : List (List (List R))
  y : TargetOut R
deriving DecidableEq

/-- `feature_mixup(x, y, num_classes=C, beta, mixup_type=mode, mi_scores=mi)` on `x : [B, F, D]`.
    `none` = raises (`num_classes = 0`, feature mode without / with wrongly sized `mi_scores`,
    target errors). `beta` only parametrises the Beta draw, which is an input here. -/
def featureMixup (o : Ops R) (C : Nat) (mode : Mode) (mi : Option (List R)) (dr : Draws R)
    (B F D : Nat) (x : List (List (List R))) (y : Target R) : Option (Out R) :=
  if C = 0 then none else
  if mode = .feature ∧ (mi.map List.length) ≠ some F then none else
  match yMixed o mode dr B F C (mi.getD []) y with
  | none => none
  | some y' => some { x := xMixed o mode dr B F D x, y := y' }

/-- configuration of an `ExcelFormer` that matters for mixup -/
structure ModelCfg where
  outChannels : Nat
  mixup : Mode

/-- the wiring of `ExcelFormer.forward(tf, mixup_encoded=True)`: `feature_mixup(x, tf.y,
    num_classes=self.out_channels, beta=self.beta, mixup_type=self.mixup,
    mi_scores=getattr(tf, 'mi_scores', None))` on the encoder output `x`; `tf.y is None` asserts. -/
def forwardMixup (o : Ops R) (cfg : ModelCfg) (tfY : Option (Target R)) (tfMi : Option (List R))
    (dr : Draws R) (B F D : Nat) (xEncoded : List (List (List R))) : Option (Out R) :=
  match tfY with
  | none => none
  | some y => featureMixup o cfg.outChannels cfg.mixup tfMi dr B F D xEncoded y

/-! ### specification layer -/

/-- "take the entry from the row itself or from its partner" -/
def pick {α : Type} (own : Bool) (a b : α) : α := if own then a else b

/-- mutual-information mass of the columns kept from the row itself -/
def keptMass (zero : R) (add : R → R → R) : List R → List Bool → R
  | s :: ss, m :: ms => add (if m then s else zero) (keptMass zero add ss ms)
  | _, _ => zero

/-- dense shape predicate `[B, F, D]` -/
def Shape3 (x : List (List (List R))) (B F D : Nat) : Prop :=
  x.length = B ∧ ∀ r ∈ x, r.length = F ∧ ∀ c ∈ r, c.length = D

/-- `perm` is an index vector into the batch (what `torch.randperm(B)` returns) -/
def ValidPerm (dr : Draws R) (B : Nat) : Prop :=
  dr.perm.length = B ∧ ∀ p ∈ dr.perm, p < B

/-- IEEE double instance used by the driver -/
def floatOps : Ops Float where
  zero := 0.0
  one := 1.0
  add := (· + ·)
  sub := (· - ·)
  mul := (· * ·)
  div := (· / ·)
  lt := fun a b => decide (a < b)
  ofInt := Float.ofInt

end TFVerif.Mixup

/-
Scalar record for the parts of `torch_frame` that *compute* (encoders, post modules).
Core Lean only (no imports) so that drivers link as `lean_exe`.

* `SOps R`     : the scalar operations the encoders use, as a record, so that the same model text is
                 run on `Float` by the driver and reasoned about over an arbitrary `R` by the theorems.
* `SOps.lift`  : the NaN-lifted scalar `Option R` (`none` = NaN / non-finite).  IEEE rules made explicit:
                 every arithmetic operation with a `none` argument is `none`, every comparison with `none`
                 is `false`, a division by a zero denominator is `none` (x/0 is ±inf or NaN: not finite),
                 `nan_to_num none = some 0`.  That PyTorch follows these rules is a modelling assumption
                 exercised by the correspondence check.
* `SOps.float` : IEEE double instance used by the driver.
-/
namespace TFVerif

structure SOps (R : Type) where
  zero : R
  one : R
  nan : R                      -- `float('nan')`
  add : R → R → R
  sub : R → R → R
  mul : R → R → R
  div : R → R → R
  sin : R → R
  cos : R → R
  tanh : R → R
  sqrt : R → R
  pow : R → R → R              -- `torch.pow`
  ofInt : Int → R
  ofSci : Nat → Nat → R        -- `ofSci m e` = the literal m·10^(-e)   (1e-6 = ofSci 1 6)
  pi : R                       -- `math.pi`
  lt : R → R → Bool            -- `a < b`; false if either side is NaN
  isNaN : R → Bool             -- `torch.isnan`
  isZero : R → Bool            -- `x == 0`
  nanToNum : R → R             -- `torch.nan_to_num(x, nan=0)` on one entry
  round32 : R → R              -- `.to(torch.float32)` rounding of one entry (identity on exact scalars)

namespace SOps
variable {R : Type} (S : SOps R)

def two : R := S.ofInt 2
/-- `x > 0 ? x : 0` with NaN propagated (torch.relu) -/
def relu (x : R) : R := if S.isNaN x then x else if S.lt S.zero x then x else S.zero
/-- `max` as used by `EmbeddingBag(mode='max')` on finite table rows -/
def max (a b : R) : R := if S.lt a b then b else a
/-- sequential sum, starting from 0 -/
def sum (xs : List R) : R := xs.foldl S.add S.zero

/-- the NaN-lifted scalar -/
def lift : SOps (Option R) where
  zero := some S.zero
  one := some S.one
  nan := none
  add a b := match a, b with | some x, some y => some (S.add x y) | _, _ => none
  sub a b := match a, b with | some x, some y => some (S.sub x y) | _, _ => none
  mul a b := match a, b with | some x, some y => some (S.mul x y) | _, _ => none
  div a b := match a, b with
    | some x, some y => if S.isZero y then none else some (S.div x y)
    | _, _ => none
  sin a := a.map S.sin
  cos a := a.map S.cos
  tanh a := a.map S.tanh
  sqrt a := a.map S.sqrt
  pow a b := match a, b with | some x, some y => some (S.pow x y) | _, _ => none
  ofInt i := some (S.ofInt i)
  ofSci m e := some (S.ofSci m e)
  pi := some S.pi
  lt a b := match a, b with | some x, some y => S.lt x y | _, _ => false
  isNaN a := a.isNone
  isZero a := match a with | some x => S.isZero x | none => false
  nanToNum a := match a with | some x => some x | none => some S.zero
  round32 a := a.map S.round32

/-- IEEE double; `nan_to_num` also clamps ±inf to the largest finite double, as PyTorch does. -/
def float : SOps Float where
  zero := 0.0
  one := 1.0
  nan := 0.0 / 0.0
  add := (· + ·)
  sub := (· - ·)
  mul := (· * ·)
  div := (· / ·)
  sin := Float.sin
  cos := Float.cos
  tanh := Float.tanh
  sqrt := Float.sqrt
  pow := Float.pow
  ofInt := Float.ofInt
  ofSci m e := Float.ofScientific m true e
  pi := 3.141592653589793
  lt a b := decide (a < b)
  isNaN := Float.isNaN
  isZero x := x == 0.0
  nanToNum x :=
    if x.isNaN then 0.0
    else if x == 1.0 / 0.0 then 1.7976931348623157e308
    else if x == -1.0 / 0.0 then -1.7976931348623157e308
    else x
  round32 x := x.toFloat32.toFloat

end SOps
end TFVerif

/-
Proleptic-Gregorian calendar decomposition of an epoch second, as produced by
`TimestampTensorMapper.to_tensor` (`ser.dt.year / month / day / dayofweek / hour / minute / second`).
pandas' own implementation is outside the model; this is the textbook "civil from days"
computation (400-year era of 146097 days, 100-year centuries of 36524 days, 4-year groups of
1461 days, March-based years so that the leap day is the last day of a year).  It is tied to the
code by the correspondence check (real `Dataset.materialize` on rendered dates 1700-2200) and to
Python's `datetime` by a direct differential; only ranges and the round trip are proved.
Core Lean only.
-/
namespace TFVerif.Cal

/-- day of the 400-year era (0 .. 146096) → (year of era 0..399, day of the March-based year 0..365) -/
def yoeDoy (doe : Int) : Int × Int :=
  let c := min (doe / 36524) 3          -- century of the era; the 4th century has one more day
  let dc := doe - c * 36524
  let q := dc / 1461                    -- 4-year group of the century
  let dq := dc - q * 1461
  let yr := min (dq / 365) 3            -- year of the group; the 4th year has one more day
  (c * 100 + q * 4 + yr, dq - yr * 365)

/-- March-based month index 0..11 (0 = March) of a day of the March-based year. -/
def monthIdx (doy : Int) : Int := (5 * doy + 2) / 153

/-- days since 1970-01-01 → (year, month 1..12, day 1..31) -/
def civilFromDays (z : Int) : Int × Int × Int :=
  let z' := z + 719468                  -- days since 0000-03-01
  let era := z' / 146097                -- floor division (Int `/` is Euclidean, divisor positive)
  let doe := z' % 146097
  let yoe := (yoeDoy doe).1
  let doy := (yoeDoy doe).2
  let mp := monthIdx doy
  let d := doy - (153 * mp + 2) / 5 + 1
  let m := if mp < 10 then mp + 3 else mp - 9
  (yoe + era * 400 + (if m ≤ 2 then 1 else 0), m, d)

/-- (year, month, day) → days since 1970-01-01 (the textbook inverse; used for the round trip only). -/
def daysFromCivil (y m d : Int) : Int :=
  let y' := if m ≤ 2 then y - 1 else y
  let era := y' / 400
  let yoe := y' % 400
  let mp := if m > 2 then m - 3 else m + 9
  let doy := (153 * mp + 2) / 5 + d - 1
  let doe := yoe * 365 + yoe / 4 - yoe / 100 + doy
  era * 146097 + doe - 719468

/-- `dt.dayofweek`: Monday = 0; 1970-01-01 was a Thursday. -/
def weekday (days : Int) : Int := (days + 3) % 7

/-- the seven components `[year, month-1, day-1, weekday, hour, minute, second]` of an epoch second. -/
def components (s : Int) : List Int :=
  let days := s / 86400
  let rem := s % 86400
  let c := civilFromDays days
  [c.1, c.2.1 - 1, c.2.2 - 1, weekday days, rem / 3600, rem % 3600 / 60, rem % 60]

/-- `dt.year` of an epoch second (used by the YEAR_RANGE statistic). -/
def yearOf (s : Int) : Int := (civilFromDays (s / 86400)).1

/-- what a missing / unparseable timestamp becomes (`nan_to_num(nan=-1)`). -/
def missingComponents : List Int := [-1, -1, -1, -1, -1, -1, -1]

end TFVerif.Cal

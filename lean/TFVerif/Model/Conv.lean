/-
The four table convolutions of `torch_frame.nn.conv`, batched as the code batches them (property C15),
each with its one-sample specification (`…Sample`).  Core Lean only.
-/
import TFVerif.Model.Tensor

namespace TFVerif

/-! ### FTTransformerConvs (`ft_transformer_convs.py`) -/

/-- `nn.TransformerEncoder(layers, norm=LayerNorm)` plus the CLS parameter -/
structure FTConvs (R : Type) where
  layers : List (TELayer R)
  norm : LNorm R
  cls : Vec R

/-! ### TabTransformerConv (`tab_transformer_conv.py`) -/

structure SelfAttn (R : Type) where
  q : Linear R
  k : Linear R
  v : Linear R
  out : Linear R
  heads : Nat

structure FFN (R : Type) where
  lin1 : Linear R
  lin2 : Linear R

/-- `norm_2` exists as a parameter of the module but `forward` never applies it -/
structure TabTConv (R : Type) where
  norm1 : LNorm R
  attn : SelfAttn R
  ffn : FFN R

/-! ### ExcelFormerConv (`excelformer_conv.py`) -/

structure DiaM (R : Type) where
  q : Linear R
  k : Linear R
  v : Linear R
  /-- `lin_out` exists only when `num_heads > 1` -/
  out : Option (Linear R)
  heads : Nat
  /-- the registered buffer `seq_ids = arange(num_cols)` -/
  seqIds : List Nat

structure AiuM (R : Type) where
  lin1 : Linear R
  lin2 : Linear R

structure ExcelConv (R : Type) where
  norm1 : LNorm R
  diam : DiaM R
  norm2 : LNorm R
  aium : AiuM R

/-! ### TromptConv (`trompt_conv.py`) -/

structure TromptConv (R : Type) where
  embCol : Mat R
  embPrompt : Mat R
  lin : Linear R
  weight : Vec R
  groups : Nat
  gnW : Vec R
  gnB : Vec R
  gnEps : R
  lnCol : LNorm R
  lnPrompt : LNorm R
  channels : Nat
  numCols : Nat
  numPrompts : Nat

namespace TOps
variable {R : Type} (o : TOps R)

/-! #### FT-Transformer -/

/-- `FTTransformerConvs.forward` on `x : [B, n, c]`; returns `(x, x_cls)` -/
def ftConvs (c n : Nat) (θ : FTConvs R) (X : T3 R) : T3 R × Mat R :=
  let B := X.length
  let xCls : T3 R := List.replicate B [θ.cls]                      -- cls_embedding.repeat(B, 1, 1)
  let xConcat := List.zipWith (fun a b => a ++ b) xCls X           -- torch.cat([x_cls, x], dim=1)
  let y := o.layerNormLast3 θ.norm (θ.layers.foldl (fun x L => o.teLayerBatch c (n + 1) L x) xConcat)
  (y.map fun M => M.drop 1, y.map fun M => M.getD 0 [])            -- x_concat[:, 1:, :], x_concat[:, 0, :]

/-- the transformer stack on one sample that already carries its CLS row -/
def ftEncodeSample (c m : Nat) (θ : FTConvs R) (M : Mat R) : Mat R :=
  o.layerNormLast θ.norm (θ.layers.foldl (fun x L => o.teLayerSample c m L x) M)

def ftSample (c n : Nat) (θ : FTConvs R) (M : Mat R) : Mat R × Vec R :=
  let y := o.ftEncodeSample c (n + 1) θ (θ.cls :: M)
  (y.drop 1, y.getD 0 [])

/-! #### TabTransformer -/

/-- `SelfAttention.forward` -/
def selfAttnBatch (c n : Nat) (a : SelfAttn R) (X : T3 R) : T3 R :=
  let d := c / a.heads
  o.linearLast3 a.out
    (attnBatch (o.sdpaHead (o.invSqrt d) d) a.heads d n
      (o.linearLast3 a.q X) (o.linearLast3 a.k X) (o.linearLast3 a.v X))

def selfAttnSample (c n : Nat) (a : SelfAttn R) (M : Mat R) : Mat R :=
  let d := c / a.heads
  o.linearLast a.out
    (attnSample (o.sdpaHead (o.invSqrt d) d) a.heads d n
      (o.linearLast a.q M) (o.linearLast a.k M) (o.linearLast a.v M))

/-- `FFN.forward`: `lin_2(geglu(lin_1(x)))` on one token -/
def ffnV (f : FFN R) (x : Vec R) : Vec R := o.linearV f.lin2 (o.gegluV (o.linearV f.lin1 x))

/-- `TabTransformerConv.forward`: `x = norm_1(x); x = x + attn(x); x = ffn(x)` -/
def tabTConv (c n : Nat) (θ : TabTConv R) (X : T3 R) : T3 R :=
  let x := o.layerNormLast3 θ.norm1 X
  let x := o.add3 x (o.selfAttnBatch c n θ.attn x)
  x.map fun M => M.map (o.ffnV θ.ffn)

def tabTSample (c n : Nat) (θ : TabTConv R) (M : Mat R) : Mat R :=
  let x := o.layerNormLast θ.norm1 M
  let x := o.addM x (o.selfAttnSample c n θ.attn x)
  x.map (o.ffnV θ.ffn)

/-! #### ExcelFormer -/

/-- `get_attention_mask`: `(1.0 - float(seq_ids[j] <= seq_ids[i])) * -1e5` -/
def maskVal (seq : List Nat) (i j : Nat) : R :=
  o.mul (o.sub o.one (if seq.getD j 0 ≤ seq.getD i 0 then o.one else o.zero)) o.negBig

/-- the un-normalised attention weight `exp((q_i . k_j + mask_ij) / sqrt d)` -/
def diamExp (seq : List Nat) (sqrtd : R) (Q K : Mat R) (i j : Nat) : R :=
  o.exp (o.div (o.add (o.dot (Q.getD i []) (K.getD j [])) (o.maskVal seq i j)) sqrtd)

/-- row `i` of one head of `DiaM.forward`: masked scores, `softmax(dim=-1)`, weighted sum of the values -/
def diamRow (seq : List Nat) (sqrtd : R) (d : Nat) (Q K V : Mat R) (i : Nat) : Vec R :=
  let e := (List.range K.length).map fun j => o.diamExp seq sqrtd Q K i j
  let s := o.sum e
  let p := e.map fun x => o.div x s
  (List.range d).map fun l => o.dot p (o.colOf l V)

/-- one head of `DiaM.forward` -/
def diamHead (seq : List Nat) (sqrtd : R) (d : Nat) (Q K V : Mat R) : Mat R :=
  (List.range Q.length).map (o.diamRow seq sqrtd d Q K V)

def diamBatch (c n : Nat) (a : DiaM R) (X : T3 R) : T3 R :=
  let d := c / a.heads
  let y := attnBatch (o.diamHead a.seqIds (o.sqrt (o.ofNat d)) d) a.heads d n
      (o.linearLast3 a.q X) (o.linearLast3 a.k X) (o.linearLast3 a.v X)
  match a.out with
  | none => y
  | some L => o.linearLast3 L y

def diamSample (c n : Nat) (a : DiaM R) (M : Mat R) : Mat R :=
  let d := c / a.heads
  let y := attnSample (o.diamHead a.seqIds (o.sqrt (o.ofNat d)) d) a.heads d n
      (o.linearLast a.q M) (o.linearLast a.k M) (o.linearLast a.v M)
  match a.out with
  | none => y
  | some L => o.linearLast L y

/-- `AiuM.forward` on one token: `tanh(lin_1 x) * lin_2 x` -/
def aiumV (a : AiuM R) (x : Vec R) : Vec R :=
  o.vmul ((o.linearV a.lin1 x).map o.tanh) (o.linearV a.lin2 x)

/-- `ExcelFormerConv.forward` (eval mode: the dropouts are identities) -/
def excelConv (c n : Nat) (θ : ExcelConv R) (X : T3 R) : T3 R :=
  let x := o.layerNormLast3 θ.norm1 X
  let x := o.add3 (o.diamBatch c n θ.diam x) x
  let r := (o.layerNormLast3 θ.norm2 x).map fun M => M.map (o.aiumV θ.aium)
  o.add3 r x

def excelSample (c n : Nat) (θ : ExcelConv R) (M : Mat R) : Mat R :=
  let x := o.layerNormLast θ.norm1 M
  let x := o.addM (o.diamSample c n θ.diam x) x
  let r := (o.layerNormLast θ.norm2 x).map (o.aiumV θ.aium)
  o.addM r x

/-! #### Trompt -/

/-- steps 3-5 of `TromptConv.forward` for one sample, given the sample's `stacked_e_prompt` row block
    `se : [P, c]` and the normalised column embedding `ec : [n, c]` -/
def tromptMix (θ : TromptConv R) (se ec x : Mat R) : Mat R :=
  let m := o.softmaxLast (se.map fun s => ec.map fun e => o.dot s e)            -- [P, n], softmax(dim=-1)
  let z : T3 R := θ.weight.map fun w => x.map fun row => row.map fun v => o.relu (o.mul v w)  -- einsum + relu
  let g := o.groupNormSample θ.groups θ.gnW θ.gnB θ.gnEps z
  let x' := g.map fun zk => o.addM zk x                                        -- group_norm(z) + x
  List.zipWith (fun xk mk => o.sumAxis0 θ.channels (List.zipWith (fun row mv => o.vscale mv row) xk mk)) x' m

def tromptSample (θ : TromptConv R) (x xp : Mat R) : Mat R :=
  let ep := o.layerNormLast θ.lnPrompt θ.embPrompt
  let cat := List.zipWith (fun a b => a ++ b) ep xp
  let se := o.addM (o.addM ep xp) (o.linearLast θ.lin cat)
  o.tromptMix θ se (o.layerNormLast θ.lnCol θ.embCol) x

/-- `TromptConv.forward` after its two shape assertions -/
def tromptConvCore (θ : TromptConv R) (X XP : T3 R) : T3 R :=
  let B := X.length
  let ep := o.layerNormLast θ.lnPrompt θ.embPrompt
  let stackedEp : T3 R := List.replicate B ep                                   -- .repeat(batch_size, 1, 1)
  let cat := List.zipWith (List.zipWith fun a b => a ++ b) stackedEp XP        -- torch.cat(dim=-1)
  let se := o.add3 (o.add3 stackedEp XP) (o.linearLast3 θ.lin cat)
  let stackedEc : T3 R := List.replicate B (o.layerNormLast θ.lnCol θ.embCol)
  List.zipWith (fun f x => f x) (List.zipWith (o.tromptMix θ) se stackedEc) X

/-- `TromptConv.forward`: `none` = `AssertionError` -/
def tromptConv (θ : TromptConv R) (X XP : T3 R) : Option (T3 R) :=
  if hasShape3 X.length θ.numCols θ.channels X && hasShape3 X.length θ.numPrompts θ.channels XP
  then some (o.tromptConvCore θ X XP) else none

end TOps
end TFVerif

/-
Column statistics (`torch_frame/data/stats.py`, `Dataset.materialize` steps 1 and 3) — property C03.

Core Lean only.  The numerical part is generic over the scalar: the arithmetic, the order and the cast from
naturals are type-class parameters, `sqrt` is a function parameter.  `Proofs/Stats.lean` instantiates the
classes with a linearly ordered field, `Drivers/C03.lean` with IEEE doubles.

Two layers, as everywhere in this development:
* the *code-shaped* functions (`numStats`, `seqStats`, `valueCounts`, `multiCounts`, `timeStats`, `embDim`,
  `binaryTargetResort`, `colStats…`) follow `compute_col_stats` / `StatType.compute` step by step
  (inf masking, the all-null test, `dropna`, flatten, the finite mask, sort, index `n/2`, …);
* the *specification* layer (`usable…`, `mean`, `variance`, `quantileAt`, `countsOk`, `encodeCat`) is what the
  property text talks about.
-/
namespace TFVerif.Stats

/-! ## stat types and the `stats_for_stype` / `_default_values` tables -/

/-- `StatType`, in declaration order. -/
inductive StatType where
  | MEAN | STD | QUANTILES | COUNT | MULTI_COUNT | YEAR_RANGE | OLDEST_TIME | NEWEST_TIME | MEDIAN_TIME | EMB_DIM
deriving DecidableEq, Repr, Inhabited

def StatType.name : StatType → String
  | .MEAN => "MEAN" | .STD => "STD" | .QUANTILES => "QUANTILES" | .COUNT => "COUNT"
  | .MULTI_COUNT => "MULTI_COUNT" | .YEAR_RANGE => "YEAR_RANGE" | .OLDEST_TIME => "OLDEST_TIME"
  | .NEWEST_TIME => "NEWEST_TIME" | .MEDIAN_TIME => "MEDIAN_TIME" | .EMB_DIM => "EMB_DIM"

def StatType.all : List StatType :=
  [.MEAN, .STD, .QUANTILES, .COUNT, .MULTI_COUNT, .YEAR_RANGE, .OLDEST_TIME, .NEWEST_TIME, .MEDIAN_TIME, .EMB_DIM]

/-- `torch_frame.stype`, in declaration order. -/
inductive Stype where
  | numerical | categorical | text_embedded | text_tokenized | multicategorical | sequence_numerical
  | timestamp | image_embedded | embedding
deriving DecidableEq, Repr, Inhabited

def Stype.name : Stype → String
  | .numerical => "numerical" | .categorical => "categorical" | .text_embedded => "text_embedded"
  | .text_tokenized => "text_tokenized" | .multicategorical => "multicategorical"
  | .sequence_numerical => "sequence_numerical" | .timestamp => "timestamp"
  | .image_embedded => "image_embedded" | .embedding => "embedding"

def Stype.all : List Stype :=
  [.numerical, .categorical, .text_embedded, .text_tokenized, .multicategorical, .sequence_numerical,
   .timestamp, .image_embedded, .embedding]

/-- `StatType.stats_for_stype` (the dictionary's `.get(stype, [])`). -/
def statsFor : Stype → List StatType
  | .numerical => [.MEAN, .STD, .QUANTILES]
  | .categorical => [.COUNT]
  | .multicategorical => [.MULTI_COUNT]
  | .sequence_numerical => [.MEAN, .STD, .QUANTILES]
  | .timestamp => [.YEAR_RANGE, .NEWEST_TIME, .OLDEST_TIME, .MEDIAN_TIME]
  | .embedding => [.EMB_DIM]
  | _ => []

/-- stypes whose `parent` is `embedding` (their features and names are merged into the embedding group by
    `_merge_feat`), in declaration order. -/
def embGroup : List Stype := [.text_embedded, .image_embedded, .embedding]

/-- `Dataset._update_col_stats`: after materialization every column of the embedding group also carries
    `EMB_DIM` (the width of its block in the stacked tensor); other columns keep `stats_for_stype`. -/
def statsAfterMaterialize (s : Stype) : List StatType :=
  if s ∈ embGroup ∧ StatType.EMB_DIM ∉ statsFor s then statsFor s ++ [.EMB_DIM] else statsFor s

def statsAfterTable : List (String × List String) :=
  Stype.all.map fun s => (s.name, (statsAfterMaterialize s).map StatType.name)

/-- the table in the generated file's format: `(stype name, [stat names])` for every stype. -/
def statsForTable : List (String × List String) :=
  Stype.all.map fun s => (s.name, (statsFor s).map StatType.name)

/-- a neutral default (`_default_values`): what a column with no usable value gets. -/
inductive DefaultVal where
  | nan                        -- `np.nan`
  | nans (n : Nat)             -- a list of `n` NaNs
  | noCounts                   -- `([], [])`
  | ints (xs : List Int)       -- a list / tensor of integers
  | int (x : Int)
deriving DecidableEq, Repr

def defaultOf : StatType → DefaultVal
  | .MEAN => .nan
  | .STD => .nan
  | .QUANTILES => .nans 5
  | .COUNT => .noCounts
  | .MULTI_COUNT => .noCounts
  | .YEAR_RANGE => .ints [-1, -1]
  | .NEWEST_TIME => .ints [-1, -1, -1, -1, -1, -1, -1]
  | .OLDEST_TIME => .ints [-1, -1, -1, -1, -1, -1, -1]
  | .MEDIAN_TIME => .ints [-1, -1, -1, -1, -1, -1, -1]
  | .EMB_DIM => .int (-1)

/-- rendering shared with `harness/tabs/stats.py`: kind tag, length, integer payload. -/
def DefaultVal.render : DefaultVal → String × List Int
  | .nan => ("nan", [])
  | .nans n => ("nans", [n])
  | .noCounts => ("nocounts", [])
  | .ints xs => ("ints", xs)
  | .int x => ("int", [x])

def defaultsTable : List (String × String × List Int) :=
  StatType.all.map fun s => (s.name, (defaultOf s).render)

/-! ## sorting (structural insertion sort, so that closed instances evaluate by `decide`) -/

/-- insert `x` before the first element it is `le` to -/
def insertBy {γ : Type} (le : γ → γ → Bool) (x : γ) : List γ → List γ
  | [] => [x]
  | y :: ys => if le x y then x :: y :: ys else y :: insertBy le x ys

/-- insertion sort by `le` -/
def isort {γ : Type} (le : γ → γ → Bool) : List γ → List γ
  | [] => []
  | x :: xs => insertBy le x (isort le xs)

/-! ## generic scalar layer: mean, population variance, quantiles -/

section Scalar
variable {α : Type} [Add α] [Sub α] [Mul α] [Div α] [Zero α] [NatCast α] [LE α] [DecidableLE α]

/-- a float cell as the statistics see it: a finite value, an infinity, or NaN (= missing). -/
inductive Ext (α : Type) where
  | fin (x : α)
  | posInf
  | negInf
  | nan
deriving Repr, DecidableEq

/-- `ser.mask(ser.isin([inf, -inf]), nan)` -/
def Ext.maskInf : Ext α → Ext α
  | .posInf => .nan
  | .negInf => .nan
  | c => c

def Ext.isNull : Ext α → Bool
  | .nan => true
  | _ => false

/-- `np.isfinite` mask applied: keep the finite values. -/
def finiteVals (cs : List (Ext α)) : List α :=
  cs.filterMap fun | .fin x => some x | _ => none

/-- `np.mean` -/
def mean (xs : List α) : α := xs.sum / (xs.length : α)

/-- `np.std(...)**2` with the default `ddof = 0`: the population variance. -/
def variance (xs : List α) : α :=
  (xs.map fun x => (x - mean xs) * (x - mean xs)).sum / (xs.length : α)

def leB (a b : α) : Bool := decide (a ≤ b)

/-- ascending sort -/
def sortAsc (xs : List α) : List α := isort leB xs

/-- `np.quantile(xs, k/4)` with the default linear interpolation, on an already **sorted** list:
    virtual index `(n-1)·k/4`, lower neighbour `⌊·⌋`, upper neighbour clipped to `n-1`,
    weight = fractional part `((n-1)·k mod 4)/4`. -/
def quantileAt (s : List α) (k : Nat) : α :=
  let n := s.length
  let p := (n - 1) * k
  let lo := p / 4
  let hi := min (lo + 1) (n - 1)
  let a := s.getD lo 0
  let b := s.getD hi 0
  a + (b - a) * (((p % 4 : Nat) : α) / ((4 : Nat) : α))

/-- `np.quantile(xs, q=[0, 0.25, 0.5, 0.75, 1])` -/
def quantiles (xs : List α) : List α :=
  let s := sortAsc xs
  [0, 1, 2, 3, 4].map (quantileAt s)

/-- statistics of a numerical / numerical-sequence column; `none` = NaN. -/
structure NumStats (α : Type) where
  mean : Option α
  std : Option α
  quantiles : List (Option α)
deriving Repr, DecidableEq

/-- the `_default_values` for MEAN / STD / QUANTILES. -/
def NumStats.default : NumStats α := { mean := none, std := none, quantiles := [none, none, none, none, none] }

/-- `StatType.{MEAN,STD,QUANTILES}.compute` on the flattened array: finite mask, the
    `if not finite_mask.any(): return nan` guard, then numpy. -/
def computeNum (sqrt : α → α) (flat : List (Ext α)) : NumStats α :=
  let fin := finiteVals flat
  if fin.isEmpty then { mean := none, std := none, quantiles := [none, none, none, none, none] }
  else { mean := some (mean fin), std := some (sqrt (variance fin)), quantiles := (quantiles fin).map some }

/-- `compute_col_stats(ser, stype.numerical)`: mask infinities, all-null test, `dropna`, compute. -/
def numStats (sqrt : α → α) (cells : List (Ext α)) : NumStats α :=
  let ser := cells.map Ext.maskInf
  if ser.all Ext.isNull then NumStats.default
  else computeNum sqrt (ser.filter fun c => !c.isNull)

/-- `compute_col_stats(ser, stype.sequence_numerical)`: a cell is missing (`none`) or a list that may
    contain NaN / inf; all-null test on the *cells*, `dropna`, `_flatten`, compute. -/
def seqStats (sqrt : α → α) (cells : List (Option (List (Ext α)))) : NumStats α :=
  if cells.all Option.isNone then NumStats.default
  else computeNum sqrt ((cells.filterMap id).flatten)

/-- specification: the usable values of a numerical column / of a sequence column. -/
def usableNum (cells : List (Ext α)) : List α := finiteVals cells
def usableSeq (cells : List (Option (List (Ext α)))) : List α := finiteVals ((cells.filterMap id).flatten)

/-- specification of the three statistics over the usable values. -/
def specNum (sqrt : α → α) (usable : List α) : NumStats α :=
  if usable.isEmpty then NumStats.default
  else { mean := some (mean usable), std := some (sqrt (variance usable)),
         quantiles := (quantiles usable).map some }

end Scalar

/-! ## counts: categorical and multicategorical -/

section Counts
variable {β : Type} [DecidableEq β]

/-- distinct values of a list (one representative per value). -/
def distinct : List β → List β
  | [] => []
  | x :: xs => if x ∈ xs then distinct xs else x :: distinct xs

/-- `[c₀, c₁, …]` is non-increasing. -/
def nonIncreasing : List Nat → Bool
  | a :: b :: rest => decide (b ≤ a) && nonIncreasing (b :: rest)
  | _ => true

/-- `ser.dropna().value_counts(ascending=False)`: every distinct non-missing value with its number of
    occurrences, by non-increasing count.  (The order *among equal counts* is pandas' and is not part of
    the property; the model sorts its own enumeration.) -/
def valueCounts (cells : List (Option β)) : List (β × Nat) :=
  let vals := cells.filterMap id
  let pairs := (distinct vals).map fun v => (v, vals.count v)
  isort (fun a b => decide (b.2 ≤ a.2)) pairs

/-- number of cells equal to `v` — the definition the property refers to. -/
def occurrences (cells : List (Option β)) (v : β) : Nat := (cells.filter fun c => c = some v).length

/-- the decidable acceptance test applied to an *observed* `(categories, counts)` pair:
    duplicate-free, same length, every listed count exact and positive, every occurring value listed,
    counts non-increasing. -/
def countsOk (cells : List (Option β)) (cats : List β) (counts : List Nat) : Bool :=
  decide cats.Nodup && decide (cats.length = counts.length)
  && (cats.zip counts).all (fun p => decide (p.2 = occurrences cells p.1) && decide (0 < p.2))
  && (cells.filterMap id).all (fun v => decide (v ∈ cats))
  && nonIncreasing counts

/-- count listed for `v` in a `(value, count)` table (0 when absent). -/
def lookupCount (tbl : List (β × Nat)) (v : β) : Nat :=
  match tbl.find? (fun p => decide (p.1 = v)) with
  | some p => p.2
  | none => 0

/-- position of a value in a list (`none` when absent). -/
def indexOf? (v : β) : List β → Option Nat
  | [] => none
  | x :: xs => if x = v then some 0 else (indexOf? v xs).map (· + 1)

/-- `CategoricalTensorMapper.forward` on one cell: left-merge against the category list,
    index = position in the list, missing / unseen → −1. -/
def encodeCat (cats : List β) : Option β → Int
  | none => -1
  | some v => match indexOf? v cats with
    | some i => (i : Int)
    | none => -1

/-- multicategorical counts over the per-cell token *sets*: `split_by_sep` already happened, a cell is
    missing or a token list (duplicates possible); `explode().dropna().value_counts()`. -/
def multiCounts (cells : List (Option (List β))) : List (β × Nat) :=
  valueCounts (((cells.filterMap id).flatMap distinct).map some)

/-- number of non-missing cells whose token set contains `t`. -/
def cellsContaining (cells : List (Option (List β))) (t : β) : Nat :=
  (cells.filter fun c => match c with | some l => decide (t ∈ l) | none => false).length

/-- `MultiCategoricalTensorMapper.forward` on one cell, as a *set* of indices (listed in category
    order): missing → `[-1]`, tokens not in the category list are ignored. -/
def encodeMulti (cats : List β) : Option (List β) → List Int
  | none => [-1]
  | some l => (List.range cats.length).filterMap fun (i : Nat) =>
      match cats[i]? with
      | some c => if c ∈ l then some (Int.ofNat i) else none
      | none => none

end Counts

/-- `Dataset.materialize` step 1, binary target: when exactly two classes are listed, re-sort the
    `(class, count)` pairs by class (`pd.Series(index, data).sort_index()`); otherwise unchanged. -/
def binaryTargetResort {β : Type} (lt : β → β → Bool) (pairs : List (β × Nat)) : List (β × Nat) :=
  match pairs with
  | [a, b] => if lt b.1 a.1 then [b, a] else [a, b]
  | ps => ps

/-- `MultiCategoricalTensorMapper.split_by_sep(row, sep)` for a string row: blank → no tokens,
    otherwise the stripped pieces (as a list; set semantics are applied by `distinct`). -/
def splitBySep (row : String) (sep : String) : List String :=
  if row.trimAscii.toString == "" then []
  else (row.splitOn sep).map fun s => s.trimAscii.toString

/-! ## timestamps -/

/-- civil date from days since 1970-01-01 (proleptic Gregorian), Hinnant's algorithm:
    `(year, month 1-12, day 1-31)`. -/
def civilFromDays (z0 : Int) : Int × Int × Int :=
  let z := z0 + 719468
  let era := z / 146097
  let doe := z % 146097
  let yoe := (doe - doe / 1460 + doe / 36524 - doe / 146096) / 365
  let y := yoe + era * 400
  let doy := doe - (365 * yoe + yoe / 4 - yoe / 100)
  let mp := (5 * doy + 2) / 153
  let d := doy - (153 * mp + 2) / 5 + 1
  let m := if mp < 10 then mp + 3 else mp - 9
  (if m ≤ 2 then y + 1 else y, m, d)

def yearOf (secs : Int) : Int := (civilFromDays (secs / 86400)).1

/-- `TimestampTensorMapper.to_tensor` of one time (epoch seconds):
    `[year, month-1, day-1, dayofweek (Mon=0), hour, minute, second]`. -/
def timeComponents (secs : Int) : List Int :=
  let days := secs / 86400
  let rem := secs % 86400
  let (y, m, d) := civilFromDays days
  [y, m - 1, d - 1, (days + 3) % 7, rem / 3600, (rem % 3600) / 60, rem % 60]

/-- statistics of a timestamp column, times kept as epoch seconds (components are taken by the driver). -/
structure TimeStats where
  yearRange : Int × Int
  newest : Option Int       -- `none` = the all-`-1` default tensor
  oldest : Option Int
  median : Option Int
deriving Repr, DecidableEq

def minInt : List Int → Int
  | [] => 0
  | x :: xs => xs.foldl (fun a b => if b < a then b else a) x

def maxInt : List Int → Int
  | [] => 0
  | x :: xs => xs.foldl (fun a b => if a < b then b else a) x

/-- `ser.sort_values().dropna()`: the non-missing times in ascending order -/
def sortedTimes (cells : List (Option Int)) : List Int :=
  isort (fun a b => decide (a ≤ b)) (cells.filterMap id)

/-- `compute_col_stats(ser, stype.timestamp)`; a cell is `none` when missing **or unparseable**
    (`errors='coerce'`).  All-null → defaults; else `sort_values`, `dropna`, then
    `min/max` of the years, `iloc[-1]`, `iloc[0]`, `iloc[len // 2]`. -/
def timeStats (year : Int → Int) (cells : List (Option Int)) : TimeStats :=
  if cells.all Option.isNone then
    { yearRange := (-1, -1), newest := none, oldest := none, median := none }
  else
    let s := sortedTimes cells
    let years := s.map year
    { yearRange := (minInt years, maxInt years),
      newest := s.getLast?, oldest := s.head?, median := s[s.length / 2]? }

/-! ## embeddings -/

/-- `StatType.EMB_DIM.compute(ser.dropna())` = `len(ser.iloc[0])`; default −1 when all cells are missing.
    (`Dataset._update_col_stats` overwrites it with the width of the stacked tensor, which is the common
    width of the vectors.) -/
def embDim {γ : Type} (cells : List (Option (List γ))) : Int :=
  match cells.filterMap id with
  | [] => -1
  | v :: _ => (v.length : Int)

end TFVerif.Stats

/-
Model of `torch_frame.data.tensor_frame.TensorFrame` and `torch_frame.utils.concat`
(properties C07, C08; used by the loader model of C10).  Core Lean only.

Two layers.

* The **frame layer** is written once, generically over the per-feature operations the code
  dispatches to (`FeatOps Φ`: `x[index]`, `feat[:, idx]`, `_cat_tensor_data`, the per-stype branch
  of `__eq__`, the size checks of `validate`).  `Frame.getitem`, `Frame.getColFeat`,
  `Frame.catRow`, `Frame.catCol`, `Frame.eq`, `Frame.validate` follow the code of
  `tensor_frame.py` / `concat.py` statement by statement (one index applied to every feature and
  to `y`, `int -> [int]`, `_num_rows` recomputed through the zero-column dummy tensor,
  `defaultdict` accumulation in order of first appearance, the constructor's `validate`, ...).
* The **feature layer** `Feat α` instantiates `FeatOps` with the concrete storage kinds:
  a dense tensor (`Dense`), a `MultiNestedTensor` (`MNT`, model of C05/C06), a
  `MultiEmbeddingTensor` (`MET`), a dict of `MultiNestedTensor`s and a 1-D tensor (which only
  exists to be rejected by `validate`).  The driver runs the frame layer at `featOps`, so the
  correspondence exercises the real dispatch into `MNT.select` / `MET.select`.

The specification layer is `FeatSpec` (a rows x columns table of cells per feature, `Grid.pick`
for row selection = Python list semantics); the theorems of `Props/C07.lean`, `Props/C08.lean`
hold for every `FeatOps` with a `FeatSpec`; `Dense` is proved to have one in `Proofs/Frame.lean`
(`denseSpec`) and the concrete `Feat` (dense | MultiNestedTensor | MultiEmbeddingTensor | dict) in
`Proofs/FrameRagged.lean` (`featSpec`, from the C05/C06 storage refinement lemmas).
-/
import TFVerif.Model.Ragged

namespace TFVerif.TF
open TFVerif

/-! ### small list / dict helpers -/

/-- Python `d.get(k)` on an insertion-ordered dict given as an association list. -/
def assoc (k : String) : List (String × β) → Option β
  | [] => none
  | (k', v) :: rest => if k' = k then some v else assoc k rest

def keys (d : List (String × β)) : List String := d.map Prod.fst

/-- Python `d1 == d2` for dicts with distinct keys (order-insensitive). -/
def dictEq [BEq β] (a b : List (String × β)) : Bool :=
  a.length == b.length && a.all fun kv => assoc kv.1 b == some kv.2

/-- `a.keys() == b.keys()` (set comparison). -/
def keysSame (a b : List String) : Bool := a.all (b.contains ·) && b.all (a.contains ·)

/-- pointwise Boolean relation on two lists of the same length. -/
def all2 (r : α → β → Bool) : List α → List β → Bool
  | [], [] => true
  | a :: as, b :: bs => r a b && all2 r as bs
  | _, _ => false

/-- pointwise relation on two lists of the same length (specification side). -/
def All2 (R : α → β → Prop) : List α → List β → Prop
  | [], [] => True
  | a :: as, b :: bs => R a b ∧ All2 R as bs
  | _, _ => False

/-- all-or-nothing map (`[f(x) for x in xs]` where `f` may raise). -/
def mapOpt (f : α → Option β) : List α → Option (List β)
  | [] => some []
  | x :: xs => match f x with
    | none => none
    | some y => match mapOpt f xs with
      | none => none
      | some ys => some (y :: ys)

/-- `xs[index]` for a Python list / 1-D tensor: the specification of every row selection. -/
def selectList (xs : List β) (ix : Index) : Option (List β) :=
  (ix.positions xs.length).map (Grid.pick xs)

/-- `dummy[index].size(0)` for `dummy = torch.empty((n, 0))` (`TensorFrame.__getitem__` with an
    explicit `_num_rows`).  PyTorch does not bounds-check an integer index list against a tensor
    without elements unless the indexed dimension itself is empty. -/
def dummyLen (n : Nat) : Index → Option Nat
  | .list is => if n = 0 ∧ is ≠ [] then none else some is.length
  | ix => (ix.positions n).map List.length

/-- `isinstance(index, int): index = [index]`. -/
def intToList : Index → Index
  | .int i => .list [i]
  | ix => ix

/-! ### the per-feature operations `TensorFrame` dispatches to -/

structure FeatOps (Φ : Type) where
  /-- `validate`: every tensor of the feature has `dim() >= 2`, `size(1) = nc`, `size(0) = nr`. -/
  check : Φ → (nc nr : Nat) → Bool
  /-- `len(feat)` (for a dict: of its first value). -/
  len : Φ → Nat
  /-- `x[index]` (dict: every value). `none` = raises. -/
  select : Φ → Index → Option Φ
  /-- `feat[:, idx]` as `get_col_feat` returns it. -/
  col : Φ → Nat → Option Φ
  /-- `_cat_tensor_data(list, dim=0)`. -/
  catRows : List Φ → Option Φ
  /-- `_cat_tensor_data(list, dim=1)`. -/
  catCols : List Φ → Option Φ
  /-- the branch of `TensorFrame.__eq__` for this storage kind (`allclose(..., equal_nan=True)`). -/
  close : Φ → Φ → Bool

/-! ### TensorFrame -/

structure Frame (Φ β : Type) where
  /-- `feat_dict` in insertion order -/
  feats : List (String × Φ)
  /-- `col_names_dict` in insertion order -/
  names : List (String × List String)
  /-- the target, a 1-D tensor -/
  y : Option (List β)
  /-- `_num_rows` -/
  numRowsOpt : Option Nat

namespace Frame
variable {Φ β : Type}

/-- the `num_rows` property. -/
def numRows (ops : FeatOps Φ) (f : Frame Φ β) : Nat :=
  match f.numRowsOpt with
  | some n => n
  | none =>
    match f.feats with
    | [] => 0
    | (_, φ) :: _ => ops.len φ

/-- `validate()`; `false` = raises. -/
def validate (ops : FeatOps Φ) (f : Frame Φ β) : Bool :=
  let n := f.numRows ops
  keysSame (keys f.feats) (keys f.names) &&
  (f.feats.all fun sφ =>
    match assoc sφ.1 f.names with
    | none => false
    | some ns => ns.length != 0 && ops.check sφ.2 ns.length n) &&
  (match f.y with
   | none => true
   | some y => y.length == n)

/-- the constructor: `none` = raises. -/
def make (ops : FeatOps Φ) (feats : List (String × Φ)) (names : List (String × List String))
    (y : Option (List β)) (nr : Option Nat) : Option (Frame Φ β) :=
  let f : Frame Φ β := { feats, names, y, numRowsOpt := nr }
  if f.validate ops then some f else none

/-- `fn` applied to every entry of `feat_dict`. -/
def selectFeats (ops : FeatOps Φ) (ix : Index) : List (String × Φ) → Option (List (String × Φ))
  | [] => some []
  | (s, φ) :: rest =>
    match ops.select φ ix with
    | none => none
    | some φ' =>
      match selectFeats ops ix rest with
      | none => none
      | some rest' => some ((s, φ') :: rest')

/-- `__getitem__`; `none` = raises.  The result is a shallow copy: it is not re-validated. -/
def getitem (ops : FeatOps Φ) (f : Frame Φ β) (ix : Index) : Option (Frame Φ β) :=
  let ix := intToList ix
  match selectFeats ops ix f.feats with
  | none => none
  | some feats =>
    let y' : Option (Option (List β)) :=
      match f.y with
      | none => some none
      | some y => (selectList y ix).map some
    match y' with
    | none => none
    | some y =>
      let nr' : Option (Option Nat) :=
        match f.numRowsOpt with
        | none => some none
        | some _ => (dummyLen (f.numRows ops) ix).map some
      match nr' with
      | none => none
      | some nr => some { feats := feats, names := f.names, y := y, numRowsOpt := nr }

/-- a chain `tf[ix1][ix2]...`. -/
def getitemChain (ops : FeatOps Φ) (f : Frame Φ β) : List Index → Option (Frame Φ β)
  | [] => some f
  | ix :: rest =>
    match f.getitem ops ix with
    | none => none
    | some f' => getitemChain ops f' rest

/-- `_col_to_stype_idx`: built in `__init__` by iterating `col_names_dict`; a later entry
    overwrites an earlier one with the same column name. -/
def colTable (names : List (String × List String)) : List (String × (String × Nat)) :=
  names.flatMap fun sn => sn.2.zipIdx.map fun ci => (ci.1, (sn.1, ci.2))

def lookupLast (k : String) (d : List (String × γ)) : Option γ := assoc k d.reverse

/-- `get_col_feat(col_name, return_stype=True)`; `none` = raises. -/
def getColFeat (ops : FeatOps Φ) (f : Frame Φ β) (name : String) : Option (Φ × String) :=
  match lookupLast name (colTable f.names) with
  | none => none
  | some (s, idx) =>
    match assoc s f.feats with
    | none => none
    | some φ => (ops.col φ idx).map fun c => (c, s)

/-- keys of a `defaultdict` filled by iterating the frames in order. -/
def addKeys (acc : List String) : List String → List String
  | [] => acc
  | k :: ks => if acc.contains k then addKeys acc ks else addKeys (acc ++ [k]) ks

def keyUnion (ds : List (List String)) : List String := ds.foldl addKeys []

/-- `_cat_helper`: per stype (in order of first appearance) the list of the parts' features that
    have it, concatenated by `_cat_tensor_data`. -/
def catHelper (cat : List Φ → Option Φ) (fs : List (Frame Φ β)) : Option (List (String × Φ)) :=
  mapOpt (fun s => (cat (fs.filterMap fun f => assoc s f.feats)).map fun φ => (s, φ))
    (keyUnion (fs.map fun f => keys f.feats))

/-- `_cat_row`. -/
def catRow (ops : FeatOps Φ) (fs : List (Frame Φ β)) : Option (Frame Φ β) :=
  match fs with
  | [] => none
  | f0 :: rest =>
    if rest.any (fun f => !dictEq f.names f0.names) then none
    else if fs.any (fun f => f.y.isSome != f0.y.isSome) then none
    else
      let y := if f0.y.isSome then some (fs.flatMap fun f => f.y.getD []) else none
      match catHelper ops.catRows fs with
      | none => none
      | some feats => make ops feats f0.names y none

def hasDup : List String → Bool
  | [] => false
  | x :: xs => xs.contains x || hasDup xs

/-- merged `col_names_dict` of `_cat_col` (a `defaultdict(list)` extended part by part). -/
def mergeNames (fs : List (Frame Φ β)) : List (String × List String) :=
  (keyUnion (fs.map fun f => keys f.names)).map fun s =>
    (s, fs.flatMap fun f => (assoc s f.names).getD [])

/-- `_cat_col`. -/
def catCol (ops : FeatOps Φ) (fs : List (Frame Φ β)) : Option (Frame Φ β) :=
  match fs with
  | [] => none
  | _ =>
    let ys := fs.filterMap (·.y)
    if ys.length > 1 then none
    else
      let names := mergeNames fs
      if names.any (fun sn => hasDup sn.2) then none
      else
        match catHelper ops.catCols fs with
        | none => none
        | some feats => make ops feats names ys.head? none

/-- `torch_frame.cat(tf_list, dim)`. -/
def cat (ops : FeatOps Φ) (fs : List (Frame Φ β)) (dim : Int) : Option (Frame Φ β) :=
  if dim = 0 then catRow ops fs else if dim = 1 then catCol ops fs else none

/-- the target branch of `__eq__`: both `None`, or both tensors with `torch.allclose(other.y, self.y)`. -/
def yClose (closeY : β → β → Bool) : Option (List β) → Option (List β) → Bool
  | some ya, some yb => all2 closeY yb ya
  | none, none => true
  | _, _ => false

/-- one iteration of the `for stype_name, self_feat in self.feat_dict.items()` loop of `__eq__`. -/
def featCloseIn (ops : FeatOps Φ) (bfeats : List (String × Φ)) (sφ : String × Φ) : Bool :=
  match assoc sφ.1 bfeats with
  | none => false
  | some ψ => ops.close sφ.2 ψ

/-- `__eq__` against another TensorFrame.  `closeY other self` is `torch.allclose(other.y, self.y)`.
    (`other.feat_dict[stype]` would raise `KeyError` for a missing stype; unreachable for
    constructed frames once the name tables are equal — modelled as `false`.) -/
def eq (ops : FeatOps Φ) (closeY : β → β → Bool) (a b : Frame Φ β) : Bool :=
  a.numRows ops == b.numRows ops && yClose closeY a.y b.y && dictEq a.names b.names &&
    a.feats.all (featCloseIn ops b.feats)

end Frame

/-! ### concrete storage kinds -/

/-- a dense `torch.Tensor` of shape `[R, C]` (`depth = none`) or `[R, C, d]` (`depth = some d`);
    a cell is the list of the trailing entries (a singleton for a 2-D tensor). -/
structure Dense (α : Type) where
  numCols : Nat
  depth : Option Nat
  rows : List (List (List α))
deriving Repr, DecidableEq

namespace Dense
variable {α : Type}

/-- `x[index]` on the first axis of a tensor = the Python list selection of its rows. -/
def select (d : Dense α) (ix : Index) : Option (Dense α) :=
  (ix.positions d.rows.length).map fun ps => { d with rows := Grid.pick d.rows ps }

/-- `feat[:, idx].unsqueeze(1)`. -/
def col (d : Dense α) (j : Nat) : Option (Dense α) :=
  if j < d.numCols then
    some { numCols := 1, depth := d.depth, rows := d.rows.map fun r => Grid.pick r [j] }
  else none

/-- `torch.cat(list, dim=0)` (two or more operands): all other dimensions must agree. -/
def catRows (ds : List (Dense α)) : Option (Dense α) :=
  match ds with
  | [] => none
  | d0 :: _ =>
    if ds.all (fun d => d.numCols == d0.numCols && d.depth == d0.depth) then
      some { numCols := d0.numCols, depth := d0.depth, rows := ds.flatMap (·.rows) }
    else none

/-- `torch.cat(list, dim=1)`. -/
def catCols (ds : List (Dense α)) : Option (Dense α) :=
  match ds with
  | [] => none
  | d0 :: _ =>
    if ds.all (fun d => d.rows.length == d0.rows.length && d.depth == d0.depth) then
      some { numCols := (ds.map (·.numCols)).sum, depth := d0.depth
             rows := (List.range d0.rows.length).map fun r => ds.flatMap fun d => d.rows.getD r [] }
    else none

/-- `a.shape == b.shape and torch.allclose(a, b, equal_nan=True)`. -/
def close (cl : α → α → Bool) (a b : Dense α) : Bool :=
  a.rows.length == b.rows.length && a.numCols == b.numCols && a.depth == b.depth &&
    all2 (all2 (all2 cl)) a.rows b.rows

end Dense

/-- the constructor assertions of `MultiEmbeddingTensor`. -/
def metValid (m : MET α) : Bool := m.offset.head? == some 0 && m.offset.length == m.numCols + 1

def mntOk (o : Option (MNT α)) : Option (MNT α) := o.bind fun m => if m.validate then some m else none
def metOk (o : Option (MET α)) : Option (MET α) := o.bind fun m => if metValid m then some m else none

/-- `_MultiTensor.allclose(a, b, equal_nan=True)`; offsets are integer tensors far below the size at
    which `allclose`'s relative tolerance could identify two different integers. -/
def mntClose (cl : α → α → Bool) (a b : MNT α) : Bool :=
  a.numRows == b.numRows && a.numCols == b.numCols && all2 cl a.values b.values && a.offset == b.offset

def metClose (cl : α → α → Bool) (a b : MET α) : Bool :=
  a.numRows == b.numRows && a.numCols == b.numCols && a.values.length == b.values.length &&
    a.width == b.width && all2 (all2 cl) a.values b.values && a.offset == b.offset

/-- `TensorData`. -/
inductive Feat (α : Type) where
  | dense (d : Dense α)
  | nested (m : MNT α)
  | emb (m : MET α)
  | dict (kvs : List (String × MNT α))
  /-- a 1-D tensor: `validate` rejects it (`dim() < 2`). -/
  | flat (xs : List α)

namespace Feat
variable {α : Type}

def check (nc nr : Nat) : Feat α → Bool
  | dense d => d.numCols == nc && d.rows.length == nr
  | nested m => m.numCols == nc && m.numRows == nr
  | emb m => m.numCols == nc && m.numRows == nr
  | dict kvs => kvs.all fun kv => kv.2.numCols == nc && kv.2.numRows == nr
  | flat _ => false

def len : Feat α → Nat
  | dense d => d.rows.length
  | nested m => m.numRows
  | emb m => m.numRows
  | dict kvs => match kvs with
    | [] => 0
    | kv :: _ => kv.2.numRows
  | flat xs => xs.length

def select (ft : Feat α) (ix : Index) : Option (Feat α) :=
  match ft with
  | dense d => (d.select ix).map dense
  | nested m => (mntOk (m.select ix 0)).map nested
  | emb m => (metOk (m.select ix 0)).map emb
  | dict kvs => (mapOpt (fun kv => (mntOk (kv.2.select ix 0)).map fun m => (kv.1, m)) kvs).map dict
  | flat xs => (selectList xs ix).map flat

def col (ft : Feat α) (j : Nat) : Option (Feat α) :=
  match ft with
  | dense d => (d.col j).map dense
  | nested m => (mntOk (m.select (.int j) 1)).map nested
  | emb m => (metOk (m.select (.int j) 1)).map emb
  | dict kvs => (mapOpt (fun kv => (mntOk (kv.2.select (.int j) 1)).map fun m => (kv.1, m)) kvs).map dict
  | flat _ => none

def asDense : Feat α → Option (Dense α) | dense d => some d | _ => none
def asNested : Feat α → Option (MNT α) | nested m => some m | _ => none
def asEmb : Feat α → Option (MET α) | emb m => some m | _ => none
def asDict : Feat α → Option (List (String × MNT α)) | dict kvs => some kvs | _ => none
def asFlat : Feat α → Option (List α) | flat xs => some xs | _ => none

/-- `_cat_tensor_data(td_list, dim)`: a single operand is returned as is; operands must be of one
    class; a dict is concatenated per key of the first operand (`KeyError` if another lacks it). -/
def cat (dim : Nat) (fts : List (Feat α)) : Option (Feat α) :=
  match fts with
  | [] => none
  | [ft] => some ft
  | ft0 :: _ =>
    match ft0 with
    | dense _ =>
      (mapOpt asDense fts).bind fun ds => ((if dim = 0 then Dense.catRows ds else Dense.catCols ds)).map dense
    | nested _ =>
      (mapOpt asNested fts).bind fun ms =>
        (mntOk (if dim = 0 then MNT.catRows ms else MNT.catCols ms)).map nested
    | emb _ =>
      (mapOpt asEmb fts).bind fun ms =>
        (metOk (if dim = 0 then MET.catRows ms else MET.catCols ms)).map emb
    | dict kvs0 =>
      (mapOpt asDict fts).bind fun ds =>
        (mapOpt (fun kv : String × MNT α =>
          (mapOpt (fun d => assoc kv.1 d) ds).bind fun ms =>
            (mntOk (if dim = 0 then MNT.catRows ms else MNT.catCols ms)).map fun m => (kv.1, m)) kvs0).map dict
    | flat _ =>
      -- torch.cat of 1-D tensors: dim 0 concatenates, dim 1 raises
      if dim = 0 then (mapOpt asFlat fts).map fun xs => flat xs.flatten else none

def close (cl : α → α → Bool) : Feat α → Feat α → Bool
  | dense a, dense b => Dense.close cl a b
  | nested a, nested b => mntClose cl a b
  | emb a, emb b => metClose cl a b
  | dict a, dict b =>
    keysSame (keys a) (keys b) &&
      a.all fun kv => match assoc kv.1 b with
        | none => false
        | some m => mntClose cl kv.2 m
  | flat a, flat b => all2 cl a b
  | _, _ => false

end Feat

/-- the operations of the concrete storage kinds. -/
def featOps (cl : α → α → Bool) : FeatOps (Feat α) where
  check := fun ft nc nr => ft.check nc nr
  len := Feat.len
  select := Feat.select
  col := Feat.col
  catRows := Feat.cat 0
  catCols := Feat.cat 1
  close := Feat.close cl

/-- the operations of a frame all of whose features are dense tensors. -/
def denseOps (cl : α → α → Bool) : FeatOps (Dense α) where
  check := fun d nc nr => d.numCols == nc && d.rows.length == nr
  len := fun d => d.rows.length
  select := Dense.select
  col := Dense.col
  catRows := fun ds => match ds with
    | [d] => some d
    | _ => Dense.catRows ds
  catCols := fun ds => match ds with
    | [d] => some d
    | _ => Dense.catCols ds
  close := Dense.close cl

/-! ### specification layer -/

/-- What a storage kind must satisfy for the frame theorems: an abstraction of a feature to a
    rows x columns table of cells (`grid`), a kind/shape tag and per-column metadata (what `==`
    and `cat` look at besides the cells), such that every operation of `FeatOps` refines the
    corresponding Python-list operation on the table. -/
structure FeatSpec {Φ : Type} (ops : FeatOps Φ) (κ τ ω : Type) where
  wf : Φ → Prop
  tag : Φ → τ
  colMeta : Φ → List ω
  grid : Φ → List (List κ)
  cellClose : κ → κ → Prop
  grid_len : ∀ φ, wf φ → (grid φ).length = ops.len φ
  grid_row : ∀ φ, wf φ → ∀ r ∈ grid φ, r.length = (colMeta φ).length
  check_iff : ∀ φ nc nr, wf φ → (ops.check φ nc nr = true ↔ (colMeta φ).length = nc ∧ ops.len φ = nr)
  select_none : ∀ φ ix, wf φ → (ops.select φ ix = none ↔ ix.positions (ops.len φ) = none)
  select_some : ∀ φ ix φ', wf φ → ops.select φ ix = some φ' →
    wf φ' ∧ tag φ' = tag φ ∧ colMeta φ' = colMeta φ ∧
      ∃ ps, ix.positions (ops.len φ) = some ps ∧ grid φ' = Grid.pick (grid φ) ps
  col_spec : ∀ φ j, wf φ → j < (colMeta φ).length →
    ∃ φ', ops.col φ j = some φ' ∧ wf φ' ∧ tag φ' = tag φ ∧ colMeta φ' = Grid.pick (colMeta φ) [j] ∧
      grid φ' = (grid φ).map fun r => Grid.pick r [j]
  catRows_spec : ∀ φ0 φs, (∀ φ ∈ φ0 :: φs, wf φ ∧ tag φ = tag φ0 ∧ colMeta φ = colMeta φ0) →
    ∃ φ', ops.catRows (φ0 :: φs) = some φ' ∧ wf φ' ∧ tag φ' = tag φ0 ∧ colMeta φ' = colMeta φ0 ∧
      grid φ' = (φ0 :: φs).flatMap grid
  catCols_spec : ∀ φ0 φs, (∀ φ ∈ φ0 :: φs, wf φ ∧ tag φ = tag φ0 ∧ ops.len φ = ops.len φ0) →
    ∃ φ', ops.catCols (φ0 :: φs) = some φ' ∧ wf φ' ∧ tag φ' = tag φ0 ∧ ops.len φ' = ops.len φ0 ∧
      colMeta φ' = (φ0 :: φs).flatMap colMeta ∧
      grid φ' = (List.range (ops.len φ0)).map fun r => (φ0 :: φs).flatMap fun φ => (grid φ).getD r []
  close_iff : ∀ φ ψ, wf φ → wf ψ →
    (ops.close φ ψ = true ↔ tag φ = tag ψ ∧ colMeta φ = colMeta ψ ∧ All2 (All2 cellClose) (grid φ) (grid ψ))

/-- The invariant of a constructed `TensorFrame` with `n` rows, in terms of the specification of
    its features: distinct dict keys, `feat_dict` and `col_names_dict` have the same keys, every
    feature is well formed, has `n` rows and as many columns as (non-empty) names, the target has
    `n` entries, and `num_rows` reports `n`. -/
structure Frame.WF {Φ β κ τ ω : Type} {ops : FeatOps Φ} (spec : FeatSpec ops κ τ ω)
    (f : Frame Φ β) (n : Nat) : Prop where
  featKeys : (keys f.feats).Nodup
  nameKeys : (keys f.names).Nodup
  sameKeys : ∀ s, s ∈ keys f.feats ↔ s ∈ keys f.names
  feat_ok : ∀ s φ, (s, φ) ∈ f.feats → spec.wf φ ∧ ops.len φ = n ∧
    ∃ ns, assoc s f.names = some ns ∧ ns.length = (spec.colMeta φ).length ∧ ns ≠ []
  y_ok : ∀ y, f.y = some y → y.length = n
  nr_ok : f.numRows ops = n

/-- the positions of the original rows selected by a chain of selections, by Python-list
    semantics: each index expression is applied to the list produced by the previous one. -/
def chainPositions (n : Nat) : List Index → Option (List Nat)
  | [] => some (List.range n)
  | ix :: rest =>
    match ix.positions n with
    | none => none
    | some ps =>
      match chainPositions ps.length rest with
      | none => none
      | some qs => some (Grid.pick ps qs)

/-- all column names of a frame, group by group. -/
def allNames (names : List (String × List String)) : List String := names.flatMap (·.2)

end TFVerif.TF

/-
The two decoders of `torch_frame.nn.decoder` (property C15).  Core Lean only.
-/
import TFVerif.Model.Tensor

namespace TFVerif

/-- `ExcelFormerDecoder`: `lin_f : Linear(num_cols, out)`, `PReLU()` (one weight), `lin_d : Linear(in, 1)` -/
structure ExcelDec (R : Type) where
  linF : Linear R
  act : R
  linD : Linear R
  inChannels : Nat
  outChannels : Nat

/-- `TromptDecoder`: `lin_attn : Linear(in, 1)`, `mlp = Linear, ReLU, LayerNorm, Linear` -/
structure TromptDec (R : Type) where
  linAttn : Linear R
  lin1 : Linear R
  norm : LNorm R
  lin2 : Linear R
  inChannels : Nat
  numPrompts : Nat

namespace TOps
variable {R : Type} (o : TOps R)

/-- `ExcelFormerDecoder.forward` on one sample `[n, c]`:
    `x.T -> lin_f -> prelu -> .T -> lin_d -> squeeze` -/
def excelDecSample (θ : ExcelDec R) (M : Mat R) : Vec R :=
  let xt := o.transposeW θ.inChannels M                                   -- [c, n]
  let h := (o.linearLast θ.linF xt).map fun v => v.map (o.prelu θ.act)     -- [c, out]
  let ht := o.transposeW θ.outChannels h                                   -- [out, c]
  (o.linearLast θ.linD ht).map fun v => v.getD 0 o.zero                    -- [out, 1] -> squeeze(2)

/-- the transposes act on axes 1 and 2 only: the batch axis is mapped over -/
def excelDec (θ : ExcelDec R) (X : T3 R) : Mat R := X.map (o.excelDecSample θ)

/-- `TromptDecoder.forward` on one sample `[P, c]`: `softmax(lin_attn(x), dim=prompts)`, weighted sum, mlp -/
def tromptDecSample (θ : TromptDec R) (xp : Mat R) : Vec R :=
  let a := o.linearLast θ.linAttn xp                                       -- [P, 1]
  let w := o.softmaxAxis0 1 a                                              -- F.softmax(dim=1) of [B, P, 1]
  let s := o.sumAxis0 θ.inChannels (List.zipWith (fun wr row => o.vscale (wr.getD 0 o.zero) row) w xp)
  o.linearV θ.lin2 (o.layerNormV θ.norm ((o.linearV θ.lin1 s).map o.relu))

def tromptDecCore (θ : TromptDec R) (X : T3 R) : Mat R := X.map (o.tromptDecSample θ)

/-- `TromptDecoder.forward`: `none` = `AssertionError` (shape differs from `(B, num_prompts, in_channels)`) -/
def tromptDec (θ : TromptDec R) (X : T3 R) : Option (Mat R) :=
  if hasShape3 X.length θ.numPrompts θ.inChannels X then some (o.tromptDecCore θ X) else none

end TOps
end TFVerif

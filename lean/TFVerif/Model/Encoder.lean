/-
Model of `torch_frame/nn/encoder/stype_encoder.py` and `stypewise_encoder.py` (properties C12, C13).
Core Lean only.  Generic over the scalar record `SOps R` (driver: `Float`; theorems: any `R`, and the
NaN-lifted `Option R`).

Layers
  1. decision tables   : stypes (canonical order, parent), NA strategies, encoder classes,
                         `supported_stypes`, the NA-strategy validation of `StypeEncoder.init_modules`
  2. tensor combinators: [B][C] matrices as `List (List α)`, broadcast against a per-column list
                         (`bcast2`), element-wise passes (`map2`, `zip2`), `torch.stack(cols, dim=1)`
                         (`stackDim1`), the einsum contractions
  3. the nine built-in encoders' `encode_forward` in *batched* form: the same whole-tensor passes as the
     code (broadcast subtract / divide, einsum, bias add, column loops followed by `stack(dim=1)`,
     masks), NOT per-cell formulas.  The per-cell formulas (`cell*`) are the specification layer;
     `Proofs/Encoder.lean` proves that the batched form computes them.
  4. `init_modules` (buffers from the column statistics: mean, std+1e-6, boundaries, offsets, min_year,
     fill_values) and the `forward` pipeline  na_forward → encode_forward → nan_to_num → post_forward
  5. `StypeWiseFeatureEncoder`: per-stype wiring, canonical stype order, `torch.cat(dim=1)`, names.

`none` / `Except.error` stand for "raises".
-/
import TFVerif.Model.Scalar

namespace TFVerif.Enc

/-! ## 1. decision tables -/

/-- `torch_frame.stype`, members in declaration order (= the canonical order of `TensorFrame.stypes`). -/
inductive Stype where
  | numerical | categorical | text_embedded | text_tokenized | multicategorical
  | sequence_numerical | timestamp | image_embedded | embedding
deriving DecidableEq, Repr, Inhabited

def Stype.all : List Stype :=
  [.numerical, .categorical, .text_embedded, .text_tokenized, .multicategorical,
   .sequence_numerical, .timestamp, .image_embedded, .embedding]

def Stype.parent : Stype → Stype
  | .text_embedded => .embedding
  | .image_embedded => .embedding
  | s => s

/-- `torch_frame.NAStrategy` -/
inductive NA where
  | mean | mostFrequent | zeros | oldest | newest | median
deriving DecidableEq, Repr, Inhabited

def NA.all : List NA := [.mean, .mostFrequent, .zeros, .oldest, .newest, .median]

/-- the `StypeEncoder` subclasses of `stype_encoder.py` -/
inductive EncClass where
  | embedding | multiCategorical | linear | stack | linearBucket | linearPeriodic | excelFormer
  | linearEmbedding | linearModel | timestamp
deriving DecidableEq, Repr, Inhabited

def EncClass.all : List EncClass :=
  [.embedding, .multiCategorical, .linear, .stack, .linearBucket, .linearPeriodic, .excelFormer,
   .linearEmbedding, .linearModel, .timestamp]

/-- `<class>.supported_stypes`, listed in canonical stype order -/
def supported : EncClass → List Stype
  | .embedding => [.categorical]
  | .multiCategorical => [.multicategorical]
  | .linear | .stack | .linearBucket | .linearPeriodic | .excelFormer => [.numerical]
  | .linearEmbedding => [.embedding]
  | .linearModel => [.numerical, .categorical, .text_embedded, .text_tokenized, .multicategorical,
                     .timestamp, .embedding]
  | .timestamp => [.timestamp]

/-- the `if/elif` chain at the top of `StypeEncoder.init_modules` (keyed by `self.stype`) -/
def naValid : Stype → NA → Bool
  | .numerical, na => na == .mean || na == .zeros
  | .categorical, na => na == .mostFrequent
  | .multicategorical, na => na == .zeros
  | .timestamp, na => na == .newest || na == .oldest || na == .median
  | .embedding, _ => false
  | _, _ => true

/-- does `StatType.stats_for_stype(stype)` contain the statistic the strategy's fill value reads? -/
def fillAvailable : Stype → NA → Bool
  | _, .mostFrequent => true
  | _, .zeros => true
  | st, .mean => st == .numerical || st == .sequence_numerical
  | st, _ => st == .timestamp

/-- construction of a `StypeEncoder` of stype `st` with `na_strategy = na` is accepted -/
def naOk (st : Stype) : Option NA → Bool
  | none => true
  | some na => naValid st na && fillAvailable st na

/-- `StypeWiseFeatureEncoder.__init__` accepts `{st: cls(na_strategy=na)}` when `st` has columns -/
def wiseOk (c : EncClass) (st : Stype) (na : Option NA) : Bool :=
  st.parent == st && (supported c).contains st && naOk st na

def allTriples : List (EncClass × Stype × Option NA) :=
  EncClass.all.flatMap fun c => Stype.all.flatMap fun s =>
    (none :: NA.all.map some).map fun n => (c, s, n)

/-- table forms compared with the generated tables -/
def supportedTable : List (EncClass × List Stype) := EncClass.all.map fun c => (c, supported c)
def directAccepted : List (EncClass × Stype × Option NA) :=
  allTriples.filter fun (c, s, n) => (supported c).contains s && naOk s n
def wiseAccepted : List (EncClass × Stype × Option NA) :=
  allTriples.filter fun (c, s, n) => wiseOk c s n

/-! ## 2. tensor combinators -/

abbrev Mat (α : Type) := List (List α)
abbrev T3 (α : Type) := List (List (List α))

/-- entry `[r, c]` of a `[B][C]` matrix -/
def cell {α : Type} (x : Mat α) (r c : Nat) : Option α := (x[r]?).bind (·[c]?)

/-- `[B, C] ∘ [C]` with broadcasting over the batch axis -/
def bcast2 {α β γ : Type} (f : α → β → γ) (x : Mat α) (v : List β) : Mat γ :=
  x.map fun row => List.zipWith f row v

def map2 {α β : Type} (f : α → β) (x : Mat α) : Mat β := x.map (·.map f)

def zip2 {α β γ : Type} (f : α → β → γ) (x : Mat α) (y : Mat β) : Mat γ :=
  List.zipWith (List.zipWith f) x y

/-- `torch.stack(cols, dim=1)` of `C` tensors with leading dimension `B` -/
def stackDim1 {β : Type} (B : Nat) (cols : List (List β)) : Mat β :=
  (List.range B).map fun b => cols.filterMap (·[b]?)

/-- rows `idx` of a batch (`tf[idx]` on the dense level): out-of-range positions are dropped -/
def selectRows {α : Type} (idx : List Nat) (x : List α) : List α := idx.filterMap (x[·]?)

section ops
variable {R : Type} (S : SOps R)

/-- `einsum('k,kl->l')` : `out[l] = Σ_k x[k]·W[k][l]`, `ch` output channels -/
def vecMat (x : List R) (W : Mat R) (ch : Nat) : List R :=
  (List.range ch).map fun l =>
    S.sum (List.zipWith (fun xk wk => S.mul xk (wk.getD l S.zero)) x W)

/-- `einsum('kl,klm->m')` -/
def matT3 (x : Mat R) (W : T3 R) (ch : Nat) : List R :=
  (List.range ch).map fun m =>
    S.sum (List.zipWith (fun xk Wk =>
      List.zipWith (fun xkl wkl => S.mul xkl (wkl.getD m S.zero)) xk Wk) x W).flatten

/-! ## 3. encoders -/

/-- the registered buffers `mean`, `std` (`std` already holds `STD + 1e-6`) -/
structure Norm (R : Type) where
  mean : List R
  std : List R

/-- `(feat - self.mean) / self.std` -/
def normalize (n : Norm R) (feat : Mat R) : Mat R :=
  bcast2 S.div (bcast2 S.sub feat n.mean) n.std

/-- `LinearEncoder.encode_forward` -/
def linearEncode (n : Norm R) (weight bias : Mat R) (feat : Mat R) : T3 R :=
  let f := normalize S n feat
  -- einsum("ij,jk->ijk", feat, weight)
  let xlin := bcast2 (fun a wj => wj.map (S.mul a)) f weight
  -- x_lin + bias
  bcast2 (fun v bj => List.zipWith S.add v bj) xlin bias

def cellLinear (m s : R) (w b : List R) (x : R) : List R :=
  List.zipWith S.add (w.map (S.mul (S.div (S.sub x m) s))) b

/-- `StackEncoder.encode_forward` -/
def stackEncode (n : Norm R) (ch : Nat) (feat : Mat R) : T3 R :=
  map2 (fun a => List.replicate ch a) (normalize S n feat)

def cellStack (m s : R) (ch : Nat) (x : R) : List R := List.replicate ch (S.div (S.sub x m) s)

/-- `torch.bucketize(x, bs)` (right=False) for sorted `bs`; NaN goes to the last bucket -/
def bucketize (bs : List R) (x : R) : Nat :=
  if S.isNaN x then bs.length else bs.countP (fun b => S.lt b x)

/-- the row of `greater_mask` (with `frac` written at the bucket index) for one value -/
def bucketRow (bnd : List R) (x : R) : List R :=
  let k := bucketize S ((bnd.drop 1).dropLast) x
  let st := bnd.getD k S.zero
  let en := bnd.getD (k + 1) S.zero
  let frac := S.div (S.sub x st) (S.add (S.sub en st) (S.ofSci 1 8))
  (bnd.dropLast.map fun b => if S.lt b x then S.one else S.zero).set k frac

/-- `LinearBucketEncoder.encode_forward`: loop over columns, `torch.stack(dim=1)`, einsum, bias -/
def bucketEncode (boundaries : Mat R) (weight : T3 R) (bias : Mat R) (ch C : Nat) (feat : Mat R) : T3 R :=
  let cols := (List.range C).map fun i =>
    (feat.map (·.getD i S.zero)).map (bucketRow S (boundaries.getD i []))
  let out := stackDim1 feat.length cols
  -- einsum("ijk,jkl->ijl", out, weight)
  let xlin := bcast2 (fun v Wj => vecMat S v Wj ch) out weight
  bcast2 (fun v bj => List.zipWith S.add v bj) xlin bias

def cellBucket (bnd : List R) (W : Mat R) (b : List R) (ch : Nat) (x : R) : List R :=
  List.zipWith S.add (vecMat S (bucketRow S bnd x) W ch) b

/-- `LinearPeriodicEncoder.encode_forward` -/
def periodicEncode (n : Norm R) (linIn : Mat R) (linOut : T3 R) (ch : Nat) (feat : Mat R) : T3 R :=
  let f := normalize S n feat
  -- v = 2 * torch.pi * self.linear_in[None] * feat[..., None]
  let v := bcast2 (fun a lj => lj.map fun w => S.mul (S.mul (S.mul S.two S.pi) w) a) f linIn
  let sc := map2 (fun vs => vs.map S.sin ++ vs.map S.cos) v
  bcast2 (fun x Wj => vecMat S x Wj ch) sc linOut

def cellPeriodic (m s : R) (lin : List R) (W : Mat R) (ch : Nat) (x : R) : List R :=
  let a := S.div (S.sub x m) s
  let vs := lin.map fun w => S.mul (S.mul (S.mul S.two S.pi) w) a
  vecMat S (vs.map S.sin ++ vs.map S.cos) W ch

/-- `ExcelFormerEncoder.encode_forward` -/
def excelEncode (n : Norm R) (w1 w2 b1 b2 : Mat R) (feat : Mat R) : T3 R :=
  let f := normalize S n feat
  let x1 := bcast2 (fun v bj => List.zipWith S.add v bj)
              (bcast2 (fun a wj => wj.map fun w => S.mul w a) f w1) b1
  let x2 := bcast2 (fun v bj => List.zipWith S.add v bj)
              (bcast2 (fun a wj => wj.map fun w => S.mul w a) f w2) b2
  zip2 (List.zipWith fun a b => S.mul (S.tanh a) b) x1 x2

def cellExcel (m s : R) (w1 w2 b1 b2 : List R) (x : R) : List R :=
  let a := S.div (S.sub x m) s
  List.zipWith (fun p q => S.mul (S.tanh p) q)
    (List.zipWith S.add (w1.map fun w => S.mul w a) b1)
    (List.zipWith S.add (w2.map fun w => S.mul w a) b2)

end ops

/-- `EmbeddingEncoder`: the index fed to the shared table -/
def embIndex (off : Int) (v : Int) : Int := if v < 0 then 0 else v + off + 1

/-- `EmbeddingEncoder.encode_forward`; `none` = IndexError of `torch.nn.Embedding` -/
def embeddingEncode {R : Type} (offset : List Int) (table : Mat R) (feat : Mat Int) : Option (T3 R) :=
  let naMask := map2 (fun v => decide (v < 0)) feat
  -- feat + self.offset + 1
  let idx := map2 (· + 1) (bcast2 (· + ·) feat offset)
  -- feat[na_mask] = 0
  let idx := zip2 (fun (m : Bool) (i : Int) => if m then 0 else i) naMask idx
  if idx.all (·.all fun i => decide (0 ≤ i) && decide (i < table.length)) then
    some (map2 (fun i => table.getD i.toNat []) idx)
  else none

inductive BagMode where
  | mean | sum | max
deriving DecidableEq, Repr, Inhabited

section bag
variable {R : Type} (S : SOps R)

/-- one bag of `torch.nn.EmbeddingBag(padding_idx=0, mode=…)` fed with `values + 1` -/
def bagReduce (mode : BagMode) (table : Mat R) (ch : Nat) (bag : List Int) : List R :=
  let ids := (bag.map (· + 1)).filter (· != 0)
  let vecs := ids.map fun i => table.getD i.toNat []
  (List.range ch).map fun l =>
    let xs := vecs.map (·.getD l S.zero)
    match mode with
    | .sum => S.sum xs
    | .mean => if xs.isEmpty then S.zero else S.div (S.sum xs) (S.ofInt xs.length)
    | .max => match xs with
      | [] => S.zero
      | x :: rest => rest.foldl S.max x

def bagInRange (table : Mat R) (bag : List Int) : Bool :=
  bag.all fun t => decide (0 ≤ t + 1) && decide (t + 1 < table.length)

/-- `MultiCategoricalEmbeddingEncoder.encode_forward`: one `EmbeddingBag` per column, `stack(dim=1)` -/
def bagEncode (mode : BagMode) (tables : T3 R) (ch : Nat) (feat : Mat (List Int)) : Option (T3 R) :=
  if feat.all fun row => (List.zipWith (fun bag tbl => bagInRange tbl bag) row tables).all id then
    let cols := (List.range tables.length).map fun i =>
      (feat.map (·.getD i [])).map (bagReduce S mode (tables.getD i []) ch)
    some (stackDim1 feat.length cols)
  else none

/-! timestamp -/

/-- `PositionalEncoding(out_size).forward` on one value -/
def positional (outSize : Nat) (y : R) : List R :=
  let mt := (List.range (outSize / 2)).map fun (k : Nat) =>
    S.pow (S.div S.one (S.ofInt 10000)) (S.div (S.ofInt (Int.ofNat (2 * k))) (S.ofInt (Int.ofNat outSize)))
  let m := mt.map (S.mul y)
  m.map S.sin ++ m.map S.cos

/-- `CyclicEncoding(out_size).forward` on one value; the input is a float32 tensor and the
    multiplier an int64 buffer, so every step stays in float32 (`round32`). -/
def cyclic (outSize : Nat) (v : R) : List R :=
  let m := (List.range (outSize / 2)).map fun (k : Nat) => S.round32 (S.mul v (S.ofInt (Int.ofNat (k + 1))))
  let p := S.round32 S.pi
  (m.map fun t => S.round32 (S.sin (S.round32 (S.mul t p)))) ++
  (m.map fun t => S.round32 (S.cos (S.round32 (S.mul (S.round32 (S.mul t S.two)) p))))

/-- a timestamp cell is missing when any component is negative (`(feat < 0).any(dim=-1)`) -/
def tsMissing (ts : List Int) : Bool := ts.any (· < 0)

/-- the domain assertions of `PositionalEncoding` / `CyclicEncoding` for one cell, on the integer level
    (`year - min_year ≥ 0`, `0 ≤ comp/max ≤ 1`); missing cells are masked to 0 first -/
def tsDomainOk (maxValues : List Int) (ts : List Int) (minYear : Int) : Bool :=
  tsMissing ts ||
    (decide (minYear ≤ ts.headD 0) &&
     (List.zipWith (fun t m => decide (0 ≤ t) && decide (t ≤ m)) (ts.drop 1) maxValues).all id)

/-- `TimestampEncoder.encode_forward` -/
def timestampEncode (minYear : List Int) (maxValues : List Int) (outSize : Nat)
    (weight : List (T3 R)) (bias : Mat R) (ch : Nat) (feat : Mat (List Int)) : Option (T3 R) :=
  -- na_mask = (feat < 0).any(dim=-1, keepdim=True)
  let naMask := map2 tsMissing feat
  -- feat = feat.to(torch.float32)
  let featF := map2 (fun ts => ts.map fun t => S.round32 (S.ofInt t)) feat
  -- feat_year = feat[..., :1] - self.min_year.view(1, -1, 1) ; masked_fill(na_mask, 0)
  let year := bcast2 (fun ts my => S.round32 (S.sub (ts.headD S.zero) (S.ofInt my))) featF minYear
  let year := zip2 (fun (m : Bool) y => if m then S.zero else y) naMask year
  -- feat_rest = feat[..., 1:] / self.max_values.view(1, 1, -1) ; masked_fill(na_mask, 0)
  let rest := map2 (fun ts =>
    List.zipWith (fun t m => S.round32 (S.div t (S.ofInt m))) (ts.drop 1) maxValues) featF
  let rest := zip2 (fun (m : Bool) r => if m then r.map (fun _ => S.zero) else r) naMask rest
  -- assert torch.all(input >= 0) / assert torch.all((input >= 0) & (input <= 1))
  if (bcast2 (tsDomainOk maxValues) feat minYear).all (·.all id) then
    -- x = torch.cat([positional(feat_year), cyclic(feat_rest)], dim=2)
    let x := zip2 (fun y r => positional S outSize y :: r.map (cyclic S outSize)) year rest
    -- einsum('ijkl,jklm->ijm', x, weight) + bias
    let xlin := bcast2 (fun xc Wc => matT3 S xc Wc ch) x weight
    let xb := bcast2 (fun v bj => List.zipWith S.add v bj) xlin bias
    -- x.masked_fill(na_mask, nan)
    some (zip2 (fun (m : Bool) v => if m then v.map (fun _ => S.nan) else v) naMask xb)
  else none

def cellTimestamp (minYear : Int) (maxValues : List Int) (outSize : Nat) (W : T3 R) (b : List R)
    (ch : Nat) (ts : List Int) : List R :=
  let tf := ts.map fun t => S.round32 (S.ofInt t)
  let year := if tsMissing ts then S.zero else S.round32 (S.sub (tf.headD S.zero) (S.ofInt minYear))
  let rest0 := List.zipWith (fun t m => S.round32 (S.div t (S.ofInt m))) (tf.drop 1) maxValues
  let rest := if tsMissing ts then rest0.map (fun _ => S.zero) else rest0
  let x := positional S outSize year :: rest.map (cyclic S outSize)
  let v := List.zipWith S.add (matT3 S x W ch) b
  if tsMissing ts then v.map (fun _ => S.nan) else v

/-! pre-computed embeddings -/

/-- start column of each embedding in the flat `values` (`start_idx` of the loop) -/
def embStarts : List Nat → List Nat
  | [] => []
  | d :: ds => 0 :: (embStarts ds).map (· + d)

/-- `LinearEmbeddingEncoder.encode_forward`; `none` = the matmul's shape error when `values` is too narrow -/
def linearEmbEncode (dims : List Nat) (weights : T3 R) (biases : Mat R) (ch : Nat)
    (values : Mat R) : Option (T3 R) :=
  if values.all (fun row => decide (dims.sum ≤ row.length)) then
    let starts := embStarts dims
    let cols := (List.range dims.length).map fun i =>
      values.map fun row =>
        vecMat S ((row.drop (starts.getD i 0)).take (dims.getD i 0)) (weights.getD i []) ch
    let x := stackDim1 values.length cols
    some (bcast2 (fun v bj => List.zipWith S.add v bj) x biases)
  else none

def cellLinearEmb (W : Mat R) (b : List R) (ch : Nat) (v : List R) : List R :=
  List.zipWith S.add (vecMat S v W ch) b

end bag

/-! ## 4. `init_modules`, `na_forward`, `forward` -/

/-- the column statistics an encoder reads (`stats_list[col]`) -/
inductive ColStat (R : Type) where
  | num (mean std : R) (quantiles : List R)
  | cat (numCategories : Nat)            -- len(stats[COUNT][0])
  | multi (numCategories : Nat)          -- len(stats[MULTI_COUNT][0])
  | time (minYear : Int) (newest oldest median : List Int)
  | emb (dim : Nat)

/-- `self.fill_values` -/
inductive Fill (R : Type) where
  | num (v : List R)
  | int (v : List Int)
  | time (v : Mat Int)

/-- input of one stype group (`tf.feat_dict[stype]`) on the cell level -/
inductive Feat (R : Type) where
  | num (x : Mat R)
  | cat (x : Mat Int)
  | bags (x : Mat (List Int))          -- MultiNestedTensor, cell = list of category indices
  | time (x : Mat (List Int))          -- [B][C][7]
  | emb (offset : List Nat) (values : Mat R)   -- MultiEmbeddingTensor storage

/-- `tf[idx]` restricted to one stype block, on the cell level (that the ragged containers implement
    this selection is property C05) -/
def Feat.selectRows {R : Type} (idx : List Nat) : Feat R → Feat R
  | .num x => .num (Enc.selectRows idx x)
  | .cat x => .cat (Enc.selectRows idx x)
  | .bags x => .bags (Enc.selectRows idx x)
  | .time x => .time (Enc.selectRows idx x)
  | .emb off vals => .emb off (Enc.selectRows idx vals)

/-- learnable parameters, as exported from `state_dict` -/
inductive Weights (R : Type) where
  | linear (weight bias : Mat R)
  | stack
  | bucket (weight : T3 R) (bias : Mat R)
  | periodic (linIn : Mat R) (linOut : T3 R)
  | excel (w1 w2 b1 b2 : Mat R)
  | embedding (table : Mat R)
  | bag (mode : BagMode) (tables : T3 R)
  | timestamp (outSize : Nat) (weight : List (T3 R)) (bias : Mat R)
  | linearEmb (weights : T3 R) (biases : Mat R)

def Weights.cls {R : Type} : Weights R → EncClass
  | .linear .. => .linear | .stack => .stack | .bucket .. => .linearBucket
  | .periodic .. => .linearPeriodic | .excel .. => .excelFormer | .embedding .. => .embedding
  | .bag .. => .multiCategorical | .timestamp .. => .timestamp | .linearEmb .. => .linearEmbedding

/-- built module: buffers + parameters -/
inductive Params (R : Type) where
  | linear (n : Norm R) (weight bias : Mat R)
  | stack (n : Norm R)
  | bucket (boundaries : Mat R) (weight : T3 R) (bias : Mat R)
  | periodic (n : Norm R) (linIn : Mat R) (linOut : T3 R)
  | excel (n : Norm R) (w1 w2 b1 b2 : Mat R)
  | embedding (offset : List Int) (table : Mat R)
  | bag (mode : BagMode) (tables : T3 R)
  | timestamp (minYear : List Int) (maxValues : List Int) (outSize : Nat) (weight : List (T3 R)) (bias : Mat R)
  | linearEmb (dims : List Nat) (weights : T3 R) (biases : Mat R)

/-- post modules the check exercises (all act on one `[channels]` vector) -/
inductive Post (R : Type) where
  | none | relu | tanh
  | layerNorm (gamma beta : List R)

structure Encoder (R : Type) where
  ch : Nat
  fill : Option (Fill R)
  params : Params R
  post : Post R

section build
variable {R : Type} (S : SOps R)

def statMean : ColStat R → Option R | .num m _ _ => some m | _ => none
def statStd : ColStat R → Option R | .num _ s _ => some s | _ => none
def statQuantiles : ColStat R → Option (List R) | .num _ _ q => some q | _ => none
def statNumCat : ColStat R → Option Nat | .cat n => some n | _ => none
def statNumMulti : ColStat R → Option Nat | .multi n => some n | _ => none
def statMinYear : ColStat R → Option Int | .time y _ _ _ => some y | _ => none
def statTime (na : NA) : ColStat R → Option (List Int)
  | .time _ nw ol md => match na with
    | .newest => some nw | .oldest => some ol | .median => some md | _ => none
  | _ => none
def statDim : ColStat R → Option Nat | .emb d => some d | _ => none

/-- `[stats[X] for stats in stats_list]`; `none` = KeyError -/
def gather {α β : Type} (f : α → Option β) : List α → Option (List β)
  | [] => some []
  | x :: xs => match f x, gather f xs with
    | some y, some ys => some (y :: ys)
    | _, _ => none

/-- the `fill_values` part of `StypeEncoder.init_modules`: outer `none` = raises -/
def mkFill (st : Stype) (na : Option NA) (stats : List (ColStat R)) : Option (Option (Fill R)) :=
  match na with
  | none => some none
  | some na =>
    if !naValid st na then none else
    match na with
    | .mostFrequent => some (some (.int (stats.map fun _ => 0)))
    | .zeros =>
      if st == .numerical then some (some (.num (stats.map fun _ => S.zero)))
      else some (some (.int (stats.map fun _ => 0)))
    | .mean => (gather statMean stats).map fun v => some (.num v)
    | na => (gather (statTime na) stats).map fun v => some (.time v)

/-- `torch.cumsum(torch.tensor(num_categories_list[:-1]))` with `num_categories_list = [0, n_0, …]` -/
def cumsum : List Nat → List Nat
  | [] => []
  | x :: xs => x :: (cumsum xs).map (· + x)

def embOffsets (ns : List Nat) : List Int := (cumsum ((0 :: ns).dropLast)).map Int.ofNat

/-- `offset` of a materialized MultiEmbeddingTensor whose columns have widths `dims` -/
def metOffsets (dims : List Nat) : List Nat := 0 :: cumsum dims

/-- `StatType.YEAR_RANGE[0]` = `min(ser.dt.year.values)` over the fitted (non-missing) cells -/
def yearMin : List Int → Int
  | [] => 0
  | y :: ys => ys.foldl min y

/-- `CYCLIC_VALUES_NORMALIZATION_CONSTANT` -/
def cyclicConst : List Int := [12, 31, 7, 24, 60, 60]

def mkNorm (stats : List (ColStat R)) : Option (Norm R) := do
  let mean ← gather statMean stats
  let std ← gather statStd stats
  pure ⟨mean, std.map fun s => S.add s (S.ofSci 1 6)⟩

/-- do the exported parameter shapes agree with what `init_modules` allocates from the statistics? -/
def shapeOk (C ch : Nat) (x : Mat R) : Bool := x.length == C && x.all (·.length == ch)

/-- per-class `init_modules`: buffers from the statistics (`none` = raises) -/
def mkParams (stats : List (ColStat R)) (ch : Nat) : Weights R → Option (Params R)
  | .linear w b => do
      let n ← mkNorm S stats
      if shapeOk stats.length ch w && shapeOk stats.length ch b then pure (.linear n w b) else none
  | .stack => do pure (.stack (← mkNorm S stats))
  | .bucket w b => do
      let q ← gather statQuantiles stats
      if w.length == stats.length && shapeOk stats.length ch b &&
         (List.zipWith (fun wi qi => wi.length + 1 == qi.length) w q).all id then pure (.bucket q w b) else none
  | .periodic li lo => do
      let n ← mkNorm S stats
      if li.length == stats.length && lo.length == stats.length &&
         (List.zipWith (fun a b => b.length == 2 * a.length) li lo).all id then pure (.periodic n li lo) else none
  | .excel w1 w2 b1 b2 => do
      let n ← mkNorm S stats
      if shapeOk stats.length ch w1 && shapeOk stats.length ch w2 && shapeOk stats.length ch b1 &&
         shapeOk stats.length ch b2 then pure (.excel n w1 w2 b1 b2) else none
  | .embedding table => do
      let ns ← gather statNumCat stats
      if table.length == ns.sum + 1 && table.all (·.length == ch) then pure (.embedding (embOffsets ns) table) else none
  | .bag mode tables => do
      let ns ← gather statNumMulti stats
      if tables.length == ns.length && (List.zipWith (fun t n => t.length == n + 1) tables ns).all id then
        pure (.bag mode tables) else none
  | .timestamp outSize w b => do
      let ys ← gather statMinYear stats
      if outSize % 2 != 0 then none
      else if w.length == stats.length && shapeOk stats.length ch b &&
              w.all (fun wc => wc.length == 7 && wc.all (·.length == outSize)) then
        pure (.timestamp ys cyclicConst outSize w b) else none
  | .linearEmb ws bs => do
      let ds ← gather statDim stats
      if ws.length == ds.length && (List.zipWith (fun w d => w.length == d) ws ds).all id &&
         shapeOk stats.length ch bs then pure (.linearEmb ds ws bs) else none

/-- `Module._init_modules` of an encoder: NA validation and fill values, then the class's buffers -/
def initModules (st : Stype) (na : Option NA) (stats : List (ColStat R)) (ch : Nat) (w : Weights R)
    (post : Post R) : Option (Encoder R) := do
  let fill ← mkFill S st na stats
  let p ← mkParams S stats ch w
  pure ⟨ch, fill, p, post⟩

/-- `StypeEncoder.na_forward`; `none` = raises -/
def naForward (fill : Option (Fill R)) (feat : Feat R) : Option (Feat R) :=
  match fill, feat with
  | none, f => some f
  -- torch.where(na_mask, self.fill_values, feat)
  | some (.num v), .num x => some (.num (bcast2 (fun a f => if S.isNaN a then f else a) x v))
  | some (.int v), .cat x => some (.cat (bcast2 (fun (a f : Int) => if a == -1 then f else a) x v))
  -- feat.fillna_col(col, fill_value) for every column
  | some (.int v), .bags x =>
      some (.bags (bcast2 (fun (bag : List Int) (f : Int) => bag.map fun t => if t == -1 then f else t) x v))
  -- col_data[na_mask[:, col].any(dim=-1)] = fill_value
  | some (.time v), .time x =>
      some (.time (bcast2 (fun (ts f : List Int) => if ts.any (· == -1) then f else ts) x v))
  | _, _ => none

/-- the class's `encode_forward`; `C` = `feat.shape[1]` -/
def encodeForward (p : Params R) (ch C : Nat) (feat : Feat R) : Option (T3 R) :=
  match p, feat with
  | .linear n w b, .num x => some (linearEncode S n w b x)
  | .stack n, .num x => some (stackEncode S n ch x)
  | .bucket q w b, .num x => some (bucketEncode S q w b ch C x)
  | .periodic n li lo, .num x => some (periodicEncode S n li lo ch x)
  | .excel n w1 w2 b1 b2, .num x => some (excelEncode S n w1 w2 b1 b2 x)
  | .embedding off t, .cat x => embeddingEncode off t x
  | .bag mode ts, .bags x => bagEncode S mode ts ch x
  | .timestamp ys mv os w b, .time x => timestampEncode S ys mv os w b ch x
  | .linearEmb ds ws bs, .emb _ vals => linearEmbEncode S ds ws bs ch vals
  | _, _ => none

/-- `torch.nn.LayerNorm(ch)` on one vector (biased variance, eps = 1e-5) -/
def layerNormVec (gamma beta : List R) (v : List R) : List R :=
  let n := S.ofInt v.length
  let mean := S.div (S.sum v) n
  let var := S.div (S.sum (v.map fun x => S.mul (S.sub x mean) (S.sub x mean))) n
  let d := S.sqrt (S.add var (S.ofSci 1 5))
  List.zipWith S.add (List.zipWith S.mul (v.map fun x => S.div (S.sub x mean) d) gamma) beta

def Post.apply : Post R → List R → List R
  | .none, v => v
  | .relu, v => v.map S.relu
  | .tanh, v => v.map S.tanh
  | .layerNorm g b, v => layerNormVec S g b v

/-- shape-carrying result -/
structure Out (R : Type) where
  b : Nat
  c : Nat
  ch : Nat
  data : T3 R

/-- `StypeEncoder.forward(feat, col_names)`.  `rows`, `cols` = `feat.shape[:2]`; `numNames` = `len(col_names)` -/
def forward (e : Encoder R) (rows cols numNames : Nat) (feat : Feat R) : Option (Out R) :=
  if cols != numNames then none else do
    let f ← naForward S e.fill feat
    let x ← encodeForward S e.params e.ch cols f
    let x := map2 (fun v => v.map S.nanToNum) x
    let x := map2 (Post.apply S e.post) x
    pure ⟨rows, cols, e.ch, x⟩


/-! ### the per-cell specification of `forward` (what C13 says an encoder is) -/

/-- one cell of a feature block, as its encoder sees it -/
inductive CellVal (R : Type) where
  | num (x : R)
  | cat (i : Int)
  | bag (b : List Int)
  | time (ts : List Int)
  | emb (v : List R)

/-- cell `(r, c)` of a block; for pre-computed embeddings the slice the encoder's `emb_dim_list` selects -/
def cellAt (p : Params R) (feat : Feat R) (r c : Nat) : Option (CellVal R) :=
  match feat with
  | .num x => (cell x r c).map .num
  | .cat x => (cell x r c).map .cat
  | .bags x => (cell x r c).map .bag
  | .time x => (cell x r c).map .time
  | .emb _ vals =>
    match p with
    | .linearEmb ds _ _ =>
      (vals[r]?).bind fun row =>
        if c < ds.length then some (.emb ((row.drop ((embStarts ds).getD c 0)).take (ds.getD c 0))) else none
    | _ => none

/-- `na_forward` on one cell of column `c`: a missing cell becomes `fill_values[c]` -/
def cellImpute (fill : Option (Fill R)) (c : Nat) (v : CellVal R) : Option (CellVal R) :=
  match fill, v with
  | none, v => some v
  | some (.num f), .num x => (f[c]?).map fun fc => .num (if S.isNaN x then fc else x)
  | some (.int f), .cat i => (f[c]?).map fun fc => .cat (if i == -1 then fc else i)
  | some (.int f), .bag b => (f[c]?).map fun fc => .bag (b.map fun t => if t == -1 then fc else t)
  | some (.time f), .time ts => (f[c]?).map fun fc => .time (if ts.any (· == -1) then fc else ts)
  | _, _ => none

/-- `encode_forward` on one cell, with the parameters and statistics of column `c` only -/
def cellEncode (p : Params R) (ch c : Nat) (v : CellVal R) : Option (List R) :=
  match p, v with
  | .linear n w b, .num x =>
      (n.mean[c]?).bind fun m => (n.std[c]?).bind fun s => (w[c]?).bind fun wc => (b[c]?).map fun bc =>
        cellLinear S m s wc bc x
  | .stack n, .num x => (n.mean[c]?).bind fun m => (n.std[c]?).map fun s => cellStack S m s ch x
  | .bucket q w b, .num x => (w[c]?).bind fun W => (b[c]?).map fun bc => cellBucket S (q.getD c []) W bc ch x
  | .periodic n li lo, .num x =>
      (n.mean[c]?).bind fun m => (n.std[c]?).bind fun s => (li[c]?).bind fun l => (lo[c]?).map fun W =>
        cellPeriodic S m s l W ch x
  | .excel n w1 w2 b1 b2, .num x =>
      (n.mean[c]?).bind fun m => (n.std[c]?).bind fun s => (w1[c]?).bind fun u1 => (w2[c]?).bind fun u2 =>
        (b1[c]?).bind fun v1 => (b2[c]?).map fun v2 => cellExcel S m s u1 u2 v1 v2 x
  | .embedding off t, .cat i => (off[c]?).map fun o => t.getD (embIndex o i).toNat []
  | .bag mode ts, .bag b => if c < ts.length then some (bagReduce S mode (ts.getD c []) ch b) else none
  | .timestamp ys mv os w b, .time ts =>
      (ys[c]?).bind fun my => (w[c]?).bind fun W => (b[c]?).map fun bc => cellTimestamp S my mv os W bc ch ts
  | .linearEmb _ ws bs, .emb v => (bs[c]?).map fun bc => cellLinearEmb S (ws.getD c []) bc ch v
  | _, _ => none

/-- the whole `forward` on one cell: impute, encode, `nan_to_num`, post module -/
def cellForward (e : Encoder R) (c : Nat) (v : CellVal R) : Option (List R) :=
  (cellImpute S e.fill c v).bind fun v' => (cellEncode S e.params e.ch c v').map fun y =>
    Post.apply S e.post (y.map S.nanToNum)

/-- the indices a cell sends to `Embedding` / `EmbeddingBag` and the calendar values it sends to the positional /
    cyclic encodings are inside their domains (otherwise the batch raises) -/
def cellDomainOk (p : Params R) (c : Nat) (v : CellVal R) : Bool :=
  match p, v with
  | .embedding off t, .cat i =>
      match off[c]? with
      | some o => decide (0 ≤ embIndex o i) && decide (embIndex o i < t.length)
      | none => true
  | .bag _ ts, .bag b => bagInRange (ts.getD c []) b
  | .timestamp ys mv _ _ _, .time ts => match ys[c]? with | some my => tsDomainOk mv ts my | none => true
  | _, _ => true

end build

/-! ## 5. `StypeWiseFeatureEncoder` -/

/-- one entry of `tf.feat_dict` with its explicit shape -/
structure Group (R : Type) where
  st : Stype
  rows : Nat
  cols : Nat
  feat : Feat R

structure Wise (R : Type) where
  colNames : List (Stype × List String)     -- col_names_dict (insertion order is irrelevant)
  encoders : List (Stype × Encoder R)       -- encoder_dict

/-- `tf.stypes`: the canonical order filtered by membership in `feat_dict` -/
def canonicalStypes {R : Type} (tf : List (Group R)) : List Stype :=
  Stype.all.filter fun s => tf.any (·.st == s)

/-- `torch.cat(xs, dim=1)`: equal batch and channel sizes required -/
def catDim1 {R : Type} (xs : List (Out R)) : Option (Out R) :=
  match xs with
  | [] => none
  | x :: rest =>
    if rest.all (fun y => y.b == x.b && y.ch == x.ch) then
      some ⟨x.b, (xs.map (·.c)).sum, x.ch,
            (List.range x.b).map fun r => xs.flatMap fun y => y.data.getD r []⟩
    else none

/-- one iteration of the loop of `StypeWiseFeatureEncoder.forward`: the block of stype `s` -/
def wisePart {R : Type} (S : SOps R) (w : Wise R) (tf : List (Group R)) (s : Stype) :
    Option (Out R × List String) := do
  let g ← tf.find? (·.st == s)                 -- feat = tf.feat_dict[stype]
  let names ← w.colNames.lookup s              -- col_names = self.col_names_dict[stype]
  let e ← w.encoders.lookup s                  -- self.encoder_dict[stype.value]
  let x ← forward S e g.rows g.cols names.length g.feat
  pure (x, names)

/-- `StypeWiseFeatureEncoder.forward` -/
def wiseForward {R : Type} (S : SOps R) (w : Wise R) (tf : List (Group R)) :
    Option (Out R × List String) := do
  let parts ← gather (wisePart S w tf) (canonicalStypes tf)
  let x ← catDim1 (parts.map (·.1))
  pure (x, parts.flatMap (·.2))

end TFVerif.Enc

/-
Model of `torch_frame/nn/base.py` (`Module`): modules whose submodules are created lazily, once every
attribute in `LAZY_ATTRS` has been given a non-`None` value.  Core Lean only.

The object is a state machine:
  `inInit`   `self._in_init`
  `missing`  `self._missing_attrs`          (a set; here a duplicate-free list)
  `vals`     the attribute dictionary        (`none` = Python `None`)
  `built`    what `init_modules` created (the submodules / buffers), if it ran
  `fired`    how many times `init_modules` ran
`init : List (Option V) → Option B` is the subclass's `init_modules` as a function of the attribute
values (listed in the order of `Attr.all`); `none` = it raises (e.g. the NA-strategy validation of `StypeEncoder.init_modules`).
Every transition returns `Option`: `none` = the Python statement raises.
-/
namespace TFVerif.Lazy

/-- the constructor parameters of `StypeEncoder` -/
inductive Attr where
  | outChannels | statsList | stype | postModule | naStrategy
deriving DecidableEq, Repr, Inhabited

def Attr.all : List Attr := [.outChannels, .statsList, .stype, .postModule, .naStrategy]

/-- `StypeEncoder.LAZY_ATTRS` -/
def lazyAttrs : List Attr := [.outChannels, .statsList, .stype]

structure Mod (V B : Type) where
  inInit : Bool
  missing : List Attr
  vals : Attr → Option V
  built : Option B
  fired : Nat

variable {V B : Type}

/-- `Module.validate`: raises while an attribute is missing -/
def validate (m : Mod V B) : Option Unit := if m.missing.isEmpty then some () else none

/-- `Module._init_modules`: `validate()` then the subclass's `init_modules()` -/
def initModules (init : List (Option V) → Option B) (m : Mod V B) : Option (Mod V B) := do
  validate m
  let b ← init (Attr.all.map m.vals)
  pure { m with built := some b, fired := m.fired + 1 }

/-- `Module.__setattr__(key, value)` -/
def setattr (init : List (Option V) → Option B) (m : Mod V B) (k : Attr) (v : Option V) :
    Option (Mod V B) :=
  -- super().__setattr__(key, value)
  let m := { m with vals := fun k' => if k' = k then v else m.vals k' }
  -- if value is not None and key in self._missing_attrs:
  if v.isSome && m.missing.contains k then
    let m := { m with missing := m.missing.erase k }
    -- if not self._in_init and self.is_fully_specified: self._init_modules()
    if !m.inInit && m.missing.isEmpty then initModules init m else some m
  else some m

/-- a sequence of attribute assignments -/
def setattrs (init : List (Option V) → Option B) (m : Mod V B) :
    List (Attr × Option V) → Option (Mod V B)
  | [] => some m
  | (k, v) :: rest => (setattr init m k v).bind fun m' => setattrs init m' rest

/-- the state before the constructor's assignments -/
def fresh : Mod V B :=
  { inInit := true, missing := lazyAttrs, vals := fun _ => none, built := none, fired := 0 }

/-- `Module.__init__(*args)`: assign every constructor argument with `_in_init = True`, then
    `if self.is_fully_specified: self._init_modules()` -/
def construct (init : List (Option V) → Option B) (args : List (Attr × Option V)) :
    Option (Mod V B) := do
  let m ← setattrs init fresh args
  let m := { m with inInit := false }
  if m.missing.isEmpty then initModules init m else some m

/-- `Module.__call__`: `validate()` then `forward` (which needs what `init_modules` built) -/
def call (m : Mod V B) : Option B := do
  validate m
  m.built

/-- what the outside can observe of an object: its submodules and whether it refuses to run -/
def observe (m : Option (Mod V B)) : Option (Option B × Nat × List Attr) :=
  m.map fun s => (s.built, s.fired, s.missing)

end TFVerif.Lazy

/-
Implementation-shaped model of `torch_frame.data.multi_nested_tensor.MultiNestedTensor`
and `multi_embedding_tensor.MultiEmbeddingTensor` (flattened `values` / `offset` storage and
the library's own offset arithmetic), plus the nested-list specification layer (`Grid`).
Core Lean only.
-/
import TFVerif.Model.Py

namespace TFVerif

/-! ### tensor idioms used by the code -/

/-- Python `xs[a:b]` for non-negative `a`, `b`. -/
def pySlice (xs : List α) (a b : Nat) : List α := (xs.drop a).take (b - a)

/-- `torch.cumsum(xs, 0)`. -/
def cumsumFrom (acc : Nat) : List Nat → List Nat
  | [] => []
  | x :: xs => (acc + x) :: cumsumFrom (acc + x) xs

def cumsum (xs : List Nat) : List Nat := cumsumFrom 0 xs

/-- `_batched_arange(count)` exactly as its docstring specifies it:
    `batch = cat([full((c,), i) for i, c in enumerate(count)])`, `arange = cat([arange(c) for c in count])`,
    returned as the list of pairs `(batch[k], arange[k])`. -/
def batchedArange (count : List Nat) : List (Nat × Nat) :=
  count.zipIdx.flatMap fun (c, i) => (List.range c).map fun a => (i, a)

/-- `_batched_arange(count)` as the code computes it (cumsum pointer, `repeat_interleave`,
    global `arange` minus `ptr[batch]`).  Compared with `batchedArange` by the driver on every case. -/
def batchedArangeImpl (count : List Nat) : List (Nat × Nat) :=
  let ptr := 0 :: cumsum count
  let batch := (List.range count.length).flatMap fun i => List.replicate (count.getD i 0) i
  batch.zipIdx.map fun (b, k) => (b, k - ptr.getD b 0)

/-- `values[starts[batch] + arange]` with `batch, arange = _batched_arange(counts)`. -/
def gatherBA (values : List α) (starts counts : List Nat) : List α :=
  (batchedArange counts).flatMap fun (b, a) => (values[starts.getD b 0 + a]?).toList

/-- the positions `starts[batch] + arange` themselves. -/
def gatherPositions (starts counts : List Nat) : List Nat :=
  (batchedArange counts).map fun (b, a) => starts.getD b 0 + a

/-- `xs.reshape(R, C)` as a list of rows. -/
def reshape (xs : List β) (R C : Nat) : List (List β) :=
  (List.range R).map fun r => pySlice xs (r * C) (r * C + C)

/-! ### MultiNestedTensor -/

structure MNT (α : Type) where
  numRows : Nat
  numCols : Nat
  values : List α
  offset : List Nat
deriving Repr, DecidableEq

namespace MNT
variable {α : Type}

/-- `MultiNestedTensor.validate` (the constructor's assertions). -/
def validate (m : MNT α) : Bool :=
  m.offset.head? == some 0 && m.offset.getLast? == some m.values.length &&
    m.offset.length == m.numRows * m.numCols + 1

def size (m : MNT α) (dim : Nat) : Nat := if dim = 0 then m.numRows else m.numCols

def empty (m : MNT α) (dim : Nat) : MNT α :=
  { numRows := if dim = 0 then 0 else m.numRows
    numCols := if dim = 1 then 0 else m.numCols
    values := [], offset := [0] }

/-- cell lengths `offset[1:] - offset[:-1]`. -/
def counts (m : MNT α) : List Nat := List.zipWith (· - ·) m.offset.tail m.offset.dropLast

def rowNarrow (m : MNT α) (start length : Nat) : MNT α :=
  let C := m.numCols
  let e := start + length
  let off := pySlice m.offset (start * C) (e * C + 1)
  let o0 := off.headD 0
  { numRows := e - start, numCols := C
    values := pySlice m.values o0 (off.getLastD 0)
    offset := off.map (· - o0) }

/-- `_col_narrow` exactly as coded (offset matrix from `offset[:-1]` / `offset[1:]`, zero-start
    re-basing, running `accum`).  Compared with `colNarrow` by the driver on every case. -/
def colNarrowImpl (m : MNT α) (start length : Nat) : MNT α :=
  let R := m.numRows
  let C := m.numCols
  let e := start + length
  if R = 0 then
    { numRows := 0, numCols := length, values := [], offset := m.offset.take 1 }
  else
    let mat :=
      if start = 0 then (reshape m.offset.dropLast R C).map fun row => pySlice row start (e + 1)
      else (reshape m.offset.tail R C).map fun row => pySlice row (start - 1) e
    let os := mat.map (·.headD 0)
    let count := mat.map fun row => row.getLastD 0 - row.headD 0
    let zs := mat.map fun row => row.map (· - row.headD 0)
    let accum := cumsum (zs.map (·.getLastD 0))
    let zs' := zs.zipIdx.map fun (row, i) =>
      if i = 0 then row else row.map (· + accum.getD (i - 1) 0)
    { numRows := R, numCols := e - start
      values := gatherBA m.values os count
      offset := (zs'.map (·.dropLast)).flatten ++ [accum.getLastD 0] }

/-- `_col_narrow`: per row the contiguous value segment of columns `[start, start+length)` is
    gathered; the new offsets are the running sums of the kept cell lengths. -/
def colNarrow (m : MNT α) (start length : Nat) : MNT α :=
  let R := m.numRows
  let C := m.numCols
  if R = 0 then
    { numRows := 0, numCols := length, values := [], offset := m.offset.take 1 }
  else
    let os := (List.range R).map fun r => m.offset.getD (r * C + start) 0
    let count := (List.range R).map fun r =>
      m.offset.getD (r * C + start + length) 0 - m.offset.getD (r * C + start) 0
    { numRows := R, numCols := length
      values := gatherBA m.values os count
      offset := 0 :: cumsum ((List.range R).flatMap fun r =>
        pySlice m.counts (r * C + start) (r * C + start + length)) }

/-- `_row_index_select` exactly as coded (two `_batched_arange` passes, `count[-1] += 1`, rolled
    cumsum).  Compared with `rowIndexSelect` by the driver on every case. -/
def rowIndexSelectImpl (m : MNT α) (index : List Nat) : MNT α :=
  if index.isEmpty then m.empty 0 else
  let C := m.numCols
  let right := index.map fun i => (i + 1) * C
  let left := index.map (· * C)
  let offL := left.map (m.offset.getD · 0)
  let diff := List.zipWith (· - ·) (right.map (m.offset.getD · 0)) offL
  let count := List.replicate (index.length - 1) C ++ [C + 1]
  let dc := 0 :: (cumsum diff).dropLast
  { numRows := index.length, numCols := C
    values := gatherBA m.values offL diff
    offset := (batchedArange count).map fun (b, a) =>
      m.offset.getD (left.getD b 0 + a) 0 - offL.getD b 0 + dc.getD b 0 }

/-- `_row_index_select` on an already normalised index tensor: per selected row the contiguous
    value segment is gathered; the new offsets are the running sums of the selected cell lengths. -/
def rowIndexSelect (m : MNT α) (index : List Nat) : MNT α :=
  if index.isEmpty then m.empty 0 else
  let C := m.numCols
  let offL := index.map fun i => m.offset.getD (i * C) 0
  let diff := index.map fun i => m.offset.getD ((i + 1) * C) 0 - m.offset.getD (i * C) 0
  { numRows := index.length, numCols := C
    values := gatherBA m.values offL diff
    offset := 0 :: cumsum (index.flatMap fun i => pySlice m.counts (i * C) (i * C + C)) }

def colIndexSelect (m : MNT α) (index : List Nat) : MNT α :=
  if index.isEmpty then m.empty 1 else
  let startIdx := (List.range m.numRows).flatMap fun r => index.map (· + r * m.numCols)
  let os := startIdx.map (m.offset.getD · 0)
  let count := startIdx.map fun k => m.offset.getD (k + 1) 0 - m.offset.getD k 0
  { numRows := m.numRows, numCols := index.length
    values := gatherBA m.values os count
    offset := 0 :: cumsum count }

/-- `_single_index_select` on a normalised index. -/
def singleIndexSelect (m : MNT α) (i : Nat) (dim : Nat) : MNT α :=
  let C := m.numCols
  if dim = 0 then
    let off := pySlice m.offset (i * C) ((i + 1) * C + 1)
    let o0 := off.headD 0
    { numRows := 1, numCols := C
      values := pySlice m.values o0 (off.getLastD 0)
      offset := off.map (· - o0) }
  else
    let startIdx := (List.range m.numRows).map fun r => r * C + i
    let os := startIdx.map (m.offset.getD · 0)
    let diff := startIdx.map fun k => m.offset.getD (k + 1) 0 - m.offset.getD k 0
    { numRows := m.numRows, numCols := 1
      values := gatherBA m.values os diff
      offset := 0 :: cumsum diff }

def indexSelect (m : MNT α) (index : List Nat) (dim : Nat) : MNT α :=
  if dim = 0 then m.rowIndexSelect index else m.colIndexSelect index

/-- `narrow(dim, start, length)`; `length` may be non-positive. -/
def narrow (m : MNT α) (dim : Nat) (start : Nat) (length : Int) : MNT α :=
  let n := m.size dim
  if start = 0 ∧ (start : Int) + length ≥ n then m
  else if length ≤ 0 then m.empty dim
  else if dim = 0 then m.rowNarrow start length.toNat
  else m.colNarrow start length.toNat

/-- `_slice`: `none` = raises. -/
def slice (m : MNT α) (a b step : Option Int) (dim : Nat) : Option (MNT α) :=
  let n := m.size dim
  let narrowPath : MNT α :=
    let (s, e) := sliceBounds n a b
    m.narrow dim s ((e : Int) - s)
  match step with
  | none => some narrowPath
  | some k =>
    if k ≤ 0 then none
    else if k > 1 then some (m.indexSelect (slicePositions n a b k.toNat) dim)
    else some narrowPath

/-- `select(index, dim)`; `none` = raises. -/
def select (m : MNT α) (ix : Index) (dim : Nat) : Option (MNT α) :=
  let n := m.size dim
  match ix with
  | .int i => (normIndex n i).map fun j => m.singleIndexSelect j dim
  | .slice a b s => m.slice a b s dim
  | .list is => (normIndices n is).map fun js => m.indexSelect js dim
  | .mask bs => if bs.length = n then some (m.indexSelect (maskPositions bs) dim) else none

/-! The same dispatch over the literally transcribed `…Impl` primitives (run by the driver
    next to `select`; the two must agree on every case). -/

def indexSelectImpl (m : MNT α) (index : List Nat) (dim : Nat) : MNT α :=
  if dim = 0 then m.rowIndexSelectImpl index else m.colIndexSelect index

def narrowImpl (m : MNT α) (dim : Nat) (start : Nat) (length : Int) : MNT α :=
  let n := m.size dim
  if start = 0 ∧ (start : Int) + length ≥ n then m
  else if length ≤ 0 then m.empty dim
  else if dim = 0 then m.rowNarrow start length.toNat
  else m.colNarrowImpl start length.toNat

def selectImpl (m : MNT α) (ix : Index) (dim : Nat) : Option (MNT α) :=
  let n := m.size dim
  match ix with
  | .int i => (normIndex n i).map fun j => m.singleIndexSelect j dim
  | .slice a b s =>
    let narrowPath : MNT α :=
      let (s', e) := sliceBounds n a b
      m.narrowImpl dim s' ((e : Int) - s')
    match s with
    | none => some narrowPath
    | some k =>
      if k ≤ 0 then none
      else if k > 1 then some (m.indexSelectImpl (slicePositions n a b k.toNat) dim)
      else some narrowPath
  | .list is => (normIndices n is).map fun js => m.indexSelectImpl js dim
  | .mask bs => if bs.length = n then some (m.indexSelectImpl (maskPositions bs) dim) else none

/-- `m[ix0, ix1]` with at least one non-integer index. -/
def getitem2 (m : MNT α) (ix0 ix1 : Index) : Option (MNT α) :=
  (m.select ix0 0).bind fun m' => m'.select ix1 1

/-- `m[i, j]` for two Python ints: the stored 1-D tensor. -/
def getValue (m : MNT α) (i j : Int) : Option (List α) := do
  let i' ← normIndex m.numRows i
  let j' ← normIndex m.numCols j
  let idx := i' * m.numCols + j'
  pure (pySlice m.values (m.offset.getD idx 0) (m.offset.getD (idx + 1) 0))

/-- `from_tensor_mat`; `none` = raises (ragged row lengths, or no rows: `tensor_mat[0]`). -/
def fromCells (mat : List (List (List α))) : Option (MNT α) :=
  match mat with
  | [] => none
  | r0 :: _ =>
    let C := r0.length
    if mat.all (·.length == C) then
      let cells := mat.flatten
      if cells.isEmpty then none   -- torch.cat of an empty list raises
      else some { numRows := mat.length, numCols := C
                  values := cells.flatten
                  offset := 0 :: cumsum (cells.map List.length) }
    else none

/-- `MultiNestedTensor.cat(xs, dim=0)`. -/
def catRows (xs : List (MNT α)) : Option (MNT α) :=
  match xs with
  | [] => none
  | x0 :: _ =>
    if xs.all (·.numCols == x0.numCols) then
      let rec go (accum : Nat) : List (MNT α) → List Nat
        | [] => []
        | [x] => x.offset.map (· + accum)
        | x :: rest => x.offset.dropLast.map (· + accum) ++ go (accum + x.offset.getLastD 0) rest
      some { numRows := (xs.map (·.numRows)).sum, numCols := x0.numCols
             values := (xs.map (·.values)).flatten
             offset := go 0 xs }
    else none

/-- cell `k` (row-major) read from storage. -/
def cellAt (m : MNT α) (k : Nat) : List α :=
  pySlice m.values (m.offset.getD k 0) (m.offset.getD (k + 1) 0)

/-- `MultiNestedTensor.cat(xs, dim=1)`: the length matrix and its cumsum are the code's; the
    scatter `values[offset_start[batch] + arange] = x.values` is read functionally
    (row-major interleaving of the parts' row segments). -/
def catCols (xs : List (MNT α)) : Option (MNT α) :=
  match xs with
  | [] => none
  | x0 :: _ =>
    let R := x0.numRows
    if xs.all (·.numRows == R) then
      let lenMat : List (List Nat) := (List.range R).map fun r =>
        xs.flatMap fun x => pySlice x.counts (r * x.numCols) (r * x.numCols + x.numCols)
      let vals : List α := (List.range R).flatMap fun r =>
        xs.flatMap fun x =>
          pySlice x.values (x.offset.getD (r * x.numCols) 0) (x.offset.getD (r * x.numCols + x.numCols) 0)
      some { numRows := R, numCols := (xs.map (·.numCols)).sum
             values := vals
             offset := 0 :: cumsum lenMat.flatten }
    else none

/-- `to_dense(fill)`: `none` when there is no cell (`count.max()` of an empty tensor raises). -/
def toDense (m : MNT α) (fill : α) : Option (List (List (List α))) :=
  let cnt := m.counts
  if cnt.isEmpty then none else
  let mx := cnt.foldl max 0
  some <| (List.range m.numRows).map fun r => (List.range m.numCols).map fun c =>
    let cell := m.cellAt (r * m.numCols + c)
    cell ++ List.replicate (mx - cell.length) fill

/-- `fillna_col(col, fill)` (in place in the code; functional here). -/
def fillnaCol (m : MNT α) (isMissing : α → Bool) (col : Nat) (fill : α) : MNT α :=
  let startIdx := (List.range m.numRows).map fun r => col + r * m.numCols
  let os := startIdx.map (m.offset.getD · 0)
  let diff := startIdx.map fun k => m.offset.getD (k + 1) 0 - m.offset.getD k 0
  let pos := gatherPositions os diff
  { m with values := m.values.zipIdx.map fun (v, p) =>
      if pos.contains p && isMissing v then fill else v }

end MNT

/-! ### MultiEmbeddingTensor -/

structure MET (α : Type) where
  numRows : Nat
  numCols : Nat
  /-- `values.shape[1]` (kept explicitly: a zero-row tensor still has a width). -/
  width : Nat
  values : List (List α)
  offset : List Nat
deriving Repr, DecidableEq

namespace MET
variable {α : Type}

def size (m : MET α) (dim : Nat) : Nat := if dim = 0 then m.numRows else m.numCols

def empty (m : MET α) (dim : Nat) : MET α :=
  if dim = 0 then { m with numRows := 0, values := [] }
  else { numRows := m.numRows, numCols := 0, width := 0, values := m.values.map fun _ => [], offset := [0] }

def rowNarrow (m : MET α) (start length : Nat) : MET α :=
  { m with numRows := length, values := pySlice m.values start (start + length) }

def colNarrow (m : MET α) (start length : Nat) : MET α :=
  let o0 := m.offset.getD start 0
  let o1 := m.offset.getD (start + length) 0
  { numRows := m.numRows, numCols := length, width := o1 - o0
    values := m.values.map fun row => pySlice row o0 o1
    offset := (pySlice m.offset start (start + length + 1)).map (· - o0) }

def rowIndexSelect (m : MET α) (index : List Nat) : MET α :=
  { m with numRows := index.length, values := index.flatMap fun i => (m.values[i]?).toList }

def colIndexSelect (m : MET α) (index : List Nat) : MET α :=
  if index.isEmpty then m.empty 1 else
  let colDims := List.zipWith (· - ·) m.offset.tail m.offset.dropLast
  let newDims := index.map (colDims.getD · 0)
  let starts := index.map (m.offset.getD · 0)
  { numRows := m.numRows, numCols := index.length, width := newDims.sum
    values := m.values.map fun row => gatherBA row starts newDims
    offset := 0 :: cumsum newDims }

def singleIndexSelect (m : MET α) (i : Nat) (dim : Nat) : MET α :=
  if dim = 0 then
    { m with numRows := 1, values := (m.values[i]?).toList }
  else
    let o0 := m.offset.getD i 0
    let o1 := m.offset.getD (i + 1) 0
    { numRows := m.numRows, numCols := 1, width := o1 - o0
      values := m.values.map fun row => pySlice row o0 o1
      offset := [0, o1 - o0] }

def indexSelect (m : MET α) (index : List Nat) (dim : Nat) : MET α :=
  if dim = 0 then m.rowIndexSelect index else m.colIndexSelect index

def narrow (m : MET α) (dim : Nat) (start : Nat) (length : Int) : MET α :=
  let n := m.size dim
  if start = 0 ∧ (start : Int) + length ≥ n then m
  else if length ≤ 0 then m.empty dim
  else if dim = 0 then m.rowNarrow start length.toNat
  else m.colNarrow start length.toNat

def slice (m : MET α) (a b step : Option Int) (dim : Nat) : Option (MET α) :=
  let n := m.size dim
  let narrowPath : MET α :=
    let (s, e) := sliceBounds n a b
    m.narrow dim s ((e : Int) - s)
  match step with
  | none => some narrowPath
  | some k =>
    if k ≤ 0 then none
    else if k > 1 then some (m.indexSelect (slicePositions n a b k.toNat) dim)
    else some narrowPath

def select (m : MET α) (ix : Index) (dim : Nat) : Option (MET α) :=
  let n := m.size dim
  match ix with
  | .int i => (normIndex n i).map fun j => m.singleIndexSelect j dim
  | .slice a b s => m.slice a b s dim
  | .list is => (normIndices n is).map fun js => m.indexSelect js dim
  | .mask bs => if bs.length = n then some (m.indexSelect (maskPositions bs) dim) else none

def getitem2 (m : MET α) (ix0 ix1 : Index) : Option (MET α) :=
  (m.select ix0 0).bind fun m' => m'.select ix1 1

def getValue (m : MET α) (i j : Int) : Option (List α) := do
  let i' ← normIndex m.numRows i
  let j' ← normIndex m.numCols j
  pure (pySlice (m.values.getD i' []) (m.offset.getD j' 0) (m.offset.getD (j' + 1) 0))

/-- `from_tensor_list`: one `[R, d_j]` matrix per column. `none` = raises. -/
def fromCols (cols : List (List (List α))) (widths : List Nat) : Option (MET α) :=
  match cols with
  | [] => none
  | c0 :: _ =>
    let R := c0.length
    if cols.all (·.length == R) && cols.length == widths.length then
      some { numRows := R, numCols := cols.length, width := widths.sum
             values := (List.range R).map fun r => cols.flatMap fun col => col.getD r []
             offset := 0 :: cumsum widths }
    else none

def catRows (xs : List (MET α)) : Option (MET α) :=
  match xs with
  | [] => none
  | [x] => some x
  | x0 :: _ =>
    if xs.all (·.numCols == x0.numCols) && xs.all (·.width == x0.width) then
      some { numRows := (xs.map (·.numRows)).sum, numCols := x0.numCols, width := x0.width
             values := xs.flatMap (·.values), offset := x0.offset }
    else none

def catCols (xs : List (MET α)) : Option (MET α) :=
  match xs with
  | [] => none
  | [x] => some x
  | x0 :: _ =>
    if xs.all (·.numRows == x0.numRows) then
      let offs := xs.foldl (fun acc x => acc ++ x.offset.tail.map (· + acc.getLastD 0)) [0]
      some { numRows := x0.numRows, numCols := (xs.map (·.numCols)).sum
             width := (xs.map (·.width)).sum
             values := (List.range x0.numRows).map fun r => xs.flatMap fun x => x.values.getD r []
             offset := offs }
    else none

def fillnaCol (m : MET α) (isMissing : α → Bool) (col : Nat) (fill : α) : MET α :=
  let o0 := m.offset.getD col 0
  let o1 := m.offset.getD (col + 1) 0
  { m with values := m.values.map fun row => row.zipIdx.map fun (v, p) =>
      if o0 ≤ p && p < o1 && isMissing v then fill else v }

end MET

/-! ### specification layer: nested lists -/

/-- A rectangular grid of cells; `numCols` is kept explicitly so that a zero-row grid
    still has a column count. -/
structure Grid (α : Type) where
  numCols : Nat
  rows : List (List (List α))
deriving Repr, DecidableEq

namespace Grid
variable {α : Type}

def WF (g : Grid α) : Prop := ∀ row ∈ g.rows, row.length = g.numCols

def size (g : Grid α) (dim : Nat) : Nat := if dim = 0 then g.rows.length else g.numCols

/-- pick the listed positions from a list (Python `[xs[p] for p in ps]`). -/
def pick (xs : List β) (ps : List Nat) : List β := ps.flatMap fun p => (xs[p]?).toList

/-- keep the listed positions along `dim` (rows for `dim = 0`, otherwise columns of every row). -/
def pickDim (g : Grid α) (ps : List Nat) (dim : Nat) : Grid α :=
  if dim = 0 then { g with rows := pick g.rows ps }
  else { numCols := ps.length, rows := g.rows.map fun row => pick row ps }

/-- the selection `ix` along `dim` on nested lists, by Python-list semantics. -/
def select (g : Grid α) (ix : Index) (dim : Nat) : Option (Grid α) :=
  (ix.positions (g.size dim)).map fun ps => g.pickDim ps dim

def catRows (gs : List (Grid α)) : Option (Grid α) :=
  match gs with
  | [] => none
  | g0 :: _ => if gs.all (·.numCols == g0.numCols) then
      some { numCols := g0.numCols, rows := gs.flatMap (·.rows) } else none

def catCols (gs : List (Grid α)) : Option (Grid α) :=
  match gs with
  | [] => none
  | g0 :: _ => if gs.all (·.rows.length == g0.rows.length) then
      some { numCols := (gs.map (·.numCols)).sum
             rows := (List.range g0.rows.length).map fun r => gs.flatMap fun g => g.rows.getD r [] }
    else none

end Grid

/-- cells of a nested tensor as a grid (what `m[i, j]` reads, for all `i`, `j`). -/
def MNT.grid (m : MNT α) : Grid α :=
  { numCols := m.numCols
    rows := (List.range m.numRows).map fun r => (List.range m.numCols).map fun c =>
      m.cellAt (r * m.numCols + c) }

/-- canonical storage of a grid. -/
def MNT.ofGrid (g : Grid α) : MNT α :=
  let cells := g.rows.flatten
  { numRows := g.rows.length, numCols := g.numCols
    values := cells.flatten, offset := 0 :: cumsum (cells.map List.length) }

def MET.colWidths (m : MET α) : List Nat := List.zipWith (· - ·) m.offset.tail m.offset.dropLast

def MET.grid (m : MET α) : Grid α :=
  { numCols := m.numCols
    rows := (List.range m.numRows).map fun r => (List.range m.numCols).map fun c =>
      pySlice (m.values.getD r []) (m.offset.getD c 0) (m.offset.getD (c + 1) 0) }

/-- canonical storage of a grid whose column `c` has fixed width `widths[c]`. -/
def MET.ofGrid (g : Grid α) (widths : List Nat) : MET α :=
  { numRows := g.rows.length, numCols := g.numCols, width := widths.sum
    values := g.rows.map List.flatten, offset := 0 :: cumsum widths }

/-- specification of a `MultiEmbeddingTensor`: a grid plus the fixed width of every column
    (kept separately so that a zero-row tensor still has column widths). -/
structure WGrid (α : Type) where
  grid : Grid α
  widths : List Nat
deriving Repr, DecidableEq

namespace WGrid
variable {α : Type}

def WF (w : WGrid α) : Prop :=
  w.grid.numCols = w.widths.length ∧ ∀ row ∈ w.grid.rows, row.map List.length = w.widths

/-- nested-list selection; along columns the widths are selected alongside. -/
def select (w : WGrid α) (ix : Index) (dim : Nat) : Option (WGrid α) :=
  (ix.positions (w.grid.size dim)).map fun ps =>
    { grid := w.grid.pickDim ps dim, widths := if dim = 0 then w.widths else Grid.pick w.widths ps }

end WGrid

def MET.ofW (w : WGrid α) : MET α := MET.ofGrid w.grid w.widths

end TFVerif

/-
Semantic-type inference (`torch_frame/utils/infer_stype.py`) — property C18.

Core Lean only.  A column is a list of abstract cells together with the two things pandas supplies and the
model does not look into: the dtype family (float / int / bool / datetime / object-or-`str`) and, for
non-numeric columns, the bit "`pd.to_datetime` accepts the non-missing values for one of the candidate
formats" (`Env.parses`, a function of the non-missing cells).  Everything else — `dropna`, the list branch
with its flags and early `return None`, the minimum-count threshold, the separator search with Python's
`max` over possibly-NaN minimum counts — follows the code line by line.
-/
import TFVerif.Model.Stats

namespace TFVerif.Infer
open TFVerif.Stats (Stype distinct splitBySep)

/-- `cat_min_count_thresh` -/
def threshold : Nat := 4

/-- `POSSIBLE_SEPS` -/
def possibleSeps : List String := ["|", ","]

/-! ## minimum count -/

/-- `ser.value_counts().min()`: the smallest number of occurrences among the distinct values;
    `none` = NaN (no value at all). -/
def minCount {β : Type} [DecidableEq β] (xs : List β) : Option Nat :=
  match (distinct xs).map fun v => xs.count v with
  | [] => none
  | c :: cs => some (cs.foldl min c)

/-- `x > t` for a possibly-NaN `x` (every comparison with NaN is false) -/
def gtOpt (x : Option Nat) (t : Nat) : Bool :=
  match x with
  | none => false
  | some m => decide (t < m)

/-- `_min_count(ser) > t` -/
def minCountGt {β : Type} [DecidableEq β] (xs : List β) (t : Nat) : Bool := gtOpt (minCount xs) t

/-- Python's `max(lst or [0])` on floats where `none` is NaN: the running maximum is replaced only when
    `b > acc` is true, so a leading NaN stays and later NaNs are skipped. -/
def pyMax : List (Option Nat) → Option Nat
  | [] => some 0
  | a :: rest => rest.foldl (fun acc b =>
      match acc, b with
      | some x, some y => if x < y then some y else some x
      | _, _ => acc) a

/-! ## list-valued cells -/

/-- an element of a list-valued cell -/
inductive Elem where
  | int                      -- Python `int` (also `bool`)
  | flt (finite : Bool)      -- Python `float`; `finite` = neither NaN nor ±inf
  | str
  | other
deriving DecidableEq, Repr, Inhabited

/-- `_lst_is_all_type(lst, (int, float))` -/
def allNumeric (l : List Elem) : Bool := l.all fun e => match e with | .int => true | .flt _ => true | _ => false
/-- `_lst_is_all_type(lst, float)` -/
def allFloat (l : List Elem) : Bool := l.all fun e => match e with | .flt _ => true | _ => false
/-- `_lst_is_free_of_nan_and_inf(lst)` -/
def freeOfNanInf (l : List Elem) : Bool := l.all fun e => match e with | .flt f => f | _ => true
/-- `_lst_is_all_type(lst, str)` -/
def allStrElems (l : List Elem) : Bool := l.all fun e => match e with | .str => true | _ => false

/-- a non-missing cell of an object / `str` column -/
inductive Obj where
  | str (s : String)
  | list (l : List Elem)
  | other (tag : Nat)        -- any other hashable object; `tag` is its identity for `value_counts`
deriving DecidableEq, Repr, Inhabited

def Obj.isList : Obj → Bool
  | .list _ => true
  | _ => false

def Obj.isStr : Obj → Bool
  | .str _ => true
  | _ => false

/-- the three flags of the list branch -/
structure Flags where
  allNum : Bool
  allStr : Bool
  isEmb : Bool
deriving DecidableEq, Repr

/-- the `for lst in ser:` loop; `none` = the early `return None` on a non-list cell -/
def listLoop (length : Nat) : List Obj → Flags → Option Flags
  | [], f => some f
  | .list l :: rest, f =>
    let f1 :=
      if allNumeric l then
        (if !(length == l.length && allFloat l && freeOfNanInf l) then { f with isEmb := false } else f)
      else { f with allNum := false }
    let f2 := if !(allStrElems l) then { f1 with allStr := false } else f1
    listLoop length rest f2
  | _ :: _, _ => none

/-- the list branch: `first` is `ser.iloc[0]` -/
def inferLists (ser : List Obj) (first : List Elem) : Option Stype :=
  match listLoop first.length ser { allNum := true, allStr := true, isEmb := true } with
  | none => none
  | some f =>
    if f.allNum then (if f.isEmb then some .embedding else some .sequence_numerical)
    else if f.allStr then some .multicategorical
    else none

/-- specification of the list branch on a column whose cells are all lists -/
def inferListsSpec (ls : List (List Elem)) : Option Stype :=
  if ls.all allNumeric then
    (if ls.all (fun l => allFloat l && freeOfNanInf l) && ls.all (fun a => ls.all fun b => a.length == b.length)
     then some .embedding else some .sequence_numerical)
  else if ls.all allStrElems then some .multicategorical
  else none

/-! ## string-valued cells -/

def strsOf (ser : List Obj) : List String := ser.filterMap fun | .str s => some s | _ => none

/-- `ser.apply(split_by_sep(·, sep)).explode()` without the NaNs of empty sets: all tokens, one per
    (row, distinct token) -/
def tokens (split : String → String → List String) (rows : List String) (sep : String) : List String :=
  rows.flatMap fun row => distinct (split row sep)

/-- the separator search: `max(min_count_list or [0]) > thresh` -/
def inferTokens (tokLists : List (List String)) : Stype :=
  if gtOpt (pyMax (tokLists.map minCount)) threshold then .multicategorical else .text_embedded

/-! ## the decision procedure -/

/-- numeric dtype families (`is_numeric_dtype`); `bool` also covers nullable `boolean`, `int` also nullable `Int64` -/
inductive NumDtype where
  | float | int | bool
deriving DecidableEq, Repr

/-- a column: dtype family + cells (`none` = missing) -/
inductive Col (ν : Type) where
  | numeric (dt : NumDtype) (cells : List (Option ν))
  | datetime (cells : List (Option Int))
  | object (cells : List (Option Obj))
deriving Repr

/-- what pandas supplies -/
structure Env (ν : Type) where
  /-- `x % 1 == 0` -/
  isIntegral : ν → Bool
  /-- `_is_timestamp(ser)` on the non-missing cells of an object / `str` column -/
  parses : List Obj → Bool
  /-- `MultiCategoricalTensorMapper.split_by_sep(row, sep)` as a token list (`Stats.splitBySep` in the driver;
      the theorems hold for every splitting function) -/
  split : String → String → List String

/-- `infer_series_stype`; `none` = the column is skipped -/
def inferSeries {ν : Type} [DecidableEq ν] (env : Env ν) : Col ν → Option Stype
  | .numeric dt cells =>
    let hasNan := cells.any Option.isNone
    let ser := cells.filterMap id
    if ser.isEmpty then none
    else match dt with
      | .bool => some .categorical
      | .float =>
        if !(hasNan && ser.all env.isIntegral) then some .numerical
        else if minCountGt ser threshold then some .categorical else some .numerical
      | .int => if minCountGt ser threshold then some .categorical else some .numerical
  | .datetime cells =>
    -- not a numeric dtype; `pd.to_datetime` accepts a datetime column
    if (cells.filterMap id).isEmpty then none else some .timestamp
  | .object cells =>
    let ser := cells.filterMap id
    match ser with
    | [] => none
    | .list first :: _ => inferLists ser first
    | _ :: _ =>
      if env.parses ser then some .timestamp
      else if minCountGt ser threshold then some .categorical
      else if !(ser.all Obj.isStr) then
        (if minCountGt ser threshold then some .multicategorical else some .embedding)
      else some (inferTokens (possibleSeps.map fun sep => tokens env.split (strsOf ser) sep))

/-! ## vocabulary of the invariance statements -/

/-- same dtype family, rows permuted -/
inductive ColPerm {ν : Type} : Col ν → Col ν → Prop where
  | numeric (dt : NumDtype) {a b : List (Option ν)} : a.Perm b → ColPerm (.numeric dt a) (.numeric dt b)
  | datetime {a b : List (Option Int)} : a.Perm b → ColPerm (.datetime a) (.datetime b)
  | object {a b : List (Option Obj)} : a.Perm b → ColPerm (.object a) (.object b)

/-- an object column is homogeneous w.r.t. the first case split when its non-missing cells are either all
    lists or all non-lists (typed columns always are) -/
def Homogeneous {ν : Type} : Col ν → Prop
  | .object cells => (∀ o, some o ∈ cells → o.isList = true) ∨ (∀ o, some o ∈ cells → o.isList = false)
  | _ => True

/-- `b` is `a` with missing cells added or removed anywhere -/
def SameUpToMissing {γ : Type} (a b : List (Option γ)) : Prop := a.filterMap id = b.filterMap id

/-! ## labels and frames -/

/-- a pandas Series: index labels (never consulted) and a column -/
structure Series (ν : Type) where
  labels : List String
  col : Col ν

def Series.withLabels {ν : Type} (s : Series ν) (ls : List String) : Series ν := { s with labels := ls }

def inferLabelled {ν : Type} [DecidableEq ν] (env : Env ν) (s : Series ν) : Option Stype := inferSeries env s.col

/-- `col_to_stype[col] = stype` on an insertion-ordered dict -/
def dictSet (d : List (String × Stype)) (k : String) (v : Stype) : List (String × Stype) :=
  if d.any (fun p => p.1 == k) then d.map (fun p => if p.1 == k then (k, v) else p) else d ++ [(k, v)]

/-- one iteration of the loop of `infer_df_stype` -/
def frameStep {ν : Type} [DecidableEq ν] (env : Env ν) (d : List (String × Stype)) (nc : String × Col ν) :
    List (String × Stype) :=
  match inferSeries env nc.2 with
  | some s => dictSet d nc.1 s
  | none => d

/-- `infer_df_stype`: loop over the columns, keep those with a type -/
def inferFrame {ν : Type} [DecidableEq ν] (env : Env ν) (cols : List (String × Col ν)) : List (String × Stype) :=
  cols.foldl (frameStep env) []

end TFVerif.Infer

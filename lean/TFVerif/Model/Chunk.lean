/-
Model of how `torch_frame.data.mapper.EmbeddingTensorMapper.forward` (text / image embedders)
and `TextTokenizationTensorMapper.forward` (tokenizers, both output formats, batched and
unbatched) hand a column to a user callable and assemble what comes back (property C16).
Core Lean only.  Written in the shape of the code:

    ser_list = [str(value) for value in ser.tolist()]
    if batch_size is None:  out = f(ser_list)
    else:                   outs = [f(ser_list[i:i + batch_size]) for i in range(0, len(ser_list), batch_size)]

`Option` = the code raises.
-/
import TFVerif.Model.Ragged

namespace TFVerif.Chunk

/-! ### cells and their `str()` rendering -/

/-- the three missing-value objects a generated column may contain -/
inductive Missing where
  | none   -- Python `None`
  | nan    -- `float('nan')`
  | na     -- `pandas.NA`
deriving Repr, DecidableEq, Inhabited

/-- an abstract text / image-path cell -/
inductive Cell where
  | missing (m : Missing)
  | str (s : String)
deriving Repr, DecidableEq, Inhabited

/-- the pandas dtype the column is stored in -/
inductive Dtype where
  | object   -- `dtype=object`
  | str      -- pandas 3 `str` (NaN-backed string dtype)
  | string   -- `"string"` (`pandas.NA`-backed string dtype)
deriving Repr, DecidableEq, Inhabited

/-- `str(value)` of one element of `ser.tolist()`; how a missing cell prints is a parameter
    (it is decided by pandas: what `tolist()` returns for the cell). -/
def renderWith (tbl : Missing → String) : Cell → String
  | .missing m => tbl m
  | .str s => s

/-- the concrete table under the installed pandas: `str` of what `Series.tolist()` returns. -/
def pyTable : Dtype → Missing → String
  | .object, .none => "None"
  | .object, .nan => "nan"
  | .object, .na => "<NA>"
  | .str, _ => "nan"
  | .string, _ => "<NA>"

def render (dt : Dtype) : Cell → String := renderWith (pyTable dt)

/-- what a Python object handed to the callable is, as far as C16 cares -/
inductive PyArg where
  | str (s : String)
  | float_nan
  | none
  | na
deriving Repr, DecidableEq

def PyArg.isStr : PyArg → Bool
  | .str _ => true
  | _ => false

/-- the code before `2ba733f` (`ser.astype(str).tolist()`), under pandas 3: `astype(str)` turns
    every column (object, `str`, `string`) into the NaN-backed `str` dtype and `tolist()` then
    yields the float `nan` for a missing cell.  Kept only for the counter-example of `Props/C16`. -/
def oldArg : Dtype → Cell → PyArg
  | _, .str s => .str s
  | _, .missing _ => .float_nan

/-! ### chunking -/

/-- `[xs[i:i + bs] for i in range(0, len(xs), bs)]` (`bs ≥ 1`). -/
def chunks (bs : Nat) (xs : List α) : List (List α) :=
  (rangeStep 0 xs.length bs).map fun i => pySlice xs i (i + bs)

/-- the argument lists of the successive calls of the user callable.
    `none`: `range(0, n, 0)` raises `ValueError`. -/
def callArgs (bs : Option Nat) (serList : List String) : Option (List (List String)) :=
  match bs with
  | none => some [serList]
  | some 0 => none
  | some b => some (chunks b serList)

/-! ### embedders -/

variable {V : Type}

/-- `MultiEmbeddingTensor(num_rows=len(ser), num_cols=1, values=values, offset=[0, len(values[0])])`.
    `values` is a 2-D tensor: `none` when it has no row (`values[0]` raises) or when the rows do
    not have one common width (no such tensor exists / `torch.cat` of the chunk outputs raises). -/
def mkMET (numRows : Nat) (values : List (List V)) : Option (MET V) :=
  match values with
  | [] => none
  | v0 :: _ =>
    if values.all (·.length == v0.length) then
      some { numRows := numRows, numCols := 1, width := v0.length, values := values, offset := [0, v0.length] }
    else none

/-- `EmbeddingTensorMapper(embedder, batch_size).forward(ser)`; the embedder returns one row per
    input string. -/
def embedColumn (tbl : Missing → String) (emb : List String → List (List V)) (bs : Option Nat)
    (cells : List Cell) : Option (MET V) :=
  let serList := cells.map (renderWith tbl)
  match bs with
  | none => mkMET cells.length (emb serList)
  | some 0 => none
  | some b =>
    let embList := (chunks b serList).map emb
    if embList.isEmpty then none            -- `torch.cat([])` raises
    else mkMET cells.length embList.flatten -- `torch.cat(emb_list, dim=0)`

/-! ### tokenizers -/

abbrev Key := String

/-- what a tokenizer returns for one list of sentences -/
inductive TokOut (V : Type) where
  /-- one mapping `key ↦ 2-D tensor` (one row per sentence) -/
  | mapping (m : List (Key × List (List V)))
  /-- a list of per-sentence mappings `key ↦ 1-D tensor` -/
  | sentences (l : List (List (Key × List V)))
deriving Repr

/-- `[g(x) for x in xs]`, raising as soon as one `g(x)` raises. -/
def traverse (g : α → Option β) : List α → Option (List β)
  | [] => some []
  | x :: xs =>
    match g x, traverse g xs with
    | some y, some ys => some (y :: ys)
    | _, _ => none

/-- per key, the list `xs` of per-row tensors that is handed to `from_tensor_mat` as
    `[[t] for t in xs]` — unbatched branch (`batch_size is None`). -/
def assembleUnbatched : TokOut V → Option (List (Key × List (List V)))
  | .mapping m =>
    -- for key in tokenized_outputs.keys(): xs = [[t] for t in tokenized_outputs[key]]
    traverse (fun k => (m.lookup k).map fun rows => (k, rows)) (m.map Prod.fst)
  | .sentences [] => none   -- tokenized_outputs[0]
  | .sentences (d0 :: ds) =>
    -- for key in tokenized_outputs[0].keys(): xs = [[d[key]] for d in tokenized_outputs]
    traverse (fun k => (traverse (fun (d : List (Key × List V)) => d.lookup k) (d0 :: ds)).map fun xs => (k, xs))
      (d0.map Prod.fst)

/-- batched branch: `outs` are the callable's outputs for the successive chunks; the format and
    the keys are read off the first one. -/
def assembleBatched (outs : List (TokOut V)) : Option (List (Key × List (List V))) :=
  match outs with
  | [] => none   -- tokenized_outputs[0]
  | .mapping m0 :: _ =>
    traverse (fun k =>
      (traverse (fun (o : TokOut V) => match o with
          | .mapping m => m.lookup k          -- tokenized_batch[key]
          | .sentences _ => none) outs).map fun parts => (k, parts.flatten))   -- xs.extend(...)
      (m0.map Prod.fst)
  | .sentences [] :: _ => none   -- tokenized_outputs[0][0]
  | .sentences (d0 :: _) :: _ =>
    traverse (fun k =>
      (traverse (fun (o : TokOut V) => match o with
          | .sentences l => traverse (fun (d : List (Key × List V)) => d.lookup k) l
          | .mapping _ => none) outs).map fun parts => (k, parts.flatten))
      (d0.map Prod.fst)

/-- per key the ragged list of per-row token lists (`none` = raises); `tok` is the user callable. -/
def tokenizeRows (tbl : Missing → String) (tok : List String → TokOut V) (bs : Option Nat)
    (cells : List Cell) : Option (List (Key × List (List V))) :=
  let serList := cells.map (renderWith tbl)
  match bs with
  | none => assembleUnbatched (tok serList)
  | some 0 => none
  | some b => assembleBatched ((chunks b serList).map tok)

/-- `MultiNestedTensor.from_tensor_mat([[t] for t in xs])` per key. -/
def toContainers (rows : List (Key × List (List V))) : Option (List (Key × MNT V)) :=
  traverse (fun (k, xs) => (MNT.fromCells (xs.map fun t => [t])).map fun m => (k, m)) rows

/-- `TextTokenizationTensorMapper(tok, batch_size).forward(ser)`. -/
def tokenizeColumn (tbl : Missing → String) (tok : List String → TokOut V) (bs : Option Nat)
    (cells : List Cell) : Option (List (Key × MNT V)) :=
  (tokenizeRows tbl tok bs cells).bind toContainers

/-! ### the two shapes a deterministic per-sentence tokenizer `g` can take -/

/-- format "list of per-sentence mappings" -/
def tokSentences (keys : List Key) (g : String → Key → List V) (xs : List String) : TokOut V :=
  .sentences (xs.map fun s => keys.map fun k => (k, g s k))

/-- format "one mapping of 2-D tensors" -/
def tokMapping (keys : List Key) (g : String → Key → List V) (xs : List String) : TokOut V :=
  .mapping (keys.map fun k => (k, xs.map fun s => g s k))

end TFVerif.Chunk

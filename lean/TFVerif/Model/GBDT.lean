/-
C20 — GBDT adapters (`torch_frame/gbdt/*.py`): conversion of a TensorFrame into the matrix handed
to XGBoost / CatBoost / LightGBM, `compute_metric`, metric selection in `GBDT.__init__`, the
`is_fitted` guards, and the `TaskType` / `Metric` tables of `torch_frame/typing.py`.

Core Lean only.  Cell payloads are only moved, so the payload type `α` is a parameter; metrics are
computed, so their scalar type is a parameter given by a record of operations (`MOps R`): the
driver instantiates `Float`, the theorems an arbitrary linearly ordered field.
-/
namespace TFVerif.GBDT

/-! ### the finite tables -/

/-- `torch_frame.TaskType`, declaration order -/
inductive TaskType where
  | regression | multiclass | binary | multilabel
deriving Repr, DecidableEq, Inhabited

/-- `torch_frame.Metric`, declaration order -/
inductive Metric where
  | accuracy | rocauc | rmse | mae | r2
deriving Repr, DecidableEq, Inhabited

def TaskType.all : List TaskType := [.regression, .multiclass, .binary, .multilabel]
def Metric.all : List Metric := [.accuracy, .rocauc, .rmse, .mae, .r2]

/-- the enum values (`.value`) -/
def TaskType.name : TaskType → String
  | .regression => "regression"
  | .multiclass => "multiclass_classification"
  | .binary => "binary_classification"
  | .multilabel => "multilabel_classification"

def Metric.name : Metric → String
  | .accuracy => "accuracy"
  | .rocauc => "rocauc"
  | .rmse => "rmse"
  | .mae => "mae"
  | .r2 => "r2"

/-- `TaskType.supported_metrics` (order as in the code) -/
def supportedMetrics : TaskType → List Metric
  | .regression => [.rmse, .mae, .r2]
  | .binary => [.accuracy, .rocauc]
  | .multiclass => [.accuracy]
  | .multilabel => []

/-- `Metric.supports_task_type` -/
def metricOk (t : TaskType) (m : Metric) : Bool := (supportedMetrics t).contains m

/-- `DEFAULT_METRIC` (a dict: no entry for multilabel, the lookup raises `KeyError`) -/
def defaultMetric : TaskType → Option Metric
  | .regression => some .rmse
  | .binary => some .rocauc
  | .multiclass => some .accuracy
  | .multilabel => none

/-- metric selection of `GBDT.__init__(task_type, metric=m)`: the metric the object ends up with,
    or `none` when the constructor raises -/
def ctorMetric (t : TaskType) (m : Option Metric) : Option Metric :=
  match defaultMetric t with
  | none => none
  | some d =>
    match m with
    | none => some d
    | some m => if metricOk t m then some m else none

def optName : Option Metric → String
  | none => "raises"
  | some m => m.name

/-- the tables in the shape the reflective generator prints them -/
def supportedTable : List (String × List String) :=
  TaskType.all.map fun t => (t.name, (supportedMetrics t).map Metric.name)

def metricOkTable : List (String × String × Bool) :=
  TaskType.all.flatMap fun t => Metric.all.map fun m => (t.name, m.name, metricOk t m)

def defaultMetricTable : List (String × String) :=
  TaskType.all.map fun t => (t.name, optName (defaultMetric t))

/-- (task, requested metric or "None", resulting metric or "raises") -/
def ctorTable : List (String × String × String) :=
  TaskType.all.flatMap fun t =>
    (none :: Metric.all.map some).map fun m =>
      (t.name, (match m with | none => "None" | some m => m.name), optName (ctorMetric t m))

/-- the adapter classes all inherit `GBDT.__init__` unchanged -/
def adapterClasses : List String := ["GBDT", "XGBoost", "CatBoost", "LightGBM"]

def ctorTableAll : List (String × List (String × String × String)) :=
  adapterClasses.map fun c => (c, ctorTable)

/-! ### conversion of a TensorFrame -/

inductive Lib where
  | xgboost | catboost | lightgbm
deriving Repr, DecidableEq, Inhabited

/-- a cell of the converted matrix: a category index, NaN, or a payload moved unchanged -/
inductive Cell (α : Type) where
  | cat (i : Int)
  | nan
  | val (a : α)
deriving Repr, DecidableEq, Inhabited

/-- `MultiEmbeddingTensor` storage: `values : [R, total]`, `offset` = column boundaries -/
structure Emb (α : Type) where
  values : List (List α)
  offset : List Nat

/-- the parts of a TensorFrame the adapters look at.  `catNames` / `numNames` are
    `len(col_names_dict[stype])` (the width of the block, also when there are no rows). -/
structure Frame (α γ : Type) where
  numRows : Nat
  cat : Option (List (List Int))
  catNames : Nat
  num : Option (List (List α))
  numNames : Nat
  emb : Option (Emb α)
  /-- number of further stypes present in `feat_dict` (timestamp, multicategorical, …): ignored -/
  other : Nat
  y : Option (List γ)

/-- width of the stored embedding matrix `feat.values` (`feat.size(-1)`): the last offset, `offset[-1]` -/
def Emb.width {α : Type} (e : Emb α) : Nat := e.offset.getD (e.offset.length - 1) 0

def build {β : Type} (n : Nat) (f : Nat → β) : List β := (List.range n).map f

/-- `neg_to_nan` (tuned_xgboost.py), in the shape of the code: only when some entry is `-1` is the
    tensor cast to float and the `-1` entries overwritten with NaN -/
def negToNan {α : Type} (x : List (List Int)) : List (List (Cell α)) :=
  if x.any (fun row => row.any (· == -1)) then
    x.map fun row => row.map fun i => if i == -1 then Cell.nan else Cell.cat i
  else
    x.map fun row => row.map Cell.cat

/-- the categorical block as the adapter appends it -/
def catBlock {α : Type} (lib : Lib) (x : List (List Int)) : List (List (Cell α)) :=
  match lib with
  | .xgboost => negToNan x
  | _ => x.map fun row => row.map Cell.cat

def valBlock {α : Type} (x : List (List α)) : List (List (Cell α)) := x.map fun row => row.map Cell.val

/-- one appended block: its rows, its width, whether its columns are categorical -/
structure Block (α : Type) where
  rows : List (List (Cell α))
  width : Nat
  isCat : Bool

/-- the `feats` / `dfs` list in the order the code appends: categorical, numerical, embedding -/
def blocks {α γ : Type} (lib : Lib) (f : Frame α γ) : List (Block α) :=
  (match f.cat with
    | some x => [{ rows := catBlock lib x, width := f.catNames, isCat := true }]
    | none => []) ++
  (match f.num with
    | some x => [{ rows := valBlock x, width := f.numNames, isCat := false }]
    | none => []) ++
  (match f.emb with
    | some e => [{ rows := valBlock e.values, width := e.width, isCat := false }]
    | none => [])

/-- `torch.cat(feats, dim=-1)` / `pd.concat(dfs, axis=1)`: row `r` is the concatenation of row `r`
    of every block -/
def hcat {α : Type} (R : Nat) (bs : List (Block α)) : List (List (Cell α)) :=
  build R fun r => (bs.map fun b => b.rows.getD r []).flatten

/-- XGBoost's `feature_types` (`true` = `'c'`, `false` = `'q'`) -/
def featureTypes {α : Type} (bs : List (Block α)) : List Bool :=
  (bs.map fun b => List.replicate b.width b.isCat).flatten

/-- CatBoost / LightGBM `cat_features`: `arange(offset, offset + width)` of the categorical blocks,
    with the running `offset` of the code -/
def catFeatures {α : Type} : Nat → List (Block α) → List Nat
  | _, [] => []
  | off, b :: bs =>
    (if b.isCat then List.range' off b.width else []) ++ catFeatures (off + b.width) bs

structure Converted (α γ : Type) where
  rows : List (List (Cell α))
  /-- per output column: categorical? -/
  types : List Bool
  catIdx : List Nat
  y : Option (List γ)

/-- `_to_xgboost_input` / `_to_catboost_input` / `_to_lightgbm_input`; `none` = `ValueError`
    ("The input TensorFrame object is empty") when none of the three stypes is present.
    (`feat.values.view(feat.size(0), feat.size(-1))` is the identity on the 2-D storage, also for
    zero rows.) -/
def convert {α γ : Type} (lib : Lib) (f : Frame α γ) : Option (Converted α γ) :=
  let bs := blocks lib f
  if bs.isEmpty then none else
  some { rows := hcat f.numRows bs, types := featureTypes bs, catIdx := catFeatures 0 bs, y := f.y }

/-! specification layer -/

def Frame.catW {α γ : Type} (f : Frame α γ) : Nat := if f.cat.isSome then f.catNames else 0
def Frame.numW {α γ : Type} (f : Frame α γ) : Nat := if f.num.isSome then f.numNames else 0
def Frame.embW {α γ : Type} (f : Frame α γ) : Nat := match f.emb with | some e => e.width | none => 0
def Frame.totalW {α γ : Type} (f : Frame α γ) : Nat := f.catW + f.numW + f.embW

/-- what a categorical source cell becomes -/
def catCell {α : Type} (lib : Lib) (i : Int) : Cell α :=
  if lib = .xgboost ∧ i = -1 then .nan else .cat i

/-- the source cell of matrix position `(r, k)`, determined by the segment `k` falls in -/
def sourceCell {α γ : Type} [Inhabited α] (lib : Lib) (f : Frame α γ) (r k : Nat) : Cell α :=
  if k < f.catW then
    catCell lib (((f.cat.getD []).getD r []).getD k 0)
  else if k < f.catW + f.numW then
    .val (((f.num.getD []).getD r []).getD (k - f.catW) default)
  else
    .val ((((f.emb.map (·.values)).getD []).getD r []).getD (k - f.catW - f.numW) default)

/-- entry `t` of the embedding of column `c` in row `r` (slice of the stored row) -/
def Emb.cell {α : Type} (e : Emb α) (r c : Nat) : List α :=
  ((e.values.getD r []).drop (e.offset.getD c 0)).take (e.offset.getD (c + 1) 0 - e.offset.getD c 0)

/-- well-formed frame (what `TensorFrame.validate` and the container classes guarantee) -/
structure Frame.WF {α γ : Type} (f : Frame α γ) : Prop where
  cat : ∀ x, f.cat = some x → x.length = f.numRows ∧ ∀ row ∈ x, row.length = f.catNames
  num : ∀ x, f.num = some x → x.length = f.numRows ∧ ∀ row ∈ x, row.length = f.numNames
  emb : ∀ e, f.emb = some e → e.values.length = f.numRows ∧ ∀ row ∈ e.values, row.length = e.width

/-! ### metrics -/

structure MOps (R : Type) where
  add : R → R → R
  sub : R → R → R
  mul : R → R → R
  div : R → R → R
  abs : R → R
  sqrt : R → R
  lt : R → R → Bool
  eq : R → R → Bool
  ofNat : Nat → R

variable {R : Type}

def MOps.sum (o : MOps R) (xs : List R) : R := xs.foldr o.add (o.ofNat 0)
/-- `tensor.mean()` -/
def MOps.mean (o : MOps R) (xs : List R) : R := o.div (o.sum xs) (o.ofNat xs.length)
/-- the literal `0.5` -/
def MOps.half (o : MOps R) : R := o.div (o.ofNat 1) (o.ofNat 2)

/-- `(pred - target).square().mean().sqrt()` -/
def rmse (o : MOps R) (pred target : List R) : R :=
  o.sqrt (o.mean (List.zipWith (fun p t => o.mul (o.sub p t) (o.sub p t)) pred target))

/-- `(pred - target).abs().mean()` -/
def mae (o : MOps R) (pred target : List R) : R :=
  o.mean (List.zipWith (fun p t => o.abs (o.sub p t)) pred target)

/-- `pred > 0.5` promoted to a number by `target == pred` -/
def threshold (o : MOps R) (p : R) : R := if o.lt o.half p then o.ofNat 1 else o.ofNat 0

/-- `(target == pred).sum()`, with the binary threshold applied first when `binary` -/
def correct (o : MOps R) (binary : Bool) (pred target : List R) : Nat :=
  (List.zipWith (fun p t => o.eq t (if binary then threshold o p else p)) pred target).count true

/-- `total_correct / test_size`; `none` = `ZeroDivisionError` on empty vectors -/
def accuracy (o : MOps R) (binary : Bool) (pred target : List R) : Option R :=
  if target.length = 0 then none
  else some (o.div (o.ofNat (correct o binary pred target)) (o.ofNat target.length))

inductive Score (R : Type) where
  | ok (s : R)
  | raises
  /-- ROC-AUC and R² are delegated to scikit-learn: outside the model -/
  | external

/-- `GBDT.compute_metric(target, pred)` for an object with the given task type and metric;
    vectors of different length raise (no broadcasting inside the domain) -/
def computeMetric (o : MOps R) (t : TaskType) (m : Metric) (target pred : List R) : Score R :=
  if pred.length ≠ target.length then .raises else
  match m with
  | .rmse => .ok (rmse o pred target)
  | .mae => .ok (mae o pred target)
  | .accuracy =>
    match accuracy o (t == .binary) pred target with
    | some s => .ok s
    | none => .raises
  | .rocauc => .external
  | .r2 => .external

/-! ### the `is_fitted` guards -/

inductive Op where
  /-- `tune(tf_train, tf_val)`: whether the two frames carry `y`, whether the subclass hook `_tune` returns -/
  | tune (trainY valY hookOk : Bool)
  | predict
  | save
  /-- `load(path)`: whether the subclass hook `_load` returns -/
  | load (hookOk : Bool)
deriving Repr, DecidableEq

/-- one call on an object whose `_is_fitted` is `fitted`: (`true` = returns, `false` = raises; new flag) -/
def step (fitted : Bool) : Op → Bool × Bool
  | .tune trainY valY hookOk => if trainY && valY && hookOk then (true, true) else (false, fitted)
  | .predict => (fitted, fitted)
  | .save => (fitted, fitted)
  | .load hookOk => if hookOk then (true, true) else (false, fitted)

/-- a history of calls from a fresh object: the outcomes and the final flag -/
def runOps : Bool → List Op → List Bool × Bool
  | fitted, [] => ([], fitted)
  | fitted, op :: ops =>
    let (ok, f') := step fitted op
    let (oks, f'') := runOps f' ops
    (ok :: oks, f'')

/-- a call that can set the flag -/
def Op.fits : Op → Bool
  | .tune a b c => a && b && c
  | .load c => c
  | _ => false

def floatOps : MOps Float where
  add := (· + ·)
  sub := (· - ·)
  mul := (· * ·)
  div := (· / ·)
  abs := Float.abs
  sqrt := Float.sqrt
  lt := fun a b => decide (a < b)
  eq := fun a b => a == b
  ofNat := Float.ofNat

end TFVerif.GBDT

/-
Model of `torch_frame.data.Dataset` as far as rows are concerned (property C09):
a dataset is a DataFrame side (`df`, the rows with their index labels, hidden row ids and split
values) and a TensorFrame side (`tf`, the encoded rows) that must stay aligned, plus the
materialization flag and the column bookkeeping of `col_select`.  Written in the shape of the code:
`index_select` applies the *same* index separately to `df.iloc[...]` and to `tensor_frame[...]`,
`shuffle` is `index_select(perm)`, `get_split` builds a boolean mask, takes its non-zero positions and
goes through `__getitem__`.  Core Lean only.
-/
import TFVerif.Model.Py
import TFVerif.Model.Split

namespace TFVerif.Dataset

open TFVerif.Split (splitNum)

/-- one row of the DataFrame: hidden row id, index label (an opaque code), value of the split column -/
structure Row where
  rid : Nat
  label : Int
  split : Nat
deriving Repr, DecidableEq, Inhabited

/-- one encoded row of the TensorFrame: every feature cell is an injective function of the row id -/
abbrev Enc := Nat

/-- the converter, row by row -/
def enc (r : Row) : Enc := r.rid

/-- positional gather: what `df.iloc[positions]` and `tensor[positions]` do -/
def pick (xs : List α) (ps : List Nat) : List α := ps.filterMap (xs[·]?)

/-- Python `xs[a:b]` for already clamped bounds -/
def pySlice (xs : List α) (a b : Nat) : List α := (xs.drop a).take (b - a)

/-- Python `round(p / q)` for `q > 0`: nearest integer, ties to the even one. -/
def roundHalfEven (p : Int) (q : Nat) : Int :=
  let f := p / (q : Int)
  let r := p % (q : Int)
  if 2 * r < q then f else if (q : Int) < 2 * r then f + 1 else if f % 2 = 0 then f else f + 1

/-- a slice bound of `dataset[a:b]`: absent, a Python int, or a float given as the rational `p / q` -/
inductive Bound where
  | none
  | int (i : Int)
  | frac (p : Int) (q : Nat)
deriving Repr, DecidableEq, Inhabited

/-- `if isinstance(start, float): start = round(start * len(self))` -/
def Bound.resolve (n : Nat) : Bound → Option Int
  | .none => Option.none
  | .int i => some i
  | .frac p q => some (roundHalfEven (p * n) q)

/-- argument of `Dataset.index_select` / `Dataset.__getitem__` (row selection) -/
inductive DIndex where
  | idx (ix : Index)
  | fslice (start stop : Bound) (step : Option Int)
deriving Repr, Inhabited

/-- the first lines of `index_select`: an int becomes a one-element list, float slice bounds are rounded -/
def DIndex.resolve (n : Nat) : DIndex → Index
  | .idx (.int i) => .list [i]
  | .idx ix => ix
  | .fslice a b s => .slice (a.resolve n) (b.resolve n) s

structure DS where
  df : List Row
  tf : List Enc            -- `_tensor_frame` (meaningful once materialized)
  materialized : Bool
  cols : List String       -- keys of `col_to_stype`, in order
  target : Option String
  splitCol : Bool          -- `split_col is not None`
  splitInDf : Bool         -- `df` still has the split column (`col_select` drops it)
deriving Repr, DecidableEq, Inhabited

namespace DS

/-- the constructor: split values must lie in `SPLIT_TO_NUM.values()` -/
def create (rows : List Row) (cols : List String) (target : Option String) (splitCol : Bool) : Option DS :=
  if splitCol && !(rows.all fun r => (splitNum.map (·.2)).contains r.split) then none
  else some { df := rows, tf := [], materialized := false, cols := cols, target := target,
              splitCol := splitCol, splitInDf := splitCol }

def featCols (d : DS) : List String :=
  match d.target with
  | none => d.cols
  | some t => d.cols.erase t

/-- `materialize()`: idempotent; builds the TensorFrame row by row from `df`.
    (A dataset without feature columns is outside the modelled domain and reported as raising.) -/
def materialize (d : DS) : Option DS :=
  if d.materialized then some d
  else if d.featCols.isEmpty then none
  else some { d with tf := d.df.map enc, materialized := true }

/-- `@requires_post_materialization index_select` -/
def indexSelect (d : DS) (ix : DIndex) : Option DS :=
  if !d.materialized then none else
  let index := ix.resolve d.df.length            -- `len(self)` is `len(self.df)`
  match index.positions d.df.length, index.positions d.tf.length with
  | some p, some p' => some { d with df := pick d.df p, tf := pick d.tf p' }
  | _, _ => none

/-- `shuffle`: `perm = torch.randperm(len(self)); index_select(perm)`; the draw is an input. -/
def shuffle (d : DS) (perm : List Nat) : Option DS :=
  d.indexSelect (.idx (.list (perm.map Int.ofNat)))

/-- `get_split(split)` of the current code: positions of the rows whose split value matches. -/
def getSplit (d : DS) (name : String) : Option DS :=
  if !d.splitCol then none
  else match splitNum.lookup name with
    | none => none
    | some k =>
      if !d.splitInDf then none else
      let mask := d.df.map fun r => r.split == k
      let indices := maskPositions mask
      d.indexSelect (.idx (.list (indices.map Int.ofNat)))

/-- `get_split` as it was before commit 3b5c77a: the index *labels* of the matching rows are used as
    positions.  Kept only to show that `getSplit_positional` is not vacuous. -/
def getSplitByLabel (d : DS) (name : String) : Option DS :=
  if !d.splitCol then none
  else match splitNum.lookup name with
    | none => none
    | some k =>
      if !d.splitInDf then none else
      let labels := (d.df.filter fun r => r.split == k).map (·.label)
      d.indexSelect (.idx (.list labels))

/-- `split()` -/
def split (d : DS) : Option (DS × DS × DS) := do
  let a ← d.getSplit "train"
  let b ← d.getSplit "val"
  let c ← d.getSplit "test"
  pure (a, b, c)

/-- `if self.target_col is not None and self.target_col not in cols: cols.append(self.target_col)` -/
def withTarget (target : Option String) (cs : List String) : List String :=
  match target with
  | some t => if cs.contains t then cs else cs ++ [t]
  | none => cs

/-- `@requires_pre_materialization col_select`: keeps the target, drops every other column of `df`. -/
def colSelect (d : DS) (cs : List String) : Option DS :=
  if d.materialized then none else
  let cs' := withTarget d.target cs
  if cs'.all (d.cols.contains ·) then some { d with cols := cs', splitInDf := false } else none

/-- `@requires_post_materialization tensor_frame` (and `col_stats`) -/
def tensorFrame (d : DS) : Option (List Enc) :=
  if d.materialized then some d.tf else none

end DS

/-! ### histories: a pool of datasets; every operation is applied to any previously derived one -/

inductive Op where
  | materialize (src : Nat)
  | select (src : Nat) (ix : DIndex)
  | shuffle (src : Nat) (perm : List Nat)
  | getSplit (src : Nat) (name : String)
  | split (src : Nat)
  | colSelect (src : Nat) (cols : List String)
  | tensorFrame (src : Nat)
deriving Repr, Inhabited

inductive Out where
  | raises
  | updated (d : DS)            -- `materialize` mutates pool[src] in place
  | derived (ds : List DS)      -- new datasets appended to the pool
  | observed (tf : List Enc)
deriving Repr, Inhabited

def derive (pool : List DS) (r : Option (List DS)) : List DS × Out :=
  match r with
  | none => (pool, .raises)
  | some ds => (pool ++ ds, .derived ds)

def step (pool : List DS) : Op → List DS × Out
  | .materialize src =>
    match pool[src]? with
    | none => (pool, .raises)
    | some d =>
      match d.materialize with
      | none => (pool, .raises)
      | some d' => (pool.set src d', .updated d')
  | .select src ix => derive pool ((pool[src]?).bind fun d => (d.indexSelect ix).map ([·]))
  | .shuffle src perm => derive pool ((pool[src]?).bind fun d => (d.shuffle perm).map ([·]))
  | .getSplit src name => derive pool ((pool[src]?).bind fun d => (d.getSplit name).map ([·]))
  | .split src => derive pool ((pool[src]?).bind fun d => d.split.map fun (a, b, c) => [a, b, c])
  | .colSelect src cs => derive pool ((pool[src]?).bind fun d => (d.colSelect cs).map ([·]))
  | .tensorFrame src =>
    match (pool[src]?).bind DS.tensorFrame with
    | none => (pool, .raises)
    | some tf => (pool, .observed tf)

/-- run a history; returns the final pool and the outcome of every step -/
def run : List Op → List DS → List DS × List Out
  | [], pool => (pool, [])
  | op :: ops, pool =>
    let (pool', o) := step pool op
    let (pool'', os) := run ops pool'
    (pool'', o :: os)

/-! ### specification layer -/

/-- the two representations hold the same rows in the same order -/
def DS.Aligned (d : DS) : Prop := d.materialized = true → d.tf = d.df.map enc

instance (d : DS) : Decidable d.Aligned := by
  unfold DS.Aligned; exact inferInstance

/-- every dataset derived so far is aligned -/
def PoolWF (pool : List DS) : Prop := ∀ d ∈ pool, d.Aligned

/-- the operation mutates its source (only `materialize` does) -/
def Op.mutates : Op → Option Nat
  | .materialize src => some src
  | _ => none

end TFVerif.Dataset

/-
Python integer-index and slice semantics, as used by `torch_frame` containers,
`TensorFrame.__getitem__`, `Dataset.index_select` and `DataLoader` collation.
Core Lean only (no imports) so that drivers link as `lean_exe`.
-/
namespace TFVerif

/-- `_normalize_index(i, check_out_of_bounds=True)` for a Python int on an axis of size `n`;
    also Python's own `list[i]`.  `none` = IndexError. -/
def normIndex (n : Nat) (i : Int) : Option Nat :=
  let j := if i < 0 then i + n else i
  if j < 0 ∨ j ≥ n then none else some j.toNat

/-- all-or-nothing normalisation of an index list (`torch.tensor(list)` / range / int tensor). -/
def normIndices (n : Nat) : List Int → Option (List Nat)
  | [] => some []
  | i :: is => do
      let j ← normIndex n i
      let js ← normIndices n is
      pure (j :: js)

/-- One bound of `slice.indices(n)` for a positive step. -/
def clampBound (n : Nat) (b : Option Int) (dflt : Nat) : Nat :=
  match b with
  | none => dflt
  | some x =>
    if x < 0 then (if x + n < 0 then 0 else (x + n).toNat)
    else (if x > n then n else x.toNat)

/-- `(start, stop)` of `slice(start, stop, step).indices(n)` for a positive step. -/
def sliceBounds (n : Nat) (start stop : Option Int) : Nat × Nat :=
  (clampBound n start 0, clampBound n stop n)

/-- `list(range(a, b, k))` for `k > 0`, by fuel. -/
def rangeStep (a b k : Nat) : List Nat :=
  go (b - a) a
where
  go : Nat → Nat → List Nat
  | 0, _ => []
  | fuel + 1, x => if x < b then x :: go fuel (x + (k - 1) + 1) else []

/-- positions selected by `xs[start:stop:step]` on a list of length `n`, `step ≥ 1`. -/
def slicePositions (n : Nat) (start stop : Option Int) (step : Nat) : List Nat :=
  let (a, b) := sliceBounds n start stop
  rangeStep a b step

/-- positions where a boolean mask is true (`mask.nonzero().flatten()`). -/
def maskPositions : List Bool → List Nat :=
  go 0
where
  go (k : Nat) : List Bool → List Nat
  | [] => []
  | b :: bs => if b then k :: go (k + 1) bs else go (k + 1) bs

/-- The documented `IndexSelectType`.  `list` stands for a Python list, a `range`
    and a 1-D integer tensor alike (the code turns all three into one long tensor). -/
inductive Index where
  | int (i : Int)
  | slice (start stop step : Option Int)
  | list (is : List Int)
  | mask (bs : List Bool)
deriving Repr, DecidableEq, Inhabited

/-- Python-list semantics of an index expression on an axis of length `n`:
    the list of selected positions, or `none` when Python / the library raises
    (out-of-range integer, non-positive step, mask of the wrong length). -/
def Index.positions (n : Nat) : Index → Option (List Nat)
  | .int i => (normIndex n i).map fun j => [j]
  | .slice a b none => some (slicePositions n a b 1)
  | .slice a b (some s) => if s ≤ 0 then none else some (slicePositions n a b s.toNat)
  | .list is => normIndices n is
  | .mask bs => if bs.length = n then some (maskPositions bs) else none

end TFVerif

/-
Conservative extension of `TFVerif.Model.Encoder` (properties C12): the two parts of
`stype_encoder.py` / `stypewise_encoder.py` the first model left to the admissibility tables only.

  6. `LinearModelEncoder` - the wrapper around user-supplied models.  The user model is opaque to the
     library; what the library contributes is (a) WHICH column's data reaches WHICH model (`feat[:, i]` →
     `model_dict[col_names[i]]`), (b) which `weight_dict` / `bias_dict` entry is applied and (c) WHERE the
     result lands on the column axis (the loop runs over `col_names`, i.e. the frame's column order, not
     over the insertion order of the user's `col_to_model_cfg` dict).  The check plugs in a concrete stand-in
     family for the user model (`StubModel`: affine map + tanh on one cell); the dictionaries are association
     lists in the insertion order of the user's dict, looked up BY NAME.
  7. `StypeWiseFeatureEncoder.__init__` key by key: the parent-stype check and the `supported_stypes` check
     apply to every key of `stype_encoder_dict`, whether or not the data has columns of that stype; the lazy
     attributes (hence `init_modules` and its NA-strategy validation) are supplied only for stypes with columns.
  8. `StypeWiseFeatureEncoder.forward` over encoders of either kind (`AnyEncoder`); on built-in encoders it is
     `wiseForward` (`Proofs/EncoderLM.lean`).

Core Lean only.  Nothing in `Model/Encoder.lean` changes.
-/
import TFVerif.Model.Encoder

namespace TFVerif.Enc

/-! ## 6. `LinearModelEncoder` -/

/-- the check's stand-in for one user model: `x ↦ tanh(x @ a + c)` on one cell (`[d] → [k]`) -/
structure StubModel (R : Type) where
  a : Mat R        -- [d][k]
  c : List R       -- [k]

/-- one entry of `model_dict` / `weight_dict` / `bias_dict` / `in_channels_dict` (they share their keys) -/
structure LMCol (R : Type) where
  name : String
  model : StubModel R
  weight : Mat R   -- weight_dict[name] : [in_channels][out_channels]
  bias : List R    -- bias_dict[name]   : [out_channels]

structure LMEncoder (R : Type) where
  ch : Nat
  fill : Option (Fill R)
  cols : List (LMCol R)        -- insertion order of the user's `col_to_model_cfg`
  post : Post R

section lm
variable {R : Type} (S : SOps R)

def StubModel.apply (m : StubModel R) (x : List R) : List R :=
  (List.zipWith S.add (vecMat S x m.a m.c.length) m.c).map S.tanh

/-- `feat[:, i]` as the `[B][d]` input of the user model: numerical / categorical cells are viewed as
    `[B, 1, 1]`, a timestamp cell as `[B, 1, 7]`, a pre-computed embedding as its slice of `values`;
    `none` = IndexError -/
def lmColumn (feat : Feat R) (i : Nat) : Option (Mat R) :=
  match feat with
  | .num x => gather (fun row => (row[i]?).map fun v => [v]) x
  | .cat x => gather (fun row => (row[i]?).map fun (v : Int) => [S.ofInt v]) x
  | .time x => gather (fun row => (row[i]?).map fun (ts : List Int) => ts.map S.ofInt) x
  | .emb off vals =>
      match off[i]?, off[i + 1]? with
      | some a, some b => some (vals.map fun row => (row.drop a).take (b - a))
      | _, _ => none
  | .bags _ => none

/-- the body of the loop of `LinearModelEncoder.encode_forward` for position `i` of `col_names`:
    `x = self.model_dict[col_name](feat[:, i]); x_lin = x @ self.weight_dict[col_name] + self.bias_dict[col_name]` -/
def lmColumnEncode (e : LMEncoder R) (feat : Feat R) (i : Nat) (colName : String) : Option (Mat R) := do
  let col ← e.cols.find? (·.name == colName)                 -- KeyError otherwise
  let inp ← lmColumn S feat i
  pure (inp.map fun cellv =>
    List.zipWith S.add (vecMat S (col.model.apply S cellv) col.weight e.ch) col.bias)

/-- `LinearModelEncoder.encode_forward`: `for i, col_name in enumerate(col_names)`, then `torch.cat(xs, dim=1)` -/
def lmEncodeForward (e : LMEncoder R) (rows : Nat) (colNames : List String) (feat : Feat R) : Option (T3 R) := do
  let xs ← gather (fun (p : Nat × String) => lmColumnEncode S e feat p.1 p.2)
             ((List.range colNames.length).zip colNames)
  pure (stackDim1 rows xs)

/-- `StypeEncoder.forward` of a `LinearModelEncoder` (`col_names` is required by this class) -/
def lmForward (e : LMEncoder R) (rows cols : Nat) (colNames : List String) (feat : Feat R) : Option (Out R) :=
  if cols != colNames.length then none else do
    let f ← naForward S e.fill feat
    let x ← lmEncodeForward S e rows colNames f
    let x := map2 (fun v => v.map S.nanToNum) x
    let x := map2 (Post.apply S e.post) x
    pure ⟨rows, cols, e.ch, x⟩

/-- `init_modules`: the NA validation / fill values of the base class, one weight and bias per dict entry -/
def lmInit (st : Stype) (na : Option NA) (stats : List (ColStat R)) (ch : Nat) (cols : List (LMCol R))
    (post : Post R) : Option (LMEncoder R) := do
  let fill ← mkFill S st na stats
  if cols.all fun c => c.weight.length == c.model.c.length && c.weight.all (·.length == ch) && c.bias.length == ch
  then pure ⟨ch, fill, cols, post⟩ else none

end lm

/-! ## 7. the constructor's loop over `stype_encoder_dict` -/

/-- one key of `stype_encoder_dict` in `StypeWiseFeatureEncoder.__init__`: accepted?  `hasCols` = the key is in
    `col_names_dict`.  The first two checks do not look at the data. -/
def wiseKeyOk (c : EncClass) (st : Stype) (na : Option NA) (hasCols : Bool) : Bool :=
  st.parent == st && (supported c).contains st && (!hasCols || naOk st na)

/-- the whole dict: every key must pass -/
def wiseDictOk (keys : List (EncClass × Stype × Option NA × Bool)) : Bool :=
  keys.all fun (c, st, na, h) => wiseKeyOk c st na h

/-! ## 8. `StypeWiseFeatureEncoder.forward` over both kinds of encoder -/

inductive AnyEncoder (R : Type) where
  | builtin (e : Encoder R)
  | linearModel (e : LMEncoder R)

def AnyEncoder.forward {R : Type} (S : SOps R) (e : AnyEncoder R) (rows cols : Nat) (names : List String)
    (feat : Feat R) : Option (Out R) :=
  match e with
  | .builtin e => Enc.forward S e rows cols names.length feat
  | .linearModel e => lmForward S e rows cols names feat

structure WiseG (R : Type) where
  colNames : List (Stype × List String)
  encoders : List (Stype × AnyEncoder R)

def wisePartG {R : Type} (S : SOps R) (w : WiseG R) (tf : List (Group R)) (s : Stype) :
    Option (Out R × List String) := do
  let g ← tf.find? (·.st == s)
  let names ← w.colNames.lookup s
  let e ← w.encoders.lookup s
  let x ← e.forward S g.rows g.cols names g.feat
  pure (x, names)

def wiseForwardG {R : Type} (S : SOps R) (w : WiseG R) (tf : List (Group R)) :
    Option (Out R × List String) := do
  let parts ← gather (wisePartG S w tf) (canonicalStypes tf)
  let x ← catDim1 (parts.map (·.1))
  pure (x, parts.flatMap (·.2))

end TFVerif.Enc

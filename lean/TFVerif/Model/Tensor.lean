/-
List-based tensor combinators with explicit axes, generic over a scalar-operations record `TOps R`
(properties C14, C15).  Core Lean only, so that the drivers link.

A rank-3 tensor `[B, n, c]` is `List (List (List R))` (batch, columns, channels).  Everything the
PyTorch modules need is written here once, *in the shape of the code*: the axis a reduction runs
over, the `(B,n,H,d) -> (B*H,n,d)` head reshape, `chunk`/`cat` of GhostBatchNorm, `view(B,-1)`,
`repeat(B,1,1)`.  Sizes that PyTorch reads from `x.shape` (and that a list loses when the batch is
empty) are explicit arguments.

PyTorch primitives are modelled from their documentation (DESIGN.md section 3):
`softmax(x)_i = exp(x_i) / sum_j exp(x_j)` (the numerically motivated shift by the maximum is not
modelled), `LayerNorm`/`BatchNorm`/`GroupNorm` with the biased variance, `F.linear(x) = x W^T + b`.
-/
namespace TFVerif

/-- the scalar operations the networks use; the driver instantiates `R := Float`, the theorems hold
    for every instance (algebraic laws are explicit hypotheses where a theorem needs them). -/
structure TOps (R : Type) where
  zero : R
  one : R
  add : R → R → R
  sub : R → R → R
  mul : R → R → R
  div : R → R → R
  neg : R → R
  exp : R → R
  tanh : R → R
  sqrt : R → R
  erf : R → R
  max : R → R → R
  min : R → R → R
  /-- `float(n)` -/
  ofNat : Nat → R
  /-- the literal `-1e5` of `DiaM.get_attention_mask` -/
  negBig : R
  /-- `0.5` and `math.sqrt(0.5)` (GELU, GLU-block residual) -/
  half : R
  sqrtHalf : R
  /-- SELU constants -/
  seluAlpha : R
  seluScale : R

abbrev Vec (R : Type) := List R
abbrev Mat (R : Type) := List (List R)
abbrev T3 (R : Type) := List (List (List R))

/-- `X[idx]` for an index list along the first axis (`tf[idx]`, `x[idx]`): any selection, repeats and
    the empty selection included (indices outside the batch select nothing). -/
def selectRows {α : Type} (idx : List Nat) (X : List α) : List α :=
  idx.filterMap fun i => X[i]?

/-- `x.shape == (B, n, c)` -/
def hasShape3 {R : Type} (B n c : Nat) (X : T3 R) : Bool :=
  X.length == B && X.all fun M => M.length == n && M.all fun v => v.length == c

/-- every sample of the batch is `[n, c]` (the part of the shape a list can lose: none) -/
def sampleShape {R : Type} (n c : Nat) (M : Mat R) : Bool :=
  M.length == n && M.all fun v => v.length == c

/-- `torch.chunk` pieces of size `k` along axis 0 (fuel = number of rows). -/
def chunksOf {α : Type} (k : Nat) : Nat → List α → List (List α)
  | 0, _ => []
  | fuel + 1, xs => if xs.isEmpty then [] else xs.take k :: chunksOf k fuel (xs.drop k)

/-- `(B*H, ...) -> (B, H, ...)`: `B` consecutive groups of `H`. -/
def splitN {α : Type} (H : Nat) : Nat → List α → List (List α)
  | 0, _ => []
  | B + 1, xs => xs.take H :: splitN H B (xs.drop H)

/-- `GhostBatchNorm1d.forward` around an arbitrary batch function `f` (`self.bn`): `chunk`, apply, `cat` -/
def ghostBN {R : Type} (vbs : Nat) (f : Mat R → Mat R) (X : Mat R) : Mat R :=
  if X.length > 0 then
    let numChunks := (X.length + vbs - 1) / vbs          -- math.ceil(len(x) / vbs)
    let size := (X.length + numChunks - 1) / numChunks   -- torch.chunk: ceil(len / chunks)
    ((chunksOf size X.length X).map f).flatten
  else f X

namespace TOps
variable {R : Type} (o : TOps R)

/-! ### vectors -/

def sum (xs : List R) : R := xs.foldl o.add o.zero
def dot (a b : Vec R) : R := o.sum (List.zipWith o.mul a b)
def vadd (a b : Vec R) : Vec R := List.zipWith o.add a b
def vmul (a b : Vec R) : Vec R := List.zipWith o.mul a b
def vscale (c : R) (a : Vec R) : Vec R := a.map fun x => o.mul x c
def mean (xs : List R) : R := o.div (o.sum xs) (o.ofNat xs.length)
def relu (x : R) : R := o.max o.zero x
def sigmoid (x : R) : R := o.div o.one (o.add o.one (o.exp (o.neg x)))
/-- `F.gelu` (exact, erf form): `x * 0.5 * (1 + erf(x / sqrt 2))` -/
def gelu (x : R) : R := o.mul (o.mul x o.half) (o.add o.one (o.erf (o.mul x o.sqrtHalf)))
/-- `SELU` : `scale * (max(0,x) + min(0, alpha * (exp x - 1)))` -/
def selu (x : R) : R :=
  o.mul o.seluScale (o.add (o.max o.zero x) (o.min o.zero (o.mul o.seluAlpha (o.sub (o.exp x) o.one))))
/-- `PReLU` with a single weight -/
def prelu (w x : R) : R := o.add (o.max o.zero x) (o.mul w (o.min o.zero x))

/-- column `l` of a matrix (`M[:, l]`) -/
def colOf (l : Nat) (M : Mat R) : Vec R := M.map fun v => v.getD l o.zero
/-- `M.transpose(0, 1)` for an `[n, w]` matrix -/
def transposeW (w : Nat) (M : Mat R) : Mat R := (List.range w).map fun l => o.colOf l M

/-- `softmax` of one vector: `exp(x_i) / sum_j exp(x_j)` -/
def softmaxV (xs : Vec R) : Vec R :=
  let e := xs.map o.exp
  let s := o.sum e
  e.map fun x => o.div x s

/-- `F.softmax(M, dim=-1)` on a matrix -/
def softmaxLast (M : Mat R) : Mat R := M.map o.softmaxV
/-- `F.softmax(M, dim=0)` on an `[n, w]` matrix (softmax down every column) -/
def softmaxAxis0 (w : Nat) (M : Mat R) : Mat R :=
  o.transposeW M.length ((o.transposeW w M).map o.softmaxV)

/-- `x.mean(dim=0)` of an `[n, d]` matrix (= `torch.mean(x, dim=1)` of the `[B, n, d]` batch) -/
def meanAxis0 (d : Nat) (M : Mat R) : Vec R := (List.range d).map fun l => o.mean (o.colOf l M)
/-- `x.sum(dim=0)` of an `[n, d]` matrix -/
def sumAxis0 (d : Nat) (M : Mat R) : Vec R := (List.range d).map fun l => o.sum (o.colOf l M)

end TOps

/-! ### head reshapes (pure data movement) -/

section
variable {R : Type}

/-- `x.reshape(n, H, d).transpose(0, 1)` of one sample: `H` matrices `[n, d]` -/
def headsOf (H d : Nat) (M : Mat R) : List (Mat R) :=
  (List.range H).map fun h => M.map fun v => (v.drop (h * d)).take d

/-- `_reshape`: `(B, n, H*d) -> (B, n, H, d) -> transpose(1,2) -> (B*H, n, d)` -/
def reshapeBH (H d : Nat) (X : T3 R) : T3 R := X.flatMap (headsOf H d)

/-- `(H, n, d) -> transpose(0,1) -> (n, H*d)` for one sample -/
def mergeHeads (n : Nat) (Hs : List (Mat R)) : Mat R :=
  (List.range n).map fun i => Hs.flatMap fun Mh => Mh.getD i []

/-- `x.reshape(B, H, n, d).transpose(1, 2).reshape(B, n, H*d)` -/
def unreshapeBH (B H n : Nat) (O : T3 R) : T3 R := (splitN H B O).map (mergeHeads n)

/-- the attention of one (sample, head) pair, batched exactly as the code does: heads are folded into
    the batch axis, every `[n, d]` triple goes through `head`, the result is unfolded again. -/
def attnBatch (head : Mat R → Mat R → Mat R → Mat R) (H d n : Nat) (Q K V : T3 R) : T3 R :=
  unreshapeBH Q.length H n
    (List.zipWith (fun f v => f v) (List.zipWith head (reshapeBH H d Q) (reshapeBH H d K)) (reshapeBH H d V))

/-- the same for one sample (specification side of `attnBatch`) -/
def attnSample (head : Mat R → Mat R → Mat R → Mat R) (H d n : Nat) (Q K V : Mat R) : Mat R :=
  mergeHeads n
    (List.zipWith (fun f v => f v) (List.zipWith head (headsOf H d Q) (headsOf H d K)) (headsOf H d V))

end

/-! ### parameterised layers -/

/-- `nn.Linear`: weight `[out, in]`, optional bias `[out]` -/
structure Linear (R : Type) where
  w : Mat R
  b : Option (Vec R)

/-- `nn.LayerNorm` over the last axis -/
structure LNorm (R : Type) where
  w : Vec R
  b : Vec R
  eps : R

/-- `nn.BatchNorm1d` -/
structure BNorm (R : Type) where
  w : Vec R
  b : Vec R
  rm : Vec R
  rv : Vec R
  eps : R

namespace TOps
variable {R : Type} (o : TOps R)

/-- `F.linear(x, W, b)` on the last axis: `out_k = sum_i x_i W_ki (+ b_k)` -/
def linearV (L : Linear R) (x : Vec R) : Vec R :=
  match L.b with
  | none => L.w.map fun row => o.dot x row
  | some b => o.vadd (L.w.map fun row => o.dot x row) b

def linearLast (L : Linear R) (M : Mat R) : Mat R := M.map (o.linearV L)
def linearLast3 (L : Linear R) (X : T3 R) : T3 R := X.map (o.linearLast L)

/-- `(x - mean) / sqrt(var + eps) * w + b`, biased variance, over one vector -/
def normalizeWith (mu var eps : R) (x : R) : R := o.div (o.sub x mu) (o.sqrt (o.add var eps))

def variance (xs : Vec R) : R :=
  let mu := o.mean xs
  o.mean (xs.map fun x => o.mul (o.sub x mu) (o.sub x mu))

def layerNormV (N : LNorm R) (x : Vec R) : Vec R :=
  let mu := o.mean x
  let var := o.variance x
  o.vadd (o.vmul (x.map (o.normalizeWith mu var N.eps)) N.w) N.b

def layerNormLast (N : LNorm R) (M : Mat R) : Mat R := M.map (o.layerNormV N)
def layerNormLast3 (N : LNorm R) (X : T3 R) : T3 R := X.map (o.layerNormLast N)

/-- one row through eval-mode `BatchNorm1d`: an affine map of the running statistics -/
def bnEvalV (N : BNorm R) (x : Vec R) : Vec R :=
  o.vadd (o.vmul (List.zipWith (fun p x => o.normalizeWith p.1 p.2 N.eps x) (List.zip N.rm N.rv) x) N.w) N.b

/-- eval-mode `BatchNorm1d` on a `[B, c]` batch -/
def bnEval (N : BNorm R) (X : Mat R) : Mat R := X.map (o.bnEvalV N)

/-- train-mode `BatchNorm1d` on a `[B, c]` batch: statistics of the *batch* (axis 0).  Present only
    to show that the eval-mode hypothesis of the row-independence theorems matters. -/
def bnTrain (N : BNorm R) (X : Mat R) : Mat R :=
  let c := N.w.length
  let mus := (List.range c).map fun l => o.mean (o.colOf l X)
  let vars := (List.range c).map fun l => o.variance (o.colOf l X)
  X.map fun x =>
    o.vadd (o.vmul (List.zipWith (fun p x => o.normalizeWith p.1 p.2 N.eps x) (List.zip mus vars) x) N.w) N.b

/-- `nn.GLU` on the last axis: `a * sigmoid(b)` with `a, b = x.chunk(2, -1)` -/
def gluV (x : Vec R) : Vec R :=
  let h := x.length / 2
  List.zipWith (fun a b => o.mul a (o.sigmoid b)) (x.take h) (x.drop h)

/-- `GEGLU`: `x * gelu(gates)` with `x, gates = x.chunk(2, -1)` -/
def gegluV (x : Vec R) : Vec R :=
  let h := x.length / 2
  List.zipWith (fun a b => o.mul a (o.gelu b)) (x.take h) (x.drop h)

/-! ### attention -/

/-- one query row of scaled-dot-product attention: `softmax_j(q . k_j * scale)`, then the weighted sum of
    the value rows -/
def sdpaRow (scale : R) (d : Nat) (K V : Mat R) (q : Vec R) : Vec R :=
  let p := o.softmaxV (K.map fun k => o.mul (o.dot q k) scale)
  (List.range d).map fun l => o.dot p (o.colOf l V)

/-- `einsum('jk,lk->jl', Q, K) * scale`, `softmax(dim=-1)`, `einsum('jk,kl->jl', P, V)` for one head -/
def sdpaHead (scale : R) (d : Nat) (Q K V : Mat R) : Mat R := Q.map (o.sdpaRow scale d K V)

/-- `1 / sqrt(d)` -/
def invSqrt (d : Nat) : R := o.div o.one (o.sqrt (o.ofNat d))

end TOps

/-- `nn.MultiheadAttention` with packed in-projection (`in_proj_weight [3c, c]`) -/
structure MHA (R : Type) where
  inW : Mat R
  inB : Vec R
  out : Linear R
  heads : Nat

/-- `nn.TransformerEncoderLayer(d_model=c, nhead, dim_feedforward, activation='relu', batch_first=True)`
    (post-norm, i.e. `norm_first=False`) -/
structure TELayer (R : Type) where
  attn : MHA R
  lin1 : Linear R
  lin2 : Linear R
  norm1 : LNorm R
  norm2 : LNorm R

namespace TOps
variable {R : Type} (o : TOps R)

def MHA.q (c : Nat) (m : MHA R) : Linear R := ⟨m.inW.take c, some (m.inB.take c)⟩
def MHA.k (c : Nat) (m : MHA R) : Linear R := ⟨(m.inW.drop c).take c, some ((m.inB.drop c).take c)⟩
def MHA.v (c : Nat) (m : MHA R) : Linear R := ⟨m.inW.drop (2 * c), some (m.inB.drop (2 * c))⟩

/-- self-attention of `nn.MultiheadAttention` on a `[B, n, c]` batch -/
def mhaBatch (c n : Nat) (m : MHA R) (X : T3 R) : T3 R :=
  let d := c / m.heads
  o.linearLast3 m.out
    (attnBatch (o.sdpaHead (o.invSqrt d) d) m.heads d n
      (o.linearLast3 (MHA.q c m) X) (o.linearLast3 (MHA.k c m) X) (o.linearLast3 (MHA.v c m) X))

def mhaSample (c n : Nat) (m : MHA R) (M : Mat R) : Mat R :=
  let d := c / m.heads
  o.linearLast m.out
    (attnSample (o.sdpaHead (o.invSqrt d) d) m.heads d n
      (o.linearLast (MHA.q c m) M) (o.linearLast (MHA.k c m) M) (o.linearLast (MHA.v c m) M))

/-- `x + y` on `[B, n, c]` -/
def add3 (X Y : T3 R) : T3 R := List.zipWith (List.zipWith o.vadd) X Y
def addM (X Y : Mat R) : Mat R := List.zipWith o.vadd X Y

/-- `TransformerEncoderLayer.forward` (post-norm): `x = norm1(x + sa(x)); x = norm2(x + ff(x))` -/
def teLayerBatch (c n : Nat) (L : TELayer R) (X : T3 R) : T3 R :=
  let x1 := o.layerNormLast3 L.norm1 (o.add3 X (o.mhaBatch c n L.attn X))
  let ff := o.linearLast3 L.lin2 ((o.linearLast3 L.lin1 x1).map fun M => M.map fun v => v.map o.relu)
  o.layerNormLast3 L.norm2 (o.add3 x1 ff)

def teLayerSample (c n : Nat) (L : TELayer R) (M : Mat R) : Mat R :=
  let x1 := o.layerNormLast L.norm1 (o.addM M (o.mhaSample c n L.attn M))
  let ff := o.linearLast L.lin2 ((o.linearLast L.lin1 x1).map fun v => v.map o.relu)
  o.layerNormLast L.norm2 (o.addM x1 ff)

/-! ### GroupNorm (TromptConv) -/

/-- `nn.GroupNorm(G, P)` on one sample `z : [P, n, c]`: statistics per group of `P / G` consecutive
    channels over everything else, affine per channel. -/
def groupNormSample (G : Nat) (w b : Vec R) (eps : R) (z : T3 R) : T3 R :=
  let P := z.length
  let gs := P / G
  (List.range P).map fun k =>
    let grp := ((z.drop ((k / gs) * gs)).take gs).flatten.flatten
    let mu := o.mean grp
    let var := o.variance grp
    (z.getD k []).map fun row => row.map fun x =>
      o.add (o.mul (o.normalizeWith mu var eps x) (w.getD k o.zero)) (b.getD k o.zero)

end TOps
end TFVerif

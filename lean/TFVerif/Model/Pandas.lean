/-
The handful of pandas operators the tensor mappers and statistics use, over label/value lists.
A `Series` is a list of `(label, value)` rows in positional order.  MODELLED FROM THE pandas
DOCUMENTATION, NOT VERIFIED (DESIGN.md section 3): `reset_index(drop=True)`, `explode`,
`merge(how='left', left_on=…, right_index=True)`, `dropna`, `Index.value_counts`, `reindex(fill_value=0)`,
`iloc[0]` / `ser[0]`.  Tie order inside `value_counts` is never used (only the counts are).
Core Lean only.
-/
namespace TFVerif.Pd

/-- a pandas Series / one-column frame: rows `(index label, value)` in positional order -/
abbrev Series (L α : Type) := List (L × α)

/-- `ser.reset_index(drop=True)`: labels become `0 … n-1`. -/
def resetIndex (s : Series L α) : Series Nat α :=
  (List.range s.length).zip (s.map (·.2))

/-- `ser.explode()` on list-like cells: one row per element, the label repeated; an empty cell
    yields a single row holding NaN (`none`). -/
def explode (s : Series L (List α)) : Series L (Option α) :=
  s.flatMap fun (l, xs) => if xs.isEmpty then [(l, none)] else xs.map fun x => (l, some x)

/-- first value stored under key `k` in a unique-keyed right-hand index. -/
def lookup [DecidableEq κ] (right : List (κ × ν)) (k : κ) : Option ν :=
  (right.find? fun p => p.1 == k).map (·.2)

/-- `pd.merge(ser.rename('data'), right.rename('index'), how='left', left_on='data', right_index=True)`:
    left order and labels are preserved; a key that is missing or absent from the (unique) right
    index gets NaN (`none`) in column `'index'`. -/
def mergeLeft [DecidableEq κ] (s : Series L (Option κ)) (right : List (κ × ν)) : Series L (Option κ × Option ν) :=
  s.map fun (l, k) => (l, k, k.bind (lookup right))

/-- `.dropna()` on the two-column frame: rows with a NaN in either column disappear. -/
def dropna (s : Series L (Option κ × Option ν)) : Series L (κ × ν) :=
  s.filterMap fun (l, k, v) => match k, v with
    | some k, some v => some (l, k, v)
    | _, _ => none

/-- `index.value_counts()`: every distinct label with its number of occurrences (order irrelevant here). -/
def valueCounts [DecidableEq L] (labels : List L) : List (L × Nat) :=
  labels.eraseDups.map fun l => (l, labels.count l)

/-- `counts.reindex(target, fill_value=fill)`: look every target label up; absent → `fill`.
    (pandas raises only when the *source* index has duplicates, which `value_counts` never produces.) -/
def reindex [DecidableEq L] (counts : List (L × Nat)) (target : List L) (fill : Nat) : List Nat :=
  target.map fun l => (lookup counts l).getD fill

/-- `ser.iloc[0]`: first row by position. -/
def iloc0 (s : Series L α) : Option α := s.head?.map (·.2)

/-- `ser[0]` on a Series with an integer-like index: LABEL lookup; `none` = KeyError.
    (the expression the EMB_DIM statistic used before fix e895d09) -/
def loc0 [DecidableEq L] (zero : L) (s : Series L α) : Option α := lookup s zero

end TFVerif.Pd

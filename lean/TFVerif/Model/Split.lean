/-
Model of `torch_frame/utils/split.py`: the table `SPLIT_TO_NUM` and `generate_random_split`.
Core Lean only.

Ratios are exact rationals `p / q` (`q > 0`); the harness passes the rational whose float the real
code receives and only generates draws on which the float products / sums of the code and the exact
ones agree (the others are counted as `float-boundary-skipped`, see harness/props/c09.py).

The global numpy generator is an explicit state `σ` with two abstract primitives
(`np.random.seed`, `np.random.shuffle`); theorems hold for every such generator.
-/
namespace TFVerif.Split

/-- `SPLIT_TO_NUM` (compared with the table generated from the live package, `gen_eq_model_splitNum`). -/
def splitNum : List (String × Nat) := [("train", 0), ("val", 1), ("test", 2)]

/-- the rational `p / q`, `q > 0`. -/
structure Ratio where
  p : Int
  q : Nat
deriving Repr, DecidableEq, Inhabited

/-- `r > 0` -/
def Ratio.pos (r : Ratio) : Bool := decide (0 < r.p)

/-- `a + b < 1`, cross-multiplied -/
def Ratio.sumLtOne (a b : Ratio) : Bool := decide (a.p * b.q + b.p * a.q < (a.q : Int) * b.q)

/-- `a + b == 1`, cross-multiplied -/
def Ratio.sumEqOne (a b : Ratio) : Bool := decide (a.p * b.q + b.p * a.q = (a.q : Int) * b.q)

/-- `int(length * ratio)` for a non-negative product: the floor of `n * p / q`. -/
def floorMul (n : Nat) (r : Ratio) : Nat := ((n : Int) * r.p / (r.q : Int)).toNat

/-- the assertions and the three block sizes `(train_num, val_num, test_num)`; `none` = AssertionError.
    Written in the order of the code. -/
def counts (n : Nat) (rt rv : Ratio) (includeTest : Bool) : Option (Nat × Nat × Nat) :=
  if !rt.pos then none
  else if !rv.pos then none
  else if includeTest then
    if !rt.sumLtOne rv then none
    else
      let trainNum := floorMul n rt
      let valNum := floorMul n rv
      let testNum := n - trainNum - valNum
      some (trainNum, valNum, testNum)
  else
    if !rt.sumEqOne rv then none
    else
      let trainNum := floorMul n rt
      let valNum := n - trainNum
      some (trainNum, valNum, 0)

/-- value of a split name in the table (0 when absent; the three names are present). -/
def num (name : String) : Nat := (splitNum.lookup name).getD 0

/-- `np.concatenate([np.full(train_num, 0), np.full(val_num, 1), np.full(test_num, 2)])` -/
def blocks (c : Nat × Nat × Nat) : List Nat :=
  List.replicate c.1 (num "train") ++ List.replicate c.2.1 (num "val") ++ List.replicate c.2.2 (num "test")

/-- in-place shuffle by a position permutation: new `arr[i]` = old `arr[perm[i]]`. -/
def arrange (arr : List Nat) (perm : List Nat) : List Nat := perm.filterMap (arr[·]?)

/-- the global numpy generator: `seed s` overwrites the state, `shuffle g n` draws a permutation of
    `n` positions from the state and advances it. -/
structure Rng (σ : Type) where
  seed : Nat → σ
  shuffle : σ → Nat → List Nat × σ

/-- `generate_random_split(length, seed, train_ratio, val_ratio, include_test)` run with the global
    generator in state `g`; returns the array and the generator's state afterwards. -/
def generate (R : Rng σ) (_g : σ) (length seed : Nat) (rt rv : Ratio) (includeTest : Bool) :
    Option (List Nat × σ) :=
  match counts length rt rv includeTest with
  | none => none
  | some c =>
    let arr := blocks c
    let g1 := R.seed seed                 -- np.random.seed(seed)
    let (perm, g2) := R.shuffle g1 arr.length   -- np.random.shuffle(arr)
    some (arrange arr perm, g2)

end TFVerif.Split

/-
Model of `torch_frame.data.loader.DataLoader` (property C10): the index dataset `range(len(ds))`,
PyTorch's `BatchSampler` over the sampler's order, and collation by `tensor_frame[index]`.
Core Lean only.
-/
import TFVerif.Model.Frame

namespace TFVerif.Loader
open TFVerif TFVerif.TF

/-- `torch.utils.data.BatchSampler.__iter__` over the sampler's `order`, in the shape of its
    documented loop: append to the running batch, emit it when it reaches `bs`, and at the end emit
    a non-empty remainder unless `drop_last`. -/
def batchLoop (bs : Nat) (dropLast : Bool) : List Nat → List Nat → List (List Nat)
  | [], batch => if batch.length > 0 ∧ dropLast = false then [batch] else []
  | i :: rest, batch =>
    let batch := batch ++ [i]
    if batch.length = bs then batch :: batchLoop bs dropLast rest []
    else batchLoop bs dropLast rest batch

/-- the index batches of one epoch.  `bs = none` is `batch_size=None` (automatic batching
    disabled: every sample index is collated on its own); `bs = some 0` raises in PyTorch. -/
def batches (order : List Nat) (bs : Option Nat) (dropLast : Bool) : Option (List (List Nat)) :=
  match bs with
  | none => if dropLast then none else some (order.map fun i => [i])
  | some 0 => none
  | some (b + 1) => some (batchLoop (b + 1) dropLast order [])

/-- `RandomSampler.__init__` (used for `shuffle=True`) rejects an empty data source. -/
def randomSamplerRaises (n : Nat) (shuffle : Bool) : Bool := shuffle && n == 0

/-- `collate_fn(index) = self.tensor_frame[index]` with the index the fetcher hands over: the list
    of sample indices of a batch, or the bare `int` when automatic batching is disabled. -/
def collate (ops : FeatOps Φ) (f : Frame Φ β) (bs : Option Nat) (b : List Nat) : Option (Frame Φ β) :=
  match bs, b with
  | none, [i] => f.getitem ops (.int i)
  | _, _ => f.getitem ops (.list (b.map Int.ofNat))

/-- the fetcher: every index batch goes through `collate_fn`. -/
def collateAll (ops : FeatOps Φ) (f : Frame Φ β) (bs : Option Nat) (bss : List (List Nat)) :
    Option (List (Frame Φ β)) :=
  mapOpt (collate ops f bs) bss

/-- `list(loader)`: the frames of one epoch; `none` = raises. -/
def epoch (ops : FeatOps Φ) (f : Frame Φ β) (order : List Nat) (bs : Option Nat) (dropLast : Bool) :
    Option (List (Frame Φ β)) :=
  (batches order bs dropLast).bind fun bss => collateAll ops f bs bss

end TFVerif.Loader

/-
Model of `DataFrameToTensorFrameConverter` and of `Dataset.materialize`
(torch_frame/data/dataset.py): the canonical `col_names_dict`, the per-stype assembly of the mapper
outputs (`torch.stack` / `MultiNestedTensor.cat` / `MultiEmbeddingTensor.cat`, the latter two from
Model/Ragged.lean), `y`, `TensorFrame.validate`, and `_merge_feat`, which rewrites the converter's
OWN name table in place — so the converter is a state machine (`Conv.call` returns the new state).
Python dicts are association lists in insertion order.
Core Lean only.
-/
import TFVerif.Model.Mapper

namespace TFVerif.Mat

/-! ### Python dict on association lists -/

def dictGet [DecidableEq κ] (d : List (κ × ν)) (k : κ) : Option ν :=
  match d with
  | [] => none
  | (k', v) :: rest => if k' = k then some v else dictGet rest k

/-- `d[k] = v`: replace in place, or append at the end -/
def dictSet [DecidableEq κ] (d : List (κ × ν)) (k : κ) (v : ν) : List (κ × ν) :=
  match d with
  | [] => [(k, v)]
  | (k', v') :: rest => if k' = k then (k, v) :: rest else (k', v') :: dictSet rest k v

/-- `d.pop(k)` -/
def dictErase [DecidableEq κ] (d : List (κ × ν)) (k : κ) : List (κ × ν) :=
  d.filter fun p => p.1 ≠ k

/-! ### DataFrame -/

structure Col (F : Type) where
  name : String
  stype : Stype
  cells : List (Cell F)

/-- a DataFrame restricted to the columns named in `col_to_stype`: index labels + columns in frame order -/
structure DF (L F : Type) where
  labels : List L
  cols : List (Col F)

/-- `[xs[p] for p in ps]` -/
def pickRows (xs : List α) (ps : List Nat) : List α := ps.filterMap (xs[·]?)

namespace DF

def numRows (df : DF L F) : Nat := df.labels.length

/-- `df[name]` (`none` = KeyError) -/
def col? (df : DF L F) (name : String) : Option (Col F) := df.cols.find? (·.name == name)

/-- the same frame under another index (`df.index = ℓ`, `set_index`, …) -/
def withLabels (df : DF L F) (ls : List L') : DF L' F := { labels := ls, cols := df.cols }

/-- `df.iloc[idx]`: rows by position, keeping their labels (repeats allowed) -/
def rows (df : DF L F) (idx : List Nat) : DF L F :=
  { labels := pickRows df.labels idx
    cols := df.cols.map fun c => { c with cells := pickRows c.cells idx } }

/-- `df.drop(columns=[name])` -/
def dropCol (df : DF L F) (name : String) : DF L F :=
  { df with cols := df.cols.filter (·.name != name) }

/-- `col_to_stype` of a frame whose dict was built in column order -/
def colToStype (df : DF L F) : List (String × Stype) := df.cols.map fun c => (c.name, c.stype)

end DF

/-! ### TensorFrame -/

inductive Feat (F : Type) where
  | dense (rows : List (List (List (Val F))))   -- `[n, C]` (cells of length 1) or `[n, C, 7]`
  | mnt (m : MNT (Val F))
  | met (m : MET (Val F))
deriving Repr

namespace Feat

def numRows : Feat F → Nat
  | dense rows => rows.length
  | mnt m => m.numRows
  | met m => m.numRows

def numCols : Feat F → Nat
  | dense rows => (rows.headD []).length
  | mnt m => m.numCols
  | met m => m.numCols

/-- the entry for row `i`, column `j` (`feat[i, j]`); `none` = IndexError -/
def cell (f : Feat F) (i j : Nat) : Option (List (Val F)) :=
  match f with
  | dense rows => (rows[i]?).bind (·[j]?)
  | mnt m => m.getValue i j
  | met m => m.getValue i j

/-- all cells as a nested list (rows × columns) -/
def grid (f : Feat F) : List (List (List (Val F))) :=
  match f with
  | dense rows => rows
  | mnt m => m.grid.rows
  | met m => m.grid.rows

/-- `torch_frame.cat([parent, child], dim=1)` -/
def catCols2 (p c : Feat F) : Option (Feat F) :=
  match p, c with
  | met a, met b => (MET.catCols [a, b]).map met
  | mnt a, mnt b => (MNT.catCols [a, b]).map mnt
  | dense a, dense b => if a.length = b.length then some (dense (List.zipWith (· ++ ·) a b)) else none
  | _, _ => none

end Feat

def ColOut.asDense : ColOut F → List (List (Val F))
  | .dense cs => cs
  | _ => []

def ColOut.asMnt : ColOut F → MNT (Val F)
  | .mnt m => m
  | _ => mntOfCol []

def ColOut.asMet : ColOut F → MET (Val F)
  | .met m => m
  | _ => metOfRows []

/-- `torch.stack(xs, dim=1)` of `[n]` / `[n, 7]` tensors: `none` when the sizes differ or `xs` is empty -/
def stackCols (xs : List (List (List (Val F)))) : Option (List (List (List (Val F)))) :=
  match xs with
  | [] => none
  | x0 :: _ =>
    if xs.all (·.length == x0.length) then
      some ((List.range x0.length).map fun r => xs.map fun x => x.getD r [])
    else none

/-- lines 306-318 of dataset.py: the per-stype assembly, chosen by the GROUP's stype -/
def assemble (s : Stype) (xs : List (ColOut F)) : Option (Feat F) :=
  if s.useNested then (MNT.catCols (xs.map ColOut.asMnt)).map .mnt
  else if s.useDict then none
  else if s.useEmbedding then (MET.catCols (xs.map ColOut.asMet)).map .met
  else (stackCols (xs.map ColOut.asDense)).map .dense

structure TF (F : Type) where
  feats : List (Stype × Feat F)            -- feat_dict
  names : List (Stype × List String)       -- col_names_dict
  y : Option (ColOut F)

namespace TF

/-- `TensorFrame.num_rows`: the length of the first feature (0 for a frame without features) -/
def numRows (tf : TF F) : Nat :=
  match tf.feats with
  | [] => 0
  | (_, f) :: _ => f.numRows

/-- `TensorFrame.validate` -/
def validate (tf : TF F) : Bool :=
  tf.feats.map (·.1) == tf.names.map (·.1) &&
  (tf.feats.zip tf.names).all (fun (f, n) => f.2.numCols == n.2.length && n.2.length != 0 &&
      f.2.numRows == tf.numRows) &&
  (match tf.y with
   | none => true
   | some y => y.numRows == tf.numRows)

/-- `_col_to_stype_idx[name]` -/
def locate (tf : TF F) (name : String) : Option (Stype × Nat) :=
  tf.names.foldl (fun acc (g : Stype × List String) =>
    match g.2.idxOf? name with
    | some j => some (g.1, j)
    | none => acc) none

/-- the entry for row `i` of the feature column called `name` (`get_col_feat(name)[i, 0]`) -/
def cell (tf : TF F) (name : String) (i : Nat) : Option (List (Val F)) := do
  let (s, j) ← tf.locate name
  let f ← dictGet tf.feats s
  f.cell i j

/-- row `i` of `y` -/
def yCell (tf : TF F) (i : Nat) : Option (List (Val F)) :=
  tf.y.bind fun y => y.cells[i]?

end TF

/-! ### statistics dictionary (only what the converter and C02 need; C03 owns the definitions) -/

structure ColStats where
  cats : List Key := []          -- COUNT / MULTI_COUNT index
  embDim : Int := -1             -- EMB_DIM
  yearRange : Int × Int := (-1, -1)
deriving DecidableEq, Repr, Inhabited

/-! ### the converter -/

structure Conv (F : Type) where
  colToStype : List (String × Stype)        -- the user's dict, in insertion order
  target : Option String
  stats : List (String × ColStats)          -- col_stats (by reference in the code; never written by `call`)
  embedders : String → String → List (Val F)  -- column → the user's text / image embedder callable
  names : List (Stype × List String)        -- `_col_names_dict`: REWRITTEN IN PLACE by `_merge_feat`

def insertSorted (x : String) : List String → List String
  | [] => [x]
  | y :: ys => if x ≤ y then x :: y :: ys else y :: insertSorted x ys

/-- `list.sort()` on column names -/
def sortNames (xs : List String) : List String := xs.foldr insertSorted []

/-- `__init__`, lines 199-209: group by stype in dict order skipping the target, then sort each group -/
def colNamesDict (c2s : List (String × Stype)) (target : Option String) : List (Stype × List String) :=
  let grouped := c2s.foldl (fun (d : List (Stype × List String)) (p : String × Stype) =>
    if some p.1 = target then d
    else match dictGet d p.2 with
      | none => d ++ [(p.2, [p.1])]
      | some cols => dictSet d p.2 (cols ++ [p.1])) []
  grouped.map fun g => (g.1, sortNames g.2)

namespace Conv

def init (c2s : List (String × Stype)) (target : Option String) (stats : List (String × ColStats))
    (embedders : String → String → List (Val F)) : Conv F :=
  { colToStype := c2s, target := target, stats := stats, embedders := embedders
    names := colNamesDict c2s target }

def stypeOf (cv : Conv F) (col : String) : Stype := (dictGet cv.colToStype col).getD .numerical

def cfg (cv : Conv F) (col : String) : ColCfg F :=
  { cats := ((dictGet cv.stats col).getD {}).cats, embed := cv.embedders col
    embDim := ((dictGet cv.stats col).getD {}).embDim }

/-- `self._get_mapper(col).forward(df[col])`; `none` = KeyError (`df` lacks the column) -/
def mapCol (cv : Conv F) (df : DF L F) (col : String) : Option (ColOut F) :=
  (df.col? col).map fun c => forward (cv.cfg col) (cv.stypeOf col) df.labels c.cells

/-- `y`: the target column through its own mapper, when `self.target_col in df` -/
def yOf (cv : Conv F) (df : DF L F) : Option (ColOut F) :=
  match cv.target with
  | none => none
  | some t => cv.mapCol df t

/-- one step of the loop of `_merge_feat` (a stype is visited only if it is in the frame) -/
def mergeStep (st : Option (List (Stype × Feat F) × List (Stype × List String))) (s : Stype) :
    Option (List (Stype × Feat F) × List (Stype × List String)) := do
  let (feats, names) ← st
  if s.parent = s then pure (feats, names) else
  match dictGet feats s with
  | none => pure (feats, names)
  | some child =>
    let merged ← match dictGet feats s.parent with
      | some p => p.catCols2 child
      | none => some child
    let feats' := dictErase (dictSet feats s.parent merged) s
    let names' := dictErase (dictSet names s.parent
      ((dictGet names s.parent).getD [] ++ (dictGet names s).getD [])) s
    pure (feats', names')

def mergeFeat (feats : List (Stype × Feat F)) (names : List (Stype × List String)) :
    Option (List (Stype × Feat F) × List (Stype × List String)) :=
  childOrder.foldl mergeStep (some (feats, names))

/-- `__call__`: returns the frame AND the converter's state afterwards; `none` = raises -/
def call (cv : Conv F) (df : DF L F) : Option (TF F × Conv F) := do
  let feats ← cv.names.mapM fun (g : Stype × List String) => do
    let xs ← g.2.mapM fun c => cv.mapCol df c
    let f ← assemble g.1 xs
    pure (g.1, f)
  let y : Option (ColOut F) := cv.yOf df
  let tf0 : TF F := { feats := feats, names := cv.names, y := y }
  if !tf0.validate then none else
  let (feats', names') ← mergeFeat feats cv.names
  let tf : TF F := { feats := feats', names := names', y := y }
  if !tf.validate then none else
  pure (tf, { cv with names := names' })

/-- any number of calls in a row; the last frame (if any) and the final state -/
def run (cv : Conv F) (dfs : List (DF L F)) : Option (List (TF F) × Conv F) :=
  dfs.foldlM (fun (acc : List (TF F) × Conv F) df => do
    let (tf, cv') ← acc.2.call df
    pure (acc.1 ++ [tf], cv')) ([], cv)

end Conv

/-! ### specification layer of the converter -/

/-- the non-target columns of stype `s`, in `col_to_stype` order -/
def groupOf (c2s : List (String × Stype)) (target : Option String) (s : Stype) : List String :=
  (c2s.filter fun p => decide (some p.1 ≠ target) && decide (p.2 = s)).map (·.1)

/-- what `_merge_feat` does to a name table: one step … -/
def mergeNamesStep (names : List (Stype × List String)) (s : Stype) : List (Stype × List String) :=
  if s.parent = s then names else
  match dictGet names s with
  | none => names
  | some cs => dictErase (dictSet names s.parent ((dictGet names s.parent).getD [] ++ cs)) s

/-- … and the whole loop: every child group is appended behind its parent's names and dropped -/
def mergeNames (names : List (Stype × List String)) : List (Stype × List String) :=
  childOrder.foldl mergeNamesStep names

/-- SPECIFICATION of a converted column: every raw cell of `df[name]` encoded by `encodeCell`
    under the converter's fitted statistics and the column's own stype -/
def specCol (cv : Conv F) (df : DF L F) (name : String) : List (List (Val F)) :=
  match df.col? name with
  | some c => c.cells.map (encodeCell (cv.cfg name) (cv.stypeOf name))
  | none => []

/-- The typed domain of one converter call on a frame of `n ≥ 1` rows: the name table has distinct,
    non-empty groups of distinct names, none of them a token-valued group; every listed column is in the frame with `n` cells of
    the kind its group stores, inside the typed domain `ColWF`; embedding-kind columns have a uniform width;
    and the target column, if the frame has it, is of a dense kind. -/
structure CallOK (cv : Conv F) (df : DF L F) (n : Nat) : Prop where
  npos : 0 < n
  labels : df.labels.length = n
  nonempty : cv.names ≠ []
  keys : (cv.names.map (·.1)).Nodup
  groups : ∀ g ∈ cv.names, g.2 ≠ [] ∧ g.1.useDict = false
  cols : ∀ g ∈ cv.names, ∀ c ∈ g.2, ∃ col, df.col? c = some col ∧ col.cells.length = n ∧
    (cv.stypeOf c).useNested = g.1.useNested ∧ (cv.stypeOf c).useEmbedding = g.1.useEmbedding ∧
    ColWF (cv.cfg c) (cv.stypeOf c) col.cells ∧
    (g.1.useEmbedding = true → ∃ w, ∀ cell ∈ col.cells, (encodeCell (cv.cfg c) (cv.stypeOf c) cell).length = w)
  target : ∀ t col, cv.target = some t → df.col? t = some col →
    col.cells.length = n ∧ ColWF (cv.cfg t) (cv.stypeOf t) col.cells

/-- The typed domain of converting frame `df` (of ≥ 1 rows) with converter `cv`: distinct column names in
    `col_to_stype`, no token-valued column, at least one feature column; every feature column is in the frame
    with one cell per row inside the column domain `ColWF`, embedding-kind columns have a uniform width; and
    the target column, if the frame has it, has one cell per row inside `ColWF`. -/
structure ConvFrameOK (cv : Conv F) (df : DF L F) : Prop where
  npos : 0 < df.numRows
  c2s_nodup : (cv.colToStype.map (·.1)).Nodup
  no_tok : ∀ p ∈ cv.colToStype, p.2 ≠ .text_tokenized
  feature : ∃ p ∈ cv.colToStype, some p.1 ≠ cv.target
  cols : ∀ p ∈ cv.colToStype, some p.1 ≠ cv.target → ∃ col, df.col? p.1 = some col ∧
    col.cells.length = df.numRows ∧ ColWF (cv.cfg p.1) p.2 col.cells ∧
    (p.2.useEmbedding = true → ∃ w, ∀ cell ∈ col.cells, (encodeCell (cv.cfg p.1) p.2 cell).length = w)
  target : ∀ t col, cv.target = some t → df.col? t = some col →
    col.cells.length = df.numRows ∧ ColWF (cv.cfg t) (cv.stypeOf t) col.cells

/-! ### Dataset.materialize -/

/-- step 1 of `materialize`: the statistics the mappers need, from the frame by position.
    `vc name` stands for the order in which `value_counts` lists the distinct values of column `name`
    (ties are pandas' business): an arbitrary function of the values in positional order. -/
def fitStats (vc : String → List Key → List Key) (target : Option String) (df : DF L F) : List (String × ColStats) :=
  df.cols.map fun c =>
    let cats := vc c.name (observedKeys c.stype c.cells)
    let cats := if some c.name = target ∧ c.stype = .categorical then binarySort cats else cats
    (c.name, { cats := cats
               embDim := if c.stype = .embedding then embDim df.labels c.cells else -1
               yearRange := if c.stype = .timestamp then yearRange c.cells else (-1, -1) })

/-- `_update_col_stats`: EMB_DIM of every column of the merged embedding group from the frame's offsets -/
def updateEmbDim (tf : TF F) (stats : List (String × ColStats)) : List (String × ColStats) :=
  match dictGet tf.feats .embedding, dictGet tf.names .embedding with
  | some (.met m), some cols =>
    stats.map fun (name, st) =>
      match cols.idxOf? name with
      | some i => (name, { st with embDim := (m.offset.getD (i + 1) 0 : Int) - m.offset.getD i 0 })
      | none => (name, st)
  | _, _ => stats

structure Materialized (F : Type) where
  tf : TF F
  stats : List (String × ColStats)
  conv : Conv F

/-- `Dataset(df, col_to_stype, target_col).materialize(col_stats=supplied)` -/
def materializeWith (supplied : List (String × ColStats)) (target : Option String)
    (embedders : String → String → List (Val F)) (df : DF L F) : Option (Materialized F) := do
  let cv := Conv.init df.colToStype target supplied embedders
  let (tf, cv') ← cv.call df
  pure { tf := tf, stats := updateEmbDim tf supplied, conv := cv' }

/-- the converter `materialize()` builds: canonical name table + statistics fitted on `df` -/
def fitConv (vc : String → List Key → List Key) (target : Option String)
    (embedders : String → String → List (Val F)) (df : DF L F) : Conv F :=
  Conv.init df.colToStype target (fitStats vc target df) embedders

/-- `Dataset(df, col_to_stype, target_col).materialize()` -/
def materialize (vc : String → List Key → List Key) (target : Option String)
    (embedders : String → String → List (Val F)) (df : DF L F) : Option (Materialized F) :=
  materializeWith (fitStats vc target df) target embedders df

/-- `len(col_stats[target][COUNT][0])` -/
def numClasses (stats : List (String × ColStats)) (target : String) : Nat :=
  ((dictGet stats target).getD {}).cats.length

end TFVerif.Mat

/-
Model of `torch_frame/data/mapper.py` (one `TensorMapper.forward` per semantic type), of the
`torch_frame.stype` tables, and the eight-line specification `encodeCell` of the canonical
encoding of one raw cell.

A raw DataFrame cell is ABSTRACT (pandas / dateutil parsing is outside the model, DESIGN.md §3):
the harness generates the abstract cell first and renders it to pandas objects.  Float payloads are
only moved, never computed with, so the payload type `F` is a parameter (`Val.nan` is the one
missing float).  Every encoded cell is a `List (Val F)`:
  numerical `[x]` · categorical `[index]` · multicategorical the list of indices (a set) ·
  sequence the values · timestamp the 7 calendar components · embedding the vector.
Core Lean only.
-/
import TFVerif.Model.Ragged
import TFVerif.Model.Calendar
import TFVerif.Model.Pandas

namespace TFVerif.Mat

/-! ### `torch_frame.stype` -/

inductive Stype where
  | numerical | categorical | text_embedded | text_tokenized | multicategorical
  | sequence_numerical | timestamp | image_embedded | embedding
deriving DecidableEq, Repr, Inhabited

namespace Stype

/-- `list(torch_frame.stype)`: members in declaration order. -/
def all : List Stype :=
  [numerical, categorical, text_embedded, text_tokenized, multicategorical, sequence_numerical,
   timestamp, image_embedded, embedding]

def name : Stype → String
  | numerical => "numerical" | categorical => "categorical" | text_embedded => "text_embedded"
  | text_tokenized => "text_tokenized" | multicategorical => "multicategorical"
  | sequence_numerical => "sequence_numerical" | timestamp => "timestamp"
  | image_embedded => "image_embedded" | embedding => "embedding"

/-- `stype.parent` -/
def parent : Stype → Stype
  | text_embedded => embedding
  | image_embedded => embedding
  | s => s

/-- `stype.use_multi_nested_tensor` -/
def useNested : Stype → Bool
  | multicategorical => true | sequence_numerical => true | _ => false

/-- `stype.use_multi_embedding_tensor` -/
def useEmbedding : Stype → Bool
  | text_embedded => true | image_embedded => true | embedding => true | _ => false

/-- `stype.use_dict_multi_nested_tensor` -/
def useDict : Stype → Bool
  | text_tokenized => true | _ => false

end Stype

/-- the order in which `_merge_feat` visits the stypes of a frame (`tf.stypes` = `list(stype)` filtered) -/
def childOrder : List Stype := Stype.all

/-- `TimestampTensorMapper.TIME_TO_INDEX` as (name, position) pairs, in position order -/
def timeIndex : List (String × Nat) :=
  [("YEAR", 0), ("MONTH", 1), ("DAY", 2), ("DAYOFWEEK", 3), ("HOUR", 4), ("MINUTE", 5), ("SECOND", 6)]

/-- `TimestampTensorMapper.CYCLIC_VALUES_NORMALIZATION_CONSTANT`: exclusive upper bounds of the six
    cyclic components (month-1, day-1, weekday, hour, minute, second). -/
def cyclicConst : List Nat := [12, 31, 7, 24, 60, 60]

/-- `Dataset.task_type` as a function of the target's stype and of `num_classes`; `none` = raises
    (`num_classes` asserts `> 1`; other stypes raise `ValueError`). -/
def taskType (target : Stype) (numClasses : Nat) : Option String :=
  match target with
  | .categorical =>
    if numClasses ≤ 1 then none
    else if numClasses = 2 then some "binary_classification" else some "multiclass_classification"
  | .numerical => some "regression"
  | _ => none

/-! ### raw cells and encoded values -/

/-- a category / token value -/
inductive Key where
  | str (s : String)
  | int (i : Int)
deriving DecidableEq, Repr, Inhabited

/-- one tensor entry: a long, a float payload, or the missing float -/
inductive Val (F : Type) where
  | int (i : Int)
  | flt (x : F)
  | nan
deriving DecidableEq, Repr, Inhabited

/-- an abstract raw DataFrame cell -/
inductive Cell (F : Type) where
  | missing                      -- None / NaN / NaT / pd.NA
  | num (x : F)                  -- a number (±inf allowed)
  | cat (k : Key)                -- a categorical value
  | toks (ts : List Key)         -- a multicategorical cell after splitting and stripping (repeats allowed)
  | seq (xs : List (Val F))      -- a numeric sequence (entries `flt` or `nan`)
  | time (epoch : Int)           -- a parseable timestamp, as epoch seconds
  | badTime                      -- an unparseable timestamp string
  | vec (v : List (Val F))       -- an embedding vector
  | text (s : String)            -- the string a text / image embedder receives (`str(cell)`)
deriving DecidableEq, Repr, Inhabited

def Cell.isMissing : Cell F → Bool
  | .missing => true
  | _ => false

/-- what the canonical encoding of a column's cells depends on: the fitted category list
    (`col_stats[col][COUNT|MULTI_COUNT][0]`), the user's embedder callable (a pure function of the string
    it receives) and the column's embedding width. -/
structure ColCfg (F : Type) where
  cats : List Key := []
  embed : String → List (Val F) := fun _ => []
  /-- the fitted width of a plain embedding column (`col_stats[col][EMB_DIM]`; −1 = not available) -/
  embDim : Int := -1

/-- the string handed to a text / image embedder: the harness passes `str(cell)` as `.text` -/
def cellText : Cell F → String
  | .text s => s
  | _ => ""

/-- position of a value in the ordered category list -/
def catPos (cats : List Key) (k : Key) : Option Nat := cats.findIdx? (· == k)

/-- SPECIFICATION: the canonical encoding of one raw cell. -/
def encodeCell (cfg : ColCfg F) : Stype → Cell F → List (Val F)
  | .numerical, .num x => [.flt x]
  | .numerical, _ => [.nan]
  | .categorical, .cat k => [.int (match catPos cfg.cats k with | some i => i | none => -1)]
  | .categorical, _ => [.int (-1)]
  | .multicategorical, .toks ts => ts.eraseDups.filterMap fun t => (catPos cfg.cats t).map fun i => .int i
  | .multicategorical, .missing => [.int (-1)]
  | .sequence_numerical, .seq xs => xs
  | .timestamp, .time s => (Cal.components s).map .int
  | .timestamp, _ => Cal.missingComponents.map .int
  | .embedding, .vec v => v
  | .embedding, .missing => List.replicate cfg.embDim.toNat .nan
  | .text_embedded, c => cfg.embed (cellText c)
  | .image_embedded, c => cfg.embed (cellText c)
  | _, _ => []       -- missing / empty sequence; anything else is outside the typed domain

/-! ### the mappers, in the shape of the code -/

/-- what one `TensorMapper.forward` returns -/
inductive ColOut (F : Type) where
  | dense (cells : List (List (Val F)))      -- a `[n]` (cells of length 1) or `[n, 7]` tensor
  | mnt (m : MNT (Val F))                    -- one-column MultiNestedTensor
  | met (m : MET (Val F))                    -- one-column MultiEmbeddingTensor
deriving Repr

/-- `NumericalTensorMapper.forward`: `ser.values.astype(float)`; a missing cell is NaN. -/
def numericalForward (cells : List (Cell F)) : List (List (Val F)) :=
  cells.map fun c => match c with
    | .num x => [.flt x]
    | _ => [.nan]

def cellKey : Cell F → Option Key
  | .cat k => some k
  | _ => none

/-- `CategoricalTensorMapper.forward`: left-merge of the values against `categories`
    (a Series `index = categories`, `data = 0 … len-1`), NaN → −1. -/
def categoricalForward (cats : List Key) (labels : List L) (cells : List (Cell F)) : List (List (Val F)) :=
  let ser : Pd.Series L (Option Key) := labels.zip (cells.map cellKey)
  let categories : List (Key × Nat) := cats.zipIdx
  (Pd.mergeLeft ser categories).map fun (_, _, idx) =>
    match idx with
    | some i => [.int i]
    | none => [.int (-1)]

/-- the mapper's internal marker of a missing multicategorical cell: `{-1}` -/
def missingTok : Key := .int (-1)

/-- `MultiCategoricalTensorMapper.split_by_sep` on an abstract cell: a *set* (here: duplicate-free list;
    Python's iteration order of a set is unspecified, the encoded cell is compared as a set). -/
def splitBySep : Cell F → List Key
  | .missing => [missingTok]
  | .toks ts => ts.eraseDups
  | _ => []

/-- `self.index`: categories → positions, plus the entry `-1 → -1`. -/
def multicatIndex (cats : List Key) : List (Key × Int) :=
  (cats.zipIdx.map fun (k, i) => (k, (i : Int))) ++ [(missingTok, -1)]

/-- the indices the mapper keeps for one cell: every token of the cell's set that the lookup index knows -/
def tokenIndices (cats : List Key) (c : Cell F) : List Int :=
  (splitBySep c).filterMap (Pd.lookup (multicatIndex cats))

/-- lines 171-193 of mapper.py after the relabelling: explode / merge / dropna / per-label counts /
    reindex / cumsum.  `ser` carries whatever labels it has at this point. -/
def multicatPipeline [DecidableEq L] (cats : List Key) (ser : Pd.Series L (Cell F)) : MNT (Val F) :=
  let originalIndex := ser.map (·.1)
  let sets : Pd.Series L (List Key) := ser.map fun (l, c) => (l, splitBySep c)
  let exploded := Pd.explode sets
  let merged := Pd.dropna (Pd.mergeLeft exploded (multicatIndex cats))
  let values := merged.map fun (_, _, i) => Val.int i
  let counts := Pd.reindex (Pd.valueCounts (merged.map (·.1))) originalIndex 0
  { numRows := originalIndex.length, numCols := 1, values := values, offset := cumsum (0 :: counts) }

/-- `MultiCategoricalTensorMapper.forward` (with fix 9b32825: rows are relabelled `0 … n-1` first). -/
def multicatForward (cats : List Key) (labels : List L) (cells : List (Cell F)) : MNT (Val F) :=
  multicatPipeline cats (Pd.resetIndex (labels.zip cells))

/-- the variant used before fix 9b32825: the caller's labels are counted and re-indexed. -/
def multicatForwardLabelled [DecidableEq L] (cats : List Key) (labels : List L) (cells : List (Cell F)) :
    MNT (Val F) :=
  multicatPipeline cats (labels.zip cells)

def seqVals : Cell F → List (Val F)
  | .seq xs => xs
  | _ => []

/-- `NumericalSequenceTensorMapper.forward`: lengths → offsets (missing and `[]` have length 0),
    the non-empty cells are exploded into `values`. -/
def sequenceForward (cells : List (Cell F)) : MNT (Val F) :=
  let lens := cells.map fun c => (seqVals c).length
  let kept := cells.filter fun c => (seqVals c).length != 0
  { numRows := cells.length, numCols := 1
    values := kept.flatMap seqVals
    offset := cumsum (0 :: lens) }

/-- `TimestampTensorMapper.forward`: `to_datetime(errors='coerce')` then the seven `dt` components,
    NaT → seven −1. -/
def timestampForward (cells : List (Cell F)) : List (List (Val F)) :=
  cells.map fun c => match c with
    | .time s => (Cal.components s).map .int
    | _ => Cal.missingComponents.map .int

/-- `MultiEmbeddingTensor(num_rows=len(ser), num_cols=1, values, offset=[0, len(values[0])])` -/
def metOfRows (vecs : List (List (Val F))) : MET (Val F) :=
  let w := (vecs.headD []).length
  { numRows := vecs.length, numCols := 1, width := w, values := vecs, offset := [0, w] }

def cellVec : Cell F → List (Val F)
  | .vec v => v
  | _ => []

/-- `EmbeddingTensorMapper(emb_dim=col_stats[col][EMB_DIM]).forward` without embedder (fixes 4868d4c, 2af2c8d):
    a missing cell becomes a NaN vector of the fitted width (of the first non-missing vector of the series when
    no width was fitted), then `np.stack`.
    (no fitted width and no vector at all raises in the code; here it yields zero-width rows — outside the domain) -/
def embeddingForward (embDim : Int) (cells : List (Cell F)) : MET (Val F) :=
  let w : Nat := if embDim ≥ 0 then embDim.toNat else
    match cells.find? (fun c => !c.isMissing) with
    | some c => (cellVec c).length
    | none => 0
  metOfRows (cells.map fun c => if c.isMissing then List.replicate w .nan else cellVec c)

/-- `EmbeddingTensorMapper.forward` with an embedder: the callable receives `str(value)` per row
    (in mini-batches; the callable is a function of each string, so batching is not observable). -/
def embedderForward (embed : String → List (Val F)) (cells : List (Cell F)) : MET (Val F) :=
  metOfRows (cells.map fun c => embed (cellText c))

/-- `DataFrameToTensorFrameConverter._get_mapper(col).forward(df[col])`: dispatch on the column's own stype. -/
def forward (cfg : ColCfg F) (s : Stype) (labels : List L) (cells : List (Cell F)) : ColOut F :=
  match s with
  | .numerical => .dense (numericalForward cells)
  | .categorical => .dense (categoricalForward cfg.cats labels cells)
  | .multicategorical => .mnt (multicatForward cfg.cats labels cells)
  | .sequence_numerical => .mnt (sequenceForward cells)
  | .timestamp => .dense (timestampForward cells)
  | .embedding => .met (embeddingForward cfg.embDim cells)
  | .text_embedded => .met (embedderForward cfg.embed cells)
  | .image_embedded => .met (embedderForward cfg.embed cells)
  | .text_tokenized => .dense []     -- dictionaries of token tensors are not part of C01/C02/C04

/-- The typed domain of one column (what the harness generates): no token-valued column, the mapper's
    internal missing marker `-1` is neither a fitted category nor a token of a cell, and a plain embedding
    column has a fitted width which all its vectors have. -/
def ColWF (cfg : ColCfg F) (s : Stype) (cells : List (Cell F)) : Prop :=
  s ≠ .text_tokenized ∧
  (s = .multicategorical → missingTok ∉ cfg.cats ∧ ∀ ts, Cell.toks ts ∈ cells → missingTok ∉ ts) ∧
  (s = .embedding → 0 ≤ cfg.embDim ∧
    ∀ c ∈ cells, c.isMissing = false → ((cellVec c).length : Int) = cfg.embDim)

/-- canonical one-column nested tensor holding the given cells -/
def mntOfCol (cells : List (List α)) : MNT α :=
  { numRows := cells.length, numCols := 1, values := cells.flatten, offset := 0 :: cumsum (cells.map List.length) }

/-- the `n` cells a mapper output holds, read row by row -/
def ColOut.cells : ColOut F → List (List (Val F))
  | .dense cs => cs
  | .mnt m => (List.range m.numRows).map fun r => m.cellAt r
  | .met m => m.values

def ColOut.numRows : ColOut F → Nat
  | .dense cs => cs.length
  | .mnt m => m.numRows
  | .met m => m.numRows

/-! ### the fitted statistics the mappers depend on (definitions only; C03 owns their correctness) -/

/-- values of a (multi)categorical column in positional order, missing cells dropped, a
    multicategorical cell contributing each of its distinct tokens once -/
def observedKeys (s : Stype) (cells : List (Cell F)) : List Key :=
  match s with
  | .categorical => cells.filterMap cellKey
  | .multicategorical => cells.flatMap fun c => match c with
      | .toks ts => ts.eraseDups
      | _ => []
  | _ => []

/-- Is `cats` an admissible `value_counts(ascending=False)` index of the observed values: duplicate-free,
    exactly the distinct observed values, counts non-increasing?  (tie order is pandas' and not fixed) -/
def validCats (cats obs : List Key) : Bool :=
  cats.eraseDups == cats && cats.all (obs.contains ·) && obs.all (cats.contains ·) &&
    (cats.zip cats.tail).all fun (a, b) => obs.count a ≥ obs.count b

def keyLt : Key → Key → Bool
  | .str a, .str b => a < b
  | .int a, .int b => a < b
  | .int _, .str _ => true
  | .str _, .int _ => false

/-- `Dataset.materialize` re-sorts a two-class categorical *target* (`sort_index`). -/
def binarySort (cats : List Key) : List Key :=
  match cats with
  | [a, b] => if keyLt b a then [b, a] else [a, b]
  | _ => cats

/-- `StatType.YEAR_RANGE` of a timestamp column (`[-1, -1]` when nothing parses). -/
def yearRange (cells : List (Cell F)) : Int × Int :=
  let ys := cells.filterMap fun c => match c with
    | .time s => some (Cal.yearOf s)
    | _ => none
  match ys with
  | [] => (-1, -1)
  | y :: rest => (rest.foldl min y, rest.foldl max y)

/-- `StatType.EMB_DIM` of a plain embedding column: `len(ser.dropna().iloc[0])`, −1 when all missing. -/
def embDim (labels : List L) (cells : List (Cell F)) : Int :=
  let ser : Pd.Series L (Cell F) := (labels.zip cells).filter fun p => !p.2.isMissing
  match Pd.iloc0 ser with
  | some c => (cellVec c).length
  | none => -1

/-- the expression used before fix e895d09: `len(ser[0])`, a LABEL lookup; `none` = KeyError. -/
def embDimLabelled [DecidableEq L] (zero : L) (labels : List L) (cells : List (Cell F)) : Option Int :=
  let ser : Pd.Series L (Cell F) := (labels.zip cells).filter fun p => !p.2.isMissing
  (Pd.loc0 zero ser).map fun c => ((cellVec c).length : Int)

end TFVerif.Mat

#!/usr/bin/env python3
"""Evaluate a seeded breaking change against the registered checks WITHOUT touching /repo.

usage: tools/seed_eval.py <dir with patch.diff [demo.py]> <property id> [more ids ...] [--tier quick|thorough]

Steps (each result is printed and returned as JSON on the last line):
  1. scratch copy of /repo's working tree (rsync, no .git) under /tmp
  2. demo.py on the unmodified copy         -> must exit 0
  3. apply patch.diff
  4. pinned baseline suite on the copy       -> the 160 stable tests must still pass
  5. demo.py on the modified copy            -> must exit 1
  6. every listed check with VERIF_REPO=<copy> (evidence / replays redirected to a temp dir)
  7. remove the copy; regenerate the reflective tables from /repo
"""
import json
import os
import re
import shutil
import subprocess
import sys
import tempfile
import xml.etree.ElementTree as ET

VERIF = os.path.dirname(os.path.dirname(os.path.abspath(__file__)))
BASE = json.load(open('/root/.vp/BASELINE.json'))


def sh(cmd, env=None, cwd=None, timeout=3600):
    p = subprocess.run(cmd, shell=True, env=env, cwd=cwd, capture_output=True, text=True, timeout=timeout)
    return p.returncode, p.stdout + p.stderr


def baseline(d):
    fd, path = tempfile.mkstemp(suffix='.xml'); os.close(fd)
    env = dict(os.environ, PYTHONPATH=d)
    sh(f"cd {d} && /venv/bin/python -m pytest -ra -q -p no:cacheprovider --timeout=900 "
       f"--continue-on-collection-errors --junitxml={path}", env=env)
    ok = set()
    try:
        for tc in ET.parse(path).getroot().iter('testcase'):
            if not any(ch.tag in ('failure', 'error', 'skipped') for ch in tc):
                ok.add(f"{tc.get('classname')}::{tc.get('name')}")
    finally:
        os.unlink(path)
    missing = [t for t in BASE['stable_pass'] if t not in ok]
    return len(BASE['stable_pass']) - len(missing), missing


def demo(mdir, d):
    src = open(os.path.join(mdir, 'demo.py')).read()
    src = re.sub(r'/tmp/mut_c\d+', d, src)
    f = os.path.join(d, '_demo.py')
    open(f, 'w').write(src)
    rc, out = sh(f'/venv/bin/python {f}', env=dict(os.environ, DEMO_REPO=d, PYTHONPATH=d), cwd=d, timeout=900)
    return rc, out[-600:]


def main():
    args = sys.argv[1:]
    tier = 'quick'
    if '--tier' in args:
        i = args.index('--tier'); tier = args[i + 1]; del args[i:i + 2]
    mdir = os.path.realpath(args[0]); pids = args[1:]
    res = {'mutant': mdir, 'tier': tier, 'checks': {}}
    d = tempfile.mkdtemp(prefix='seed_repo_', dir='/tmp')
    ev = tempfile.mkdtemp(prefix='seed_ev_', dir='/tmp')
    try:
        sh(f'rsync -a --exclude .git /repo/ {d}/')
        has_demo = os.path.exists(os.path.join(mdir, 'demo.py'))
        if has_demo:
            res['demo_without'] = demo(mdir, d)[0]
        rc, out = sh(f'patch -p1 -s < {mdir}/patch.diff', cwd=d)
        if rc != 0:
            res['patch'] = 'FAILED: ' + out[-300:]
            print(json.dumps(res)); return 3
        n, missing = baseline(d)
        res['baseline'] = f'{n}/{len(BASE["stable_pass"])}'
        res['baseline_missing'] = missing[:5]
        if has_demo:
            rc, out = demo(mdir, d)
            res['demo_with'] = rc
            res['demo_out'] = out[-300:]
        env = dict(os.environ, VERIF_REPO=d, VERIF_EVIDENCE_DIR=ev, VERIF_REPLAY_DIR=os.path.join(ev, 'replays'))
        for pid in pids:
            rc, out = sh(f'./check {pid} {tier}', env=env, cwd=VERIF, timeout=7200)
            lines = [l for l in out.split('\n') if re.search(r'VIOLATION|KNOWN-FINDING|BROKEN|broken|seed=', l)]
            what = []
            for m in re.finditer(r'VIOLATION property=\S+ replay=(\S+)', out):
                try:
                    doc = json.load(open(m.group(1)))
                    what.append((doc.get('key') or 'unproved') + ': ' + str(doc.get('what') or doc.get('no_longer_checks'))[:240])
                except Exception:   # noqa
                    pass
            res['checks'][pid] = {'exit': rc, 'lines': [l[:260] for l in lines[:8]], 'violations': what[:6]}
            print(f'check {pid} {tier}: exit {rc}')
            for l in lines[:8]:
                print('   ', l[:260])
            for w in what[:4]:
                print('    ->', w)
    finally:
        shutil.rmtree(d, ignore_errors=True)
        shutil.rmtree(ev, ignore_errors=True)
        sh('/venv/bin/python -m harness.tables', cwd=VERIF)
    print(json.dumps(res))
    return 0


if __name__ == '__main__':
    sys.exit(main())

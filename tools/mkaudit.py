#!/usr/bin/env python3
"""usage: mkaudit.py C06  -- regenerate lean/TFVerif/Audit/<id>.lean from the theorems declared in Props/<id>.lean"""
import re, sys
pid = sys.argv[1]
txt = open(f'/verif/lean/TFVerif/Props/{pid}.lean').read()
txt = re.sub(r'/-.*?-/', '', txt, flags=re.S)
txt = re.sub(r'--.*', '', txt)
ths = re.findall(r'^\s*theorem\s+([A-Za-z0-9_.\']+)', txt, flags=re.M)
open(f'/verif/lean/TFVerif/Audit/{pid}.lean', 'w').write(
    f'import TFVerif.Props.{pid}\nopen TFVerif.{pid}\n' + ''.join(f'#print axioms {t}\n' for t in ths))
print(pid, len(ths), 'theorems')

#!/usr/bin/env python3
"""validate MANIFEST.json and every evidence file against the schemas (run with python3-vt)."""
import json, sys, glob, jsonschema
ok = True
try:
    jsonschema.validate(json.load(open('/verif/MANIFEST.json')), json.load(open('/root/.vp/MANIFEST.schema.json')))
    print('MANIFEST ok')
except Exception as e:
    ok = False; print('MANIFEST INVALID', str(e)[:300])
S = json.load(open('/root/.vp/EVIDENCE.schema.json'))
for f in sorted(glob.glob('/verif/evidence/*.json')):
    try:
        jsonschema.validate(json.load(open(f)), S); print(f, 'ok')
    except Exception as e:
        ok = False; print(f, 'INVALID', str(e)[:300])
sys.exit(0 if ok else 1)

#!/bin/bash
# usage: tools/try_mutant.sh <mutant dir with patch.diff [demo.py]> <property id> [tier] [more property ids...]
# Applies the patch to a scratch copy of /repo (never to /repo), runs the demo with and without it and the
# listed checks against the scratch copy via VERIF_REPO, then removes the copy.
set -u
M=$(realpath "$1"); PID=$2; TIER=${3:-quick}; shift; shift; shift || true
S=$(mktemp -d /tmp/scratch_repo.XXXX)
rsync -a --exclude .git /repo/ "$S/"
cd "$S"
if [ -f "$M/demo.py" ]; then
  sed "s#/tmp/mut_c[0-9]*#$S#g" "$M/demo.py" > "$S/_demo.py"
  PYTHONPATH=$S /venv/bin/python "$S/_demo.py" >/dev/null 2>&1; echo "demo without patch: exit $?"
fi
patch -p1 -s < "$M/patch.diff" || { echo "PATCH FAILED"; rm -rf "$S"; exit 3; }
if [ -f "$M/demo.py" ]; then
  PYTHONPATH=$S /venv/bin/python "$S/_demo.py" >/dev/null 2>&1; echo "demo with patch: exit $?"
fi
cd /verif
for p in $PID "$@"; do
  VERIF_REPO=$S ./check $p $TIER 2>&1 | grep -E "VIOLATION|KNOWN|broken|BROKEN|seed=" | head -8
  echo "check $p exit ${PIPESTATUS[0]}"
done
rm -rf "$S"

#!/usr/bin/env python3
"""usage: tools/seed_ingest.py <out dir of a sub-agent, e.g. /tmp/mutout_c09> <PID the change targets> <check ids to run...>
Copies m1/, m2/ ... to /verif/seeded/<PID>-mK/, evaluates each with tools/seed_eval.py and writes meta.json."""
import json, os, shutil, subprocess, sys
V = os.path.dirname(os.path.dirname(os.path.abspath(__file__)))
src, pid, extra = sys.argv[1], sys.argv[2], sys.argv[3:]
assert extra, 'list the checks to run'
for k in sorted(os.listdir(src)):
    d = os.path.join(src, k)
    if not (os.path.isdir(d) and os.path.exists(os.path.join(d, 'patch.diff'))):
        continue
    off = int(os.environ.get('SEED_OFFSET', '0'))
    kk = f'm{int(k[1:]) + off}' if off else k
    dst = os.path.join(V, 'seeded', f'{pid}-{kk}')
    os.makedirs(dst, exist_ok=True)
    for f in ('patch.diff', 'demo.py', 'notes.txt'):
        if os.path.exists(os.path.join(d, f)):
            shutil.copy(os.path.join(d, f), os.path.join(dst, f))
    p = subprocess.run([sys.executable, os.path.join(V, 'tools', 'seed_eval.py'), dst] + extra,
                       capture_output=True, text=True)
    res = json.loads(p.stdout.strip().split('\n')[-1])
    notes = open(os.path.join(dst, 'notes.txt')).read() if os.path.exists(os.path.join(dst, 'notes.txt')) else ''
    caught = [c for c, r in res['checks'].items() if r['exit'] == 1]
    meta = {
        'property': pid,
        'origin': 'written by an independent sub-agent that saw only the property text and a scratch worktree of /repo (nothing from /verif)',
        'needs_to_manifest': 'see notes.txt',
        'confirmed': {
            'baseline': res.get('baseline'), 'demo_without_patch_exit': res.get('demo_without'),
            'demo_with_patch_exit': res.get('demo_with'),
            'how': 'tools/seed_eval.py: scratch copy of /repo, patch applied there, pinned suite + demo + checks with VERIF_REPO=<copy>',
        },
        'checks': res['checks'],
        'caught_by': [f'{c} quick' for c in caught],
    }
    json.dump(meta, open(os.path.join(dst, 'meta.json'), 'w'), indent=1)
    ok = res.get('baseline', '').startswith('160/') and res.get('demo_without') == 0 and res.get('demo_with') == 1
    print(f'{pid}-{kk}: valid={ok} baseline={res.get("baseline")} demo {res.get("demo_without")}->{res.get("demo_with")} caught_by={caught}')
    for c, r in res['checks'].items():
        for w in r['violations'][:3]:
            print('     ', c, '->', w[:200])

#!/usr/bin/env python3
"""usage: tools/benign_eval.py <seeded/benign/Cxx-rK> <check ids...>
A behaviour-preserving rewrite of /repo (written by an independent sub-agent that saw only the property text) is
applied to a scratch copy; the pinned suite must stay green and every listed check must stay QUIET (exit 0):
a false-alarm test of the machinery.  Writes meta.json next to the patch."""
import json, os, subprocess, sys
V = os.path.dirname(os.path.dirname(os.path.abspath(__file__)))
d, checks = os.path.realpath(sys.argv[1]), sys.argv[2:]
p = subprocess.run([sys.executable, os.path.join(V, 'tools', 'seed_eval.py'), d] + checks, capture_output=True, text=True)
res = json.loads(p.stdout.strip().split('\n')[-1])
quiet = all(r['exit'] == 0 for r in res['checks'].values())
meta = {'kind': 'behaviour-preserving rewrite (false-alarm test)',
        'origin': 'independent sub-agent: property text + scratch worktree only; own digest check.py identical with / without the rewrite',
        'baseline': res.get('baseline'), 'checks': res['checks'], 'all_checks_quiet': quiet}
json.dump(meta, open(os.path.join(d, 'meta.json'), 'w'), indent=1)
print(os.path.basename(d), 'baseline', res.get('baseline'), 'quiet' if quiet else 'ALARM',
      {c: r['exit'] for c, r in res['checks'].items()})
if not quiet:
    for c, r in res['checks'].items():
        for l in r['lines'][:4]:
            print('    ', c, l[:200])
        for w in r['violations'][:3]:
            print('     ->', w[:300])

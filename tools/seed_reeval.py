#!/usr/bin/env python3
"""usage: tools/seed_reeval.py <seeded/Cxx-mK> ...   re-evaluate stored seeded changes with the current checks and
refresh their meta.json (checks run = the property's own check + the checks recorded before)."""
import json, os, subprocess, sys
V = os.path.dirname(os.path.dirname(os.path.abspath(__file__)))
for d in sys.argv[1:]:
    d = os.path.realpath(d)
    mp = os.path.join(d, 'meta.json')
    m = json.load(open(mp))
    pid = m['property']
    checks = [pid] + [c for c in m.get('checks', {}) if c != pid]
    p = subprocess.run([sys.executable, os.path.join(V, 'tools', 'seed_eval.py'), d] + checks, capture_output=True, text=True)
    try:
        res = json.loads(p.stdout.strip().split('\n')[-1])
    except Exception:   # noqa
        print(os.path.basename(d), 'EVAL FAILED', p.stdout[-300:], p.stderr[-300:]); continue
    m['checks'] = res['checks']
    m['caught_by'] = [f'{c} quick' for c, r in res['checks'].items() if r['exit'] == 1]
    m.setdefault('confirmed', {}).update({'baseline': res.get('baseline'), 'demo_without_patch_exit': res.get('demo_without'),
                                          'demo_with_patch_exit': res.get('demo_with')})
    json.dump(m, open(mp, 'w'), indent=1)
    first = {c: (r['violations'][0][:90] if r['violations'] else '') for c, r in res['checks'].items() if r['exit'] == 1}
    print(os.path.basename(d), 'baseline', res.get('baseline'), 'demo', res.get('demo_without'), '->', res.get('demo_with'),
          'exits', {c: r['exit'] for c, r in res['checks'].items()}, first, flush=True)

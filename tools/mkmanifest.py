#!/usr/bin/env python3
"""Regenerate /verif/MANIFEST.json from harness/claims.json (one entry per claimed property)."""
import json, os
V = os.path.dirname(os.path.dirname(os.path.abspath(__file__)))
claims = json.load(open(os.path.join(V, 'harness', 'claims.json')))
props = [json.loads(l) for l in open(os.path.join(V, 'properties.jsonl'))]
NOTE = ("Trusted base: Lean 4.33 kernel; axioms propext / Classical.choice / Quot.sound only (audited per theorem on every run, "
        "no sorry/admit/native_decide/bv_decide/added axioms); the hand-written Lean model (modelled, not verified: pandas, PyTorch "
        "and numpy primitives); the correspondence harness and table translator that tie the model to /repo's working tree on every run "
        "(sampled, with exhaustive boxes where stated; size ladder / value / dtype / aliasing / history families of harness/stress.py; the quick tier "
        "triples its budget when the AST fingerprint of torch_frame differs from the recorded one - never an alarm by itself). ")
checks, na = [], []
for p in props:
    pid = p['id']
    c = claims.get(pid)
    if not c or not c.get('claimed'):
        na.append({'property_id': pid, 'reason': (c or {}).get('reason', 'not claimed: model/theorems for this property are not finished (see DESIGN.md section 7)')})
        continue
    checks.append({
        'property_id': pid,
        'quick_cmd': f'./check {pid} quick',
        'thorough_cmd': f'./check {pid} thorough',
        'evidence_file': f'/verif/evidence/{pid}.json',
        'replay_cmd_template': f'./check {pid} --replay {{path}}',
        'engine': 'lean4-proof+correspondence',
        'level_claimed': {'category': 'proof', 'text': c['text'], 'design_ref': f'DESIGN.md section 5 {pid}'},
        'level_note': NOTE + c.get('note', ''),
        'technique': c.get('technique', 'Lean 4 theorems about a hand-written executable model + differential correspondence check against the real code'),
    })
m = {
    'version': 1,
    'setup_cmd': 'tools/setup.sh',
    'hooks': {'guard': 'TORCH_FRAME_VERIF', 'enable': 'no hooks are needed: the harness observes the real code in-process (monkey-patched RNG entry points, recording stubs); nothing in /repo is guarded',
              'baseline_off_cmd': 'python3 tools/baseline_check.py', 'source_commits': [], 'add_only': True},
    'engines': [{'name': 'lean4-proof+correspondence', 'path': '/verif/lean + /verif/harness',
                 'serves_properties': [c['property_id'] for c in checks],
                 'kind_free_text': 'Lean 4 project TFVerif (model, proofs, property theorems, axiom audit, compiled model drivers) + Python correspondence harness running the real code from /repo in-process'}],
    'checks': checks,
    'notes': 'See DESIGN.md. Exit 2 = the check itself is broken (never a verdict). fix: commits in /repo are listed in known_findings.json.',
    'not_applicable': na,
}
json.dump(m, open(os.path.join(V, 'MANIFEST.json'), 'w'), indent=1)
print(f'{len(checks)} claimed, {len(na)} not claimed')

#!/bin/bash
# MANIFEST.setup_cmd: build the Lean project (all property theorems, audits, drivers) offline.
set -e
cd "$(dirname "$0")/.."
/venv/bin/python -m harness.tables || true
cd lean
mods=""
for f in TFVerif/Props/*.lean TFVerif/Audit/*.lean; do
  [ -e "$f" ] || continue
  m=${f%.lean}; mods="$mods ${m//\//.}"
done
exes=$(grep -A1 '^\[\[lean_exe\]\]' lakefile.toml | grep '^name' | sed 's/name = "\(.*\)"/\1/')
built=""
for e in $exes; do
  root=$(grep -A2 "name = \"$e\"" lakefile.toml | grep '^root' | sed 's/root = "\(.*\)"/\1/')
  [ -e "${root//.//}.lean" ] && built="$built $e"
done
lake build $mods $built

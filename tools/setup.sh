#!/bin/bash
# MANIFEST.setup_cmd: build the Lean project offline (theorems, audits and drivers of every claimed property).
cd "$(dirname "$0")/.."
/venv/bin/python -m harness.tables >/dev/null 2>&1 || true
ids=$(python3 -c "
import json
c=json.load(open('harness/claims.json'))
print(' '.join(k for k,v in sorted(c.items()) if v.get('claimed')))")
cd lean
rc=0
targets=""
for id in $ids; do
  targets="$targets TFVerif.Props.$id TFVerif.Audit.$id"
  drv=$(/venv/bin/python - <<PY 2>/dev/null
import sys; sys.path.insert(0, '..')
import importlib
m = importlib.import_module('harness.props.${id,,}')
print(m.CHECK.driver or '')
PY
)
  [ -n "$drv" ] && targets="$targets $drv"
done
targets=$(echo $targets | tr ' ' '\n' | sort -u | tr '\n' ' ')
echo "lake build $targets"
lake build $targets || rc=1
# build whatever else is present, but never fail on work in progress
exit $rc

#!/usr/bin/env python3
"""Run /repo's pinned baseline suite (guard OFF) and compare with BASELINE.json.

Exit 0 iff every test listed under stable_pass passed.
usage: baseline_check.py [--junit FILE]   (FILE: reuse an existing junit xml)
"""
import json, os, subprocess, sys, tempfile
import xml.etree.ElementTree as ET

BASE = json.load(open('/root/.vp/BASELINE.json'))


def ids_from_junit(path):
    ok, bad = set(), set()
    for tc in ET.parse(path).getroot().iter('testcase'):
        name = f"{tc.get('classname')}::{tc.get('name')}"
        failed = any(ch.tag in ('failure', 'error', 'skipped') for ch in tc)
        (bad if failed else ok).add(name)
    return ok, bad


def main():
    if len(sys.argv) > 2 and sys.argv[1] == '--junit':
        path = sys.argv[2]
    else:
        fd, path = tempfile.mkstemp(suffix='.xml'); os.close(fd)
        env = dict(os.environ)
        env.pop('TORCH_FRAME_VERIF', None)
        cmd = BASE['cmd'].replace('<file>', path)
        subprocess.run(cmd, shell=True, env=env, stdout=subprocess.DEVNULL,
                       stderr=subprocess.DEVNULL)
    ok, bad = ids_from_junit(path)
    missing = [t for t in BASE['stable_pass'] if t not in ok]
    print(f"baseline: {len(BASE['stable_pass']) - len(missing)}/"
          f"{len(BASE['stable_pass'])} stable tests pass; total passed {len(ok)}")
    for t in missing:
        print('  NOT PASSING:', t)
    sys.exit(1 if missing else 0)


if __name__ == '__main__':
    main()

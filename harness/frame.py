"""Generators, adapters and direct oracles for TensorFrame / DataLoader (C07, C08, C10).

A *frame spec* is plain JSON: per stype the cells as nested lists of small integer codes
(rows x columns x entries), the column names, the target codes, the explicit num_rows.  From one
spec three things are derived independently of each other:
  * the real `TensorFrame` (`build_real`),
  * the model-side frame sent to the Lean driver (`model_frame`),
  * the nested-list reference used by the direct oracles (`ref_of_spec`), on which every
    selection is Python's own list indexing (`ragged.py_select`).
Values are compared as IEEE-754 bit patterns (NaN canonicalised).
"""
from __future__ import annotations

import copy
import math
import struct
import warnings

warnings.filterwarnings('ignore', message='.*non-writable.*')
warnings.filterwarnings('ignore', message='.*not writable.*')

import numpy as np
import torch

import torch_frame
from torch_frame import TensorFrame, stype
from torch_frame.data import MultiEmbeddingTensor as MET
from torch_frame.data import MultiNestedTensor as MNT

from harness import ragged

MISSING = -1
TINY = 10 ** 6          # code >= TINY: the float32 successor of the coded value (sub-tolerance perturbation)
NAN_BITS = struct.unpack('<Q', struct.pack('<d', float('nan')))[0]

STYPES = {
    'numerical': ('dense', 'float', None),
    'categorical': ('dense', 'int', None),
    'timestamp': ('dense', 'int', 7),
    'multicategorical': ('mnt', 'int', None),
    'sequence_numerical': ('mnt', 'float', None),
    'embedding': ('met', 'float', None),
    'text_embedded': ('met', 'float', None),
    'image_embedded': ('met', 'float', None),
    'text_tokenized': ('dict', 'int', None),
}


# ------------------------------------------------------------------ value coding
def enc(v, payload):
    if payload == 'int':
        return int(v)
    if v == MISSING:
        return float('nan')
    if v >= TINY:
        return float(np.nextafter(np.float32((v - TINY) * 0.5), np.float32(np.inf)))
    return v * 0.5


def bits(x):
    x = float(x)
    if x != x:
        return NAN_BITS
    return struct.unpack('<Q', struct.pack('<d', x))[0]


def cbits(v, payload):
    return bits(enc(v, payload))


def dtype_of(payload):
    return torch.long if payload == 'int' else torch.float32


# ------------------------------------------------------------------ generation
def _code(rng, payload):
    return rng.randint(-1, 9)


def gen_feat(rng, s, R, tag):
    kind, payload, D = STYPES[s]
    C = rng.choice([1, 1, 2, 2, 3])
    ft = {'s': s, 'kind': kind, 'payload': payload, 'C': C,
          'names': [f'{tag}{s}_{j}' for j in range(C)]}
    if kind == 'dense':
        if D is not None:
            D = rng.choice([7, 7, 2, 1])
        ft['D'] = D
        w = 1 if D is None else D
        ft['cells'] = [[[_code(rng, payload) for _ in range(w)] for _ in range(C)] for _ in range(R)]
    elif kind == 'mnt':
        ft['cells'] = ragged.gen_cells(rng, 'mnt', R, C)['cells']
    elif kind == 'met':
        g = ragged.gen_cells(rng, 'met', R, C)
        ft['widths'], ft['cells'] = g['widths'], g['cells']
    else:
        ids = ragged.gen_cells(rng, 'mnt', R, C)['cells']
        if rng.random() < .7:
            mask = [[[1 for _ in cell] for cell in row] for row in ids]
        else:
            mask = ragged.gen_cells(rng, 'mnt', R, C)['cells']
        ft['keys'] = ['input_ids', 'attention_mask']
        ft['cells'] = {'input_ids': ids, 'attention_mask': mask}
    return ft


def gen_frame(rng, R=None, rowid=False, allow_empty=True, tag='', min_feats=0):
    """a random well-formed frame spec"""
    R = rng.choice([0, 1, 2, 3, 3, 4, 4, 5, 5, 6, 6, 7]) if R is None else R
    u = rng.random()
    if allow_empty and not rowid and min_feats == 0 and u < .07:
        # feature-less frame: rows only known through the explicit num_rows (or 0)
        nr = R if rng.random() < .8 else None
        n = R if nr is not None else 0
        y = None
        if rng.random() < .3:
            y = {'payload': rng.choice(['float', 'int']), 'vals': [rng.randint(0, 9) for _ in range(n)]}
        return {'R': n, 'feats': [], 'names_order': [], 'y': y, 'num_rows': nr}
    k = rng.choice([1, 1, 2, 2, 3, 3, 4, 5])
    k = max(k, min_feats)
    ss = rng.sample(sorted(STYPES), k)
    if rowid and 'numerical' not in ss:
        ss[0] = 'numerical'
    feats = [gen_feat(rng, s, R, tag) for s in ss]
    if rowid:
        for ft in feats:
            if ft['s'] == 'numerical':
                ft['names'][0] = tag + 'row_id'
                for r in range(R):
                    ft['cells'][r][0] = [2 * r]
    order = [ft['s'] for ft in feats]
    if rng.random() < .4:
        rng.shuffle(order)
    y = None
    if rng.random() < .6:
        p = rng.choice(['float', 'int'])
        y = {'payload': p, 'vals': [rng.randint(0, 9) for _ in range(R)]}
    return {'R': R, 'feats': feats, 'names_order': order, 'y': y,
            'num_rows': R if rng.random() < .25 else None}


# ------------------------------------------------------------------ spec -> real objects
def _mnt_from(cells, R, C, payload):
    values, offset = [], [0]
    for row in cells:
        for cell in row:
            values += [enc(v, payload) for v in cell]
            offset.append(len(values))
    return MNT(R, C, torch.tensor(values, dtype=dtype_of(payload)), torch.tensor(offset, dtype=torch.long))


def _met_from(cells, widths, R, C, payload):
    offset = [0]
    for w in widths:
        offset.append(offset[-1] + w)
    vals = torch.tensor([[enc(v, payload) for cell in row for v in cell] for row in cells],
                        dtype=dtype_of(payload)).reshape(R, offset[-1])
    return MET(R, C, vals, torch.tensor(offset, dtype=torch.long))


def rows_of(ft):
    """number of rows stored in a feature spec (may disagree with the frame's R in 'make' cases)"""
    cells = ft['cells']
    if ft['kind'] == 'dict':
        cells = cells[ft['keys'][0]]
    return len(cells)


def feat_real(ft):
    kind, payload, C = ft['kind'], ft['payload'], ft['C']
    R = rows_of(ft)
    if kind == 'flat':
        return torch.tensor([enc(v, payload) for v in ft['cells']], dtype=dtype_of(payload))
    if kind == 'dense':
        D = ft.get('D')
        if D is None:
            data = [[enc(cell[0], payload) for cell in row] for row in ft['cells']]
            return torch.tensor(data, dtype=dtype_of(payload)).reshape(R, C)
        data = [[[enc(v, payload) for v in cell] for cell in row] for row in ft['cells']]
        return torch.tensor(data, dtype=dtype_of(payload)).reshape(R, C, D)
    if kind == 'mnt':
        return _mnt_from(ft['cells'], R, C, payload)
    if kind == 'met':
        return _met_from(ft['cells'], ft['widths'], R, C, payload)
    return {k: _mnt_from(ft['cells'][k], len(ft['cells'][k]), C, payload) for k in ft['keys']}


def y_real(y):
    if y is None:
        return None
    return torch.tensor([enc(v, y['payload']) for v in y['vals']], dtype=dtype_of(y['payload']))


def build_real(spec):
    """the real TensorFrame of a spec (raises whatever the constructor raises)"""
    feat_dict = {stype(ft['s']): feat_real(ft) for ft in spec['feats']}
    by = {ft['s']: ft for ft in spec['feats']}
    names = {}
    for s in spec['names_order']:
        names[stype(s)] = list(by[s]['names']) if s in by else list(spec.get('extra_names', {}).get(s, []))
    return TensorFrame(feat_dict, names, y_real(spec['y']), num_rows=spec['num_rows'])


# ------------------------------------------------------------------ spec -> model JSON
def _mnt_model(cells, C, payload):
    values, offset = [], [0]
    for row in cells:
        for cell in row:
            values += [cbits(v, payload) for v in cell]
            offset.append(len(values))
    return {'k': 'mnt', 'R': len(cells), 'C': C, 'values': values, 'offset': offset}


def feat_model(ft):
    kind, payload, C = ft['kind'], ft['payload'], ft['C']
    if kind == 'flat':
        return {'k': 'flat', 'v': [cbits(v, payload) for v in ft['cells']]}
    if kind == 'dense':
        return {'k': 'dense', 'C': C, 'D': ft.get('D'),
                'rows': [[[cbits(v, payload) for v in cell] for cell in row] for row in ft['cells']]}
    if kind == 'mnt':
        return _mnt_model(ft['cells'], C, payload)
    if kind == 'met':
        offset = [0]
        for w in ft['widths']:
            offset.append(offset[-1] + w)
        return {'k': 'met', 'R': len(ft['cells']), 'C': C, 'W': offset[-1],
                'values': [[cbits(v, payload) for cell in row for v in cell] for row in ft['cells']],
                'offset': offset}
    return {'k': 'dict', 'd': [[k, _mnt_model(ft['cells'][k], C, payload)] for k in ft['keys']]}


def model_frame(spec):
    by = {ft['s']: ft for ft in spec['feats']}
    names = []
    for s in spec['names_order']:
        names.append([s, list(by[s]['names']) if s in by else list(spec.get('extra_names', {}).get(s, []))])
    y = spec['y']
    return {'feats': [[ft['s'], feat_model(ft)] for ft in spec['feats']],
            'names': names,
            'y': None if y is None else [cbits(v, y['payload']) for v in y['vals']],
            'nr': spec['num_rows']}


# ------------------------------------------------------------------ real objects -> canonical JSON
def _mnt_repr(m):
    if m.values.dim() != 1:
        return {'k': 'mnt', 'R': int(m.num_rows), 'C': int(m.num_cols), 'values': 'bad-ndim',
                'offset': [int(x) for x in m.offset.tolist()]}
    return {'k': 'mnt', 'R': int(m.num_rows), 'C': int(m.num_cols),
            'values': [bits(x) for x in m.values.tolist()], 'offset': [int(x) for x in m.offset.tolist()]}


def feat_repr(feat):
    if isinstance(feat, dict):
        return {'k': 'dict', 'd': [[k, _mnt_repr(v)] for k, v in feat.items()]}
    if isinstance(feat, MNT):
        return _mnt_repr(feat)
    if isinstance(feat, MET):
        if feat.values.dim() != 2:
            return {'k': 'met', 'R': int(feat.num_rows), 'C': int(feat.num_cols), 'W': -1, 'values': 'bad-ndim',
                    'offset': [int(x) for x in feat.offset.tolist()]}
        return {'k': 'met', 'R': int(feat.num_rows), 'C': int(feat.num_cols), 'W': int(feat.values.shape[1]),
                'values': [[bits(x) for x in row] for row in feat.values.tolist()],
                'offset': [int(x) for x in feat.offset.tolist()]}
    if feat.dim() == 1:
        return {'k': 'flat', 'v': [bits(x) for x in feat.tolist()]}
    if feat.dim() == 2:
        return {'k': 'dense', 'C': int(feat.shape[1]), 'D': None,
                'rows': [[[bits(x)] for x in row] for row in feat.tolist()]}
    if feat.dim() == 3:
        return {'k': 'dense', 'C': int(feat.shape[1]), 'D': int(feat.shape[2]),
                'rows': [[[bits(x) for x in cell] for cell in row] for row in feat.tolist()]}
    return {'k': f'tensor-{feat.dim()}d'}


def frame_repr(tf):
    """canonical representation of a real frame; a frame that cannot even be read (a mutated library may return
    tensors of unexpected rank) is reported as such instead of crashing the check"""
    try:
        return _frame_repr(tf)
    except Exception as e:
        return {'unreadable': type(e).__name__}


def _frame_repr(tf):
    if tf.y is not None and tf.y.dim() != 1:
        return {'unreadable': f'target of rank {tf.y.dim()}'}
    return {'feats': [[s.value, feat_repr(f)] for s, f in tf.feat_dict.items()],
            'names': [[s.value, list(ns)] for s, ns in tf.col_names_dict.items()],
            'y': None if tf.y is None else [bits(x) for x in tf.y.tolist()],
            'nr': None if tf._num_rows is None else int(tf._num_rows),
            'len': int(len(tf))}


def repr_well_formed(fr):
    """representation invariants of every container of a frame repr"""
    if 'unreadable' in fr:
        return False
    for _, f in fr['feats']:
        subs = [m for _, m in f['d']] if f['k'] == 'dict' else [f]
        for m in subs:
            if m['k'] in ('mnt', 'met'):
                if not ragged.well_formed(m, m['k']):
                    return False
    return True


# ------------------------------------------------------------------ nested-list reference
def ref_of_spec(spec):
    """{'n', 'names': {s: [...]}, 'names_order', 'feat_order', 'cells': {fid: rows}, 'y'} with every entry a bit
    pattern; fid = stype or 'stype/key' for a dict-valued feature."""
    cells = {}
    for ft in spec['feats']:
        p = ft['payload']
        if ft['kind'] == 'dict':
            for k in ft['keys']:
                cells[f"{ft['s']}/{k}"] = [[[cbits(v, p) for v in cell] for cell in row] for row in ft['cells'][k]]
        else:
            cells[ft['s']] = [[[cbits(v, p) for v in cell] for cell in row] for row in ft['cells']]
    y = spec['y']
    return {'n': spec['R'], 'names': {ft['s']: list(ft['names']) for ft in spec['feats']},
            'names_order': list(spec['names_order']), 'feat_order': [ft['s'] for ft in spec['feats']],
            'cells': cells, 'y': None if y is None else [cbits(v, y['payload']) for v in y['vals']]}


def ref_select(ref, ix):
    """Python's own list indexing applied to every column group and the target; raises like Python."""
    pos = ragged.py_select(list(range(ref['n'])), ix)
    out = dict(ref)
    out['cells'] = {fid: [rows[p] for p in pos] for fid, rows in ref['cells'].items()}
    out['y'] = None if ref['y'] is None else [ref['y'][p] for p in pos]
    out['n'] = len(pos)
    return out


def _cells_api(t):
    """cells of one tensor-like through its public reading API"""
    if isinstance(t, (MNT, MET)):
        return [[[bits(x) for x in t[i, j].tolist()] for j in range(t.num_cols)] for i in range(t.num_rows)]
    if t.dim() == 2:
        return [[[bits(x)] for x in row] for row in t.tolist()]
    return [[[bits(x) for x in cell] for cell in row] for row in t.tolist()]


def cells_of_real(tf):
    out = {}
    for s, f in tf.feat_dict.items():
        if isinstance(f, dict):
            for k, m in f.items():
                out[f'{s.value}/{k}'] = _cells_api(m)
        else:
            out[s.value] = _cells_api(f)
    return out


def cells_of_featdata(s, f):
    if isinstance(f, dict):
        return {f'{s}/{k}': _cells_api(m) for k, m in f.items()}
    return {s: _cells_api(f)}


def compare_to_ref(tf, ref):
    """first difference between a real frame and the reference, or None"""
    try:
        return _compare_to_ref(tf, ref)
    except Exception as e:
        return f'the result cannot be read ({type(e).__name__})'


def _compare_to_ref(tf, ref):
    if tf.y is not None and tf.y.dim() != 1:
        return f'the target of the result has rank {tf.y.dim()}'
    if len(tf) != ref['n'] or tf.num_rows != ref['n']:
        return f'reported length {len(tf)} but {ref["n"]} rows were selected'
    if [s.value for s in tf.feat_dict] != ref['feat_order']:
        return 'feature groups changed'
    if {s.value: list(v) for s, v in tf.col_names_dict.items()} != ref['names'] or \
            [s.value for s in tf.col_names_dict] != ref['names_order']:
        return 'column names changed'
    try:
        got = cells_of_real(tf)
    except Exception as e:
        return f'reading the result raises {type(e).__name__}'
    if got.keys() != ref['cells'].keys():
        return 'feature keys changed'
    for fid in got:
        if got[fid] != ref['cells'][fid]:
            return f'rows of {fid} differ from the nested-list selection'
    y = None if tf.y is None else [bits(x) for x in tf.y.tolist()]
    if y != ref['y']:
        return 'target rows differ from the list selection'
    return None


def ref_column(ref, name):
    """(stype, {fid: rows of that single column}) for a column name (names globally distinct)"""
    for s, ns in ref['names'].items():
        if name in ns:
            j = ns.index(name)
            out = {}
            for fid, rows in ref['cells'].items():
                if fid == s or fid.startswith(s + '/'):
                    out[fid] = [[row[j]] for row in rows]
            return s, out
    return None, None


def all_names(spec):
    return [n for ft in spec['feats'] for n in ft['names']]


class Findings:
    """findings of the direct oracle are produced while the real code runs; they are remembered per case so that
    `oracle(case, outcome)` is a function of the case (the engine calls it again when it builds the verdict)"""

    def remember(self, case, findings):
        self.__dict__.setdefault('_fcache', {})[_h(case)] = list(findings)

    def recall(self, case):
        h = _h(case)
        if h not in self.__dict__.setdefault('_fcache', {}):
            self.real(case)
        return self._fcache[h]


def run_box(check, cases, report, label, extra=None):
    """run an enumerated family of cases through the real code, the direct oracle and the model (used by the
    `extra_checks` of C08 / C10: exhaustive boxes rather than samples)"""
    from harness import core
    reals, reqs, spans = [], [], []
    for case in cases:
        r = check.real(case)
        reals.append(r)
        v = check.oracle(case, r)
        if v is not None:
            report['violations'].append(v)
        rq = check.model_requests(case)
        spans.append((len(reqs), len(reqs) + len(rq)))
        reqs += rq
    bad = 0
    try:
        replies = core.Driver(check.driver).ask(reqs)
        for case, r, (a, b) in zip(cases, reals, spans):
            m = check.model_outcome(case, replies[a:b])
            if not check.equal(r, m):
                bad += 1
                if bad <= 3:
                    report['broken'].append(f'correspondence ({label}): model and code differ on an enumerated case')
                    report.setdefault('disagree_samples', []).append({'case': case, 'real': r, 'model': m})
    except Exception as e:
        report['broken'].append(f'{label}: driver unavailable ({e})')
    info = {'cases': len(cases), 'exhaustive': True, 'disagreements': bad}
    info.update(extra or {})
    report['extra'][label] = info


def fixed_frame(rng, n, stypes, rowid=False, y=True):
    """one frame with exactly the given stypes, 2 columns each"""
    feats = []
    for s in stypes:
        ft = gen_feat(rng, s, n, '')
        while ft['C'] != 2:
            ft = gen_feat(rng, s, n, '')
        feats.append(ft)
    spec = {'R': n, 'feats': feats, 'names_order': [ft['s'] for ft in feats],
            'y': {'payload': 'float', 'vals': [r % 10 for r in range(n)]} if y else None, 'num_rows': None}
    if rowid:
        for ft in feats:
            if ft['s'] == 'numerical':
                ft['names'][0] = 'row_id'
                for r in range(n):
                    ft['cells'][r][0] = [2 * r]
    return spec


def _h(case):
    import hashlib
    import json
    return hashlib.sha1(json.dumps(case, sort_keys=True, default=str).encode()).hexdigest()


# ------------------------------------------------------------------ programs on frames
def real_select(tf, ix):
    return tf[ragged.to_py_index(ix)]


def intlist(ix):
    """`isinstance(index, int): index = [index]`"""
    return {'t': 'list', 'is': [ix['i']]} if ix['t'] == 'int' else ix


def run_part(tf, ops):
    """apply a list of row selections to a real frame"""
    for op in ops:
        tf = real_select(tf, op['ix'])
    return tf


def ref_part(ref, ops):
    for op in ops:
        ref = ref_select(ref, op['ix'])
    return ref


def model_ops(ops):
    out = []
    for op in ops:
        if op['op'] == 'sel':
            out.append({'op': 'sel', 'ix': ragged.model_index(op['ix'])})
        else:
            out.append({'op': 'col', 'name': op['name']})
    return out


def gen_index(rng, n, allow_bad=True):
    """half of the time an index drawn from the full grammar of C05 (boundaries, overshoots, empties, illegal ones),
    half of the time one that keeps at least one row (so that chains stay non-trivial)"""
    if n == 0 or rng.random() < .5:
        return ragged.gen_index(rng, n, allow_bad)
    k = rng.choice(['int', 'slice', 'slice', 'list', 'range', 'tensor', 'mask'])
    if k == 'int':
        return {'t': 'int', 'i': rng.randint(-n, n - 1)}
    if k == 'slice':
        a = rng.randint(0, n - 1)
        b = rng.choice([None, n, n + 4, rng.randint(a + 1, n)])
        a = rng.choice([a, a, a - n, None]) if a == 0 else rng.choice([a, a, a - n])
        return {'t': 'slice', 'a': a, 'b': b, 's': rng.choice([None, None, 1, 2, 3])}
    if k in ('list', 'tensor'):
        return {'t': 'list', 'is': [rng.randint(-n, n - 1) for _ in range(rng.randint(1, n + 2))], 'as': k}
    if k == 'range':
        a = rng.randint(0, n - 1)
        b, st = rng.randint(a + 1, n), rng.choice([1, 1, 2])
        if rng.random() < .3:
            a, b, st = b - 1, a - 1, -1
        return {'t': 'list', 'is': list(range(a, b, st)), 'as': 'range', 'range': [a, b, st]}
    bs = [rng.random() < .6 for _ in range(n)]
    bs[rng.randrange(n)] = True
    return {'t': 'mask', 'bs': bs}


def gen_sel_ops(rng, n, kmax=3, allow_bad=False):
    ops = []
    for _ in range(rng.randint(1, kmax)):
        ix = gen_index(rng, n, allow_bad)
        while not allow_bad and ragged.py_len(ix, n) is None:
            ix = gen_index(rng, n, allow_bad)
        ops.append({'op': 'sel', 'ix': ix})
        k = ragged.py_len(ix, n)
        if k is None:
            break
        n = k
    return ops


def slices_for_cuts(cuts, n, rng=None):
    """row partition by cut points: consecutive slices (some written with None / overshooting bounds)"""
    pts = [0] + list(cuts) + [n]
    out = []
    for k, (a, b) in enumerate(zip(pts, pts[1:])):
        aa, bb = a, b
        if rng is not None:
            if a == 0 and rng.random() < .3:
                aa = None
            if k == len(pts) - 2 and rng.random() < .5:
                bb = rng.choice([None, n + 3])
        out.append({'t': 'slice', 'a': aa, 'b': bb, 's': None})
    return out


# ------------------------------------------------------------------ column splitting of a spec
def col_sub(ft, a, b):
    """columns a..b-1 of a feature spec"""
    out = {k: v for k, v in ft.items() if k not in ('cells', 'names', 'widths', 'C')}
    out['C'] = b - a
    out['names'] = list(ft['names'][a:b])
    if 'keys' in out:
        out['keys'] = list(out['keys'])
    if ft['kind'] == 'dict':
        out['cells'] = {k: [[list(c) for c in row[a:b]] for row in ft['cells'][k]] for k in ft['keys']}
    else:
        out['cells'] = [[list(c) for c in row[a:b]] for row in ft['cells']]
    if ft['kind'] == 'met':
        out['widths'] = ft['widths'][a:b]
    return out


# ------------------------------------------------------------------ datasets (C08 lookup on materialized frames, C10)
def stub_embedder(texts):
    """deterministic stand-in for a text embedding model: 3 numbers per string"""
    return torch.tensor([[float(len(t)), float(sum(map(ord, t)) % 7), 1.0] for t in texts],
                        dtype=torch.float32).reshape(len(texts), 3)


def gen_dataset(rng, n=None):
    """a small table spec: a row-id column plus a random subset of column kinds; JSON-able (None = missing)"""
    n = rng.choice([1, 2, 3, 4, 5, 6, 7]) if n is None else n
    cols = [{'name': 'row_id', 'stype': 'numerical', 'vals': [float(i) for i in range(n)]}]
    kinds = rng.sample(['numerical', 'categorical', 'text_embedded', 'text_embedded', 'multicategorical', 'embedding'],
                       rng.randint(1, 5))
    for k, s in enumerate(kinds):
        name = f'c{k}_{s}'
        if s == 'numerical':
            vals = [None if rng.random() < .15 else rng.randint(-6, 12) * 0.5 for _ in range(n)]
        elif s == 'categorical':
            vals = [None if rng.random() < .15 else rng.choice('abcd') for _ in range(n)]
            if all(v is None for v in vals):
                vals[0] = 'a'
        elif s == 'text_embedded':
            vals = [''.join(rng.choice('xyz ') for _ in range(rng.randint(0, 5))) for _ in range(n)]
        elif s == 'multicategorical':
            vals = [None if rng.random() < .1 else [rng.choice('pqr') for _ in range(rng.randint(0, 3))] for _ in range(n)]
            if all(not v for v in vals):
                vals[0] = ['p']
        else:
            vals = [[rng.randint(0, 9) * 0.5, rng.randint(0, 9) * 0.5] for _ in range(n)]
        cols.append({'name': name, 'stype': s, 'vals': vals})
    rng.shuffle(cols)
    target = None
    if rng.random() < .6:
        target = 'target'
        cols.append({'name': 'target', 'stype': rng.choice(['numerical', 'categorical']),
                     'vals': [rng.randint(0, 2) for _ in range(n)]})
    return {'n': n, 'cols': cols, 'target': target}


def build_dataset(dspec):
    """an unmaterialized torch_frame Dataset of a table spec"""
    import pandas as pd
    from torch_frame.config.text_embedder import TextEmbedderConfig
    from torch_frame.data import Dataset
    data = {}
    for c in dspec['cols']:
        if c['stype'] == 'numerical':
            data[c['name']] = pd.Series([np.nan if v is None else float(v) for v in c['vals']], dtype=float)
        elif c['name'] == 'target':
            data[c['name']] = pd.Series(list(c['vals']))
        else:
            data[c['name']] = pd.Series(list(c['vals']), dtype=object).astype(object)
    df = pd.DataFrame(data)
    col_to_stype = {c['name']: stype(c['stype']) for c in dspec['cols']}
    kw = {}
    if any(c['stype'] == 'text_embedded' for c in dspec['cols']):
        kw['col_to_text_embedder_cfg'] = TextEmbedderConfig(stub_embedder, batch_size=None)
    return Dataset(df, col_to_stype, target_col=dspec['target'], **kw)


def dataset_expected_cells(dspec, name):
    """what the column must contain, straight from the table (None where the encoding depends on fitted statistics)"""
    c = next(c for c in dspec['cols'] if c['name'] == name)
    if c['stype'] == 'numerical':
        return [[[bits(float('nan') if v is None else v)]] for v in c['vals']]
    if c['stype'] == 'text_embedded':
        return [[[bits(x) for x in row]] for row in stub_embedder(list(c['vals'])).tolist()]
    if c['stype'] == 'embedding':
        return [[[bits(x) for x in v]] for v in c['vals']]
    return None

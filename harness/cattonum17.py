"""Helpers of the C17 check: generation of (fit frame, transform frames) pairs, construction of the real
TensorFrame / col_stats objects, canonical outcomes, and the textbook value used by the direct oracle."""
from __future__ import annotations

import copy
import math

NAN = None          # a NaN is written as null in a case so that cases stay strict JSON


def unnull(v):
    return float('nan') if v is None else float(v)


# ----------------------------------------------------------------------------- generation

def _half(rng, lo=-8, hi=8):
    return rng.randint(lo * 4, hi * 4) / 4.0


def gen_names(rng, ncat, nnum):
    cat_pool = rng.choice([['c0', 'c1', 'c2'], ['a', 'a_1', 'b'], ['cat', 'x_0_y', 'Z'], ['k1', 'k10', 'k2'],
                           ['label', 'label_prev', 'w'], ['w', 'W', 'Zeta'], ['-1', 'nan', 'None']])
    num_pool = rng.choice([['n0', 'n1'], ['x', 'a_x'], ['num', 'c0_'], ['alpha', 'label_'], ['0', 'target_']])
    if ncat > len(cat_pool):
        cat_pool = cat_pool + [f'q{i}' for i in range(ncat - len(cat_pool))]
        rng.shuffle(cat_pool)
    if nnum > len(num_pool):
        num_pool = num_pool + [f'm{i}' for i in range(nnum - len(num_pool))]
        rng.shuffle(num_pool)
    return cat_pool[:ncat], num_pool[:nnum]


def relabel_by_count(col):
    """rank the observed categories by descending count (ties: smaller raw id first) like value_counts"""
    cnt = {}
    for v in col:
        if v >= 0:
            cnt[v] = cnt.get(v, 0) + 1
    order = sorted(cnt, key=lambda v: (-cnt[v], v))
    rank = {v: i for i, v in enumerate(order)}
    return [rank[v] if v >= 0 else -1 for v in col], [cnt[v] for v in order]


Y_SPECIAL = [-1.0, 0.5, 1.0, 0.0, 2.0 ** 24 + 2, -65536.0, 1.0e6]     # moderate magnitudes: the code sums in float32
# float32-exact edge magnitudes for the numerical columns (they are only moved); infinities as strings: cases stay
# strict JSON
NUM_SPECIAL = [-1.0, 0.5, -0.0, 2.0 ** 24, 2.0 ** 24 + 2, -2.0 ** 31, 3.0e38, -3.0e38, 1e-38, 'inf', '-inf']


def _num(rng):
    r = rng.random()
    if r < 0.05:
        return NAN
    if r < 0.10:
        return rng.choice(NUM_SPECIAL)
    return _half(rng)


def gen_y(rng, task, n, K):
    if task == 'reg':
        ys = [(rng.choice(Y_SPECIAL) if rng.random() < 0.06 else _half(rng)) for _ in range(n)]
        r = rng.random()
        if r < 0.12 and n:
            for i in range(n):
                if rng.random() < 0.3:
                    ys[i] = NAN
        elif r < 0.15:
            ys = [NAN] * n           # "Target value contains only nans."
        y = {'f': ys}
        if rng.random() < 0.2:
            y['dt'] = 'float64'
        return y
    if task == 'bin':
        y = {'i': [rng.randint(0, 1) for _ in range(n)]}
        if rng.random() < 0.25:
            y['dt'] = rng.choice(['int32', 'uint8', 'bool'])
        return y
    ys = [rng.randrange(K) for _ in range(n)]
    if n:
        ys[rng.randrange(n)] = K - 1      # num_classes = y.max() + 1; other classes may be absent
    if rng.random() < 0.03 and n > 1:
        ys[0 if ys[0] != K - 1 else 1] = -1   # a missing label: one_hot raises (unless it was the only K-1)
    return {'i': ys}


def gen_rows(rng, n, ncat, nnum, cards, p_missing=0.2):
    num = [[_num(rng) for _ in range(nnum)] for _ in range(n)]
    cat = [[(-1 if rng.random() < p_missing else rng.randrange(cards[j])) for j in range(ncat)] for _ in range(n)]
    return num, cat


def y_variant(rng, kind, base_y, idx, n, K):
    """labels of a frame to transform"""
    if kind == 'none' or base_y is None:
        return None
    if kind == 'keep':
        key = 'f' if 'f' in base_y else 'i'
        src = base_y[key]
        if idx is None:
            y = {key: [(_half(rng) if key == 'f' else rng.randrange(K)) for _ in range(n)]}
        else:
            y = {key: [src[i] for i in idx]}
        if 'dt' in base_y and (base_y['dt'] != 'bool' or all(v in (0, 1) for v in y[key])):
            y['dt'] = base_y['dt']
        return y
    if kind == 'zeros':
        return {'i': [0] * n}
    if kind == 'ones':
        return {'i': [1] * n}
    if kind == 'low':
        return {'i': [rng.randint(0, 1) for _ in range(n)]}
    if kind == 'big':
        return {'i': [rng.randint(0, K + 2) for _ in range(n)]}
    if kind == 'float':
        return {'f': [_half(rng) for _ in range(n)]}
    if kind == 'floatnan':
        return {'f': [NAN] * n}
    if kind == 'odd-dtype':       # label dtypes a fit would not accept are still irrelevant for a transform
        dt = rng.choice(['int32', 'uint8', 'bool', 'float64', 'float16', 'int16'])
        if dt in ('float64', 'float16'):
            return {'f': [_half(rng) for _ in range(n)], 'dt': dt}
        hi = 1 if dt == 'bool' else min(K + 2, 255) if dt == 'uint8' else K + 2
        return {'i': [rng.randint(0, hi) for _ in range(n)], 'dt': dt}
    raise ValueError(kind)


Y_KINDS = ['keep', 'keep', 'none', 'none', 'zeros', 'ones', 'low', 'big', 'float', 'floatnan', 'odd-dtype']


def _fit_in_domain(case, fit=None):
    """the training frame is one the property quantifies over (same test as the oracle's)"""
    fit = fit or case['fit']
    y, n = fit['y'], len(fit['num'])
    dom = (y is not None and n > 0 and all(k in case['stat_keys'] for k in case['num_names'])
           and all(any(row[j] >= 0 for row in fit['cat']) for j in range(len(case['cat_names']))))
    if dom and 'f' in y and all(v is None for v in y['f']):
        dom = False
    if dom and 'i' in y and min(y['i']) < 0:
        dom = False
    return dom


def gen_case(rng, level=0, sc=None):
    """sc: sizes taken from the stress ladder (harness/stress.py) for a scale case, else None"""
    sc = sc or {}
    task = rng.choice(['reg', 'bin', 'multi'])
    if 'K' in sc:
        task = 'multi'
    K = sc.get('K') or (rng.randint(3, 5) if task == 'multi' else 2)
    r = rng.random()
    ncat = 0 if r < 0.07 else rng.randint(1, 3)
    ncat = sc.get('ncat', ncat if not sc else max(ncat, 1))
    nnum = rng.randint(1, 2) if ncat == 0 else rng.randint(0, 2)
    nnum = sc.get('nnum', nnum)
    cat_names, num_names = gen_names(rng, ncat, nnum)
    n = 0 if rng.random() < 0.02 else rng.randint(1, 10)
    n = sc.get('fitrows', max(n, 1) if sc else n)
    cards = [rng.randint(1, 4) for _ in range(ncat)]
    if 'card' in sc and ncat:
        cards[rng.randrange(ncat)] = sc['card']
    num, raw = gen_rows(rng, n, ncat, nnum, cards)
    # make every categorical column have a non-missing entry (except a rare raising case)
    allow_allmissing = rng.random() < 0.03 and not sc
    cat_cols, counts = [], {}
    foreign = rng.random() < 0.35
    for j in range(ncat):
        col = [row[j] for row in raw]
        if n and all(v < 0 for v in col) and not allow_allmissing:
            col[rng.randrange(n)] = rng.randrange(cards[j])
        col, cnt = relabel_by_count(col)
        if not cnt:
            cnt = [1]
        if 'card' in sc and cards[j] == sc['card']:      # the vocabulary of the whole dataset is that large
            cnt = cnt + [1] * max(0, sc['card'] - len(cnt))
        if foreign:       # statistics of the whole dataset while the transform is fitted on the train split
            cnt = [c + rng.randint(0, 5) for c in cnt] + [1] * rng.randint(0, 2)
            if rng.random() < 0.15:
                cnt[0] += rng.choice([2 ** 24 + 1, 10 ** 9, 65536])      # counts beyond float32's integer range
            if rng.random() < 0.1:
                cnt.append(0)                                         # a vocabulary entry that never occurs
            cnt.sort(reverse=True)
        cat_cols.append(col)
        counts[cat_names[j]] = cnt
    cat = [[cat_cols[j][i] for j in range(ncat)] for i in range(n)]
    y = gen_y(rng, task, n, K)
    if rng.random() < 0.03 and not sc:
        y = None
    stat_keys = num_names + cat_names + ['target']
    rng.shuffle(stat_keys)
    if num_names and rng.random() < 0.02 and not sc:
        stat_keys.remove(num_names[0])       # col_stats lacks a numerical column: KeyError in _fit
    scenario = 'normal'
    r = rng.random()
    if r < 0.05 and not sc:
        scenario = 'unfitted'
    elif r < 0.20:
        scenario = 'roundtrip'
    elif r < 0.27:
        scenario = 'roundtrip_shared'     # load_state_dict(t.state_dict()) in memory: both objects are used afterwards
    elif r < 0.37:
        scenario = 'refit'                # the object was fitted on another frame before
    elif r < 0.42:
        scenario = 'late_fit'             # a transform attempt before fit, then fit
    fit = {'num': num, 'cat': cat, 'y': y}
    case = {'task': task, 'K': K, 'num_names': num_names, 'cat_names': cat_names, 'fit': fit, 'counts': counts,
            'stat_keys': stat_keys, 'scenario': scenario, 'transforms': []}
    if ncat and rng.random() < 0.2:
        case['cat_dt'] = 'int32'
    if scenario == 'refit':
        if not ncat or not _fit_in_domain(case):
            case['scenario'] = scenario = 'normal'
        else:
            # the earlier fit: same schema, other rows / other task type / other class count
            task0 = rng.choice(['reg', 'bin', 'multi'])
            n0 = rng.randint(1, 10)
            K0 = rng.randint(3, 6)
            num0, cat0 = gen_rows(rng, n0, ncat, nnum, [len(counts[c]) for c in cat_names], p_missing=0.1)
            for j in range(ncat):
                if all(row[j] < 0 for row in cat0):
                    cat0[0][j] = 0
            y0 = gen_y(rng, task0, n0, K0)
            if 'f' in y0:
                y0['f'] = [0.25 if v is None else v for v in y0['f']]
            else:
                y0['i'] = [max(v, 0) for v in y0['i']]
            case['prefit'] = {'num': num0, 'cat': cat0, 'y': y0}
    lens = [len(counts[c]) for c in cat_names]
    ntrans = sc.get('calls') or rng.randint(3, 6)
    big_rows = sc.get('rows')
    for t_i in range(ntrans):
        kind = rng.choices(['full', 'subset', 'single', 'fresh', 'unseen', 'allmissing', 'nocat', 'empty', 'twin', 'again'],
                           weights=[4, 8, 8, 6, 2, 1, 2, 1, 4, 2])[0]
        if big_rows and t_i < 2:
            kind = rng.choice(['subset', 'fresh', 'twin'])
        if kind in ('twin', 'again') and not case['transforms']:
            kind = 'fresh'
        if kind in ('subset', 'single', 'allmissing') and n == 0:
            kind = 'fresh'
        if kind == 'nocat' and not num_names:
            kind = 'fresh'
        if kind in ('unseen', 'allmissing') and ncat == 0:
            kind = 'fresh'
        idx = None
        if kind == 'again':          # the very same rows and labels as an earlier frame of this history
            prev = rng.choice(case['transforms'])
            fr = copy.deepcopy(prev)
            fr['again_of'] = fr.get('again_of', prev['tag'])
            fr['tag'] = 'again'
            case['transforms'].append(fr)
            continue
        if kind == 'full':
            idx = list(range(n))
        elif kind == 'subset':
            size = big_rows if (big_rows and t_i < 2) else rng.randint(1, n + 2)
            idx = [rng.randrange(n) for _ in range(size)]
        elif kind in ('single', 'allmissing'):
            full_rows = [i for i in range(n) if all(v >= 0 for v in cat[i])]
            if kind == 'single':
                idx = [rng.choice(full_rows)] if full_rows and rng.random() < 0.8 else [rng.randrange(n)]
            else:
                idx = [rng.randrange(n) for _ in range(rng.randint(1, 3))]
        elif kind == 'empty':
            idx = []
        if idx is not None:
            tnum, tcat = [list(num[i]) for i in idx], [list(cat[i]) for i in idx]
        else:
            m = rng.randint(1, 5)
            if big_rows and t_i < 2:
                m = big_rows
            if kind == 'twin':       # as many rows as the previous frame, other content (a next mini-batch)
                prev = case['transforms'][-1]
                m = len(prev['num'])
                if m == 0 or prev.get('drop_cat'):
                    kind, m = 'fresh', rng.randint(1, 5)
            tnum, tcat = gen_rows(rng, m, ncat, nnum, lens or [1], p_missing=0.15)
            for j in range(ncat):       # keep the fresh frame inside the property's domain
                if all(row[j] < 0 for row in tcat):
                    tcat[rng.randrange(m)][j] = rng.randrange(lens[j])
            if kind == 'unseen':
                i, j = rng.randrange(m), rng.randrange(ncat)
                tcat[i][j] = lens[j] + rng.choice([0, 0, 1, 3])
        if kind == 'allmissing':
            j = rng.randrange(ncat)
            for row in tcat:
                row[j] = -1
        m = len(tnum)
        ykind = rng.choice(Y_KINDS)
        fr = {'tag': kind, 'num': tnum, 'cat': tcat, 'drop_cat': kind == 'nocat',
              'y': y_variant(rng, ykind, y, idx, m, K)}
        if kind == 'nocat':
            fr['cat'] = [[] for _ in range(m)]
        if kind == 'full' and ykind == 'keep' and y is not None and scenario != 'unfitted' and rng.random() < 0.5:
            fr['alias'] = 'fit-frame'      # the training frame object itself is transformed
        elif kind == 'subset' and ykind == 'keep' and y is not None and scenario != 'unfitted' and rng.random() < 0.4:
            fr['alias'] = 'indexed'        # tf_train[idx]: the frame is produced by indexing the training frame
            fr['idx'] = idx
        case['transforms'].append(fr)
    return case


def gen_scale_case(rng, level):
    from harness import stress
    dim = rng.choice(['fitrows', 'rows', 'rows', 'ncat', 'nnum', 'card', 'K', 'calls'])
    cap = {'fitrows': 65537, 'rows': 65537, 'ncat': 1025, 'nnum': 1025, 'card': 65537, 'K': 1025, 'calls': 1025}[dim]
    size = stress.pick_size(rng, level, cap)
    sc = {dim: size}
    if dim == 'rows' and rng.random() < 0.5:
        sc['fitrows'] = stress.pick_size(rng, min(level, 1), 4097)
    if dim == 'card':
        sc['fitrows'] = max(rng.randint(1, 10), min(size * 2, 5000))     # so that many categories really occur
    if dim in ('K', 'ncat'):
        sc['fitrows'] = rng.randint(1, 10) if rng.random() < 0.5 else stress.pick_size(rng, 0)
        if dim == 'K' and rng.random() < 0.7:
            sc['ncat'] = rng.randint(1, 2)
    case = gen_case(rng, level, sc)
    case['scale'] = dim
    rows = max([len(case['fit']['num'])] + [len(fr['num']) for fr in case['transforms']])
    width = len(case['num_names']) + len(case['cat_names']) * max(1, (case['K'] - 1 if case['task'] == 'multi' else 1))
    card = max([len(v) for v in case['counts'].values()], default=0)
    if rows * max(width, 1) > 200000 or rows > 6000 or rows * card > 5e7:
        # (the list model indexes rows and categories by position)
        case['oracle_only'] = True       # too long for the line protocol: judged by the direct oracle alone
    case['volume'] = sum(len(fr['num']) for fr in [case['fit']] + case['transforms']) * max(width, 1)
    return case


# ----------------------------------------------------------------------------- real objects

def _y_tensor(y):
    import torch
    if y is None:
        return None
    if 'f' in y:
        return torch.tensor([unnull(v) for v in y['f']], dtype=getattr(torch, y.get('dt', 'float32')))
    return torch.tensor(y['i'], dtype=getattr(torch, y.get('dt', 'int64')))


def make_tf(fr, num_names, cat_names, cat_dt='int64'):
    import torch
    from torch_frame import TensorFrame, stype
    n = len(fr['num'])
    feat, names = {}, {}
    if num_names:
        feat[stype.numerical] = torch.tensor([[unnull(v) for v in row] for row in fr['num']], dtype=torch.float32).reshape(n, len(num_names))
        names[stype.numerical] = list(num_names)
    if cat_names:
        feat[stype.categorical] = torch.tensor(fr['cat'], dtype=getattr(torch, cat_dt)).reshape(n, len(cat_names))
        names[stype.categorical] = list(cat_names)
    from harness import stress
    if stress.wants_fortran([fr.get('num'), fr.get('cat')]):
        # column-major dense features (the layout of torch.from_numpy(df[cols].to_numpy())): same values
        feat = {k: stress.fortran(v) for k, v in feat.items()}
    return TensorFrame(feat, names, _y_tensor(fr.get('y')))


def make_col_stats(case):
    from torch_frame.data.stats import StatType
    stats = {}
    for k in case['stat_keys']:
        if k in case['counts']:
            cnt = case['counts'][k]
            stats[k] = {StatType.COUNT: ([f'v{i}' for i in range(len(cnt))], list(cnt))}
        else:
            stats[k] = {StatType.MEAN: 0.0, StatType.STD: 1.0, StatType.QUANTILES: [0.0, 0.0, 0.0, 0.0, 0.0]}
    return stats


def frame_names(case, fr):
    return case['num_names'], ([] if fr.get('drop_cat') else case['cat_names'])


def fl(v):
    v = float(v)
    if math.isinf(v):
        return 'inf' if v > 0 else '-inf'
    return None if math.isnan(v) else v


def snapshot(tf):
    from torch_frame import stype
    return {'names': {k.value: list(v) for k, v in tf.col_names_dict.items()},
            'feat': {k.value: [[fl(x) for x in row] for row in v.tolist()] for k, v in tf.feat_dict.items()},
            'dtypes': {k.value: str(v.dtype) for k, v in tf.feat_dict.items()},
            'y': None if tf.y is None else [fl(x) for x in tf.y.tolist()],
            # what the frame answers when a column is looked up by name (a purity clause: "the input frame is never
            # modified" includes its lookup table)
            'lookup': _lookups(tf)}


def _lookups(tf):
    out = {}
    for names in tf.col_names_dict.values():
        for nm in names:
            try:
                out[nm] = [[fl(x) for x in row] for row in tf.get_col_feat(nm).tolist()]
            except Exception as e:   # noqa
                out[nm] = f'raises {type(e).__name__}'
    return out


def out_repr(out):
    from torch_frame import stype
    n = out.num_rows
    num = out.feat_dict[stype.numerical].tolist() if stype.numerical in out.feat_dict else [[] for _ in range(n)]
    cat = out.feat_dict[stype.categorical].tolist() if stype.categorical in out.feat_dict else [[] for _ in range(n)]
    return {'numNames': list(out.col_names_dict.get(stype.numerical, [])),
            'catNames': list(out.col_names_dict.get(stype.categorical, [])),
            'rows': [[fl(x) for x in row] for row in num], 'cat': [[int(x) for x in row] for row in cat]}


def state_repr(t):
    if not t.is_fitted:
        return {'state': 'unfitted'}
    keys = list(t.transformed_stats.keys())
    if not hasattr(t, 'num_classes'):
        return {'state': 'nocat', 'statsKeys': keys}
    return {'state': 'fitted', 'statsKeys': keys, 'newColumns': list(t.new_columns), 'K': int(t.num_classes),
            'N': int(t.data_size), 'mean': [fl(x) for x in t.target_mean.reshape(-1).tolist()]}


def run_real(case, with_purity=True):
    """the history (earlier fit) -> fit -> (state_dict round trip) -> transform*; returns the canonical outcome.
    Every returned frame is read twice: right after its call and again after the LAST call of the history (a result
    must not be changed by later calls on the same object); every input frame is re-read after its call and at the end."""
    import pickle
    import torch
    from torch_frame.transforms import CatToNumTransform
    cat_dt = case.get('cat_dt', 'int64')
    t = CatToNumTransform()
    res = {'fit': None, 'transforms': []}
    tf_train = None
    if case['scenario'] == 'late_fit' and case['transforms']:
        fr0 = case['transforms'][0]
        try:
            t(make_tf(fr0, *frame_names(case, fr0), cat_dt=cat_dt))
            res['pre_call'] = 'returned'
        except Exception:
            res['pre_call'] = 'raises'
    if case.get('prefit') is not None:
        try:
            t.fit(make_tf(case['prefit'], case['num_names'], case['cat_names'], cat_dt=cat_dt), make_col_stats(case))
        except Exception:
            pass
    if case['scenario'] != 'unfitted':
        tf_train = make_tf(case['fit'], case['num_names'], case['cat_names'], cat_dt=cat_dt)
        before = snapshot(tf_train)
        try:
            t.fit(tf_train, make_col_stats(case))
            res['fit'] = state_repr(t)
        except Exception:
            res['fit'] = 'raises'
        res['fit_pure'] = snapshot(tf_train) == before
    objs = [t]
    if case['scenario'] == 'roundtrip':
        sd = pickle.loads(pickle.dumps(copy.deepcopy(t.state_dict())))
        t = CatToNumTransform().load_state_dict(sd)
        objs = [t]
    elif case['scenario'] == 'roundtrip_shared':
        t2 = CatToNumTransform().load_state_dict(t.state_dict())
        objs = [t2, t]           # the calls alternate between the loaded object and the original
        t = t2
    try:
        _ = t.transformed_stats
        stats_ok = True
    except Exception:
        stats_ok = False
    res['state'] = state_repr(t) if stats_ok or not t.is_fitted else {'state': 'broken'}
    held = []
    for k, fr in enumerate(case['transforms']):
        nn, cn = frame_names(case, fr)
        if fr.get('alias') == 'fit-frame' and tf_train is not None:
            tf = tf_train
        elif fr.get('alias') == 'indexed' and tf_train is not None:
            tf = tf_train[torch.tensor(fr['idx'], dtype=torch.long)]
        else:
            tf = make_tf(fr, nn, cn, cat_dt=cat_dt)
        before = snapshot(tf)
        try:
            raw = objs[k % len(objs)](tf)
            out = out_repr(raw)
        except Exception:
            raw, out = None, 'raises'
        if out != 'raises':
            out['pure'] = snapshot(tf) == before
        elif snapshot(tf) != before:
            out = 'raises-and-mutated'
        res['transforms'].append(out)
        held.append((tf, before, raw))
    # second reading, after the whole history
    for out, (tf, before, raw) in zip(res['transforms'], held):
        if isinstance(out, dict):
            late = out_repr(raw)
            out['stable'] = all(late[k] == out[k] for k in late)
            out['rows'] = late['rows']
            if snapshot(tf) != before:
                out['pure'] = False
    return res


# ----------------------------------------------------------------------------- model protocol

def bits_rows(rows):
    from harness import core
    return [[core.float_bits(unnull(v)) for v in row] for row in rows]


def frame_req(case, fr, names):
    from harness import core
    nn, cn = names
    y = fr.get('y')
    if y is not None:
        y = {'f': [core.float_bits(unnull(v)) for v in y['f']]} if 'f' in y else {'i': y['i']}
    return {'numNames': nn, 'catNames': cn, 'num': bits_rows(fr['num']), 'cat': fr['cat'], 'y': y}


def model_request(case, old=False):
    req = {'transforms': [frame_req(case, fr, frame_names(case, fr)) for fr in case['transforms']],
           'roundtrip': case['scenario'] == 'roundtrip', 'old': old}
    if case['scenario'] != 'unfitted':
        f = frame_req(case, case['fit'], (case['num_names'], case['cat_names']))
        f['colStats'] = [[k, case['counts'][k]] for k in case['stat_keys'] if k in case['counts']]
        f['statKeys'] = case['stat_keys']
        req['fit'] = f
    return req


def model_outcome(case, reply):
    from harness import core

    def unbits(rows):
        return [[fl(core.bits_float(b)) for b in row] for row in rows]

    def st(s):
        if isinstance(s, dict) and 'mean' in s:
            s = dict(s, mean=[fl(core.bits_float(b)) for b in s['mean']])
        return s
    res = {'fit': st(reply['fit']), 'state': st(reply['state']), 'transforms': []}
    if case['scenario'] != 'unfitted':
        res['fit_pure'] = True
    for out in reply['transforms']:
        if out == 'raises':
            res['transforms'].append(out)
        else:
            res['transforms'].append({'numNames': out['numNames'], 'catNames': out['catNames'],
                                      'rows': unbits(out['rows']), 'cat': out['cat'], 'pure': True,
                                      'stable': True})
    if case['scenario'] == 'late_fit' and case['transforms']:
        res['pre_call'] = 'raises'       # Model.transform .unfitted = none
    return res


def close(a, b, rel=1e-6, abs_=2e-6):
    """structural equality; floats (the code computes in float32, the model in float64) within tolerance"""
    if isinstance(a, float) and isinstance(b, float) and (math.isinf(a) or math.isinf(b)):
        return a == b
    if isinstance(a, float) and isinstance(b, float):
        return abs(a - b) <= abs_ + rel * max(abs(a), abs(b))
    if isinstance(a, dict) and isinstance(b, dict):
        return a.keys() == b.keys() and all(close(a[k], b[k], rel, abs_) for k in a)
    if isinstance(a, list) and isinstance(b, list):
        return len(a) == len(b) and all(close(x, y, rel, abs_) for x, y in zip(a, b))
    if isinstance(a, (int, float)) and isinstance(b, (int, float)) and not isinstance(a, bool) and not isinstance(b, bool):
        return abs(float(a) - float(b)) <= abs_ + rel * max(abs(a), abs(b))
    return a == b


# ----------------------------------------------------------------------------- textbook values (oracle)

def textbook_prior(case):
    """prior per non-reference class, from the case's labels with plain Python arithmetic"""
    y = case['fit']['y']
    if 'f' in y:
        vals = [v for v in y['f'] if v is not None]
        return [sum(vals) / len(vals)]
    ys = y['i']
    if max(ys) > 1:
        K = max(ys) + 1
        return [sum(1 for v in ys if v == k) / len(ys) for k in range(K - 1)]
    return [sum(ys) / len(ys)]


def textbook_row(case, num_row, cat_row, prior):
    N = len(case['fit']['num'])
    out = list(num_row)
    for name, c in zip(case['cat_names'], cat_row):
        cnt = case['counts'][name]
        c = 0 if c < 0 else c
        out += [(cnt[c] + p) / (N + 1) for p in prior]
    return out


def in_domain(case, fr):
    """frames the property quantifies over: fitted schema, >= 1 row, every categorical column has a non-missing
    entry, every category index seen at fit time"""
    if fr.get('drop_cat') or not case['cat_names']:
        return True
    if not fr['cat']:
        return False
    for j, name in enumerate(case['cat_names']):
        col = [row[j] for row in fr['cat']]
        if all(v < 0 for v in col) or any(v >= len(case['counts'][name]) for v in col):
            return False
    return True


def has_unseen(case, fr):
    if fr.get('drop_cat'):
        return False
    return any(row[j] >= len(case['counts'][name]) for row in fr['cat'] for j, name in enumerate(case['cat_names']))

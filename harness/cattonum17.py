"""Helpers of the C17 check: generation of (fit frame, transform frames) pairs, construction of the real
TensorFrame / col_stats objects, canonical outcomes, and the textbook value used by the direct oracle."""
from __future__ import annotations

import copy
import math

NAN = None          # a NaN is written as null in a case so that cases stay strict JSON


def unnull(v):
    return float('nan') if v is None else float(v)


# ----------------------------------------------------------------------------- generation

def _half(rng, lo=-8, hi=8):
    return rng.randint(lo * 4, hi * 4) / 4.0


def gen_names(rng, ncat, nnum):
    cat_pool = rng.choice([['c0', 'c1', 'c2'], ['a', 'a_1', 'b'], ['cat', 'x_0_y', 'Z'], ['k1', 'k10', 'k2']])
    num_pool = rng.choice([['n0', 'n1'], ['x', 'a_x'], ['num', 'c0_']])
    return cat_pool[:ncat], num_pool[:nnum]


def relabel_by_count(col):
    """rank the observed categories by descending count (ties: smaller raw id first) like value_counts"""
    cnt = {}
    for v in col:
        if v >= 0:
            cnt[v] = cnt.get(v, 0) + 1
    order = sorted(cnt, key=lambda v: (-cnt[v], v))
    rank = {v: i for i, v in enumerate(order)}
    return [rank[v] if v >= 0 else -1 for v in col], [cnt[v] for v in order]


def gen_y(rng, task, n, K):
    if task == 'reg':
        ys = [_half(rng) for _ in range(n)]
        r = rng.random()
        if r < 0.12 and n:
            for i in range(n):
                if rng.random() < 0.3:
                    ys[i] = NAN
        elif r < 0.15:
            ys = [NAN] * n           # "Target value contains only nans."
        return {'f': ys}
    if task == 'bin':
        return {'i': [rng.randint(0, 1) for _ in range(n)]}
    ys = [rng.randrange(K) for _ in range(n)]
    if n:
        ys[rng.randrange(n)] = K - 1      # num_classes = y.max() + 1; other classes may be absent
    if rng.random() < 0.03 and n > 1:
        ys[0 if ys[0] != K - 1 else 1] = -1   # a missing label: one_hot raises (unless it was the only K-1)
    return {'i': ys}


def gen_rows(rng, n, ncat, nnum, cards, p_missing=0.2):
    num = [[(NAN if rng.random() < 0.05 else _half(rng)) for _ in range(nnum)] for _ in range(n)]
    cat = [[(-1 if rng.random() < p_missing else rng.randrange(cards[j])) for j in range(ncat)] for _ in range(n)]
    return num, cat


def y_variant(rng, kind, base_y, idx, n, K):
    """labels of a frame to transform"""
    if kind == 'none' or base_y is None:
        return None
    if kind == 'keep':
        key = 'f' if 'f' in base_y else 'i'
        src = base_y[key]
        if idx is None:
            return {key: [(_half(rng) if key == 'f' else rng.randrange(K)) for _ in range(n)]}
        return {key: [src[i] for i in idx]}
    if kind == 'zeros':
        return {'i': [0] * n}
    if kind == 'ones':
        return {'i': [1] * n}
    if kind == 'low':
        return {'i': [rng.randint(0, 1) for _ in range(n)]}
    if kind == 'big':
        return {'i': [rng.randint(0, K + 2) for _ in range(n)]}
    if kind == 'float':
        return {'f': [_half(rng) for _ in range(n)]}
    if kind == 'floatnan':
        return {'f': [NAN] * n}
    raise ValueError(kind)


Y_KINDS = ['keep', 'keep', 'none', 'none', 'zeros', 'ones', 'low', 'big', 'float', 'floatnan']


def gen_case(rng):
    task = rng.choice(['reg', 'bin', 'multi'])
    K = rng.randint(3, 5) if task == 'multi' else 2
    r = rng.random()
    ncat = 0 if r < 0.07 else rng.randint(1, 3)
    nnum = rng.randint(1, 2) if ncat == 0 else rng.randint(0, 2)
    cat_names, num_names = gen_names(rng, ncat, nnum)
    n = 0 if rng.random() < 0.02 else rng.randint(1, 10)
    cards = [rng.randint(1, 4) for _ in range(ncat)]
    num, raw = gen_rows(rng, n, ncat, nnum, cards)
    # make every categorical column have a non-missing entry (except a rare raising case)
    allow_allmissing = rng.random() < 0.03
    cat_cols, counts = [], {}
    foreign = rng.random() < 0.35
    for j in range(ncat):
        col = [row[j] for row in raw]
        if n and all(v < 0 for v in col) and not allow_allmissing:
            col[rng.randrange(n)] = rng.randrange(cards[j])
        col, cnt = relabel_by_count(col)
        if not cnt:
            cnt = [1]
        if foreign:       # statistics of the whole dataset while the transform is fitted on the train split
            cnt = [c + rng.randint(0, 5) for c in cnt] + [1] * rng.randint(0, 2)
            cnt.sort(reverse=True)
        cat_cols.append(col)
        counts[cat_names[j]] = cnt
    cat = [[cat_cols[j][i] for j in range(ncat)] for i in range(n)]
    y = gen_y(rng, task, n, K)
    if rng.random() < 0.03:
        y = None
    stat_keys = num_names + cat_names + ['target']
    rng.shuffle(stat_keys)
    if num_names and rng.random() < 0.02:
        stat_keys.remove(num_names[0])       # col_stats lacks a numerical column: KeyError in _fit
    scenario = 'normal'
    r = rng.random()
    if r < 0.05:
        scenario = 'unfitted'
    elif r < 0.25:
        scenario = 'roundtrip'
    fit = {'num': num, 'cat': cat, 'y': y}
    case = {'task': task, 'K': K, 'num_names': num_names, 'cat_names': cat_names, 'fit': fit, 'counts': counts,
            'stat_keys': stat_keys, 'scenario': scenario, 'transforms': []}
    lens = [len(counts[c]) for c in cat_names]
    for _ in range(rng.randint(3, 6)):
        kind = rng.choices(['full', 'subset', 'single', 'fresh', 'unseen', 'allmissing', 'nocat', 'empty'],
                           weights=[4, 8, 8, 6, 2, 1, 2, 1])[0]
        if kind in ('subset', 'single', 'allmissing') and n == 0:
            kind = 'fresh'
        if kind == 'nocat' and not num_names:
            kind = 'fresh'
        if kind in ('unseen', 'allmissing') and ncat == 0:
            kind = 'fresh'
        idx = None
        if kind == 'full':
            idx = list(range(n))
        elif kind == 'subset':
            idx = [rng.randrange(n) for _ in range(rng.randint(1, n + 2))]
        elif kind in ('single', 'allmissing'):
            full_rows = [i for i in range(n) if all(v >= 0 for v in cat[i])]
            if kind == 'single':
                idx = [rng.choice(full_rows)] if full_rows and rng.random() < 0.8 else [rng.randrange(n)]
            else:
                idx = [rng.randrange(n) for _ in range(rng.randint(1, 3))]
        elif kind == 'empty':
            idx = []
        if idx is not None:
            tnum, tcat = [list(num[i]) for i in idx], [list(cat[i]) for i in idx]
        else:
            m = rng.randint(1, 5)
            tnum, tcat = gen_rows(rng, m, ncat, nnum, lens or [1], p_missing=0.15)
            for j in range(ncat):       # keep the fresh frame inside the property's domain
                if all(row[j] < 0 for row in tcat):
                    tcat[rng.randrange(m)][j] = rng.randrange(lens[j])
            if kind == 'unseen':
                i, j = rng.randrange(m), rng.randrange(ncat)
                tcat[i][j] = lens[j] + rng.choice([0, 0, 1, 3])
        if kind == 'allmissing':
            j = rng.randrange(ncat)
            for row in tcat:
                row[j] = -1
        m = len(tnum)
        fr = {'tag': kind, 'num': tnum, 'cat': tcat, 'drop_cat': kind == 'nocat',
              'y': y_variant(rng, rng.choice(Y_KINDS), y, idx, m, K)}
        if kind == 'nocat':
            fr['cat'] = [[] for _ in range(m)]
        case['transforms'].append(fr)
    return case


# ----------------------------------------------------------------------------- real objects

def make_tf(fr, num_names, cat_names):
    import torch
    from torch_frame import TensorFrame, stype
    n = len(fr['num'])
    feat, names = {}, {}
    if num_names:
        feat[stype.numerical] = torch.tensor([[unnull(v) for v in row] for row in fr['num']], dtype=torch.float32).reshape(n, len(num_names))
        names[stype.numerical] = list(num_names)
    if cat_names:
        feat[stype.categorical] = torch.tensor(fr['cat'], dtype=torch.long).reshape(n, len(cat_names))
        names[stype.categorical] = list(cat_names)
    y = fr.get('y')
    if y is not None:
        y = torch.tensor([unnull(v) for v in y['f']], dtype=torch.float32) if 'f' in y else torch.tensor(y['i'], dtype=torch.long)
    return TensorFrame(feat, names, y)


def make_col_stats(case):
    from torch_frame.data.stats import StatType
    stats = {}
    for k in case['stat_keys']:
        if k in case['counts']:
            cnt = case['counts'][k]
            stats[k] = {StatType.COUNT: ([f'v{i}' for i in range(len(cnt))], list(cnt))}
        else:
            stats[k] = {StatType.MEAN: 0.0, StatType.STD: 1.0, StatType.QUANTILES: [0.0, 0.0, 0.0, 0.0, 0.0]}
    return stats


def frame_names(case, fr):
    return case['num_names'], ([] if fr.get('drop_cat') else case['cat_names'])


def fl(v):
    v = float(v)
    return None if math.isnan(v) else v


def snapshot(tf):
    from torch_frame import stype
    return {'names': {k.value: list(v) for k, v in tf.col_names_dict.items()},
            'feat': {k.value: [[fl(x) for x in row] for row in v.tolist()] for k, v in tf.feat_dict.items()},
            'dtypes': {k.value: str(v.dtype) for k, v in tf.feat_dict.items()},
            'y': None if tf.y is None else [fl(x) for x in tf.y.tolist()]}


def out_repr(out):
    from torch_frame import stype
    n = out.num_rows
    num = out.feat_dict[stype.numerical].tolist() if stype.numerical in out.feat_dict else [[] for _ in range(n)]
    cat = out.feat_dict[stype.categorical].tolist() if stype.categorical in out.feat_dict else [[] for _ in range(n)]
    return {'numNames': list(out.col_names_dict.get(stype.numerical, [])),
            'catNames': list(out.col_names_dict.get(stype.categorical, [])),
            'rows': [[fl(x) for x in row] for row in num], 'cat': [[int(x) for x in row] for row in cat]}


def state_repr(t):
    if not t.is_fitted:
        return {'state': 'unfitted'}
    keys = list(t.transformed_stats.keys())
    if not hasattr(t, 'num_classes'):
        return {'state': 'nocat', 'statsKeys': keys}
    return {'state': 'fitted', 'statsKeys': keys, 'newColumns': list(t.new_columns), 'K': int(t.num_classes),
            'N': int(t.data_size), 'mean': [fl(x) for x in t.target_mean.reshape(-1).tolist()]}


def run_real(case, with_purity=True):
    """the history fit -> (state_dict round trip) -> transform*; returns the canonical outcome"""
    import pickle
    from torch_frame.transforms import CatToNumTransform
    t = CatToNumTransform()
    res = {'fit': None, 'transforms': []}
    if case['scenario'] != 'unfitted':
        tf_train = make_tf(case['fit'], case['num_names'], case['cat_names'])
        before = snapshot(tf_train)
        try:
            t.fit(tf_train, make_col_stats(case))
            res['fit'] = state_repr(t)
        except Exception:
            res['fit'] = 'raises'
        res['fit_pure'] = snapshot(tf_train) == before
    if case['scenario'] == 'roundtrip':
        sd = pickle.loads(pickle.dumps(copy.deepcopy(t.state_dict())))
        t = CatToNumTransform().load_state_dict(sd)
    try:
        _ = t.transformed_stats
        stats_ok = True
    except Exception:
        stats_ok = False
    res['state'] = state_repr(t) if stats_ok or not t.is_fitted else {'state': 'broken'}
    for fr in case['transforms']:
        nn, cn = frame_names(case, fr)
        tf = make_tf(fr, nn, cn)
        before = snapshot(tf)
        try:
            out = out_repr(t(tf))
        except Exception:
            out = 'raises'
        if out != 'raises':
            out['pure'] = snapshot(tf) == before
        elif snapshot(tf) != before:
            out = 'raises-and-mutated'
        res['transforms'].append(out)
    return res


# ----------------------------------------------------------------------------- model protocol

def bits_rows(rows):
    from harness import core
    return [[core.float_bits(unnull(v)) for v in row] for row in rows]


def frame_req(case, fr, names):
    from harness import core
    nn, cn = names
    y = fr.get('y')
    if y is not None:
        y = {'f': [core.float_bits(unnull(v)) for v in y['f']]} if 'f' in y else {'i': y['i']}
    return {'numNames': nn, 'catNames': cn, 'num': bits_rows(fr['num']), 'cat': fr['cat'], 'y': y}


def model_request(case, old=False):
    req = {'transforms': [frame_req(case, fr, frame_names(case, fr)) for fr in case['transforms']],
           'roundtrip': case['scenario'] == 'roundtrip', 'old': old}
    if case['scenario'] != 'unfitted':
        f = frame_req(case, case['fit'], (case['num_names'], case['cat_names']))
        f['colStats'] = [[k, case['counts'][k]] for k in case['stat_keys'] if k in case['counts']]
        f['statKeys'] = case['stat_keys']
        req['fit'] = f
    return req


def model_outcome(case, reply):
    from harness import core

    def unbits(rows):
        return [[fl(core.bits_float(b)) for b in row] for row in rows]

    def st(s):
        if isinstance(s, dict) and 'mean' in s:
            s = dict(s, mean=[fl(core.bits_float(b)) for b in s['mean']])
        return s
    res = {'fit': st(reply['fit']), 'state': st(reply['state']), 'transforms': []}
    if case['scenario'] != 'unfitted':
        res['fit_pure'] = True
    for out in reply['transforms']:
        if out == 'raises':
            res['transforms'].append(out)
        else:
            res['transforms'].append({'numNames': out['numNames'], 'catNames': out['catNames'],
                                      'rows': unbits(out['rows']), 'cat': out['cat'], 'pure': True})
    return res


def close(a, b, rel=1e-6, abs_=2e-6):
    """structural equality; floats (the code computes in float32, the model in float64) within tolerance"""
    if isinstance(a, float) and isinstance(b, float):
        return abs(a - b) <= abs_ + rel * max(abs(a), abs(b))
    if isinstance(a, dict) and isinstance(b, dict):
        return a.keys() == b.keys() and all(close(a[k], b[k], rel, abs_) for k in a)
    if isinstance(a, list) and isinstance(b, list):
        return len(a) == len(b) and all(close(x, y, rel, abs_) for x, y in zip(a, b))
    if isinstance(a, (int, float)) and isinstance(b, (int, float)) and not isinstance(a, bool) and not isinstance(b, bool):
        return abs(float(a) - float(b)) <= abs_ + rel * max(abs(a), abs(b))
    return a == b


# ----------------------------------------------------------------------------- textbook values (oracle)

def textbook_prior(case):
    """prior per non-reference class, from the case's labels with plain Python arithmetic"""
    y = case['fit']['y']
    if 'f' in y:
        vals = [v for v in y['f'] if v is not None]
        return [sum(vals) / len(vals)]
    ys = y['i']
    if max(ys) > 1:
        K = max(ys) + 1
        return [sum(1 for v in ys if v == k) / len(ys) for k in range(K - 1)]
    return [sum(ys) / len(ys)]


def textbook_row(case, num_row, cat_row, prior):
    N = len(case['fit']['num'])
    out = list(num_row)
    for name, c in zip(case['cat_names'], cat_row):
        cnt = case['counts'][name]
        c = 0 if c < 0 else c
        out += [(cnt[c] + p) / (N + 1) for p in prior]
    return out


def in_domain(case, fr):
    """frames the property quantifies over: fitted schema, >= 1 row, every categorical column has a non-missing
    entry, every category index seen at fit time"""
    if fr.get('drop_cat') or not case['cat_names']:
        return True
    if not fr['cat']:
        return False
    for j, name in enumerate(case['cat_names']):
        col = [row[j] for row in fr['cat']]
        if all(v < 0 for v in col) or any(v >= len(case['counts'][name]) for v in col):
            return False
    return True


def has_unseen(case, fr):
    if fr.get('drop_cat'):
        return False
    return any(row[j] >= len(case['counts'][name]) for row in fr['cat'] for j, name in enumerate(case['cat_names']))

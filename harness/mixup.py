"""Helpers of the C19 check (feature mixup): RNG capture around the real code, canonicalisers and the
direct, RNG-order-independent oracle ("for each row find ONE partner that explains every entry and the
target").  Nothing here knows about the Lean model."""
import contextlib
import itertools
import math

from harness import core

class _Modes(dict):
    """mode names as a user's program has them: strings built at run time (argparse / JSON / YAML values), equal to
    but not the same object as the literals in the library's source"""
    def __getitem__(self, k):
        v = dict.__getitem__(self, k)
        return None if v is None else bytes(v, 'ascii').decode('ascii')


MODES = _Modes({'off': None, 'feature': 'feature', 'hidden': 'hidden'})


def fbits(v):
    """float -> IEEE-754 double bit pattern (what the driver reads)"""
    return core.float_bits(float(v))


def canon_float(v):
    v = float(v)
    return 'nan' if math.isnan(v) else core.float_bits(v)


def nest(t, f):
    """tensor/ndarray -> nested lists with f applied to the scalars"""
    if hasattr(t, 'tolist'):
        t = t.tolist()
    if isinstance(t, list):
        return [nest(u, f) for u in t]
    return f(t)


@contextlib.contextmanager
def capture_draws(rec):
    """Wrap the RNG entry points used by feature_mixup (torch.randperm, torch.rand, Beta.sample) and
    record what they return.  Restores everything on exit."""
    import torch
    from torch.distributions.beta import Beta
    from torch.distributions.distribution import Distribution
    o_rand, o_perm = torch.rand, torch.randperm
    had_own = 'sample' in Beta.__dict__
    o_sample = Beta.__dict__.get('sample')
    depth = {'beta': 0}

    def rand(*a, **k):
        r = o_rand(*a, **k)
        if depth['beta'] == 0:
            rec.setdefault('rand', []).append(r.detach().clone())
        return r

    def randperm(*a, **k):
        r = o_perm(*a, **k)
        rec.setdefault('randperm', []).append(r.detach().clone())
        return r

    def sample(self, *a, **k):
        depth['beta'] += 1
        try:
            r = (o_sample or Distribution.sample)(self, *a, **k)
        finally:
            depth['beta'] -= 1
        rec.setdefault('beta', []).append(r.detach().clone())
        rec.setdefault('conc', []).append(float(self.concentration1.reshape(-1)[0]))
        return r

    torch.rand, torch.randperm, Beta.sample = rand, randperm, sample
    try:
        yield rec
    finally:
        torch.rand, torch.randperm = o_rand, o_perm
        if had_own:
            Beta.sample = o_sample
        else:
            del Beta.sample


def draws_json(rec, B):
    """captured draws -> the model's `Draws` (floats as bit patterns).  Missing draws stay empty: the model then
    falls back to its defaults and the disagreement is decided by the oracle."""
    rates = rec['beta'][0].reshape(-1).tolist() if rec.get('beta') else []
    perm = rec['randperm'][0].reshape(-1).tolist() if rec.get('randperm') else []
    u = rec['rand'][0] if rec.get('rand') else None
    u = u.reshape(u.shape[0], -1).tolist() if u is not None and u.dim() >= 1 and u.numel() > 0 else []
    return {'rates': [fbits(r) for r in rates], 'perm': [int(p) for p in perm],
            'u': [[fbits(v) for v in row] for row in u], 'calls': {k: len(v) for k, v in rec.items()},
            'conc': rec['conc'][0] if rec.get('conc') else None}


def torch_dtype(name):
    import torch
    return torch.float64 if name == 'f64' else torch.float32


def target_tensor(y):
    import torch
    if y is None:
        return None
    if y['t'] == 'index':
        return torch.tensor(y['v'], dtype=getattr(torch, y.get('idt', 'int64')))
    return torch.tensor(y['v'], dtype=torch_dtype(y.get('dtype', 'f32')))


def make_view(x, kind):
    """the same values as a non-contiguous / aliased view (legal inputs of the call)"""
    import torch
    if not kind or x.numel() == 0:
        return x
    B, F, D = x.shape
    if kind == 'strided':
        big = torch.zeros(B, F, 2 * D, dtype=x.dtype)
        big[:, :, ::2] = x
        big[:, :, 1::2] = 12345.0
        return big[:, :, ::2]
    if kind == 'transposed':
        return x.permute(2, 0, 1).contiguous().permute(1, 2, 0)
    if kind == 'slice-of-bigger':
        big = torch.full((B + 2, F, D), -777.0, dtype=x.dtype)
        big[1:B + 1] = x
        return big[1:B + 1]
    if kind == 'expanded-batch':      # all rows are views of one row (stride 0 along the batch)
        return x[:1].expand(B, F, D)
    return x


def same_bits(a, b):
    """tensors equal including the sign of zero and NaN positions"""
    import torch
    if a.shape != b.shape or a.dtype != b.dtype:
        return False
    if a.dtype.is_floating_point:
        return bool(torch.equal(torch.nan_to_num(a, nan=12321.0), torch.nan_to_num(b, nan=12321.0))
                    and torch.equal(torch.signbit(a), torch.signbit(b)))
    return bool(torch.equal(a, b))


def canon_y(y):
    if y.dim() == 1:
        return {'vec': [float(v) for v in y.tolist()]}
    return {'mat': [[float(v) for v in row] for row in y.tolist()]}


# ----------------------------------------------------------------------------- the direct oracle

def expected_raise(case):
    """inputs outside the property's domain, on which the code is expected to raise (decided from the call's
    documentation, independent of the model)"""
    C, F, mode, y, mi = case['C'], case['F'], case['mode'], case['y'], case['mi']
    if y is None or C == 0:
        return True
    if len(y['v']) != case['B']:
        return True
    if mode == 'feature' and (mi is None or len(mi) != F):
        return True
    if C > 1 and (y['t'] != 'index' or any(v < 0 or v >= C for v in y['v'])):
        return True
    return False


def plain_target(case, i):
    y, C = case['y'], case['C']
    if C == 1:
        return [float(y['v'][i])]
    return [1.0 if y['v'][i] == c else 0.0 for c in range(C)]


def explain_rows(case, x, xo, yo, tol, hint=None):
    """x, xo: nested [B][F][D] floats (input / mixed); yo: per-row lists.  Returns None or (row, reason).
    hint: a list of candidate partners (tried first per row; every other row is still tried afterwards)"""
    B, F, D, C, mode = case['B'], case['F'], case['D'], case['C'], case['mode']
    mi = case['mi']
    S = sum(mi) if (mode == 'feature' and mi) else None
    for i in range(B):
        own_t = plain_target(case, i)
        why = []
        found = False
        first = [hint[i]] if hint and i < len(hint) and 0 <= hint[i] < B else []
        for p in itertools.chain(first, (q for q in range(B) if q not in first)):
            # ---- features
            ok = True
            lo = hi = 0.0
            if mode == 'off':
                ok = all(xo[i][j][k] == x[i][j][k] for j in range(F) for k in range(D))
            elif mode == 'feature':
                for j in range(F):
                    own = all(xo[i][j][k] == x[i][j][k] for k in range(D))
                    oth = all(xo[i][j][k] == x[p][j][k] for k in range(D))
                    if not (own or oth):
                        ok = False
                        break
                    if own and not oth:
                        lo += mi[j]
                        hi += mi[j]
                    elif own and oth:
                        hi += mi[j]
            else:
                for k in range(D):
                    own = all(xo[i][j][k] == x[i][j][k] for j in range(F))
                    oth = all(xo[i][j][k] == x[p][j][k] for j in range(F))
                    if not (own or oth):
                        ok = False
                        break
            if not ok:
                why.append(f'p={p}: an entry comes from neither row')
                continue
            # ---- target: yo[i] = lam*own + (1-lam)*partner for one lam in [0,1]
            par_t = plain_target(case, p)
            diffs = [(a, b) for a, b in zip(own_t, par_t) if a != b]
            lam = None
            scale = 1.0 + max(abs(v) for v in own_t + par_t)
            slack = tol
            if diffs:
                c = next(c for c in range(len(own_t)) if own_t[c] != par_t[c])
                lam = (yo[i][c] - par_t[c]) / (own_t[c] - par_t[c])
                # lambda is read back from the target: an error of tol*scale in the target (the bound used for the
                # convex combination below) is an error of tol*scale/|own - partner| in lambda
                slack = max(tol, tol * scale / abs(own_t[c] - par_t[c]))
            if lam is None:
                if any(abs(yo[i][c] - own_t[c]) > tol * scale for c in range(len(own_t))):
                    why.append(f'p={p}: target differs from the (equal) targets of both rows')
                    continue
            else:
                if lam < -slack or lam > 1 + slack:
                    why.append(f'p={p}: lambda {lam} outside [0,1]')
                    continue
                if any(abs(yo[i][c] - (lam * own_t[c] + (1 - lam) * par_t[c])) > tol * scale
                       for c in range(len(own_t))):
                    why.append(f'p={p}: target is not lambda*own + (1-lambda)*partner')
                    continue
                if mode == 'off' and abs(lam - 1) > slack:
                    why.append(f'p={p}: mixup off but lambda {lam} != 1')
                    continue
                if mode == 'feature' and not (lo / S - tol * 3 - slack <= lam <= hi / S + tol * 3 + slack):
                    why.append(f'p={p}: lambda {lam} is not the kept mutual-information share '
                               f'[{lo / S}, {hi / S}]')
                    continue
            found = True
            break
        if not found:
            return i, '; '.join(why[:6])
        if C > 1:
            if any(v < -tol for v in yo[i]) or abs(sum(yo[i]) - 1) > tol * 4:
                return i, f'class target row {yo[i]} is not on the simplex'
    return None

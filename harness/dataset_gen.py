"""Helpers of the C09 check (dataset row subsets / splits / split generator).

* a *reference* dataset made of plain Python lists of hidden row ids (`Ref`) with Python's own list
  semantics (native slicing, native negative indexing, `round` on exact `Fraction`s) - the oracle, and the
  means by which the generator knows the length of every derived dataset;
* the generator of datasets (labelings, split assignments) and of histories;
* the runner of a history on the REAL `torch_frame.data.Dataset`, observing `derived.df`, the features inside
  `derived.tensor_frame` (decoded back to row ids) and every previously existing dataset before/after each call.

Every column of the generated DataFrame is an injective function of the hidden row id
(`rid` = id, `c` = 'k<id>' categorical, `y` = 1000 + id target), so each column of `df` and each feature of the
TensorFrame identifies the row it belongs to; the split column is `s`.
"""
from fractions import Fraction
import warnings

MAX_OPS = 10
SPLIT_NAMES = ['train', 'val', 'test']
# above this many rows (of the frame or of one index argument) a history is judged by the direct oracle only:
# the list-based Lean model gathers in O(rows x index length)
MODEL_MAX = 20000


def coldefs(case):
    """name -> {'kind': 'num' | 'cat', 'off': k} for every data column of the case: a numerical column holds
    rid + off, a categorical one 'k<rid>'.  Old cases (no 'coldefs') use the fixed names rid / c / y."""
    d = case.get('coldefs')
    if d is None:
        d = {'rid': {'kind': 'num', 'off': 0}, 'c': {'kind': 'cat', 'off': 0}, 'y': {'kind': 'num', 'off': 1000}}
        d = {k: v for k, v in d.items() if k in case['cols']}
    return d


def split_name(case):
    return case.get('split_name', 's')


def label_key(v):
    """hashable, JSON-able identity of an index label as it comes back from `df.index.tolist()`"""
    if hasattr(v, 'strftime'):
        return v.strftime('%Y-%m-%d')
    return v


# --------------------------------------------------------------------------- python-list reference (oracle)

class Raises(Exception):
    pass


def frac_of(b):
    return Fraction(b['f'][0], b['f'][1])


def float_of(b):
    return b['f'][0] / b['f'][1]


def ref_bound(b, n):
    if b is None or isinstance(b, int):
        return b
    return round(frac_of(b) * n)          # Fraction.__round__: nearest, ties to even, exact


def ref_positions(ix, n):
    """Python-list semantics of an index on a list of length n -> list of selected positions (via a real list)."""
    base = list(range(n))
    t = ix['t']
    try:
        if t == 'int':
            return [base[ix['i']]]
        if t == 'list':
            return [base[i] for i in ix['is']]
        if t == 'slice':
            s = ix.get('s')
            if s is not None and s <= 0:
                raise Raises()
            return base[ref_bound(ix.get('a'), n):ref_bound(ix.get('b'), n):s]
        if t == 'mask':
            if len(ix['bs']) != n:
                raise Raises()
            return [p for p, b in zip(base, ix['bs']) if b]
    except IndexError:
        raise Raises()
    raise ValueError(t)


class Ref:
    """a dataset as plain lists"""

    def __init__(self, rids, labels, splits, cols, target, split_col, mat=False, split_in_df=None):
        self.rids, self.labels, self.splits = list(rids), list(labels), list(splits)
        self.cols, self.target, self.split_col = list(cols), target, split_col
        self.mat = mat
        self.split_in_df = split_col if split_in_df is None else split_in_df

    def clone(self, **kw):
        r = Ref(self.rids, self.labels, self.splits, self.cols, self.target, self.split_col, self.mat,
                self.split_in_df)
        for k, v in kw.items():
            setattr(r, k, v)
        return r

    def __len__(self):
        return len(self.rids)

    def obs(self):
        return {'df': list(self.rids), 'labels': list(self.labels), 'tf': list(self.rids) if self.mat else None,
                'mat': self.mat, 'cols': list(self.cols)}

    def take(self, pos):
        return self.clone(rids=[self.rids[p] for p in pos], labels=[self.labels[p] for p in pos],
                          splits=[self.splits[p] for p in pos])

    def select(self, ix):
        if not self.mat:
            raise Raises()
        return self.take(ref_positions(ix, len(self)))

    def get_split(self, name, num):
        if not self.mat or not self.split_col or name not in num or not self.split_in_df:
            raise Raises()
        return self.take([p for p, s in enumerate(self.splits) if s == num[name]])

    def col_select(self, cols):
        if self.mat:
            raise Raises()
        cols = list(cols)
        if self.target is not None and self.target not in cols:
            cols.append(self.target)
        if any(c not in self.cols for c in cols):
            raise Raises()
        return self.clone(cols=cols, split_in_df=False)

    def feat_cols(self):
        return [c for c in self.cols if c != self.target]


def ref_step(pool, op, num):
    """apply one op to the reference pool; returns the canonical outcome (and mutates `pool` like the code)."""
    if op['src'] >= len(pool):
        return 'missing-source'
    d = pool[op['src']]
    try:
        k = op['op']
        if k == 'materialize':
            if not d.mat:
                if not d.feat_cols():
                    raise Raises()
                d.mat = True
            return {'updated': d.obs()}
        if k == 'tensor_frame':
            if not d.mat:
                raise Raises()
            return {'observed': list(d.rids)}
        if k == 'select':
            new = [d.select(op['ix'])]
        elif k == 'shuffle':
            if not d.mat:
                raise Raises()
            perm = op['perm']
            if sorted(perm) != list(range(len(d))):
                raise Raises()
            new = [d.take(perm)]
        elif k == 'get_split':
            new = [d.get_split(op['name'], num)]
        elif k == 'split':
            new = [d.get_split(nm, num) for nm in SPLIT_NAMES]
        elif k == 'col_select':
            new = [d.col_select(op['cols'])]
        else:
            raise ValueError(k)
    except Raises:
        return 'raises'
    pool.extend(new)
    out = {'derived': [x.obs() for x in new]}
    if k == 'shuffle':
        out['perm'] = list(op['perm'])
    return out


def ref_run(case, num=None):
    num = num or {'train': 0, 'val': 1, 'test': 2}
    if case['ctor'] == 'bad_value':
        return {'ctor': 'raises'}
    d0 = Ref(range(case['n']), label_codes(case['labels']), case['split'], case['cols'], case['target'],
             case['ctor'] != 'no_split_col')
    pool = [d0]
    return {'ctor': 'ok', 'steps': [ref_step(pool, op, num) for op in case['ops']]}


# --------------------------------------------------------------------------- generators

def label_codes(values):
    """opaque integer codes for index labels (equal labels <-> equal codes)"""
    uniq = sorted(set(values), key=lambda v: (type(v).__name__, v))
    code = {v: i for i, v in enumerate(uniq)}
    return [code[v] for v in values]


LABEL_KINDS = ['range', 'range', 'offset', 'step', 'permuted', 'strings', 'neg', 'float', 'dup_set_index',
               'dup_concat', 'dup_iloc', 'reversed', 'bigint', 'special_str', 'datetime']


def gen_labels(rng, n):
    kind = rng.choice(LABEL_KINDS)
    if kind == 'range':
        vals = list(range(n))
    elif kind == 'offset':
        o = rng.choice([1, 2, 5, 100])
        vals = list(range(o, o + n))
    elif kind == 'step':
        o, s = rng.choice([0, 3]), rng.choice([2, 3])
        vals = list(range(o, o + n * s, s))
    elif kind == 'permuted':
        vals = list(range(n))
        rng.shuffle(vals)
    elif kind == 'reversed':
        vals = list(range(n))[::-1]
    elif kind == 'strings':
        vals = [f'r{i}' for i in range(n)]
        rng.shuffle(vals)
    elif kind == 'neg':
        vals = list(range(-n, 0))
        if rng.random() < .5:
            rng.shuffle(vals)
    elif kind == 'float':
        vals = [i + .5 for i in range(n)]
        rng.shuffle(vals)
    elif kind == 'bigint':
        # labels beyond float53 / int32, some of them small valid positions
        vals = [rng.choice([2 ** 62, 2 ** 53, 2 ** 31, -2 ** 40]) + i if i % 3 else i for i in range(n)]
        rng.shuffle(vals)
    elif kind == 'special_str':
        from harness import stress
        pool = list(stress.SPECIAL_STR) + ['1', '2', 'Train', 'train', 'label', 'label_prev']
        vals = [pool[i] if i < len(pool) else f'{pool[i % len(pool)]}#{i}' for i in range(n)]
        rng.shuffle(vals)
    elif kind == 'datetime':
        vals = [f'{2001 + i // 336:04d}-{1 + (i // 28) % 12:02d}-{1 + i % 28:02d}' for i in range(n)]
        rng.shuffle(vals)
    elif kind == 'dup_set_index':
        m = max(1, n // 2)
        vals = [rng.randrange(m) for _ in range(n)]
    elif kind == 'dup_concat':
        k = rng.randint(0, n)
        vals = list(range(k)) + list(range(n - k))
    else:  # dup_iloc: labels of a RangeIndex frame taken with repeats
        vals = [rng.randrange(max(n, 1)) for _ in range(n)]
    return {'kind': kind, 'values': vals}


def gen_split(rng, n):
    pat = rng.choice(['random', 'random', 'random', 'blocks', 'cycle', 'all_train', 'no_val', 'no_test',
                      'only_test', 'only_val'])
    if pat == 'random':
        return [rng.randrange(3) for _ in range(n)]
    if pat == 'blocks':
        a = rng.randint(0, n)
        b = rng.randint(a, n)
        return [0] * a + [1] * (b - a) + [2] * (n - b)
    if pat == 'cycle':
        o = rng.randrange(3)
        return [(i + o) % 3 for i in range(n)]
    if pat == 'all_train':
        return [0] * n
    if pat == 'no_val':
        return [rng.choice([0, 2]) for _ in range(n)]
    if pat == 'no_test':
        return [rng.choice([0, 1]) for _ in range(n)]
    if pat == 'only_test':
        return [2] * n
    return [1] * n


FRACS = [(1, 2), (1, 4), (3, 4), (1, 8), (3, 8), (5, 8), (7, 8), (1, 10), (2, 10), (3, 10), (7, 10), (8, 10),
         (9, 10), (35, 100), (45, 100), (65, 100), (15, 100), (1, 3), (2, 3), (1, 6), (5, 6), (0, 1), (1, 1),
         (5, 4), (3, 2), (-1, 4), (-1, 2), (-1, 10), (-3, 4)]


def gen_fraction(rng):
    r = rng.random()
    if r < .7:
        p, q = rng.choice(FRACS)
    elif r < .85:
        q = rng.choice([5, 7, 9, 11, 12, 16, 20, 25])
        p = rng.randint(-2, q + 2)
    else:
        p, q = rng.random().as_integer_ratio()    # an arbitrary double, passed as its exact value
    return {'f': [p, q]}


def float_round_ok(b, n):
    """the float product of the code rounds like the exact product (no float-boundary effect)"""
    return round(float_of(b) * n) == round(frac_of(b) * n)


def rnd_int_bound(rng, n):
    return rng.choice([None, None, 0, 1, n, n - 1, -1, -n, n + 2, -n - 2, rng.randint(-n - 1, n + 1)])


def gen_index(rng, n, stats, allow_bad=True, arg_size=None):
    """an IndexSelectType value for a dataset of n rows.  `arg_size`: length of the index argument wanted for a
    list / tensor / range index (the size ladder of harness/stress.py), None = the small default sizes."""
    kinds = ['int', 'slice', 'fslice', 'fslice', 'list', 'range', 'tensor', 'mask']
    if arg_size is not None:
        kinds = ['list', 'tensor', 'tensor', 'range', 'mask']
    k = rng.choice(kinds)
    bad = allow_bad and rng.random() < .08
    if k == 'int':
        if bad or n == 0:
            return {'t': 'int', 'i': rng.choice([n, -n - 1, n + 3, -n - 4])}
        return {'t': 'int', 'i': rng.choice([0, n - 1, -1, -n, rng.randint(-n, n - 1)])}
    if k == 'slice':
        step = rng.choice([0, -1, -2]) if bad else rng.choice([None, None, None, 1, 2, 3, 5, max(n, 2), n + 3])
        return {'t': 'slice', 'a': rnd_int_bound(rng, n), 'b': rnd_int_bound(rng, n), 's': step,
                'via': rng.choice(['getitem', 'index_select'])}
    if k == 'fslice':
        # dataset[a:b] with at least one float bound
        def one(prefer_float):
            if prefer_float or rng.random() < .6:
                for _ in range(20):
                    b = gen_fraction(rng)
                    if float_round_ok(b, n):
                        return b
                    stats['float-boundary-skipped'] = stats.get('float-boundary-skipped', 0) + 1
                return {'f': [1, 2]} if float_round_ok({'f': [1, 2]}, n) else None
            return rnd_int_bound(rng, n)
        which = rng.randrange(3)
        a = one(which in (0, 2)) if rng.random() < .8 else None
        b = one(which in (1, 2)) if rng.random() < .85 else None
        if not isinstance(a, dict) and not isinstance(b, dict):
            b = one(True)
        # the three-argument form dataset[a:b:c] - every kind of bound (None / int / float) with every kind of step
        step = rng.choice([0, -1, -2]) if bad else rng.choice([None, None, None, 1, 1, 2, 2, 3, 5, max(n // 2, 2), n + 1])
        return {'t': 'slice', 'a': a, 'b': b, 's': step, 'via': rng.choice(['getitem', 'getitem', 'index_select'])}
    if k in ('list', 'tensor'):
        ln = rng.choice([0, 1, 2, 3, 4, 6, n]) if arg_size is None else arg_size
        if n == 0:
            is_ = [rng.choice([0, -1, 1]) for _ in range(max(ln, 1))] if bad else []
        elif bad:
            is_ = [rng.randint(-n - 2, n + 1) for _ in range(max(ln, 1))]
            is_[rng.randrange(len(is_))] = rng.choice([n, -n - 1])
        else:
            shape = rng.random() if ln > 12 else 1.
            if shape < .2 and ln <= n:
                is_ = rng.sample(range(n), ln)                       # distinct positions, shuffled
            elif shape < .35:
                is_ = sorted(rng.randint(-n, n - 1) for _ in range(ln))   # sorted with repeats and negatives
            elif shape < .45:
                is_ = [rng.choice([0, n - 1, -1, -n]) for _ in range(ln)]   # a handful of rows, many repeats
            else:
                is_ = [rng.randint(-n, n - 1) for _ in range(ln)]
        as_ = k if k == 'list' else rng.choice(['tensor', 'tensor', 'tensor32'])
        return {'t': 'list', 'is': is_, 'as': as_, 'via': rng.choice(['getitem', 'getitem', 'index_select'])}
    if k == 'range':
        s = rng.choice([1, 1, 2, 3, -1])
        if arg_size is not None and n > 0:
            # a range of (about) the wanted length inside the frame
            s = rng.choice([1, 1, 2, -1])
            ln = max(1, min(arg_size, (n + abs(s) - 1) // abs(s)))
            lo = rng.randint(0, n - 1 - (ln - 1) * abs(s))
            hi = lo + (ln - 1) * abs(s)
            a, b = (lo, hi + 1) if s > 0 else (hi, lo - 1)     # range(hi, -1, -1) ends at position 0
        elif s > 0:
            a, b = rng.randint(0, max(n, 1)), rng.randint(0, n + (2 if bad else 0))
        else:
            a, b = rng.randint(-1, n - 1 + (2 if bad else 0)), rng.randint(-1, max(n - 1, 0))
        return {'t': 'list', 'is': list(range(a, b, s)), 'as': 'range', 'range': [a, b, s]}
    ln = max(n + rng.choice([1, -1, 2]), 0) if bad else n
    p = rng.choice([.1, .5, .5, .9])
    # (an empty Python list is an index list, not a mask: masks of length 0 are always tensors)
    return {'t': 'mask', 'bs': [rng.random() < p for _ in range(ln)],
            'as': rng.choice(['tensor', 'tensor', 'list']) if ln > 0 else 'tensor'}


def torch_perm(seed, n):
    """the draw `Dataset.shuffle` makes after torch.manual_seed(seed) on a dataset of n rows"""
    import torch
    torch.manual_seed(seed)
    return torch.randperm(n).tolist()


# column names that are substrings / prefixes / suffixes / case variants of each other (first entry: a natural
# target name), sentinel look-alikes and names with separators / blanks
NAME_FAMILIES = [
    ['label', 'label_prev', 'Label', 'lab', 'prev_label', 'LABEL', 'labels', 'abel'],
    ['y', 'year', 'Y', 'yy', 'y_hat', 'xy', 'y2'],
    ['target', 'target_enc', 'Target', 'tar', 'get', 'targets', 'my_target'],
    ['price', 'price_per_sqm', 'Price', 'pric', 'rice', 'price '],
    ['sports', 'sportswear', 'Sports', 'sport', 'port'],
    ['w', 'W', 'ww', 'w1', 'ow'],
    ['Zeta', 'alpha', 'zeta', 'Alpha', 'Zeta_alpha', 'alphaZeta'],
    ['-1', 'nan', 'None', '0', '', ' ', '<NA>', '1', '-1.0'],
    ['a', 'a\x00', 'A', 'a|b', 'a,b', 'a b', 'b'],
    ['s', 'split', 'ss', 'S', 'rid', 'c', 'is'],
]


def gen_columns(rng, n, confusable, wide=None):
    """-> (cols, coldefs, target, split_name).  Every column is an injective function of the hidden row id.
    `wide`: number of feature columns (names stem0, stem1, ... stem10 ...: prefixes of each other); needs n < 1000."""
    if wide:
        stem = rng.choice(['f', 'x_', 'col', 'label', ''])
        names = [f'{stem}{j}' for j in range(wide)]
        target = rng.choice([None, names[0], names[1], names[min(10, wide - 1)], names[-1], stem or 'y', stem + '_'])
        if target is not None and target not in names:
            names.insert(rng.randint(0, len(names)), target)
        defs = {c: {'kind': 'num', 'off': (j + 1) * 1000} for j, c in enumerate(names)}
        for c in rng.sample(names, min(3, len(names))):
            if c != target and n > 0:
                defs[c] = {'kind': 'cat', 'off': 0}
        return names, defs, target, rng.choice(['s', stem + 'split', stem + str(wide)])
    if not confusable:
        cat = n > 0 and rng.random() < .6
        target = 'y' if rng.random() < .8 else None
        cols = ['rid'] + (['c'] if cat else []) + ([target] if target else [])
        if rng.random() < .3:
            rng.shuffle(cols)
        defs = {'rid': {'kind': 'num', 'off': 0}, 'c': {'kind': 'cat', 'off': 0}, 'y': {'kind': 'num', 'off': 1000}}
        return cols, {c: defs[c] for c in cols}, target, 's'
    fam = list(rng.choice(NAME_FAMILIES))
    k = rng.randint(2, min(5, len(fam)))
    r = rng.random()
    if r < .55:
        names = [fam[0]] + rng.sample(fam[1:], k - 1)      # the family's base name is present ...
        target = fam[0] if rng.random() < .75 else rng.choice(names)   # ... and usually is the target
    else:
        names = rng.sample(fam, k)
        target = rng.choice(names) if rng.random() < .85 else None
    rest = [x for x in fam if x not in names]
    sname = rng.choice(rest) if rest and rng.random() < .5 else rng.choice(['s', 'split', '_split'])
    while sname in names:
        sname += '_'
    rng.shuffle(names)
    defs = {}
    for j, c in enumerate(names):
        kind = 'cat' if (c != target and n > 0 and rng.random() < .3) else 'num'
        defs[c] = {'kind': kind, 'off': 0 if kind == 'cat' else (j + 1) * 100000}
    return names, defs, target, sname


def gen_history(rng, stats, level=0, scale=None):
    """`scale`: None = decide here (a few percent of the histories), False = never, True = always."""
    from harness import stress
    if scale is None:
        scale = rng.random() < (.02, .012, .004)[min(level, 2)]
    big_arg = (not scale) and rng.random() < (.015, .008, .003)[min(level, 2)]
    long_hist = (not scale) and rng.random() < .006
    wide = None
    if not scale and rng.random() < (.003, .002, .0008)[min(level, 2)]:
        wide = stress.pick_size(rng, min(level, 1), 259 if level < 2 else 1027)     # number of columns
    if scale:
        cap = rng.choice([259, 259, 1027, 4099, 4099, 16387, 65539])
        n = stress.pick_size(rng, level, cap)
    else:
        n = rng.choice([0, 1, 2, 3, 4, 5, 5, 6, 6, 7, 8, 8, 10, 12])
    cols, defs, target, sname = gen_columns(rng, n, rng.random() < .3, wide)
    r = rng.random()
    ctor = 'ok' if r < .92 else ('no_split_col' if r < .96 else 'bad_value')
    split = gen_split(rng, n)
    if ctor == 'bad_value':
        if n == 0:
            ctor = 'ok'
        else:
            split[rng.randrange(n)] = rng.choice([3, 4, 5, 7])
    lab = gen_labels(rng, n)
    case = {'kind': 'hist', 'n': n, 'labels': lab['values'], 'label_kind': lab['kind'], 'cols': cols,
            'coldefs': defs, 'split_name': sname, 'target': target, 'split': split, 'ctor': ctor, 'ops': []}
    case['split_dtype'] = rng.choice(['int64', 'int64', 'int8', 'float64', 'object', 'uint8', 'int32', 'float32',
                                      'Int64', 'category'] + (['bool'] if all(s <= 1 for s in split) else []))
    pool = [Ref(range(n), label_codes(case['labels']), split, cols, target, ctor != 'no_split_col')]
    num = {'train': 0, 'val': 1, 'test': 2}
    ops = case['ops']
    index_steps = []        # steps whose index object may be used again (aliasing)

    def push(op):
        ops.append(op)
        return ref_step(pool, op, num)

    def pick_src():
        if len(pool) > 1 and rng.random() < .6:
            return rng.randrange(max(0, len(pool) - 3), len(pool))
        return rng.randrange(len(pool))

    def arg_size():
        if scale and rng.random() < .5:
            return stress.pick_size(rng, level, max(n, 17))
        if big_arg and rng.random() < .6:
            return stress.pick_size(rng, level, rng.choice([259, 259, 4099, 16387]))
        return None

    def col_select_op(src, d, legal_only=False):
        feats = d.feat_cols()
        others = [c for c in defs if c not in d.cols]        # names of the frame this dataset no longer has
        r = rng.random()
        form = 'str' if rng.random() < .45 else 'list'
        if r < .8 and feats:
            if form == 'str':
                cs = [rng.choice(feats)]
            else:
                cs = rng.sample(feats, rng.randint(1, len(feats)) if len(feats) < 17 or rng.random() < .5 else
                                rng.choice([x for x in (17, 33, 65, 129, 257, 513, 1025) if x <= len(feats)]))
                if d.target and rng.random() < .3:
                    cs.insert(rng.randint(0, len(cs)), d.target)
        elif r < .9 and d.target and n > 0 and not legal_only:
            cs = [d.target] if (form == 'str' or rng.random() < .5) else []   # no feature column left: materialize raises
        else:
            # a name the dataset does not have: the split column, a dropped column, a case variant, a prefix,
            # an extension of an existing name
            base = rng.choice(list(d.cols) or ['rid'])
            unknown = [sname, 'nosuch', base.swapcase(), base[:-1], base + '_prev', base + ' '] + others
            unknown = [u for u in unknown if u not in d.cols]
            cs = [rng.choice(unknown)] + (feats[:1] if (form == 'list' and rng.random() < .5) else [])
        if form == 'str' and len(cs) != 1:
            form = 'list'
        return {'op': 'col_select', 'src': src, 'cols': cs, 'form': form,
                'via': rng.choice(['col_select', 'getitem']) if cs else 'col_select'}

    def select_op(src, d, allow_bad=True):
        if index_steps and rng.random() < .12:
            # the very same index object again (on this or another dataset)
            k0 = rng.choice(index_steps)
            return {'op': 'select', 'src': src, 'ix': dict(ops[k0]['ix'], reuse=k0)}
        ix = gen_index(rng, len(d), stats, allow_bad=allow_bad, arg_size=arg_size())
        if ix['t'] in ('list', 'mask') and ix.get('as') != 'range':
            index_steps.append(len(ops))
        return {'op': 'select', 'src': src, 'ix': ix}

    # optional prefix before materialization (legal col_select, illegal everything else)
    if rng.random() < (.4 if not wide else .9):
        for _ in range(rng.choice([1, 1, 2, 3])):
            src = pick_src()
            d = pool[src]
            k = rng.choice(['col_select'] * 4 + ['tensor_frame', 'select', 'shuffle', 'get_split', 'split'])
            if scale and k in ('select', 'shuffle'):
                k = 'col_select'
            if k == 'col_select':
                push(col_select_op(src, d))
            elif k == 'select':
                push({'op': 'select', 'src': src, 'ix': gen_index(rng, len(d), stats, allow_bad=False)})
            elif k == 'shuffle':
                seed = rng.randrange(2 ** 31)
                push({'op': 'shuffle', 'src': src, 'seed': seed, 'perm': torch_perm(seed, len(d))})
            elif k == 'get_split':
                push({'op': 'get_split', 'src': src, 'name': rng.choice(SPLIT_NAMES)})
            else:
                push({'op': k, 'src': src})
    # materialize (almost always the newest dataset; sometimes an older one, sometimes nothing)
    if rng.random() < .96:
        push({'op': 'materialize', 'src': len(pool) - 1 if rng.random() < .7 else rng.randrange(len(pool))})
    if wide:
        budget = rng.choice([1, 2, 3])
    elif scale:
        budget = rng.choice([2, 3, 4, 5, 6]) if n <= 5000 else rng.choice([2, 3, 4])
    elif long_hist:
        budget = stress.pick_size(rng, 0, 35)          # the number of prior calls is a size too
    else:
        budget = rng.choice([1, 2, 3, 4, 5, 6, 7, 8, 8])
    max_ops = (MAX_OPS + 4) if not long_hist else 80
    weights = ['select'] * 6 + ['shuffle'] * 3 + ['get_split'] * 3 + ['split'] * 2 + \
              ['split_mix', 'tensor_frame', 'materialize', 'col_select']
    if scale:
        weights = ['select'] * 4 + ['shuffle'] * 3 + ['get_split'] * 2 + ['split'] * 3 + ['split_mix'] * 2
    while budget > 0 and len(ops) < max_ops:
        budget -= 1
        src = pick_src()
        if not pool[src].mat and rng.random() < .85:
            mats = [i for i, d in enumerate(pool) if d.mat]
            if mats:
                src = rng.choice(mats)
        if len(pool[src]) == 0 and rng.random() < .75:
            full = [i for i, d in enumerate(pool) if d.mat and len(d) > 0]
            if full:
                src = rng.choice(full)
        d = pool[src]
        k = rng.choice(weights)
        if k == 'select':
            push(select_op(src, d))
        elif k == 'shuffle':
            seed = rng.randrange(2 ** 31)
            push({'op': 'shuffle', 'src': src, 'seed': seed, 'perm': torch_perm(seed, len(d))})
        elif k == 'get_split':
            push({'op': 'get_split', 'src': src,
                  'name': rng.choice(SPLIT_NAMES) if rng.random() < .95 else rng.choice(['foo', 'Train', ''])})
        elif k == 'split_mix':
            # split() and the three get_split() lookups on the SAME dataset, in any order
            group = [{'op': 'split', 'src': src}] + [{'op': 'get_split', 'src': src, 'name': nm} for nm in SPLIT_NAMES]
            rng.shuffle(group)
            for o in group:
                push(o)
        elif k == 'col_select':
            push(col_select_op(src, d, legal_only=True))
        else:
            push({'op': k, 'src': src})
    return case


def ladder_history(rng, n):
    """one fixed-shape history on a frame of n rows (random content): shuffle, split(), the three get_split(),
    index arguments of length n (int32 tensor with repeats, bool mask, reversed range), a fractional slice, and
    split() of a shuffled selection.  Confusable column names, non-default labels."""
    stats = {}
    cols, defs, target, sname = gen_columns(rng, n, True)
    lab = gen_labels(rng, n)
    split = [rng.randrange(3) for _ in range(n)]
    case = {'kind': 'hist', 'n': n, 'labels': lab['values'], 'label_kind': lab['kind'], 'cols': cols,
            'coldefs': defs, 'split_name': sname, 'target': target, 'split': split, 'ctor': 'ok',
            'split_dtype': rng.choice(['int64', 'int8', 'float64', 'Int64']), 'ops': []}
    seed = rng.randrange(2 ** 31)
    frac = next((b for b in ({'f': [3, 10]}, {'f': [1, 4]}, {'f': [1, 2]}) if float_round_ok(b, n)), None)
    case['ops'] = [
        {'op': 'materialize', 'src': 0},
        {'op': 'split', 'src': 0},                                                        # -> 1, 2, 3
        {'op': 'get_split', 'src': 0, 'name': 'test'},                                    # -> 4
        {'op': 'get_split', 'src': 0, 'name': 'train'},                                   # -> 5
        {'op': 'get_split', 'src': 0, 'name': 'val'},                                     # -> 6
        {'op': 'shuffle', 'src': 0, 'seed': seed, 'perm': torch_perm(seed, n)},           # -> 7
        {'op': 'split', 'src': 7},                                                        # -> 8, 9, 10
        {'op': 'select', 'src': 7, 'ix': {'t': 'list', 'is': [rng.randint(-n, n - 1) for _ in range(n)],
                                          'as': 'tensor32'}},                             # -> 11
        {'op': 'split', 'src': 11},                                                       # -> 12, 13, 14
        {'op': 'select', 'src': 0, 'ix': {'t': 'mask', 'bs': [rng.random() < .5 for _ in range(n)],
                                          'as': 'tensor'}},                               # -> 15
        {'op': 'select', 'src': 7, 'ix': {'t': 'list', 'is': list(range(n - 1, -1, -1)), 'as': 'range',
                                          'range': [n - 1, -1, -1]}},                     # -> 16
        {'op': 'select', 'src': 16, 'ix': {'t': 'slice', 'a': frac, 'b': None, 's': None}},   # -> 17
        {'op': 'get_split', 'src': 17, 'name': 'val'},
    ]
    return case


RATIOS = [(1, 10), (2, 10), (3, 10), (4, 10), (5, 10), (6, 10), (7, 10), (8, 10), (9, 10), (1, 4), (3, 4), (1, 3),
          (2, 3), (1, 8), (7, 8), (15, 100), (85, 100), (5, 100), (1, 100), (99, 100), (1, 2), (1, 5), (1, 20),
          (29, 100), (57, 100), (7, 100)]


def split_float_ok(n, rt, rv, it):
    """the float evaluation of the generator's assertions / products equals the exact one"""
    x, y = rt[0] / rt[1], rv[0] / rv[1]
    fx, fy = Fraction(*rt), Fraction(*rv)
    if (x > 0) != (fx > 0) or (y > 0) != (fy > 0):
        return False
    if x <= 0 or y <= 0:
        return True
    if it:
        if (x + y < 1) != (fx + fy < 1):
            return False
        if not (fx + fy < 1):
            return True
        return int(n * x) == (n * fx).__floor__() and int(n * y) == (n * fy).__floor__()
    if (x + y == 1) != (fx + fy == 1):
        return False
    if fx + fy != 1:
        return True
    return int(n * x) == (n * fx).__floor__()


def gen_ratio(rng):
    r = rng.random()
    if r < .75:
        return list(rng.choice(RATIOS))
    if r < .85:
        q = rng.choice([6, 7, 9, 12, 16, 25, 50])
        return [rng.randint(1, q - 1), q]
    if r < .93:
        return list(rng.choice([(0, 1), (-1, 10), (1, 1), (11, 10), (3, 2)]))
    return list(rng.random().as_integer_ratio())


def gen_decimal_pair(rng):
    """(train, val) written as decimal literals on a 0.1 / 0.05 / 0.01 / 0.001 grid whose DECIMAL sum is exactly 1 (the
    pairs a user types: 0.7 / 0.3, 0.85 / 0.15), or misses 1 by one grid step on either side.  The doubles the code
    receives are those of the literals (k / q with q a power of ten is correctly rounded, i.e. equals float('0.k'))"""
    q = rng.choice([10, 10, 20, 100, 100, 1000])
    k = rng.randint(1, q - 1)
    d = rng.choice([0, 0, 0, 0, 1, -1])
    j = q - k + d
    if j <= 0:
        j = q - k
    return [k, q], [j, q]


def decimal_text(r):
    """a ratio [p, q] as the decimal literal a user would type (q a power of ten or 20)"""
    from decimal import Decimal
    return str(Decimal(r[0]) / Decimal(r[1]))


def gen_split_case(rng, stats, nmax, level=0):
    from harness import stress
    big = rng.random() < (.04, .03, .01)[min(level, 2)]
    if rng.random() < .12:
        # decimal literals summing to exactly 1 (or missing it by a grid step): with a test split they must be rejected,
        # without one accepted - judged in exact arithmetic; a draw is skipped only when the float evaluation of the
        # documented conditions (train + val < 1, train + val == 1, floor(n * ratio)) disagrees with the exact one
        for _ in range(50):
            n = min(rng.choice([0, 1, 2, 3, 5, 7, 10, 10, 15, 20, 33, 100, rng.randint(0, nmax)]), nmax)
            rt, rv = gen_decimal_pair(rng)
            it = rng.random() < .7
            if split_float_ok(n, rt, rv, it):
                return {'kind': 'gen', 'n': n, 'seed': rng.randrange(2 ** 32), 'rt': rt, 'rv': rv, 'it': it,
                        'prior': [rng.randrange(2 ** 32), rng.randrange(2 ** 32)], 'burn': rng.randrange(5), 'fam': 'decimal-pair'}
            stats['float-boundary-skipped'] = stats.get('float-boundary-skipped', 0) + 1
    while True:
        n = rng.choice([0, 1, 2, 3, 5, 7, 10, 10, 20, 33, 100, rng.randint(0, nmax), rng.randint(0, nmax)])
        n = min(n, nmax)
        if big:
            n = stress.pick_size(rng, level, rng.choice([259, 4099, 4099, 65539]))
        it = rng.random() < .6
        rt = gen_ratio(rng)
        if not it and rng.random() < .8 and 0 < rt[0] < rt[1]:
            rv = [rt[1] - rt[0], rt[1]]            # exactly complementary
        else:
            rv = gen_ratio(rng)
            if it and rng.random() < .7:
                for _ in range(10):                # mostly ratios that leave room for a test split
                    if Fraction(*rt) + Fraction(*rv) < 1:
                        break
                    rv = gen_ratio(rng)
        if split_float_ok(n, rt, rv, it):
            break
        stats['float-boundary-skipped'] = stats.get('float-boundary-skipped', 0) + 1
    return {'kind': 'gen', 'n': n, 'seed': rng.randrange(2 ** 32), 'rt': rt, 'rv': rv, 'it': it,
            'prior': [rng.randrange(2 ** 32), rng.randrange(2 ** 32)], 'burn': rng.randrange(5)}


# --------------------------------------------------------------------------- the real code

def build_df(case):
    import numpy as np
    import pandas as pd
    n = case['n']
    defs = coldefs(case)
    sname = split_name(case)
    data = {}
    for c in case['cols']:
        d = defs[c]
        if d['kind'] == 'num':
            data[c] = d['off'] + np.arange(n, dtype=np.float64)
        else:
            data[c] = np.array([f'k{i}' for i in range(n)], dtype=object)
    sp = case['split']
    dt = case.get('split_dtype', 'int64')
    if dt == 'object':
        data[sname] = pd.Series(list(sp), dtype=object).values
    elif dt == 'bool':
        data[sname] = np.array([bool(v) for v in sp], dtype=bool)
    elif dt == 'Int64':
        data[sname] = pd.array(list(sp), dtype='Int64')
    elif dt == 'category':
        data[sname] = pd.Categorical(list(sp))
    else:
        data[sname] = np.array(sp, dtype=dt)
    kind, vals = case.get('label_kind', 'range'), case['labels']
    df = pd.DataFrame(data)
    assert list(df.columns) == list(case['cols']) + [sname]
    if dt == 'object':
        df[sname] = df[sname].astype(object)
    for c in case['cols']:
        if defs[c]['kind'] == 'cat':
            df[c] = df[c].astype(object)
    if kind == 'range':
        pass
    elif kind == 'offset' and n > 0:
        df.index = pd.RangeIndex(vals[0], vals[0] + n)
    elif kind == 'step' and n > 1:
        df.index = pd.RangeIndex(vals[0], vals[0] + n * (vals[1] - vals[0]), vals[1] - vals[0])
    elif kind == 'dup_set_index':
        df['_k'] = vals
        df = df.set_index('_k')
    elif kind == 'dup_concat':
        k = next((i for i in range(1, n) if vals[i] == 0), n)
        if 0 < k < n:
            df = pd.concat([df.iloc[:k].reset_index(drop=True), df.iloc[k:].reset_index(drop=True)])
    elif kind == 'dup_iloc' and n > 0:
        skeleton = pd.DataFrame({'z': np.zeros(n)}).iloc[vals]
        df.index = skeleton.index
    elif kind == 'datetime':
        df.index = pd.to_datetime(list(vals), format='%Y-%m-%d')
    elif kind == 'special_str':
        df.index = pd.Index(list(vals), dtype=object)
    else:
        df.index = pd.Index(vals)
    assert [label_key(v) for v in df.index.tolist()] == list(vals), (kind, list(df.index)[:20], vals[:20])
    return df


def to_py_index(ix):
    import torch
    t = ix['t']
    if t == 'int':
        return ix['i']
    if t == 'slice':
        def b(x):
            return float_of(x) if isinstance(x, dict) else x
        return slice(b(ix.get('a')), b(ix.get('b')), ix.get('s'))
    if t == 'list':
        as_ = ix.get('as', 'list')
        if as_ == 'range':
            return range(*ix['range'])
        if as_ == 'tensor':
            return torch.tensor(ix['is'], dtype=torch.long)
        if as_ == 'tensor32':
            return torch.tensor(ix['is'], dtype=torch.int32)
        return list(ix['is'])
    if t == 'mask':
        return torch.tensor(ix['bs'], dtype=torch.bool) if ix.get('as', 'tensor') == 'tensor' else list(ix['bs'])
    raise ValueError(t)


def model_index(ix):
    t = ix['t']
    if t == 'int':
        return {'t': 'int', 'i': ix['i']}
    if t == 'slice':
        return {'t': 'slice', 'a': ix.get('a'), 'b': ix.get('b'), 's': ix.get('s')}
    if t == 'list':
        return {'t': 'list', 'is': ix['is']}
    return {'t': 'mask', 'bs': ix['bs']}


class Observer:
    """decodes a real Dataset back to hidden row ids; records inconsistencies as findings"""

    def __init__(self, case, findings):
        self.codes = dict(zip(case['labels'], label_codes(case['labels'])))
        self.defs = coldefs(case)
        self.sname = split_name(case)
        self.findings = findings
        self._cats = {}

    def _agree(self, lists, what, step):
        lists = [l for l in lists if l is not None]
        if not lists:
            return None
        if any(l != lists[0] for l in lists[1:]):
            self.findings.append((step, what, lists[0][:50], [l[:50] for l in lists[1:]]))
        return lists[0]

    def _cat_table(self, name, cats):
        """category index -> row id of a categorical column (cached per statistics object)"""
        import numpy as np
        key = (name, id(cats))
        hit = self._cats.get(key)
        if hit is None or hit[0] is not cats:
            hit = (cats, np.array([int(str(c)[1:]) for c in cats] + [-1], dtype=np.int64))
            self._cats[key] = hit
        return hit[1]

    def obs(self, ds, step):
        import numpy as np
        import torch
        from torch_frame.data.stats import StatType
        df = ds.df
        per_col = []
        small = len(df) <= 64
        if small:
            # one conversion of the whole (small) frame instead of one pandas lookup per column
            dfcols = list(df.columns)
            arr = df.to_numpy(dtype=object)
        for name, d in self.defs.items():
            if small:
                if name not in dfcols:
                    continue
                vals = arr[:, dfcols.index(name)].tolist()
                if d['kind'] == 'num':
                    per_col.append([int(v) - d['off'] for v in vals])
                else:
                    per_col.append([int(str(v)[1:]) for v in vals])
                continue
            if name not in df.columns:
                continue
            if d['kind'] == 'num':
                per_col.append((df[name].to_numpy(dtype=np.float64) - d['off']).astype(np.int64).tolist())
            else:
                per_col.append([int(str(v)[1:]) for v in df[name].tolist()])
        rids = self._agree(per_col, 'columns of derived.df disagree on the row ids', step)
        if rids is not None and len(rids) != len(ds):
            self.findings.append((step, 'len(dataset) differs from the rows of df', len(rids), len(ds)))
        codes = self.codes
        labels = [codes.get(label_key(v), -999) for v in df.index.tolist()]
        out = {'df': rids, 'labels': labels, 'mat': bool(ds.is_materialized), 'cols': list(ds.col_to_stype.keys()),
               'tf': None}
        if list(df.columns) not in (out['cols'], out['cols'] + [self.sname]):
            self.findings.append((step, 'the columns of derived.df are not the keys of col_to_stype',
                                  out['cols'], [str(c) for c in df.columns]))
        if ds.is_materialized:
            tf = ds.tensor_frame
            per_feat = []
            seen = []
            for st, names in tf.col_names_dict.items():
                feat = tf.feat_dict[st]
                rows = feat.tolist() if small else None
                for j, name in enumerate(names):
                    d = self.defs.get(name)
                    if d is None:
                        continue
                    seen.append(name)
                    if small:
                        if d['kind'] == 'num':
                            per_feat.append([int(r[j]) - d['off'] for r in rows])
                        else:
                            table = self._cat_table(name, ds.col_stats[name][StatType.COUNT][0])
                            per_feat.append([int(table[r[j]]) for r in rows])
                        continue
                    col = feat[:, j]
                    if d['kind'] == 'num':
                        per_feat.append((col.to(dtype=torch.float64).numpy() - d['off'])
                                        .astype(np.int64).tolist())
                    else:
                        table = self._cat_table(name, ds.col_stats[name][StatType.COUNT][0])
                        per_feat.append(table[col.numpy()].tolist())
            tgt = ds.target_col
            if tf.y is not None and tgt in self.defs and small:
                seen.append(tgt)
                per_feat.append([int(v) - self.defs[tgt]['off'] for v in tf.y.tolist()])
            elif tf.y is not None and tgt in self.defs:
                seen.append(tgt)
                per_feat.append((tf.y.to(dtype=torch.float64).numpy() - self.defs[tgt]['off'])
                                .astype(np.int64).tolist())
            if sorted(seen) != sorted(out['cols']):
                self.findings.append((step, 'the columns of tensor_frame (features + target) are not the keys of '
                                            'col_to_stype', sorted(out['cols']), sorted(seen)))
            t = self._agree(per_feat, 'features of derived.tensor_frame disagree on the row ids', step)
            if t is not None and len(t) != tf.num_rows:
                self.findings.append((step, 'tensor_frame.num_rows differs from its features', len(t), tf.num_rows))
            out['tf'] = t
        return out


def run_real_history(case, watch='all'):
    """-> (canonical outcome, findings).  findings: (step, what, expected, got).
    watch='all': every existing dataset is re-observed after every call; 'src': only the call's source."""
    import torch
    import torch_frame
    from torch_frame.data import Dataset
    findings = []
    with warnings.catch_warnings():
        warnings.simplefilter('ignore')
        df = build_df(case)
        defs = coldefs(case)
        stypes = {'num': torch_frame.numerical, 'cat': torch_frame.categorical}
        try:
            d0 = Dataset(df, {c: stypes[defs[c]['kind']] for c in case['cols']}, target_col=case['target'],
                         split_col=None if case['ctor'] == 'no_split_col' else split_name(case))
        except Exception:
            return {'ctor': 'raises'}, findings
        ob = Observer(case, findings)
        pool = [d0]
        snaps = [ob.obs(d0, -1)]
        steps = []
        index_objs = {}       # step -> (the index object passed to the call, an identical twin never passed)
        for k, op in enumerate(case['ops']):
            if op['src'] >= len(pool):
                # only possible when an earlier call deviated from the reference (raised / returned fewer datasets)
                steps.append('missing-source')
                continue
            d = pool[op['src']]
            kind = op['op']
            new, out = [], None
            try:
                if kind == 'materialize':
                    r = d.materialize()
                    if r is not d:
                        findings.append((k, 'materialize() does not return the dataset itself', None, None))
                    out = {'updated': ob.obs(d, k)}
                elif kind == 'tensor_frame':
                    tf = d.tensor_frame
                    _ = d.col_stats
                    out = {'observed': ob.obs(d, k)['tf']}
                elif kind == 'select':
                    reuse = op['ix'].get('reuse')
                    if reuse is not None and reuse in index_objs:
                        ix = index_objs[reuse][0]
                    else:
                        ix = to_py_index(op['ix'])
                        index_objs[k] = (ix, to_py_index(op['ix']))
                    new = [d[ix] if op['ix'].get('via', 'getitem') == 'getitem' else d.index_select(ix)]
                elif kind == 'shuffle':
                    torch.manual_seed(op['seed'])
                    if k % 2 == 0:
                        s, perm = d.shuffle(return_perm=True)
                    else:
                        s, perm = d.shuffle(), None
                    new = [s]
                elif kind == 'get_split':
                    new = [d.get_split(op['name'])]
                elif kind == 'split':
                    new = list(d.split())
                elif kind == 'col_select':
                    cs = list(op['cols'])
                    form = op.get('form')
                    if form is None:      # cases recorded before the form was explicit
                        form = 'str' if (op.get('via') == 'getitem' and len(cs) == 1 and k % 2 == 0) else 'list'
                    arg = cs[0] if form == 'str' else cs
                    if op.get('via') == 'getitem' and cs:
                        new = [d[arg]]
                    else:
                        new = [d.col_select(arg)]
            except Exception:
                out = 'raises'
                new = []
            if out is None:
                out = {'derived': [ob.obs(x, k) for x in new]}
                if kind == 'shuffle':
                    out['perm'] = perm.tolist() if perm is not None else list(op['perm'])
            steps.append(out)
            # every dataset that existed before the call is unchanged (materialize: only flag and tensor frame)
            for i, old in enumerate(snaps):
                if watch != 'all' and i != op['src']:
                    continue
                now = ob.obs(pool[i], k)
                if kind == 'materialize' and i == op['src'] and out != 'raises':
                    if (now['df'], now['labels'], now['cols']) != (old['df'], old['labels'], old['cols']):
                        findings.append((k, f'materialize changed the DataFrame of dataset {i}', _short(old), _short(now)))
                elif now != old:
                    findings.append((k, f'{kind} on dataset {op["src"]} altered the existing dataset {i}',
                                     _short(old), _short(now)))
                snaps[i] = now
            for x in new:
                pool.append(x)
                snaps.append(ob.obs(x, k))
        # the index objects handed to the calls are still what they were (inputs are not modified)
        for k, (used, twin) in index_objs.items():
            same = torch.equal(used, twin) if isinstance(used, torch.Tensor) else used == twin
            if not same:
                findings.append((k, 'the index argument was modified by the call', str(twin)[:200], str(used)[:200]))
        return {'ctor': 'ok', 'steps': steps}, findings


def _short(o):
    return {k: (v[:60] if isinstance(v, list) else v) for k, v in o.items()} if isinstance(o, dict) else o


def numpy_perm(seed, n):
    """the position permutation `np.random.shuffle` applies after `np.random.seed(seed)` to n entries"""
    import numpy as np
    state = np.random.get_state()
    try:
        np.random.seed(seed)
        a = np.arange(n)
        np.random.shuffle(a)
        return a.tolist()
    finally:
        np.random.set_state(state)


def run_real_split(case):
    """-> (outcome, findings); the call is repeated under different prior states of the global numpy RNG"""
    import numpy as np
    from torch_frame.utils.split import generate_random_split
    findings = []
    outs = []
    state = np.random.get_state()
    try:
        for prior in case['prior']:
            np.random.seed(prior)
            np.random.random(case.get('burn', 0))
            try:
                arr = generate_random_split(length=case['n'], seed=case['seed'],
                                            train_ratio=case['rt'][0] / case['rt'][1],
                                            val_ratio=case['rv'][0] / case['rv'][1], include_test=case['it'])
                outs.append({'ok': [int(v) for v in arr.tolist()]})
            except Exception:
                outs.append('raises')
    finally:
        np.random.set_state(state)
    if any(o != outs[0] for o in outs[1:]):
        findings.append((0, 'the result depends on the prior state of the global numpy generator', outs[0], outs[1:]))
    return outs[0], findings


def ref_split(case, num=None):
    """what the property's text requires: the multiset (counts by exact floor) or 'raises'"""
    num = num or {'train': 0, 'val': 1, 'test': 2}
    n, it = case['n'], case['it']
    rt, rv = Fraction(*case['rt']), Fraction(*case['rv'])
    if rt <= 0 or rv <= 0:
        return 'raises'
    if it:
        if not rt + rv < 1:
            return 'raises'
        t, v = (n * rt).__floor__(), (n * rv).__floor__()
        return {'counts': {num['train']: t, num['val']: v, num['test']: n - t - v}}
    if rt + rv != 1:
        return 'raises'
    t = (n * rt).__floor__()
    return {'counts': {num['train']: t, num['val']: n - t, num['test']: 0}}

"""Shared by C14 / C15: building the real torch_frame layers in float64 with random parameters, exporting
their state_dict as IEEE-754 bit patterns for the Lean drivers, decoding replies, tolerant comparison."""
from __future__ import annotations

import math
import struct
import warnings

from harness import core

_ready = False


def setup():
    """import torch_frame from the repository under test; float64 everywhere; no fused fast path."""
    global _ready
    core.ensure_repo_import()
    import torch
    if not _ready:
        warnings.filterwarnings('ignore')
        torch.set_num_threads(1)
        try:
            torch.backends.mha.set_fastpath_enabled(False)   # the fused kernel rounds differently
        except Exception:
            pass
        _ready = True
    return torch


# ------------------------------------------------------------------ float <-> bits

def bits(x):
    return struct.unpack('<Q', struct.pack('<d', float(x)))[0]


def unbits(n):
    return struct.unpack('<d', struct.pack('<Q', int(n)))[0]


def enc(t):
    """tensor / nested list of floats -> nested list of bit patterns"""
    if hasattr(t, 'tolist'):
        t = t.detach().double().tolist()
    if isinstance(t, list):
        return [enc(v) for v in t]
    return bits(t)


def dec(j):
    if isinstance(j, list):
        return [dec(v) for v in j]
    return unbits(j)


def tol_equal(a, b, rel=1e-9, abs_=1e-12):
    """structural equality of nested float lists with rel/abs tolerance"""
    if isinstance(a, list) or isinstance(b, list):
        if not (isinstance(a, list) and isinstance(b, list)) or len(a) != len(b):
            return False
        return all(tol_equal(x, y, rel, abs_) for x, y in zip(a, b))
    if isinstance(a, dict) or isinstance(b, dict):
        if not (isinstance(a, dict) and isinstance(b, dict)) or a.keys() != b.keys():
            return False
        return all(tol_equal(a[k], b[k], rel, abs_) for k in a)
    if isinstance(a, float) or isinstance(b, float):
        if not (isinstance(a, (int, float)) and isinstance(b, (int, float))):
            return False
        if math.isnan(a) or math.isnan(b):
            return False
        return abs(a - b) <= abs_ + rel * max(abs(a), abs(b))
    return a == b


def max_dev(a, b):
    """max |a-b| over two tensors of equal shape (inf if shapes differ / non-finite)"""
    import torch
    if tuple(a.shape) != tuple(b.shape):
        return float('inf')
    if a.numel() == 0:
        return 0.0
    d = (a - b).abs().max().item()
    return d if math.isfinite(d) else float('inf')


# ------------------------------------------------------------------ parameters

def randomize(module, seed):
    """generic random parameters and buffers (so that no symmetry of the default initialisation - zero
    biases, unit LayerNorm weights, tiny CLS/prompt embeddings, zero running mean - can hide a defect)."""
    import torch
    g = torch.Generator().manual_seed(seed)
    norms = (torch.nn.LayerNorm, torch.nn.BatchNorm1d, torch.nn.GroupNorm)

    def rn(p):
        return torch.randn(p.shape, generator=g, dtype=torch.float64).to(p.dtype)
    with torch.no_grad():
        for mod in module.modules():
            for name, p in mod.named_parameters(recurse=False):
                if p.dim() >= 2:
                    p.copy_(rn(p) / math.sqrt(max(p.shape[-1], 1)))
                elif isinstance(mod, norms) and name == 'weight':
                    p.copy_(1.0 + 0.3 * rn(p))
                elif isinstance(mod, torch.nn.PReLU):
                    p.copy_(0.25 + 0.1 * rn(p))
                else:
                    p.copy_(0.4 * rn(p))
            for name, b in mod.named_buffers(recurse=False):
                if name == 'running_mean':
                    b.copy_(0.5 * rn(b))
                elif name == 'running_var':
                    b.copy_(0.5 + torch.rand(b.shape, generator=g, dtype=torch.float64).to(b.dtype))
    return module


def randomize_backbone(model, seed):
    """generic random parameters for everything behind the stype-wise encoder(s) of a zoo model (the
    encoders keep their own initialisation: their contracts are C12/C13's subject)"""
    import torch
    g = torch.Generator().manual_seed(seed)
    for i, (name, child) in enumerate(model.named_children()):
        if 'encoder' in name.lower() and 'decoder' not in name.lower():
            continue
        randomize(child, seed + 101 * (i + 1))
    with torch.no_grad():
        for name, p in model.named_parameters(recurse=False):
            p.copy_(0.4 * torch.randn(p.shape, generator=g, dtype=torch.float64).to(p.dtype))
    return model


def lin(m):
    return {'w': enc(m.weight), 'b': None if m.bias is None else enc(m.bias)}


def ln(m):
    return {'w': enc(m.weight), 'b': enc(m.bias), 'eps': bits(m.eps)}


def bn(m):
    return {'w': enc(m.weight), 'b': enc(m.bias), 'rm': enc(m.running_mean), 'rv': enc(m.running_var),
            'eps': bits(m.eps)}


def mha(m):
    return {'inW': enc(m.in_proj_weight), 'inB': enc(m.in_proj_bias), 'out': lin(m.out_proj), 'heads': m.num_heads}


def telayer(m):
    return {'attn': mha(m.self_attn), 'lin1': lin(m.linear1), 'lin2': lin(m.linear2),
            'norm1': ln(m.norm1), 'norm2': ln(m.norm2)}


def ftconvs(m):
    return {'layers': [telayer(l) for l in m.transformer.layers], 'norm': ln(m.transformer.norm),
            'cls': enc(m.cls_embedding)}


def tabtconv(m):
    a = m.attn
    return {'norm1': ln(m.norm_1),
            'attn': {'q': lin(a.lin_q), 'k': lin(a.lin_k), 'v': lin(a.lin_v), 'out': lin(a.lin_out),
                     'heads': a.num_heads},
            'ffn': {'lin1': lin(m.ffn.lin_1), 'lin2': lin(m.ffn.lin_2)}}


def excelconv(m):
    d = m.DiaM
    return {'norm1': ln(m.norm_1), 'norm2': ln(m.norm_2),
            'diam': {'q': lin(d.lin_q), 'k': lin(d.lin_k), 'v': lin(d.lin_v),
                     'out': None if d.lin_out is None else lin(d.lin_out), 'heads': d.num_heads,
                     'seqIds': [int(v) for v in d.seq_ids.tolist()]},
            'aium': {'lin1': lin(m.AiuM.lin_1), 'lin2': lin(m.AiuM.lin_2)}}


def tromptconv(m):
    return {'embCol': enc(m.embedding_column), 'embPrompt': enc(m.embedding_prompt), 'lin': lin(m.lin),
            'weight': enc(m.weight), 'groups': m.group_norm.num_groups, 'gnW': enc(m.group_norm.weight),
            'gnB': enc(m.group_norm.bias), 'gnEps': bits(m.group_norm.eps),
            'lnCol': ln(m.layer_norm_e_column), 'lnPrompt': ln(m.layer_norm_e_prompt),
            'channels': m.channels, 'numCols': m.num_cols, 'numPrompts': m.num_prompts}


def exceldec(m):
    return {'linF': lin(m.lin_f), 'act': bits(m.activation.weight.item()), 'linD': lin(m.lin_d),
            'inChannels': m.in_channels, 'outChannels': m.out_channels}


def tromptdec(m):
    return {'linAttn': lin(m.lin_attn), 'lin1': lin(m.mlp[0]), 'norm': ln(m.mlp[2]), 'lin2': lin(m.mlp[3]),
            'inChannels': m.in_channels, 'numPrompts': m.num_prompts}


# ------------------------------------------------------------------ batches

def gen_idx(rng, base, tier='quick'):
    """a batch composition over `base` rows: subset / permutation / duplicates / singleton / empty / all"""
    kind = rng.choice(['perm', 'dups', 'subset', 'single', 'empty', 'all', 'dups', 'perm', 'subset', 'dups'])
    if base == 0:
        return 'empty', []
    if kind == 'perm':
        idx = list(range(base))
        rng.shuffle(idx)
    elif kind == 'dups':
        idx = [rng.randrange(base) for _ in range(rng.randint(2, base + 3))]
    elif kind == 'subset':
        idx = sorted(rng.sample(range(base), rng.randint(1, base)))
    elif kind == 'single':
        idx = [rng.randrange(base)]
    elif kind == 'empty':
        idx = []
    else:
        idx = list(range(base))
    return kind, idx


def randn(shape, seed, scale=1.0):
    import torch
    g = torch.Generator().manual_seed(seed)
    return scale * torch.randn(shape, generator=g, dtype=torch.float64)

"""C18 helper: abstract columns for every family of the stype decision table, rendering to pandas, metamorphic
variants (row permutation, index relabelling, added missing cells), the driver encoding, and a plain-Python
statement of the decision table (Counter based; independent of the Lean model) used by the oracle.

Abstract column:
  {'t': 'float' | 'int' | 'bool', 'dtype': pandas dtype name, 'cells': [number | 'inf' | '-inf' | None]}
  {'t': 'datetime', 'cells': [epoch seconds | None]}
  {'t': 'object', 'dtype': 'object' | 'str', 'parses': bool, 'cells': [None | {'s': str} | {'l': [elem]} | {'o': int}]}
      elem: float | int | True/False | 'nan' | 'inf' | '-inf' | {'s': str} | None
The `parses` bit (does pd.to_datetime accept the values for one of the candidate formats) is known **by
construction**: date-formatted strings -> True, words from a vocabulary no date parser accepts -> False.
"""
import datetime
import random
from collections import Counter

from harness import core

WORDS = ['red', 'blue', 'green', 'cyan', 'pink', 'grey', 'olive', 'teal', 'été', '日本', 'x1q', 'Lorem ipsum', 'foo bar',
         'q', 'zz']
# hardening round: case pairs, prefixes, a trailing NUL (none of them is accepted by a date parser, checked on the live
# pandas by `extra_checks`)
WORDS += ['w', 'W', 'sports', 'sportswear', 'label', 'label_prev', 'red\x00', 'Zeta', 'alpha']
# sentinel look-alikes: some of them ARE accepted by pandas' date parser on their own ('nan', '', 'NaT'), so they only
# ever appear next to a word of WORDS in the same column (then no format accepts the column)
LOOKALIKES = ['-1', 'nan', 'None', '<NA>', '0', '-1.0', '0.5', 'NaT', 'True', 'null']
TOKS = ['aa', 'bb', 'cc', 'dd', 'ee', 'ff', 'gg', 'a\x00', 'AA', '-1', 'aab']
TIME_FORMATS = ['%Y-%m-%d %H:%M:%S', '%Y-%m-%d', '%Y/%m/%d']
# further spellings the format-less candidate (ISO 8601 inference) accepts: 'T' separator, sub-second part, UTC offset
TIME_FORMATS_EXTRA = ['%Y-%m-%dT%H:%M:%S', '%Y-%m-%d %H:%M:%S.%f', '%Y-%m-%d %H:%M:%S%z']
STR_DTYPES = ['object', 'str', 'object', 'str', 'string']
F64_ONLY = [0.1, 1.0 / 3.0, 2.0 ** 24 + 1, 1700000001.0, 1e39, -1e39, 1.7e308, 5e-324]      # stress.SPECIAL_F64
F32_EDGE = [-1.0, 0.5, 2.0 ** 24 + 2, 3.0e38, -3.0e38, 1e-38]
EPOCH = datetime.datetime(1970, 1, 1)
THRESH = 4


# --------------------------------------------------------------------------- families

def _counts_boundary(rng, k):
    """k value multiplicities with the minimum on one side of the 4/5 boundary"""
    m = rng.choice([1, 3, 4, 4, 5, 5, 6])
    cs = [m] + [rng.choice([m, m + 1, m + 3, 9]) for _ in range(k - 1)]
    rng.shuffle(cs)
    return cs


def fam_float(rng):
    n = rng.randint(1, 14)
    dtype = rng.choice(['float64', 'float64', 'float64', 'float32', 'Float64'])
    pool = [0.5, 1.5, -2.25, 3.75, 1e6 + 0.5, 2.5, 7.125, -1.0] + ([0.1] if dtype != 'float32' else [])
    if rng.random() < .25:
        pool = pool + F32_EDGE + (F64_ONLY if dtype != 'float32' else [])
    cells = [rng.choice(pool) for _ in range(n)]
    if rng.random() < .3:
        cells = [None if rng.random() < .2 else c for c in cells]
    if rng.random() < .15 and dtype != 'Float64':
        cells[rng.randrange(n)] = rng.choice(['inf', '-inf'])
    if all(c is None for c in cells):
        cells[0] = 0.5
    return {'t': 'float', 'dtype': dtype, 'cells': cells}, 'float'


def fam_float_integral(rng):
    """integral float values, with / without a missing cell, counts around the boundary"""
    k = rng.randint(1, 4)
    vals = rng.sample([0.0, 1.0, 2.0, 3.0, 10.0, -1.0, 2.0 ** 24, 1e15], k)
    cells = [v for v, c in zip(vals, _counts_boundary(rng, k)) for _ in range(c)]
    if rng.random() < .6:
        cells += [None] * rng.randint(1, 3)
    dtype = rng.choice(['float64', 'float64', 'float32', 'Float64'])
    if rng.random() < .15:
        cells.append(rng.choice([0.5, 'inf'] if dtype != 'Float64' else [0.5]))
    rng.shuffle(cells)
    return {'t': 'float', 'dtype': dtype, 'cells': cells}, 'float_integral'


def fam_int(rng):
    k = rng.randint(1, 4)
    dtype = rng.choice(['int64', 'int64', 'Int64', 'int32', 'int64', 'Int64', 'int8', 'int16', 'uint8', 'UInt8', 'Int32', 'Int16'])
    vals = rng.sample(range(0, 15) if dtype in ('uint8', 'UInt8') else range(-3, 12), k)
    if dtype in ('int64', 'Int64') and rng.random() < .2:
        vals[0] = rng.choice([2 ** 24 + 1, 2 ** 31 + 7, -2 ** 40, 2 ** 53 - 1])      # still exact as a double
    cells = [v for v, c in zip(vals, _counts_boundary(rng, k)) for _ in range(c)]
    if dtype[0] in 'IU' and rng.random() < .7:
        cells += [None] * rng.randint(1, 3)
    rng.shuffle(cells)
    return {'t': 'int', 'dtype': dtype, 'cells': cells}, 'int'


def fam_bool(rng):
    n = rng.randint(1, 8)
    cells = [rng.random() < .5 for _ in range(n)]
    dtype = rng.choice(['bool', 'boolean'])
    if dtype == 'boolean' and rng.random() < .6:
        cells += [None]
    rng.shuffle(cells)
    return {'t': 'bool', 'dtype': dtype, 'cells': cells}, 'bool'


def fam_str_cat(rng):
    """whole strings repeated; minimum multiplicity on both sides of the boundary"""
    k = rng.randint(1, 4)
    vals = rng.sample(WORDS, k)
    if rng.random() < .25:       # sentinel look-alikes as further categories (next to >= 1 word no date parser accepts)
        vals += rng.sample(LOOKALIKES, rng.randint(1, 2))
        k = len(vals)
    cells = [{'s': v} for v, c in zip(vals, _counts_boundary(rng, k)) for _ in range(c)]
    rng.shuffle(cells)
    return {'t': 'object', 'dtype': rng.choice(STR_DTYPES), 'parses': False, 'cells': cells}, 'str_cat'


def fam_multicat(rng):
    """delimiter-joined tokens: whole strings rare (spelling variants), token multiplicity around the boundary"""
    sep = rng.choice(['|', ',', '|', ','])
    k = rng.randint(2, 5)
    toks = rng.sample(TOKS, k)
    fill = toks[:2]
    rows = []
    for t, c in zip(toks, _counts_boundary(rng, k)):
        for _ in range(c):
            others = [f for f in fill if f != t and rng.random() < .6]
            parts = [t] + others
            rng.shuffle(parts)
            if rng.random() < .3:
                parts = parts + [parts[0]]                      # repeated token inside a cell
            parts = [rng.choice(['', ' ']) + p + rng.choice(['', ' ', '  ']) for p in parts]
            rows.append(sep.join(parts))
    if rng.random() < .2:
        rows.append(rng.choice(['', ' ']))                      # a blank cell: no tokens
    rng.shuffle(rows)
    return {'t': 'object', 'dtype': rng.choice(STR_DTYPES), 'parses': False,
            'cells': [{'s': r} for r in rows]}, 'multicat_sep'


def fam_text(rng):
    n = rng.randint(1, 12)
    words = ['alpha', 'beta', 'gamma', 'delta', 'kappa', 'sigma', 'omega', 'zeta', 'theta', 'lambda']
    cells = [{'s': ' '.join(rng.choice(words) for _ in range(rng.randint(2, 6))) + f' #{i}'} for i in range(n)]
    if rng.random() < .3:
        cells += [dict(c) for c in rng.sample(cells, min(len(cells), 2))]
    return {'t': 'object', 'dtype': rng.choice(STR_DTYPES), 'parses': False, 'cells': cells}, 'text'


def _rand_time(rng, fmt):
    d = datetime.datetime(rng.randint(1900, 2100), rng.randint(1, 12), rng.randint(1, 28), rng.randint(0, 23),
                          rng.randint(0, 59), rng.randint(0, 59))
    if fmt != '%Y-%m-%d %H:%M:%S':
        d = d.replace(hour=0, minute=0, second=0)
    return d


def _strftime(d, fmt):
    if '%z' in fmt:
        d = d.replace(tzinfo=datetime.timezone(datetime.timedelta(hours=2)))
    if '%f' in fmt:
        d = d.replace(microsecond=(d.second * 16661 + 123) % 1000000)
    return d.strftime(fmt)


def fam_time_str(rng, n=None, distinct=None):
    fmt = rng.choice(TIME_FORMATS + TIME_FORMATS + TIME_FORMATS_EXTRA)
    n = rng.randint(1, 12) if n is None else n
    base = [_rand_time(rng, fmt) for _ in range(rng.randint(1, n) if distinct is None else distinct)]
    base = [_strftime(d, fmt) for d in base]
    cells = [{'s': rng.choice(base)} for _ in range(n)]     # repeats: would be categorical otherwise
    return {'t': 'object', 'dtype': rng.choice(STR_DTYPES), 'parses': True, 'cells': cells, 'fmt': fmt}, 'time_str'


def fam_datetime(rng):
    n = rng.randint(1, 10)
    cells = [int((_rand_time(rng, '%Y-%m-%d %H:%M:%S') - EPOCH).total_seconds()) for _ in range(n)]
    if rng.random() < .4:
        cells += [None] * rng.randint(1, 2)
    rng.shuffle(cells)
    col = {'t': 'datetime', 'dtype': 'datetime64', 'cells': cells}
    r = rng.random()
    if r < .25:
        col['tz'] = rng.choice(['UTC', 'Europe/Berlin', 'Asia/Kolkata', 'America/St_Johns'])     # datetime64[ns, tz]
    elif r < .45:
        col['unit'] = rng.choice(['s', 'ms', 'us'])
    if rng.random() < .3 and col.get('unit') != 's':
        col['frac'] = True                                                               # sub-second timestamps
    return col, 'datetime64'


def _flt_elem(rng):
    if rng.random() < .12:       # finite doubles at the edges: not representable in / overflowing float32, sentinel-like
        return rng.choice(F64_ONLY + F32_EDGE)
    return rng.choice([0.5, 1.0, -2.0, 3.25, 1e-3, 100.0])


def fam_list(rng):
    kind = rng.choice(['emb', 'emb', 'ragged', 'nan', 'ints', 'mixed_num', 'bools', 'strs', 'strs', 'str_num', 'all_empty',
                       'empty_and_str', 'empty_and_float', 'none_elem', 'emb_one'])
    n = rng.randint(1, 8)
    w = rng.randint(1, 4)
    if kind == 'emb':
        cells = [[_flt_elem(rng) for _ in range(w)] for _ in range(n)]
    elif kind == 'emb_one':
        cells = [[_flt_elem(rng) for _ in range(w)]]
    elif kind == 'ragged':
        cells = [[_flt_elem(rng) for _ in range(w)] for _ in range(n)] + [[_flt_elem(rng) for _ in range(w + 1)]]
    elif kind == 'nan':
        cells = [[_flt_elem(rng) for _ in range(w)] for _ in range(n)]
        cells[rng.randrange(n)][rng.randrange(w)] = rng.choice(['nan', 'inf', '-inf'])
    elif kind == 'ints':
        cells = [[rng.randint(-3, 3) for _ in range(w)] for _ in range(n)]
    elif kind == 'mixed_num':
        cells = [[_flt_elem(rng) for _ in range(w)] for _ in range(n)]
        cells[rng.randrange(n)][rng.randrange(w)] = rng.randint(0, 5)
    elif kind == 'bools':
        cells = [[rng.random() < .5 for _ in range(w)] for _ in range(n)]
    elif kind == 'strs':
        cells = [[{'s': rng.choice(TOKS)} for _ in range(rng.randint(0, 3))] for _ in range(n)] + [[{'s': 'aa'}]]
    elif kind == 'str_num':
        cells = [[{'s': 'aa'}, 1.5]] + [[{'s': rng.choice(TOKS)}] for _ in range(n - 1)]
    elif kind == 'all_empty':
        cells = [[] for _ in range(n)]
    elif kind == 'empty_and_str':
        cells = [[], [{'s': 'aa'}, {'s': 'bb'}]] + [[] for _ in range(n - 1)]
    elif kind == 'empty_and_float':
        cells = [[], [1.5, 2.5]] + [[1.0, 2.0] for _ in range(n - 1)]
    else:  # none_elem
        cells = [[_flt_elem(rng), None]] + [[_flt_elem(rng)] for _ in range(n - 1)]
    rng.shuffle(cells)
    cells = [{'l': c} for c in cells]
    if rng.random() < .3:
        cells.insert(rng.randrange(len(cells) + 1), None)
    col = {'t': 'object', 'dtype': 'object', 'parses': False, 'cells': cells}
    if rng.random() < .15:
        col['npf'] = True        # the float elements are numpy.float64 objects (a subclass of float)
    return col, f'list_{kind}'


def fam_all_missing(rng):
    n = rng.randint(0, 5)
    t = rng.choice(['float', 'object', 'object_str', 'datetime'])
    if t == 'float':
        return {'t': 'float', 'dtype': 'float64', 'cells': [None] * n}, 'all_missing'
    if t == 'datetime':
        return {'t': 'datetime', 'dtype': 'datetime64', 'cells': [None] * n}, 'all_missing'
    return {'t': 'object', 'dtype': 'str' if t == 'object_str' else 'object', 'parses': False, 'cells': [None] * n}, 'all_missing'


def fam_hetero(rng):
    """list first, another kind of cell later: the list branch returns None (documented by the code only)"""
    cells = [{'l': [1.5, 2.5]}] + [{'l': [0.5, 1.0]} for _ in range(rng.randint(0, 3))] + [{'s': 'red'}]
    return {'t': 'object', 'dtype': 'object', 'parses': False, 'cells': cells}, 'hetero_list_first'


def fam_other_objects(rng):
    """hashable non-string objects (tuples): not a string dtype -> embedding unless frequent enough"""
    k = rng.randint(1, 3)
    cells = [{'o': v} for v, c in zip(range(k), _counts_boundary(rng, k)) for _ in range(c)]
    rng.shuffle(cells)
    return {'t': 'object', 'dtype': 'object', 'parses': False, 'cells': cells}, 'other_objects'


FAMILIES = [fam_float, fam_float_integral, fam_float_integral, fam_int, fam_int, fam_bool, fam_str_cat, fam_str_cat,
            fam_multicat, fam_multicat, fam_multicat, fam_text, fam_time_str, fam_datetime, fam_list, fam_list, fam_list,
            fam_all_missing, fam_hetero, fam_other_objects]


def gen_column(rng):
    col, fam = rng.choice(FAMILIES)(rng)
    return col, fam


def volume(case):
    if case['kind'] == 'frame':
        return sum(len(c['col']['cells']) for c in case['cols']) * 2
    cells = case['col']['cells']
    per = 1
    for c in cells[:3]:
        if isinstance(c, dict) and 'l' in c:
            per = max(per, len(c['l']))
        if isinstance(c, dict) and 's' in c:
            per = max(per, len(c['s']) // 8)
    return len(cells) * per * 4


def gen_case(rng, level=0, scale=True):
    if scale and rng.random() < .025:
        return gen_scale_case(rng, level)
    if rng.random() < .12:
        k = rng.randint(1, 5)
        cols = []
        n = rng.randint(3, 12)
        for i in range(k):
            col, fam = gen_column(rng)
            col = resize(col, n, rng)
            cols.append({'name': f'c{i}_{fam}', 'col': col})
        rng.shuffle(cols)
        return {'kind': 'frame', 'family': 'frame', 'cols': cols, 'labels': rng.choice([None, 'offset', 'dup', 'str'])}
    col, fam = gen_column(rng)
    return {'kind': 'series', 'family': fam, 'col': col, 'perm_seed': rng.randint(0, 10 ** 6),
            'labels': rng.choice(['offset', 'perm', 'dup', 'str', 'neg', 'float', 'datetime']),
            'missing_seed': rng.randint(0, 10 ** 6),
            'n_missing': rng.randint(1, 3)}


def resize(col, n, rng):
    """bring a column to exactly n rows (frames need equal lengths): pad with missing cells / truncate"""
    cells = list(col['cells'])
    if len(cells) > n:
        cells = cells[:n]
    while len(cells) < n:
        cells.append(None)
    c = dict(col)
    strs = [x['s'] for x in cells if isinstance(x, dict) and 's' in x]
    if c['t'] == 'object' and not c.get('parses') and strs and all(x in ('nan', 'NaT') for x in strs):
        # truncation left only look-alikes pandas' date parser accepts: keep the column's construction bit valid
        cells[[i for i, x in enumerate(cells) if isinstance(x, dict) and 's' in x][0]] = {'s': 'red'}
    if c['t'] == 'int' and any(x is None for x in cells) and c['dtype'][0] not in 'IU':
        c['dtype'] = 'Int64'
    if c['t'] == 'bool' and any(x is None for x in cells):
        c['dtype'] = 'boolean'
    c['cells'] = cells
    return c


# --------------------------------------------------------------------------- scale (harness/stress.py ladder)

def _positions(n):
    """where the one cell that decides the column may sit: first, second, middle, around typical probe / chunk
    sizes, last"""
    return sorted({p for p in (0, 1, n // 2, 63, 64, 999, 1000, 1001, 1023, 1024, 2047, 2048, 4096, 16384, 32768,
                               n - 2, n - 1) if 0 <= p < n})


def _spread(rng, vals, n):
    """n cells over the values, every value at least n // len(vals) times, shuffled"""
    cells = [vals[i % len(vals)] for i in range(n)]
    rng.shuffle(cells)
    return cells


def big_column(rng, n, deviant=None):
    """a column of n rows of one family whose type is decided either by all cells alike or by ONE deviant cell at a
    chosen position; every count stays clear of the 4/5 boundary unless the deviant brings it there"""
    fam = rng.choice(['int', 'float_integral', 'float', 'str_cat', 'str_cat', 'time_str', 'time_str', 'time_str',
                      'multicat', 'text', 'list_emb', 'list_emb', 'list_strs', 'list_ints', 'datetime', 'bool'])
    deviant = rng.random() < .6 if deviant is None else deviant
    pos = rng.choice(_positions(n))
    k = rng.randint(1, max(1, min(6, n // 6)))
    if fam == 'int':
        cells = _spread(rng, rng.sample(range(-3, 40), k), n)
        if deviant:
            cells[pos] = 99
        col = {'t': 'int', 'dtype': rng.choice(['int64', 'int32', 'Int64', 'int16']), 'cells': cells}
    elif fam == 'float_integral':
        cells = _spread(rng, rng.sample([0.0, 1.0, 2.0, 3.0, 10.0, -1.0, 7.0], k), n) + [None]
        if deviant:
            cells[pos] = rng.choice([0.5, 55.0])
        col = {'t': 'float', 'dtype': rng.choice(['float64', 'float32', 'Float64']), 'cells': cells}
    elif fam == 'float':
        cells = [rng.choice([0.5, 1.5, -2.25, 1e39, 5e-324, -1.0, 2.0 ** 24 + 1]) for _ in range(n)]
        if deviant:
            cells[pos] = None
        col = {'t': 'float', 'dtype': 'float64', 'cells': cells}
    elif fam == 'str_cat':
        cells = [{'s': v} for v in _spread(rng, rng.sample(WORDS, k), n)]
        if deviant:
            cells[pos] = {'s': rng.choice(LOOKALIKES + ['rare word'])}
        col = {'t': 'object', 'dtype': rng.choice(STR_DTYPES), 'parses': False, 'cells': cells}
    elif fam == 'time_str':
        col, _ = fam_time_str(rng, n=n, distinct=rng.randint(1, 40))
        if deviant:     # one value no candidate format accepts: the column is not a date column
            col['cells'][pos] = {'s': rng.choice(['Lorem ipsum', 'x1q', 'red', 'foo bar'])}
            col['parses'] = False
    elif fam == 'multicat':
        sep = rng.choice(['|', ','])
        toks = rng.sample(TOKS, rng.randint(2, 5))
        rows = []
        for i in range(n):
            parts = rng.sample(toks, rng.randint(1, len(toks)))
            rows.append(sep.join(rng.choice(['', ' ']) + p for p in parts) + f'{sep}z{i % 7}')
        cells = [{'s': r} for r in rows]
        if deviant:
            cells[pos] = {'s': f'once{sep}{toks[0]}'}
        col = {'t': 'object', 'dtype': rng.choice(STR_DTYPES), 'parses': False, 'cells': cells}
    elif fam == 'text':
        d = n if n <= 2100 else 1000
        cells = [{'s': f'free text number {i % d} of the column'} for i in range(n)]
        col = {'t': 'object', 'dtype': rng.choice(STR_DTYPES), 'parses': False, 'cells': cells}
    elif fam in ('list_emb', 'list_strs', 'list_ints'):
        w = rng.randint(1, 4)
        if fam == 'list_emb':
            cells = [{'l': [_flt_elem(rng) for _ in range(w)]} for _ in range(n)]
            if deviant:
                cells[pos] = {'l': rng.choice([[0.5] * (w + 1), [0.5] * (w - 1) + ['nan'], [0.5] * (w - 1) + ['inf'],
                                               [0.5] * (w - 1) + [1], [1e39] * w, [-1.7e308] * w, [{'s': 'aa'}] * w])}
        elif fam == 'list_strs':
            cells = [{'l': [{'s': rng.choice(TOKS)} for _ in range(rng.randint(0, 3))]} for _ in range(n)]
            if deviant:
                cells[pos] = {'l': [{'s': 'aa'}, 1.5]}
        else:
            cells = [{'l': [rng.randint(-3, 3) for _ in range(w)]} for _ in range(n)]
            if deviant:
                cells[pos] = {'l': [{'s': 'aa'}]}
        if rng.random() < .5:       # the first cell stays a list (else the early return decides, not the deviant)
            cells.insert(rng.randrange(1, len(cells) + 1), None)
        col = {'t': 'object', 'dtype': 'object', 'parses': False, 'cells': cells}
    elif fam == 'datetime':
        cells = [int(rng.randint(-2 * 10 ** 9, 4 * 10 ** 9)) for _ in range(n)]
        if deviant:
            cells[pos] = None
        col = {'t': 'datetime', 'dtype': 'datetime64', 'cells': cells}
        if rng.random() < .4:
            col['tz'] = 'Europe/Berlin'
    else:
        cells = [rng.random() < .5 for _ in range(n)]
        col = {'t': 'bool', 'dtype': 'bool', 'cells': cells}
    return col, f'big_{fam}' + ('_deviant' if deviant and fam not in ('text', 'bool') else '')


def distinct_values(col):
    return len({repr(c) for c in col['cells'] if c is not None})


def gen_scale_case(rng, level):
    from harness import stress
    dim = rng.choice(['rows'] * 6 + ['cardinality', 'width', 'cell', 'tokens', 'frame-cols'])
    base = {'perm_seed': rng.randint(0, 10 ** 6), 'labels': rng.choice(['offset', 'perm', 'dup', 'str', 'neg', 'float']),
            'missing_seed': rng.randint(0, 10 ** 6), 'n_missing': rng.randint(1, 3), 'scale': dim}
    if dim == 'rows':
        col, fam = big_column(rng, stress.pick_size(rng, level, 65537))
    elif dim == 'cardinality':        # many categories, every one of them frequent enough (or exactly one of them not)
        d = stress.pick_size(rng, level, 16385)
        per = rng.choice([5, 5, 6])
        t = rng.choice(['int', 'str'])
        vals = [(i - 3 if t == 'int' else {'s': f'v{i}'}) for i in range(d) for _ in range(per)]
        rng.shuffle(vals)
        fam = f'big_cardinality_{t}'
        if rng.random() < .5:
            vals = vals[:-1]          # one category drops to 4 (or stays at 5): the boundary at scale
            fam += '_one_short'
        col = ({'t': 'int', 'dtype': 'int64', 'cells': vals} if t == 'int' else
               {'t': 'object', 'dtype': rng.choice(STR_DTYPES), 'parses': False, 'cells': vals})
    elif dim == 'width':              # embedding dimension / sequence length
        w = stress.pick_size(rng, level, 16385)
        n = rng.randint(1, 6)
        cells = [{'l': [_flt_elem(rng) for _ in range(w)]} for _ in range(n)]
        fam = 'wide_list_emb'
        r = rng.random()
        if r < .3:
            cells[rng.randrange(n)]['l'][rng.choice([0, w // 2, w - 1])] = rng.choice(['nan', 'inf', 1, 1e39])
            fam = 'wide_list_deviant'
        elif r < .45:
            cells.append({'l': [0.5] * (w - 1)})
            fam = 'wide_list_ragged'
        col = {'t': 'object', 'dtype': 'object', 'parses': False, 'cells': cells}
    elif dim == 'cell':               # long strings
        L = stress.pick_size(rng, level, 65537)
        k = rng.randint(1, 3)
        vals = [('long text %d ' % i) * (L // 12 + 1) for i in range(k)]
        per = rng.choice([4, 5, 6])
        cells = [{'s': v[:L]} for v in vals for _ in range(per)]
        rng.shuffle(cells)
        col, fam = {'t': 'object', 'dtype': rng.choice(STR_DTYPES), 'parses': False, 'cells': cells}, 'long_strings'
    elif dim == 'tokens':             # many tokens in one cell / many distinct tokens
        m = stress.pick_size(rng, level, 4097)
        sep = rng.choice(['|', ','])
        toks = [f't{i}' for i in range(m)]
        per = rng.choice([4, 5, 6])
        rows = [sep.join(rng.sample(toks, len(toks))) + f'{sep}r{i}' for i in range(per)]
        col, fam = {'t': 'object', 'dtype': rng.choice(STR_DTYPES), 'parses': False, 'cells': [{'s': r} for r in rows]}, 'many_tokens'
    else:
        m = stress.pick_size(rng, level, 1025)
        n = rng.randint(3, 12)
        cols = []
        for i in range(m):
            c, fam = gen_column(rng)
            cols.append({'name': rng.choice(['c', 'C', 'label', 'label_prev', 'w', 'W']) + f'{i}_{fam}', 'col': resize(c, n, rng)})
        rng.shuffle(cols)
        return {'kind': 'frame', 'family': 'frame', 'cols': cols, 'labels': rng.choice([None, 'offset', 'dup', 'str']),
                'scale': dim}
    case = dict(base, kind='series', family=fam, col=col)
    n, d = len(col['cells']), distinct_values(col)
    if n * d > 6_000_000:
        case['oracle_only'] = True       # the model's value counting is quadratic: judged by the direct oracle alone
    return case


# --------------------------------------------------------------------------- metamorphic variants

def permuted(col, seed):
    r = random.Random(seed)
    c = dict(col)
    cells = list(col['cells'])
    r.shuffle(cells)
    c['cells'] = cells
    return c


def with_missing(col, seed, k):
    r = random.Random(seed)
    c = dict(col)
    cells = list(col['cells'])
    for _ in range(k):
        cells.insert(r.randrange(len(cells) + 1), None)
    c['cells'] = cells
    if c['t'] == 'int' and c['dtype'][0] not in 'IU':
        c['dtype'] = 'Int64'
    if c['t'] == 'bool':
        c['dtype'] = 'boolean'
    return c


def is_homogeneous(col):
    if col['t'] != 'object':
        return True
    kinds = {('l' if 'l' in c else 'x') for c in col['cells'] if c is not None}
    return len(kinds) <= 1


def labels_for(n, kind, seed=0):
    r = random.Random(seed)
    if kind is None or n == 0:
        return None
    if kind == 'offset':
        return list(range(100, 100 + n))
    if kind == 'perm':
        p = list(range(n))
        r.shuffle(p)
        return p
    if kind == 'dup':
        return [r.randint(0, 1) for _ in range(n)]
    if kind == 'neg':
        return [-(i + 1) for i in range(n)]
    if kind == 'float':
        return [0.5 * i - 1.0 for i in range(n)]
    if kind == 'datetime':
        return [EPOCH + datetime.timedelta(days=(i * 7) % 11) for i in range(n)]
    return [f'k{r.randint(0, 3)}' for _ in range(n)]


# --------------------------------------------------------------------------- rendering

def _num(c):
    if c is None:
        return float('nan')
    if c == 'inf':
        return float('inf')
    if c == '-inf':
        return float('-inf')
    if c == 'nan':
        return float('nan')
    return c


def _elem(e):
    if isinstance(e, dict):
        return e['s']
    if isinstance(e, str):
        return _num(e)
    return e            # float, int, bool, None


def render(col, labels=None):
    import numpy as np
    import pandas as pd
    t = col['t']
    cells = col['cells']
    if t == 'float':
        if col.get('dtype') == 'Float64':       # pandas nullable float: a missing cell is pd.NA
            return pd.Series([None if c is None else float(_num(c)) for c in cells], dtype='Float64', index=labels)
        return pd.Series([float(_num(c)) for c in cells], dtype=col.get('dtype', 'float64'), index=labels)
    if t == 'int':
        if col['dtype'][0] in 'IU':             # pandas nullable integers
            return pd.Series(list(cells), dtype=col['dtype'], index=labels)
        return pd.Series([int(c) for c in cells], dtype=col['dtype'], index=labels)
    if t == 'bool':
        if col['dtype'] == 'boolean':
            return pd.Series(list(cells), dtype='boolean', index=labels)
        return pd.Series([bool(c) for c in cells], dtype='bool', index=labels)
    if t == 'datetime':
        us = 123456 if col.get('frac') else 0
        vals = [np.datetime64('NaT') if c is None else np.datetime64(EPOCH + datetime.timedelta(seconds=c, microseconds=us))
                for c in cells]
        ser = pd.Series(np.array(vals, dtype=f"datetime64[{col.get('unit', 'ns')}]"), index=labels)
        if col.get('tz'):
            ser = ser.dt.tz_localize('UTC').dt.tz_convert(col['tz'])
        return ser
    vals = []
    for c in cells:
        if c is None:
            vals.append(None)
        elif 's' in c:
            vals.append(c['s'])
        elif 'l' in c:
            lst = [_elem(e) for e in c['l']]
            if col.get('npf'):
                lst = [np.float64(e) if isinstance(e, float) else e for e in lst]
            vals.append(lst)
        else:
            vals.append((c['o'], 'tag'))
    if col['dtype'] in ('str', 'string'):
        return pd.Series(vals, dtype=col['dtype'], index=labels)
    ser = pd.Series(vals, dtype=object, index=labels)
    return ser


# --------------------------------------------------------------------------- driver encoding

def encode(col):
    t = col['t']
    if t in ('float', 'int', 'bool'):
        return {'t': t, 'cells': [None if c is None else core.float_bits(float(_num(c))) for c in col['cells']]}
    if t == 'datetime':
        return {'t': 'datetime', 'cells': list(col['cells'])}
    cells = []
    for c in col['cells']:
        if c is None:
            cells.append(None)
        elif 's' in c:
            cells.append({'s': c['s']})
        elif 'l' in c:
            out = []
            for e in c['l']:
                if isinstance(e, dict):
                    out.append('s')
                elif isinstance(e, bool) or (isinstance(e, int)):
                    out.append('i')
                elif isinstance(e, float):
                    out.append('f')
                elif isinstance(e, str):
                    out.append('n')
                else:
                    out.append('o')
            cells.append({'l': out})
        else:
            cells.append({'o': c['o']})
    return {'t': 'object', 'parses': bool(col['parses']), 'cells': cells}


# --------------------------------------------------------------------------- the decision table in plain Python

def _min_count_gt(values):
    """every distinct value occurs at least 5 times (and there is a value)"""
    cnt = Counter(values)
    return bool(cnt) and min(cnt.values()) > THRESH


def expected(col):
    """the inferred stype (name or None) according to the property's decision table"""
    t = col['t']
    vals = [c for c in col['cells'] if c is not None]
    if not vals:
        return None
    if t == 'bool':
        return 'categorical'
    if t == 'datetime':
        return 'timestamp'
    if t == 'int':
        return 'categorical' if _min_count_gt(vals) else 'numerical'
    if t == 'float':
        has_missing = len(vals) < len(col['cells'])
        integral = all(not isinstance(v, str) and float(v).is_integer() for v in vals)
        if has_missing and integral:        # an integer column widened to float by the missing cell
            return 'categorical' if _min_count_gt(vals) else 'numerical'
        return 'numerical'
    # object / str
    if 'l' in vals[0]:
        if any('l' not in v for v in vals):
            return None
        ls = [v['l'] for v in vals]
        is_num = lambda e: isinstance(e, (int, float)) or e in ('nan', 'inf', '-inf')
        is_flt = lambda e: (isinstance(e, float) and not isinstance(e, bool)) or e in ('nan', 'inf', '-inf')
        if all(all(is_num(e) for e in l) for l in ls):
            if (all(all(is_flt(e) and not isinstance(e, str) for e in l) for l in ls)
                    and len({len(l) for l in ls}) == 1):
                return 'embedding'
            return 'sequence_numerical'
        if all(all(isinstance(e, dict) for e in l) for l in ls):
            return 'multicategorical'
        return None
    if col['parses']:
        return 'timestamp'
    keys = [('s', v['s']) if 's' in v else ('o', v.get('o')) if 'o' in v else ('l', id(v)) for v in vals]
    if _min_count_gt(keys):
        return 'categorical'
    if any('s' not in v for v in vals):
        return 'embedding'
    best = False
    first_blank = None
    for sep in ['|', ',']:
        toks = []
        for v in vals:
            row = v['s']
            if row.strip() == '':
                continue
            toks += list({p.strip() for p in row.split(sep)})
        if first_blank is None:
            first_blank = not toks
        best = best or _min_count_gt(toks)
    return 'multicategorical' if (best and not first_blank) else 'text_embedded'


# --------------------------------------------------------------------------- real code

def fingerprint(ser):
    """dtype, index labels and every cell of a series (list cells by content)"""
    return (str(ser.dtype), repr(ser.index.tolist()), repr(ser.tolist()))


def infer_real(col, labels=None, purity=None):
    """purity: a list that receives 'mutated' / 'unstable' when the call changed its input series or a second call
    on the same series object answers differently"""
    import logging
    import warnings
    from torch_frame.utils.infer_stype import infer_series_stype
    with warnings.catch_warnings():
        warnings.simplefilter('ignore')
        logging.disable(logging.CRITICAL)
        try:
            ser = render(col, labels)
            before = fingerprint(ser) if purity is not None else None
            r = infer_series_stype(ser)
            if purity is not None:
                if fingerprint(ser) != before:
                    purity.append('mutated')
                if infer_series_stype(ser) != r:
                    purity.append('unstable')
            return None if r is None else r.value
        except Exception as e:  # noqa
            return f'raises:{type(e).__name__}'
        finally:
            logging.disable(logging.NOTSET)


def infer_frame_real(cols, labels_kind, purity=None):
    import logging
    import warnings
    import pandas as pd
    from torch_frame.utils.infer_stype import infer_df_stype
    n = len(cols[0]['col']['cells']) if cols else 0
    labels = labels_for(n, labels_kind, 1)
    with warnings.catch_warnings():
        warnings.simplefilter('ignore')
        logging.disable(logging.CRITICAL)
        try:
            df = pd.DataFrame({c['name']: render(c['col'], labels) for c in cols})
            before = [fingerprint(df[c]) for c in df.columns] if purity is not None else None
            r = infer_df_stype(df)
            if purity is not None and [fingerprint(df[c]) for c in df.columns] != before:
                purity.append('mutated')
            return [[k, v.value] for k, v in r.items()]
        except Exception as e:  # noqa
            return f'raises:{type(e).__name__}'
        finally:
            logging.disable(logging.NOTSET)

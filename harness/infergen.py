"""C18 helper: abstract columns for every family of the stype decision table, rendering to pandas, metamorphic
variants (row permutation, index relabelling, added missing cells), the driver encoding, and a plain-Python
statement of the decision table (Counter based; independent of the Lean model) used by the oracle.

Abstract column:
  {'t': 'float' | 'int' | 'bool', 'dtype': pandas dtype name, 'cells': [number | 'inf' | '-inf' | None]}
  {'t': 'datetime', 'cells': [epoch seconds | None]}
  {'t': 'object', 'dtype': 'object' | 'str', 'parses': bool, 'cells': [None | {'s': str} | {'l': [elem]} | {'o': int}]}
      elem: float | int | True/False | 'nan' | 'inf' | '-inf' | {'s': str} | None
The `parses` bit (does pd.to_datetime accept the values for one of the candidate formats) is known **by
construction**: date-formatted strings -> True, words from a vocabulary no date parser accepts -> False.
"""
import datetime
import random
from collections import Counter

from harness import core

WORDS = ['red', 'blue', 'green', 'cyan', 'pink', 'grey', 'olive', 'teal', 'été', '日本', 'x1q', 'Lorem ipsum', 'foo bar',
         'q', 'zz']
TOKS = ['aa', 'bb', 'cc', 'dd', 'ee', 'ff', 'gg']
TIME_FORMATS = ['%Y-%m-%d %H:%M:%S', '%Y-%m-%d', '%Y/%m/%d']
EPOCH = datetime.datetime(1970, 1, 1)
THRESH = 4


# --------------------------------------------------------------------------- families

def _counts_boundary(rng, k):
    """k value multiplicities with the minimum on one side of the 4/5 boundary"""
    m = rng.choice([1, 3, 4, 4, 5, 5, 6])
    cs = [m] + [rng.choice([m, m + 1, m + 3, 9]) for _ in range(k - 1)]
    rng.shuffle(cs)
    return cs


def fam_float(rng):
    n = rng.randint(1, 14)
    pool = [0.5, 1.5, -2.25, 3.75, 1e6 + 0.5, 0.1, 2.5, 7.125]
    cells = [rng.choice(pool) for _ in range(n)]
    if rng.random() < .3:
        cells = [None if rng.random() < .2 else c for c in cells]
    if rng.random() < .15:
        cells[rng.randrange(n)] = rng.choice(['inf', '-inf'])
    if all(c is None for c in cells):
        cells[0] = 0.5
    return {'t': 'float', 'dtype': 'float64', 'cells': cells}, 'float'


def fam_float_integral(rng):
    """integral float values, with / without a missing cell, counts around the boundary"""
    k = rng.randint(1, 4)
    vals = rng.sample([0.0, 1.0, 2.0, 3.0, 10.0, -1.0], k)
    cells = [v for v, c in zip(vals, _counts_boundary(rng, k)) for _ in range(c)]
    if rng.random() < .6:
        cells += [None] * rng.randint(1, 3)
    if rng.random() < .15:
        cells.append(rng.choice([0.5, 'inf']))
    rng.shuffle(cells)
    return {'t': 'float', 'dtype': 'float64', 'cells': cells}, 'float_integral'


def fam_int(rng):
    k = rng.randint(1, 4)
    vals = rng.sample(range(-3, 12), k)
    cells = [v for v, c in zip(vals, _counts_boundary(rng, k)) for _ in range(c)]
    dtype = rng.choice(['int64', 'int64', 'Int64', 'int32'])
    if dtype == 'Int64' and rng.random() < .7:
        cells += [None] * rng.randint(1, 3)
    rng.shuffle(cells)
    return {'t': 'int', 'dtype': dtype, 'cells': cells}, 'int'


def fam_bool(rng):
    n = rng.randint(1, 8)
    cells = [rng.random() < .5 for _ in range(n)]
    dtype = rng.choice(['bool', 'boolean'])
    if dtype == 'boolean' and rng.random() < .6:
        cells += [None]
    rng.shuffle(cells)
    return {'t': 'bool', 'dtype': dtype, 'cells': cells}, 'bool'


def fam_str_cat(rng):
    """whole strings repeated; minimum multiplicity on both sides of the boundary"""
    k = rng.randint(1, 4)
    vals = rng.sample(WORDS, k)
    cells = [{'s': v} for v, c in zip(vals, _counts_boundary(rng, k)) for _ in range(c)]
    rng.shuffle(cells)
    return {'t': 'object', 'dtype': rng.choice(['object', 'str']), 'parses': False, 'cells': cells}, 'str_cat'


def fam_multicat(rng):
    """delimiter-joined tokens: whole strings rare (spelling variants), token multiplicity around the boundary"""
    sep = rng.choice(['|', ',', '|', ','])
    k = rng.randint(2, 5)
    toks = rng.sample(TOKS, k)
    fill = toks[:2]
    rows = []
    for t, c in zip(toks, _counts_boundary(rng, k)):
        for _ in range(c):
            others = [f for f in fill if f != t and rng.random() < .6]
            parts = [t] + others
            rng.shuffle(parts)
            if rng.random() < .3:
                parts = parts + [parts[0]]                      # repeated token inside a cell
            parts = [rng.choice(['', ' ']) + p + rng.choice(['', ' ', '  ']) for p in parts]
            rows.append(sep.join(parts))
    if rng.random() < .2:
        rows.append(rng.choice(['', ' ']))                      # a blank cell: no tokens
    rng.shuffle(rows)
    return {'t': 'object', 'dtype': rng.choice(['object', 'str']), 'parses': False,
            'cells': [{'s': r} for r in rows]}, 'multicat_sep'


def fam_text(rng):
    n = rng.randint(1, 12)
    words = ['alpha', 'beta', 'gamma', 'delta', 'kappa', 'sigma', 'omega', 'zeta', 'theta', 'lambda']
    cells = [{'s': ' '.join(rng.choice(words) for _ in range(rng.randint(2, 6))) + f' #{i}'} for i in range(n)]
    if rng.random() < .3:
        cells += [dict(c) for c in rng.sample(cells, min(len(cells), 2))]
    return {'t': 'object', 'dtype': rng.choice(['object', 'str']), 'parses': False, 'cells': cells}, 'text'


def _rand_time(rng, fmt):
    d = datetime.datetime(rng.randint(1900, 2100), rng.randint(1, 12), rng.randint(1, 28), rng.randint(0, 23),
                          rng.randint(0, 59), rng.randint(0, 59))
    if fmt != '%Y-%m-%d %H:%M:%S':
        d = d.replace(hour=0, minute=0, second=0)
    return d


def fam_time_str(rng):
    fmt = rng.choice(TIME_FORMATS)
    n = rng.randint(1, 12)
    base = [_rand_time(rng, fmt) for _ in range(rng.randint(1, n))]
    cells = [{'s': rng.choice(base).strftime(fmt)} for _ in range(n)]     # repeats: would be categorical otherwise
    return {'t': 'object', 'dtype': rng.choice(['object', 'str']), 'parses': True, 'cells': cells, 'fmt': fmt}, 'time_str'


def fam_datetime(rng):
    n = rng.randint(1, 10)
    cells = [int((_rand_time(rng, '%Y-%m-%d %H:%M:%S') - EPOCH).total_seconds()) for _ in range(n)]
    if rng.random() < .4:
        cells += [None] * rng.randint(1, 2)
    rng.shuffle(cells)
    return {'t': 'datetime', 'dtype': 'datetime64', 'cells': cells}, 'datetime64'


def _flt_elem(rng):
    return rng.choice([0.5, 1.0, -2.0, 3.25, 1e-3, 100.0])


def fam_list(rng):
    kind = rng.choice(['emb', 'emb', 'ragged', 'nan', 'ints', 'mixed_num', 'bools', 'strs', 'strs', 'str_num', 'all_empty',
                       'empty_and_str', 'empty_and_float', 'none_elem', 'emb_one'])
    n = rng.randint(1, 8)
    w = rng.randint(1, 4)
    if kind == 'emb':
        cells = [[_flt_elem(rng) for _ in range(w)] for _ in range(n)]
    elif kind == 'emb_one':
        cells = [[_flt_elem(rng) for _ in range(w)]]
    elif kind == 'ragged':
        cells = [[_flt_elem(rng) for _ in range(w)] for _ in range(n)] + [[_flt_elem(rng) for _ in range(w + 1)]]
    elif kind == 'nan':
        cells = [[_flt_elem(rng) for _ in range(w)] for _ in range(n)]
        cells[rng.randrange(n)][rng.randrange(w)] = rng.choice(['nan', 'inf', '-inf'])
    elif kind == 'ints':
        cells = [[rng.randint(-3, 3) for _ in range(w)] for _ in range(n)]
    elif kind == 'mixed_num':
        cells = [[_flt_elem(rng) for _ in range(w)] for _ in range(n)]
        cells[rng.randrange(n)][rng.randrange(w)] = rng.randint(0, 5)
    elif kind == 'bools':
        cells = [[rng.random() < .5 for _ in range(w)] for _ in range(n)]
    elif kind == 'strs':
        cells = [[{'s': rng.choice(TOKS)} for _ in range(rng.randint(0, 3))] for _ in range(n)] + [[{'s': 'aa'}]]
    elif kind == 'str_num':
        cells = [[{'s': 'aa'}, 1.5]] + [[{'s': rng.choice(TOKS)}] for _ in range(n - 1)]
    elif kind == 'all_empty':
        cells = [[] for _ in range(n)]
    elif kind == 'empty_and_str':
        cells = [[], [{'s': 'aa'}, {'s': 'bb'}]] + [[] for _ in range(n - 1)]
    elif kind == 'empty_and_float':
        cells = [[], [1.5, 2.5]] + [[1.0, 2.0] for _ in range(n - 1)]
    else:  # none_elem
        cells = [[_flt_elem(rng), None]] + [[_flt_elem(rng)] for _ in range(n - 1)]
    rng.shuffle(cells)
    cells = [{'l': c} for c in cells]
    if rng.random() < .3:
        cells.insert(rng.randrange(len(cells) + 1), None)
    return {'t': 'object', 'dtype': 'object', 'parses': False, 'cells': cells}, f'list_{kind}'


def fam_all_missing(rng):
    n = rng.randint(0, 5)
    t = rng.choice(['float', 'object', 'object_str', 'datetime'])
    if t == 'float':
        return {'t': 'float', 'dtype': 'float64', 'cells': [None] * n}, 'all_missing'
    if t == 'datetime':
        return {'t': 'datetime', 'dtype': 'datetime64', 'cells': [None] * n}, 'all_missing'
    return {'t': 'object', 'dtype': 'str' if t == 'object_str' else 'object', 'parses': False, 'cells': [None] * n}, 'all_missing'


def fam_hetero(rng):
    """list first, another kind of cell later: the list branch returns None (documented by the code only)"""
    cells = [{'l': [1.5, 2.5]}] + [{'l': [0.5, 1.0]} for _ in range(rng.randint(0, 3))] + [{'s': 'red'}]
    return {'t': 'object', 'dtype': 'object', 'parses': False, 'cells': cells}, 'hetero_list_first'


def fam_other_objects(rng):
    """hashable non-string objects (tuples): not a string dtype -> embedding unless frequent enough"""
    k = rng.randint(1, 3)
    cells = [{'o': v} for v, c in zip(range(k), _counts_boundary(rng, k)) for _ in range(c)]
    rng.shuffle(cells)
    return {'t': 'object', 'dtype': 'object', 'parses': False, 'cells': cells}, 'other_objects'


FAMILIES = [fam_float, fam_float_integral, fam_float_integral, fam_int, fam_int, fam_bool, fam_str_cat, fam_str_cat,
            fam_multicat, fam_multicat, fam_multicat, fam_text, fam_time_str, fam_datetime, fam_list, fam_list, fam_list,
            fam_all_missing, fam_hetero, fam_other_objects]


def gen_column(rng):
    col, fam = rng.choice(FAMILIES)(rng)
    return col, fam


def gen_case(rng):
    if rng.random() < .12:
        k = rng.randint(1, 5)
        cols = []
        n = rng.randint(3, 12)
        for i in range(k):
            col, fam = gen_column(rng)
            col = resize(col, n, rng)
            cols.append({'name': f'c{i}_{fam}', 'col': col})
        rng.shuffle(cols)
        return {'kind': 'frame', 'family': 'frame', 'cols': cols, 'labels': rng.choice([None, 'offset', 'dup', 'str'])}
    col, fam = gen_column(rng)
    return {'kind': 'series', 'family': fam, 'col': col, 'perm_seed': rng.randint(0, 10 ** 6),
            'labels': rng.choice(['offset', 'perm', 'dup', 'str']), 'missing_seed': rng.randint(0, 10 ** 6),
            'n_missing': rng.randint(1, 3)}


def resize(col, n, rng):
    """bring a column to exactly n rows (frames need equal lengths): pad with missing cells / truncate"""
    cells = list(col['cells'])
    if len(cells) > n:
        cells = cells[:n]
    while len(cells) < n:
        cells.append(None)
    c = dict(col)
    if c['t'] == 'int' and any(x is None for x in cells):
        c['dtype'] = 'Int64'
    if c['t'] == 'bool' and any(x is None for x in cells):
        c['dtype'] = 'boolean'
    c['cells'] = cells
    return c


# --------------------------------------------------------------------------- metamorphic variants

def permuted(col, seed):
    r = random.Random(seed)
    c = dict(col)
    cells = list(col['cells'])
    r.shuffle(cells)
    c['cells'] = cells
    return c


def with_missing(col, seed, k):
    r = random.Random(seed)
    c = dict(col)
    cells = list(col['cells'])
    for _ in range(k):
        cells.insert(r.randrange(len(cells) + 1), None)
    c['cells'] = cells
    if c['t'] == 'int':
        c['dtype'] = 'Int64'
    if c['t'] == 'bool':
        c['dtype'] = 'boolean'
    return c


def is_homogeneous(col):
    if col['t'] != 'object':
        return True
    kinds = {('l' if 'l' in c else 'x') for c in col['cells'] if c is not None}
    return len(kinds) <= 1


def labels_for(n, kind, seed=0):
    r = random.Random(seed)
    if kind is None or n == 0:
        return None
    if kind == 'offset':
        return list(range(100, 100 + n))
    if kind == 'perm':
        p = list(range(n))
        r.shuffle(p)
        return p
    if kind == 'dup':
        return [r.randint(0, 1) for _ in range(n)]
    return [f'k{r.randint(0, 3)}' for _ in range(n)]


# --------------------------------------------------------------------------- rendering

def _num(c):
    if c is None:
        return float('nan')
    if c == 'inf':
        return float('inf')
    if c == '-inf':
        return float('-inf')
    if c == 'nan':
        return float('nan')
    return c


def _elem(e):
    if isinstance(e, dict):
        return e['s']
    if isinstance(e, str):
        return _num(e)
    return e            # float, int, bool, None


def render(col, labels=None):
    import numpy as np
    import pandas as pd
    t = col['t']
    cells = col['cells']
    if t == 'float':
        return pd.Series([float(_num(c)) for c in cells], dtype='float64', index=labels)
    if t == 'int':
        if col['dtype'] == 'Int64':
            return pd.Series(list(cells), dtype='Int64', index=labels)
        return pd.Series([int(c) for c in cells], dtype=col['dtype'], index=labels)
    if t == 'bool':
        if col['dtype'] == 'boolean':
            return pd.Series(list(cells), dtype='boolean', index=labels)
        return pd.Series([bool(c) for c in cells], dtype='bool', index=labels)
    if t == 'datetime':
        vals = [np.datetime64('NaT') if c is None else np.datetime64(EPOCH + datetime.timedelta(seconds=c)) for c in cells]
        return pd.Series(np.array(vals, dtype='datetime64[ns]'), index=labels)
    vals = []
    for c in cells:
        if c is None:
            vals.append(None)
        elif 's' in c:
            vals.append(c['s'])
        elif 'l' in c:
            vals.append([_elem(e) for e in c['l']])
        else:
            vals.append((c['o'], 'tag'))
    if col['dtype'] == 'str':
        return pd.Series(vals, dtype='str', index=labels)
    ser = pd.Series(vals, dtype=object, index=labels)
    return ser


# --------------------------------------------------------------------------- driver encoding

def encode(col):
    t = col['t']
    if t in ('float', 'int', 'bool'):
        return {'t': t, 'cells': [None if c is None else core.float_bits(float(_num(c))) for c in col['cells']]}
    if t == 'datetime':
        return {'t': 'datetime', 'cells': list(col['cells'])}
    cells = []
    for c in col['cells']:
        if c is None:
            cells.append(None)
        elif 's' in c:
            cells.append({'s': c['s']})
        elif 'l' in c:
            out = []
            for e in c['l']:
                if isinstance(e, dict):
                    out.append('s')
                elif isinstance(e, bool) or (isinstance(e, int)):
                    out.append('i')
                elif isinstance(e, float):
                    out.append('f')
                elif isinstance(e, str):
                    out.append('n')
                else:
                    out.append('o')
            cells.append({'l': out})
        else:
            cells.append({'o': c['o']})
    return {'t': 'object', 'parses': bool(col['parses']), 'cells': cells}


# --------------------------------------------------------------------------- the decision table in plain Python

def _min_count_gt(values):
    """every distinct value occurs at least 5 times (and there is a value)"""
    cnt = Counter(values)
    return bool(cnt) and min(cnt.values()) > THRESH


def expected(col):
    """the inferred stype (name or None) according to the property's decision table"""
    t = col['t']
    vals = [c for c in col['cells'] if c is not None]
    if not vals:
        return None
    if t == 'bool':
        return 'categorical'
    if t == 'datetime':
        return 'timestamp'
    if t == 'int':
        return 'categorical' if _min_count_gt(vals) else 'numerical'
    if t == 'float':
        has_missing = len(vals) < len(col['cells'])
        integral = all(not isinstance(v, str) and float(v).is_integer() for v in vals)
        if has_missing and integral:        # an integer column widened to float by the missing cell
            return 'categorical' if _min_count_gt(vals) else 'numerical'
        return 'numerical'
    # object / str
    if 'l' in vals[0]:
        if any('l' not in v for v in vals):
            return None
        ls = [v['l'] for v in vals]
        is_num = lambda e: isinstance(e, (int, float)) or e in ('nan', 'inf', '-inf')
        is_flt = lambda e: (isinstance(e, float) and not isinstance(e, bool)) or e in ('nan', 'inf', '-inf')
        if all(all(is_num(e) for e in l) for l in ls):
            if (all(all(is_flt(e) and not isinstance(e, str) for e in l) for l in ls)
                    and len({len(l) for l in ls}) == 1):
                return 'embedding'
            return 'sequence_numerical'
        if all(all(isinstance(e, dict) for e in l) for l in ls):
            return 'multicategorical'
        return None
    if col['parses']:
        return 'timestamp'
    keys = [('s', v['s']) if 's' in v else ('o', v.get('o')) if 'o' in v else ('l', id(v)) for v in vals]
    if _min_count_gt(keys):
        return 'categorical'
    if any('s' not in v for v in vals):
        return 'embedding'
    best = False
    first_blank = None
    for sep in ['|', ',']:
        toks = []
        for v in vals:
            row = v['s']
            if row.strip() == '':
                continue
            toks += list({p.strip() for p in row.split(sep)})
        if first_blank is None:
            first_blank = not toks
        best = best or _min_count_gt(toks)
    return 'multicategorical' if (best and not first_blank) else 'text_embedded'


# --------------------------------------------------------------------------- real code

def infer_real(col, labels=None):
    import logging
    import warnings
    from torch_frame.utils.infer_stype import infer_series_stype
    with warnings.catch_warnings():
        warnings.simplefilter('ignore')
        logging.disable(logging.CRITICAL)
        try:
            r = infer_series_stype(render(col, labels))
            return None if r is None else r.value
        except Exception as e:  # noqa
            return f'raises:{type(e).__name__}'
        finally:
            logging.disable(logging.NOTSET)


def infer_frame_real(cols, labels_kind):
    import logging
    import warnings
    import pandas as pd
    from torch_frame.utils.infer_stype import infer_df_stype
    n = len(cols[0]['col']['cells']) if cols else 0
    labels = labels_for(n, labels_kind, 1)
    with warnings.catch_warnings():
        warnings.simplefilter('ignore')
        logging.disable(logging.CRITICAL)
        try:
            df = pd.DataFrame({c['name']: render(c['col'], labels) for c in cols})
            r = infer_df_stype(df)
            return [[k, v.value] for k, v in r.items()]
        except Exception as e:  # noqa
            return f'raises:{type(e).__name__}'
        finally:
            logging.disable(logging.NOTSET)

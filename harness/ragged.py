"""Generators, adapters and the direct oracle for the two ragged containers (C05, C06, C07).

Hardening round: besides the small random containers this module produces
  * containers at scale (`gen_cells_scaled`: many rows, many columns, long cells, >= 16 385 / 32 769 values gathered
    by one selection - always with empty cells, all-empty rows and zero-width columns mixed in),
  * payloads of every dtype the containers accept (int64, int32, float32, float64) with sentinel look-alikes and
    edge magnitudes (+-inf, -0.0, 2^24+2, values not representable in float32 ...) coded as model integers >= 100,
  * index tensors of dtype int64 / int32, as non-contiguous views, and - the aliasing family - the SAME tensor
    object used on both axes / in several steps of a program (`share`), with the caller's tensor compared with
    its original content afterwards,
  * structured long index lists (runs, reversed runs, strides, constants, sorted with duplicates, permutations)
    with a few interior entries disturbed, so that a fast path recognised by a cheap test on the end points is
    exercised with an input that only looks like its precondition.

Third round: the spelling family (`real_apply`: select / index_select / narrow / __getitem__, axis as 0 / 1 or -3 / -2,
positional or keyword arguments, direct narrow(dim, start, length) calls), the caller's ONE mutable list object refilled
and re-used as index (`buf` / `prebuf`), and the vectorised `tall` family (2^17+1 .. 2^20+1001 rows or columns, symbolic
long indices, direct oracle only) at the end of this module.
"""
from __future__ import annotations

import math
import struct

import numpy as np
import torch

from torch_frame.data import MultiEmbeddingTensor as MET
from torch_frame.data import MultiNestedTensor as MNT

from harness import stress

MISSING = -1   # model-side code of a missing entry (int payload: -1 itself; float payload: NaN)


# ------------------------------------------------------------------ payload coding
# A cell entry is a model integer ("code").  int payloads: the code is the stored integer.  float payloads:
# code -1 = NaN (missing), small codes v = the value v/2, codes >= SPECIAL_BASE = an entry of the special table.
_DTYPES = {'int': torch.long, 'int32': torch.int32, 'float': torch.float32, 'float64': torch.float64}
PAYLOADS = tuple(_DTYPES)
SPECIAL_BASE = 100


def is_int(payload):
    return payload in ('int', 'int32')


def _fbits(x):
    return struct.unpack('<Q', struct.pack('<d', float(x)))[0]


_PLAIN_BITS = {_fbits(k * 0.5) for k in range(-40, 41) if k != -1}
# specials that are exact in float32 first, then the float64-only ones
_SPEC32 = [float(np.float32(x)) for x in stress.SPECIAL_F32 if _fbits(float(np.float32(x))) not in _PLAIN_BITS]
_SPEC64 = [x for x in stress.SPECIAL_F64 if _fbits(x) not in _PLAIN_BITS]
_SPECIALS = {'float': _SPEC32, 'float64': _SPEC32 + _SPEC64}
_REV = {p: {_fbits(x): SPECIAL_BASE + k for k, x in enumerate(xs)} for p, xs in _SPECIALS.items()}
# integer sentinel look-alikes / edge magnitudes (stored literally)
_INT_SPECIALS = {'int32': [-2, -7, 2 ** 24 + 1, 2 ** 31 - 1, -2 ** 31],
                 'int': [-2, -7, 2 ** 24 + 1, 2 ** 31 - 1, -2 ** 31, 2 ** 31, 2 ** 53 + 1, -2 ** 40, 2 ** 62]}


def special_codes(payload):
    """codes of the sentinel look-alikes / edge magnitudes that are legal non-missing entries for this payload"""
    if is_int(payload):
        return list(_INT_SPECIALS[payload])
    return [-2] + [SPECIAL_BASE + k for k in range(len(_SPECIALS[payload]))]      # -2 = the value -1.0


def enc(v, payload):
    if is_int(payload):
        return int(v)
    if v == MISSING:
        return float('nan')
    if v >= SPECIAL_BASE:
        return _SPECIALS[payload][v - SPECIAL_BASE]
    return v * 0.5


def dec(x, payload):
    """inverse of `enc`; a value no code stands for is returned as a 'raw:...' string (never equal to a code)"""
    if is_int(payload):
        return int(x)
    if math.isnan(x):
        return MISSING
    c = _REV[payload].get(_fbits(x))
    if c is not None:
        return c
    y = x * 2
    if _fbits(x) in _PLAIN_BITS and y == round(y):
        return int(y)
    return 'raw:' + repr(x)


def dtype_of(payload):
    return _DTYPES[payload]


# ------------------------------------------------------------------ generation
def _value_gen(rng, payload):
    """entry generator of one container: plain small codes, or (30% of the containers that know their payload)
    a pool that also holds the sentinel look-alikes / edge magnitudes of the payload"""
    if payload is not None and rng.random() < .3:
        sp = special_codes(payload)
        return (lambda: rng.choice(sp) if rng.random() < .3 else rng.randint(-1, 9)), True
    return (lambda: rng.randint(-1, 9)), False


def gen_cells(rng, kind, R=None, C=None, payload=None):
    R = rng.choice([0, 1, 1, 2, 3, 4, 5, 6]) if R is None else R
    C = rng.choice([0, 1, 1, 2, 3, 4, 5]) if C is None else C
    val, special = _value_gen(rng, payload)
    if kind == 'mnt':
        mode = rng.choice(['mixed', 'mixed', 'mixed', 'allempty', 'long'])
        def ln():
            if mode == 'allempty':
                return 0
            if mode == 'long':
                return rng.randint(0, 4)
            return rng.choice([0, 0, 1, 2, 3])
        cells = [[[val() for _ in range(ln())] for _ in range(C)] for _ in range(R)]
        out = {'kind': 'mnt', 'R': R, 'C': C, 'cells': cells}
    else:
        widths = [rng.choice([0, 1, 1, 2, 3]) if rng.random() < .15 else rng.choice([1, 1, 2, 3]) for _ in range(C)]
        cells = [[[val() for _ in range(w)] for w in widths] for _ in range(R)]
        out = {'kind': 'met', 'R': R, 'C': C, 'widths': widths, 'cells': cells}
    if special:
        out['special'] = True
    if payload is not None and rng.random() < .08:
        out['storage'] = 'strided'        # values / offset handed to the constructor as non-contiguous views
    return out


SHAPES = {'mnt': ['tall', 'tall', 'wide', 'longcells', 'heavy', 'heavy'],
          'met': ['tall', 'tall', 'wide', 'widecol', 'heavy']}


def heavy_total(rng, level):
    """number of values one gather has to move in a `heavy` container: just above the thresholds at which vectorised
    gathers switch algorithm (16 384, 32 768; thorough: also 65 536) - cheap to reach with a moderate number of rows"""
    return rng.choice(stress.LADDER_BIG[:2] if level < 2 else stress.LADDER_BIG) + rng.choice([0, 1, 2])


def gen_cells_scaled(rng, kind, level, payload=None, shape=None, R=None, C=None):
    """a container that is large in ONE of the sizes the properties quantify over (rows / columns / cell length /
    total gathered values), with the ingredients of the small cases kept: empty cells, all-empty rows (leading,
    interior, consecutive, trailing), zero-width columns, missing entries, special values"""
    shape = shape or rng.choice(SHAPES[kind])
    val, special = _value_gen(rng, payload)
    pe = rng.choice([.1, .3, .6])                      # probability of an empty cell
    R_, C_ = R, C                                      # sizes fixed by the caller (a feature of a frame)
    if kind == 'met' and shape == 'longcells':
        shape = 'widecol'
    if kind == 'mnt':
        if shape == 'tall':
            R, C = stress.pick_size(rng, level, 4099), rng.choice([1, 2, 3])
            mx = 3
        elif shape == 'wide':
            R, C = rng.choice([1, 2, 3, 5]), stress.pick_size(rng, level, 1027)
            mx = 3
        elif shape == 'longcells':
            R, C = rng.choice([1, 2, 3, 4]), rng.choice([1, 2, 3])
            mx = 3
        else:
            T = heavy_total(rng, level)
            R, C = rng.choice([65, 96, 140, 257]), rng.choice([1, 1, 2])
            mx = 3
        R, C = (R if R_ is None else R_), (C if C_ is None else C_)
        empty_rows = set()
        if R >= 3:
            for _ in range(rng.choice([0, 1, 2, 4])):
                a = rng.choice([0, R - 1, rng.randrange(R), rng.randrange(R)])
                for r in range(a, min(R, a + rng.choice([1, 1, 2, 5]))):
                    empty_rows.add(r)
        cells = [[[] if (r in empty_rows or rng.random() < pe) else [val() for _ in range(rng.randint(1, mx))]
                  for _ in range(C)] for r in range(R)]
        if shape == 'longcells' and R * C:
            for _ in range(rng.choice([1, 1, 2])):
                r, c = rng.randrange(R), rng.randrange(C)
                cells[r][c] = [val() for _ in range(stress.pick_size(rng, level, 4099))]
        if shape == 'heavy':
            # column 0 carries >= T values spread over the non-empty rows (other columns stay light)
            live = [r for r in range(R) if r not in empty_rows and rng.random() >= pe] or [R // 2]
            per = -(-T // len(live))
            left = T
            for r in live:
                n = min(left, rng.randint(max(per - per // 2, 1), per + per // 2)) if r != live[-1] else left
                cells[r][0] = [val() for _ in range(max(n, 0))]
                left -= max(n, 0)
            for r in range(R):
                if r not in live:
                    cells[r][0] = []
        out = {'kind': 'mnt', 'R': R, 'C': C, 'cells': cells}
    else:
        if shape == 'tall':
            R, C = stress.pick_size(rng, level, 4099), rng.choice([1, 2, 3])
            widths = [rng.choice([0, 1, 2, 3]) for _ in range(C)]
        elif shape == 'wide':
            R, C = rng.choice([0, 1, 2, 3]), stress.pick_size(rng, level, 1027)
            widths = [0 if rng.random() < pe / 2 else rng.choice([1, 1, 2, 3]) for _ in range(C)]
        elif shape == 'widecol':
            R, C = rng.choice([1, 2, 3]), rng.choice([1, 2, 3, 4])
            widths = [rng.choice([0, 1, 2]) for _ in range(C)]
            widths[rng.randrange(C)] = stress.pick_size(rng, level, 4099)
        else:
            T = heavy_total(rng, level)
            R, C = rng.choice([1, 1, 2]), rng.choice([3, 5, 9, 17])
            cuts = sorted(rng.randint(0, T) for _ in range(C - 1))
            widths = [b - a for a, b in zip([0] + cuts, cuts + [T])]
            for _ in range(rng.choice([1, 2])):             # zero-width columns between wide ones
                widths[rng.randrange(C)] = 0
            widths[rng.choice([0, C - 1])] += T - sum(widths)
        if R_ is not None:
            R = R_
        if C_ is not None and C_ != C:
            widths = (widths * C_)[:C_] if C_ > C else sorted(widths, reverse=True)[:C_]
            C = C_
        cells = [[[val() for _ in range(w)] for w in widths] for _ in range(R)]
        out = {'kind': 'met', 'R': R, 'C': C, 'widths': widths, 'cells': cells}
    out['shape'] = shape
    if special:
        out['special'] = True
    if payload is not None and rng.random() < .1:
        out['storage'] = 'strided'
    return out


def n_values(spec):
    return sum(len(c) for row in spec['cells'] for c in row)


def canonical_repr(spec):
    """the canonical storage (values, offset) of a cell grid, as plain ints (model-side container)"""
    R, C, cells = spec['R'], spec['C'], spec['cells']
    if spec['kind'] == 'mnt':
        values, offset = [], [0]
        for row in cells:
            for cell in row:
                values += cell
                offset.append(len(values))
        return {'R': R, 'C': C, 'values': values, 'offset': offset}
    widths = spec['widths']
    offset = [0]
    for w in widths:
        offset.append(offset[-1] + w)
    return {'R': R, 'C': C, 'W': offset[-1], 'values': [[v for cell in row for v in cell] for row in cells],
            'offset': offset}


def _strided(t, dim=0):
    """the same tensor as a non-contiguous view of a larger buffer (what a caller may legally hand over)"""
    if t.numel() == 0:
        return t
    junk = torch.full_like(t, 5)
    return torch.stack([t, junk], dim=t.dim())[..., 0]


def build_real(spec, payload):
    """construct the real container directly from canonical storage (works for R=0 / C=0 too)"""
    rep = canonical_repr(spec)
    dt = dtype_of(payload)
    view = spec.get('storage') == 'strided'
    off = torch.tensor(rep['offset'], dtype=torch.long)
    if spec['kind'] == 'mnt':
        vals = torch.tensor([enc(v, payload) for v in rep['values']], dtype=dt)
        if view:
            vals, off = _strided(vals), _strided(off)
        return MNT(rep['R'], rep['C'], vals, off)
    vals = torch.tensor([[enc(v, payload) for v in row] for row in rep['values']], dtype=dt).reshape(rep['R'], rep['W'])
    if view:
        vals, off = _strided(vals), _strided(off)
    return MET(rep['R'], rep['C'], vals, off)


def real_repr(m, payload):
    """(num_rows, num_cols, values, offset) of a real container in model coding"""
    if isinstance(m, MNT):
        return {'R': int(m.num_rows), 'C': int(m.num_cols),
                'values': [dec(x, payload) for x in m.values.tolist()] if m.values.dim() == 1 else 'bad-ndim',
                'offset': [int(x) for x in m.offset.tolist()]}
    if m.values.dim() != 2:
        return {'R': int(m.num_rows), 'C': int(m.num_cols), 'W': -1, 'values': 'bad-ndim',
                'offset': [int(x) for x in m.offset.tolist()]}
    return {'R': int(m.num_rows), 'C': int(m.num_cols), 'W': int(m.values.shape[1]),
            'values': [[dec(x, payload) for x in row] for row in m.values.tolist()],
            'offset': [int(x) for x in m.offset.tolist()]}


def well_formed(rep, kind):
    """the representation invariant WF of the Lean model, evaluated on a real container's repr"""
    off = rep['offset']
    if rep['values'] == 'bad-ndim' or not off or off[0] != 0 or any(a > b for a, b in zip(off, off[1:])):
        return False
    if kind == 'mnt':
        return len(off) == rep['R'] * rep['C'] + 1 and off[-1] == len(rep['values'])
    return (len(off) == rep['C'] + 1 and rep['W'] == off[-1] and len(rep['values']) == rep['R']
            and all(len(r) == rep['W'] for r in rep['values']))


def cells_of_repr(rep, kind):
    R, C, off = rep['R'], rep['C'], rep['offset']
    if kind == 'mnt':
        return [[rep['values'][off[r * C + c]:off[r * C + c + 1]] for c in range(C)] for r in range(R)]
    return [[rep['values'][r][off[c]:off[c + 1]] for c in range(C)] for r in range(R)]


def cells_via_api(m, payload):
    """read every cell through the public m[i, j]"""
    return [[[dec(x, payload) for x in m[i, j].tolist()] for j in range(m.num_cols)] for i in range(m.num_rows)]


def rnd_bound(rng, n):
    return rng.choice([None, None, 0, 1, n - 1, n, n + 1, n + 5, -1, -n, -n - 1, -n - 7, rng.randint(-3, n + 3)])


def gen_index(rng, n, allow_bad=True):
    k = rng.choice(['int', 'slice', 'slice', 'slice', 'list', 'range', 'tensor', 'mask'])
    bad = allow_bad and rng.random() < .12
    if k == 'int':
        if bad or n == 0:
            return {'t': 'int', 'i': rng.choice([n, -n - 1, n + 3, -n - 4])}
        return {'t': 'int', 'i': rng.choice([0, n - 1, -1, -n, rng.randint(-n, n - 1)])}
    if k == 'slice':
        step = rng.choice([0, -1, -2]) if bad else rng.choice([None, None, 1, 1, 2, 3])
        return {'t': 'slice', 'a': rnd_bound(rng, n), 'b': rnd_bound(rng, n), 's': step}
    if k in ('list', 'tensor'):
        ln = rng.choice([0, 1, 2, 3, 4, 6])
        if n == 0:
            is_ = [rng.choice([0, -1, 1]) for _ in range(ln)] if bad else []
        elif bad:
            is_ = [rng.randint(-n - 2, n + 1) for _ in range(max(ln, 1))]
        else:
            is_ = [rng.randint(-n, n - 1) for _ in range(ln)]
        return _decorate({'t': 'list', 'is': is_, 'as': k}, rng)
    if k == 'range':
        a, b, s = rng.randint(0, max(n, 1)), rng.randint(0, n + (2 if bad else 0)), rng.choice([1, 1, 2, 3, -1])
        if s == -1:
            a, b = rng.randint(-1, n - 1 + (2 if bad else 0)), rng.randint(-1, max(n - 1, 0))
        is_ = list(range(a, b, s))
        return {'t': 'list', 'is': is_, 'as': 'range', 'range': [a, b, s]}
    ln = n + rng.choice([1, -1, 2]) if bad else n
    ln = max(ln, 0)
    p = rng.choice([.1, .5, .5, .9])
    return {'t': 'mask', 'bs': [rng.random() < p for _ in range(ln)]}


def _decorate(ix, rng):
    """an index tensor may be int64 or int32 and may be a non-contiguous view of a larger tensor"""
    if ix.get('as') == 'tensor':
        if rng.random() < .3:
            ix['dt'] = 'int32'
        if rng.random() < .12:
            ix['view'] = True
    return ix


def _index_tensor(ix):
    if ix['t'] == 'mask':
        t = torch.tensor(ix['bs'], dtype=torch.bool)
    else:
        t = torch.tensor(ix['is'], dtype=torch.int32 if ix.get('dt') == 'int32' else torch.long)
    if ix.get('view') and t.numel():
        t = _strided(t)
    return t


def to_py_index(ix, shared=None):
    """the Python object handed to the real code.  `shared` (a dict owned by one program run) makes every index
    that carries the same `share` id the SAME tensor object."""
    t = ix['t']
    if t == 'sym':
        return sym_object(ix)
    if t == 'int':
        return ix['i']
    if t == 'slice':
        return slice(ix['a'], ix['b'], ix['s'])
    if t == 'list' and ix.get('as') == 'range':
        return range(*ix['range'])
    if t == 'list' and ix.get('as') != 'tensor':
        if ix.get('buf') is not None and shared is not None:
            # the caller's ONE mutable list object, refilled with the contents of this step
            buf = shared.setdefault(('buf', ix['buf']), [])
            buf[:] = ix['is']
            return buf
        return list(ix['is'])
    k = ix.get('share')
    if shared is None or k is None:
        return _index_tensor(ix)
    if k not in shared:
        shared[k] = (_index_tensor(ix), list(ix['bs'] if t == 'mask' else ix['is']))
    return shared[k][0]


def index_intact(obj, ix):
    """an index tensor handed to a selection still holds what the caller put into it"""
    if isinstance(obj, list):
        return obj == ix['is']
    if not isinstance(obj, torch.Tensor) or ix['t'] == 'sym':
        return True
    return obj.tolist() == (ix['bs'] if ix['t'] == 'mask' else ix['is'])


# ---- long structured index lists
def gen_big_index(rng, n, level=0, allow_bad=True, max_len=None):
    """an index expression for an axis of (possibly large) size n: long lists with structure (runs, reversed runs,
    strides, constants, sorted with duplicates, permutations), optionally with a few INTERIOR entries disturbed and
    some entries written negatively; long masks; slices around the end; ~6% illegal"""
    if n == 0:
        return gen_index(rng, n, allow_bad)
    bad = allow_bad and rng.random() < .06
    k = rng.choice(['list', 'list', 'list', 'tensor', 'tensor', 'tensor', 'slice', 'mask', 'range', 'int'])
    if k == 'int':
        return {'t': 'int', 'i': n + rng.choice([0, 3]) if bad else rng.choice([0, n - 1, -1, -n, rng.randint(-n, n - 1)])}
    if k == 'slice':
        a = rng.choice([None, 0, 1, n // 2, n - 1, -n + 1, -1, rng.randint(0, n)])
        b = rng.choice([None, n, n - 1, n + 5, -1, rng.randint(0, n)])
        st = rng.choice([0, -1]) if bad else rng.choice([None, 1, 2, 3, 64, max(n - 1, 1)])
        return {'t': 'slice', 'a': a, 'b': b, 's': st}
    if k == 'mask':
        mode = rng.choice(['p', 'p', 'p', 'all', 'none', 'hole', 'one'])
        if mode == 'p':
            q = rng.choice([.05, .5, .95])
            bs = [rng.random() < q for _ in range(n)]
        elif mode in ('all', 'hole'):
            bs = [True] * n
            if mode == 'hole':
                bs[rng.randrange(n)] = False
        else:
            bs = [False] * n
            if mode == 'one':
                bs[rng.randrange(n)] = True
        if bad:
            bs = bs + [True] if rng.random() < .5 else bs[:-1]
        ix = {'t': 'mask', 'bs': bs}
        return ix
    # ---- lists / tensors / ranges
    ln = rng.choice([n, n, max(n - 1, 1), n + 1, stress.pick_size(rng, level, 4099), rng.randint(1, n + 2)])
    if max_len is not None:
        ln = min(ln, max_len)      # heavy containers: repeating rows would multiply the gathered values
    pat = rng.choice(['run', 'run', 'identity', 'reversed', 'stride', 'constant', 'sorted', 'random', 'perm'])
    if k == 'range':
        pat = rng.choice(['run', 'identity', 'reversed', 'stride'])
    if pat == 'identity':
        ln = min(ln, n)
        is_, rg = list(range(ln)), [0, ln, 1]
    elif pat == 'run':
        ln = min(ln, n)
        a = rng.randint(0, n - ln)
        is_, rg = list(range(a, a + ln)), [a, a + ln, 1]
    elif pat == 'reversed':
        ln = min(ln, n)
        a = rng.randint(0, n - ln)
        is_, rg = list(range(a + ln - 1, a - 1, -1)), [a + ln - 1, a - 1, -1]
    elif pat == 'stride':
        st = rng.choice([2, 3, 7])
        a = rng.randint(0, min(st, n - 1))
        is_, rg = list(range(a, n, st)), [a, n, st]
    elif pat == 'constant':
        is_, rg = [rng.randrange(n)] * ln, None
    elif pat == 'sorted':
        is_, rg = sorted(rng.randrange(n) for _ in range(ln)), None
    elif pat == 'random':
        is_, rg = [rng.randrange(n) for _ in range(ln)], None
    else:
        is_, rg = list(range(n)), None
        rng.shuffle(is_)
    if k == 'range' and not bad:
        return {'t': 'list', 'is': is_, 'as': 'range', 'range': rg, 'pat': pat}
    tag = pat
    if len(is_) >= 4 and rng.random() < .5:
        # disturb the interior only: the end points (and the length) still look like the undisturbed pattern
        for _ in range(rng.choice([1, 1, 2, 5])):
            i, j = rng.randrange(1, len(is_) - 1), rng.randrange(1, len(is_) - 1)
            u = rng.random()
            if u < .4:
                is_[i], is_[j] = is_[j], is_[i]
            elif u < .7:
                is_[i] = is_[j]
            else:
                is_[i] = rng.randrange(n)
        tag = pat + '+disturbed'
    if rng.random() < .4:
        q = rng.choice([.02, .3, 1.0])
        is_ = [i - n if rng.random() < q else i for i in is_]
        tag += '+negatives'
    if bad:
        is_[rng.randrange(len(is_))] = rng.choice([n, -n - 1, n + 7]) if is_ else n
        if not is_:
            is_ = [n]
    return _decorate({'t': 'list', 'is': is_, 'as': 'tensor' if k != 'list' else 'list', 'pat': tag}, rng)


def model_index(ix):
    """strip harness-only keys"""
    t = ix['t']
    if t == 'int':
        return {'t': 'int', 'i': ix['i']}
    if t == 'slice':
        return {'t': 'slice', 'a': ix['a'], 'b': ix['b'], 's': ix['s']}
    if t == 'list':
        return {'t': 'list', 'is': ix['is']}
    return {'t': 'mask', 'bs': ix['bs']}


def _valid_for(ix, n):
    if ix['t'] == 'mask':
        return len(ix['bs']) == n
    return all(-n <= i < n for i in ix['is'])


def spell(rng, op):
    """the spelling family (see real_apply): which public method issues the selection, how the axis and the
    arguments are written"""
    op['via'] = 'method' if op['ix'].get('nar') else rng.choice(['select', 'getitem', 'method'])
    if rng.random() < .4:
        op['neg'] = True
    if rng.random() < .3:
        op['kw'] = True
    if op['via'] == 'getitem' and op['dim'] == 0 and rng.random() < .3:
        op['full'] = True
    return op


def gen_narrow(rng, n, other):
    """a direct narrow(dim, start, length) call inside its contract (0 <= start, start + length <= size): lengths
    around the OTHER axis' size, around this axis' size, 0, 1; starts 0 / flush with the end / anywhere"""
    lens = [x for x in (0, 1, other - 1, other, other + 1, n - 1, n, n // 2, rng.randint(0, max(n, 0))) if 0 <= x <= n]
    length = rng.choice(lens)
    start = rng.choice([0, 0, n - length, rng.randint(0, n - length)])
    return {'t': 'slice', 'a': start, 'b': start + length, 's': None, 'nar': True}


def gen_ops(rng, R, C, nmax=6, allow_bad=True, level=0, big=False, heavy=False):
    """a selection program; tracks the (rows, cols) it expects so indices stay mostly in range.

    Aliasing family: index tensors are kept in a pool and re-used (same `share` id = the SAME tensor object is
    handed to the real code again) on the other axis or in a later step; a fresh pooled tensor is made valid for
    both axes half of the time so that re-use on an axis of another size is common."""
    ops = []
    r, c = R, C
    pool = []

    def draw(n, other):
        if big and max(n, 0) > 12:
            ix = gen_big_index(rng, n, level, allow_bad, max_len=n + 2 if heavy else None)
        else:
            ix = gen_index(rng, n, allow_bad)
        if ix['t'] == 'list' and ix.get('as') == 'list' and rng.random() < .35:
            ix['buf'] = 0          # the program's ONE mutable list object, refilled before every use
        if not (ix['t'] == 'mask' or ix.get('as') == 'tensor'):
            return ix
        if pool and rng.random() < .4:
            cand = [p for p in pool if _valid_for(p, n)] or (pool if allow_bad and rng.random() < .2 else [])
            if cand:
                return dict(rng.choice(cand))
        if rng.random() < .6:
            if ix['t'] == 'list' and rng.random() < .5 and min(n, other) >= 1:
                m = min(n, other)
                ix['is'] = [rng.randint(-m, m - 1) for _ in range(rng.randint(1, 4))]
                ix['is'][rng.randrange(len(ix['is']))] = rng.randint(-m, -1)
                ix.pop('pat', None)
            ix['share'] = len(pool)
            pool.append(dict(ix))
        return ix

    for _ in range(rng.randint(1, nmax)):
        u = rng.random()
        if u < .12:
            ops.append({'op': 'val', 'i': rng.randint(-r - 1, r), 'j': rng.randint(-c - 1, c)})
            continue
        if u < .3:
            ix0, ix1 = draw(r, c), draw(c, r)
            if ix0['t'] == 'int' and ix1['t'] == 'int':
                ix1 = {'t': 'slice', 'a': None, 'b': None, 's': None}
            if 'buf' in ix0 and 'buf' in ix1:
                ix1.pop('buf')         # m[buf, buf] would hand over ONE object for two different contents
            ops.append({'op': 'sel2', 'ix0': ix0, 'ix1': ix1})
            if rng.random() < .1:
                ops[-1]['twice'] = True
            r2, c2 = py_len(ix0, r), py_len(ix1, c)
            if r2 is None or c2 is None:
                break
            r, c = r2, c2
            continue
        dim = rng.choice([0, 0, 1])
        n_, other_ = (r, c) if dim == 0 else (c, r)
        ix = gen_narrow(rng, n_, other_) if rng.random() < .12 else draw(n_, other_)
        ops.append(spell(rng, {'op': 'sel', 'ix': ix, 'dim': dim}))
        if rng.random() < .1:
            ops[-1]['twice'] = True
        if 'buf' in ix and n_ >= 1 and 1 <= len(ix['is']) <= 64 and _valid_for(ix, n_) and rng.random() < .6:
            ops[-1]['prebuf'] = [rng.randint(-n_, n_ - 1) for _ in ix['is']]
        k = py_len(ix, r if dim == 0 else c)
        if k is None:
            break
        if dim == 0:
            r = k
        else:
            c = k
    return ops


BUDGET = {0: 70000, 1: 70000, 2: 140000}      # values a single step may produce (the model driver is quadratic in it)


def program_peak(cells, C, ops):
    """largest number of values any step of a selection program produces, by Python list semantics (a repeated index
    multiplies the values of a heavy row / column)"""
    ref, ncols, peak = cells, C, 0
    for op in ops:
        if op['op'] == 'val':
            continue
        try:
            ref, ncols = ref_apply(ref, ncols, op)
        except (IndexError, ValueError):
            break
        peak = max(peak, sum(len(c) for row in ref for c in row))
    return peak


def fit_program(make, cells, C, budget, tries=12):
    """draw programs until one stays within the budget; the last resort is the program cut before the offending step"""
    ops = make()
    for _ in range(tries):
        if program_peak(cells, C, ops) <= budget:
            return ops
        ops = make()
    while ops and program_peak(cells, C, ops) > budget:
        ops = ops[:-1]
    return ops or [{'op': 'sel', 'ix': {'t': 'slice', 'a': None, 'b': None, 's': None}, 'dim': 0, 'via': 'select'}]


def gen_alias_ops(rng, R, C):
    """the aliasing family in its pure form: ONE integer index tensor (with negative entries, valid for both axes)
    used on both axes of one m[idx, idx], or in a chain over the two axes, or twice on the same axis"""
    m = min(R, C)
    if m == 0:
        return gen_ops(rng, R, C)
    ix = {'t': 'list', 'as': 'tensor', 'share': 0,
          'is': [rng.randint(-m, m - 1) for _ in range(rng.randint(1, 5))]}
    ix['is'][rng.randrange(len(ix['is']))] = rng.randint(-m, -1)
    _decorate(ix, rng)
    form = rng.choice(['both', 'chain', 'chain', 'same-axis'])
    via = lambda: rng.choice(['select', 'getitem', 'method'])
    if form == 'both':
        ops = [{'op': 'sel2', 'ix0': dict(ix), 'ix1': dict(ix)}]
    elif form == 'chain':
        d = rng.choice([0, 1])
        ops = [{'op': 'sel', 'ix': dict(ix), 'dim': d, 'via': via()}, {'op': 'sel', 'ix': dict(ix), 'dim': 1 - d, 'via': via()}]
    else:
        d = rng.choice([0, 1])
        k = len(ix['is'])
        ix['is'] = [max(min(i, k - 1), -k) for i in ix['is']]
        ops = [{'op': 'sel', 'ix': dict(ix), 'dim': d, 'via': via()}, {'op': 'sel', 'ix': dict(ix), 'dim': d, 'via': via()}]
    if rng.random() < .3:
        ops.append({'op': 'sel', 'ix': gen_index(rng, len(ix['is']), False), 'dim': rng.choice([0, 1]), 'via': via()})
    for op in ops:
        if op['op'] == 'sel':
            if rng.random() < .4:
                op['neg'] = True
            if rng.random() < .3:
                op['kw'] = True
    return ops


def py_select(lst, ix):
    """Python's own list semantics for an index expression; raises like Python does."""
    n = len(lst)
    t = ix['t']
    if t == 'int':
        i = ix['i']
        if not -n <= i < n:
            raise IndexError
        return [lst[i]]
    if t == 'slice':
        if ix['s'] is not None and ix['s'] <= 0:
            raise ValueError
        return lst[slice(ix['a'], ix['b'], ix['s'])]
    if t == 'mask':
        if len(ix['bs']) != n:
            raise IndexError
        return [x for x, b in zip(lst, ix['bs']) if b]
    for i in ix['is']:
        if not -n <= i < n:
            raise IndexError
    return [lst[i] for i in ix['is']]


def py_len(ix, n):
    try:
        return len(py_select(list(range(n)), ix))
    except (IndexError, ValueError):
        return None


def ref_apply(ref, ncols, op):
    """apply one op to the nested-list reference (rows, ncols); returns (rows, ncols) or raises"""
    if op['op'] == 'sel':
        if op['dim'] == 0:
            return py_select(ref, op['ix']), ncols
        k = len(py_select(list(range(ncols)), op['ix']))
        return [py_select(row, op['ix']) for row in ref], k
    if op['op'] == 'sel2':
        rows = py_select(ref, op['ix0'])
        k = len(py_select(list(range(ncols)), op['ix1']))
        return [py_select(row, op['ix1']) for row in rows], k
    raise AssertionError


def real_apply(cur, op, shared=None, used=None):
    """apply one op; `used` collects (index object, index spec) of every index handed to the real code.

    Spelling family: every selection is issued through one of the public spellings of the same operation -
    `__getitem__` (m[i] / m[i, :] / m[:, j]), `select`, `index_select` (index tensors), `narrow` (plain slices, and
    direct (start, length) calls) - with the axis written as 0 / 1 or as its negative alias -3 / -2 (`neg`) and the
    arguments passed by position or by keyword (`kw`)."""
    def mk(ix):
        o = to_py_index(ix, shared)
        if used is not None:
            used.append((o, ix))
        return o
    if op['op'] == 'sel':
        ix = mk(op['ix'])
        via = op.get('via')
        dim = op['dim']
        d = dim - 3 if op.get('neg') else dim
        kw = op.get('kw')
        if via == 'getitem':
            if dim == 0:
                return cur[ix, :] if op.get('full') else cur[ix]
            return cur[:, ix]
        if via == 'api':
            # (older cases) index_select for index tensors, narrow for a plain slice, the axis written negatively otherwise
            if isinstance(ix, torch.Tensor):
                return cur.index_select(ix, dim - 3 if op['ix'].get('view') else dim)
            if isinstance(ix, slice) and ix.step in (None, 1):
                a, b, _ = ix.indices(cur.size(dim))
                return cur.narrow(dim, a, b - a)
            return cur.select(ix, dim - 3)
        if via == 'method':
            # the dedicated public method of the index kind
            if isinstance(ix, torch.Tensor):
                return cur.index_select(index=ix, dim=d) if kw else cur.index_select(ix, d)
            if isinstance(ix, slice) and ix.step in (None, 1):
                if op['ix'].get('nar') and ix.stop <= cur.size(d):
                    a, b = ix.start, ix.stop            # a direct narrow(dim, start, length) call inside its contract
                else:
                    # bounds clamped like Python does (also a direct call that a caller re-applies to a container of
                    # another shape than it was drawn for - C06 filters the steps of a program)
                    a, b, _ = ix.indices(cur.size(d))
                return cur.narrow(dim=d, start=a, length=b - a) if kw else cur.narrow(d, a, b - a)
        return cur.select(index=ix, dim=d) if kw else cur.select(ix, d)
    if op['op'] == 'sel2':
        return cur[mk(op['ix0']), mk(op['ix1'])]
    raise AssertionError


def sizes_consistent(m):
    """every public way of asking a container for its row / column count gives the same answer"""
    try:
        r, c = int(m.num_rows), int(m.num_cols)
        return (m.size(0) == m.size(-3) == len(m) == m.shape[0] == r and m.size(1) == m.size(-2) == m.shape[1] == c
                and (m.values.shape[0] == r if isinstance(m, MET) else True))
    except Exception:
        return False


def run_real_program(spec, payload, ops, root_out=None):
    """Run a selection program on the real container.
    Returns (outcomes, final container or None, findings) where findings lists direct violations of
    the property text found on the way (independent of the Lean model)."""
    cur = build_real(spec, payload)
    if root_out is not None:
        root_out.append(cur)          # the container the program starts from (views of it may be modified in place)
    kind = spec['kind']
    ref, ncols = [list(map(list, row)) for row in spec['cells']], spec['C']
    outs, findings = [], []
    shared = {}
    for k, op in enumerate(ops):
        if cur is None:
            outs.append(None)
            continue
        before = real_repr(cur, payload)
        if op['op'] == 'val':
            try:
                got = [dec(x, payload) for x in cur[op['i'], op['j']].tolist()]
                out = {'ok': got}
            except Exception:
                got, out = None, 'raises'
            try:
                exp = ref[op['i']][op['j']] if (-len(ref) <= op['i'] < len(ref) and -ncols <= op['j'] < ncols) else None
                if exp is None:
                    raise IndexError
            except IndexError:
                exp = None
            if (exp is None) != (got is None) or (exp is not None and exp != got):
                findings.append((k, 'single-cell access differs from the nested list', exp, got))
            outs.append(out)
            continue
        if op.get('prebuf') is not None:
            # history of one mutable index object: the caller's list was used for another selection (same length,
            # other entries) on this container just before; it is refilled for this step by to_py_index
            pre = dict(op, ix=dict(op['ix'], **{'is': list(op['prebuf'])}))
            pre.pop('prebuf')
            try:
                efirst, ec = ref_apply(ref, ncols, pre)
            except (IndexError, ValueError):
                efirst = None          # (a program re-applied to a container of another shape: nothing to learn)
            if efirst is not None:
                try:
                    first = real_repr(real_apply(cur, pre, shared), payload)
                    if not well_formed(first, kind) or first['R'] != len(efirst) or first['C'] != ec \
                            or cells_of_repr(first, kind) != efirst:
                        findings.append((k, 'selected cells differ from the nested-list selection', efirst, None))
                except Exception as e:
                    findings.append((k, f'selection with a legal index list raises {type(e).__name__}', None, None))
        used = []
        try:
            new = real_apply(cur, op, shared, used)
            out = {'ok': real_repr(new, payload)}
        except Exception as e:
            new, out = None, 'raises'
            exc = type(e).__name__
        idx_bad = not all(index_intact(o, ix) for o, ix in used)
        try:
            eref, encols = ref_apply(ref, ncols, op)
        except (IndexError, ValueError):
            eref = None
        if (eref is None) != (new is None):
            findings.append((k, 'raises' if new is None else 'returns data where Python raises',
                             'raises' if eref is None else eref, 'raises' if new is None else out))
        elif new is not None:
            rep = out['ok']
            if not well_formed(rep, kind) or not sizes_consistent(new):
                findings.append((k, 'result is not a well-formed container', None, rep))
            elif rep['R'] != len(eref) or rep['C'] != encols or cells_of_repr(rep, kind) != eref:
                findings.append((k, 'selected cells differ from the nested-list selection', eref,
                                 cells_of_repr(rep, kind)))
            else:
                try:
                    if cells_via_api(new, payload) != eref:
                        findings.append((k, 'cells read through m[i,j] differ', eref, None))
                except Exception as e:
                    findings.append((k, f'reading the result raises {type(e).__name__}', eref, None))
        if op.get('twice') and new is not None and eref is not None:
            # history on one object: the same selection once more on the same container (same index objects); the
            # first result must be reproduced and must still be intact afterwards (no shared output buffer)
            try:
                again = real_repr(real_apply(cur, op, shared), payload)
            except Exception:
                again = 'raises'
            if again != out['ok']:
                findings.append((k, 'the same selection issued twice on one container gives two different results',
                                 None, again if isinstance(again, str) else None))
            elif real_repr(new, payload) != out['ok']:
                findings.append((k, 'a later selection on the same container changed an earlier result', None, None))
        if real_repr(cur, payload) != before:
            findings.append((k, 'selection modified its source', before, real_repr(cur, payload)))
        if idx_bad:
            findings.append((k, "selection modified the caller's index tensor", None, None))
        outs.append(out)
        if new is None:
            cur = None
        else:
            cur = new
            if eref is not None:
                ref, ncols = eref, encols
    return outs, cur, findings


# ------------------------------------------------------------------ tall containers (beyond the shared size ladder)
# Containers whose number of rows (or columns) lies just above a power of two beyond stress.LADDER_BIG (2^17 .. 2^20:
# block sizes of chunked gathers).  They are far too large for nested Python lists and for the model driver, so the
# whole family is vectorised: the container is built with numpy such that every stored value encodes its own
# (cell id, position in the cell); a selection is judged against Python list semantics evaluated with numpy on the
# ORIGINAL row / column ids (direct oracle only).  Long indices travel symbolically ({'t': 'sym', ...}).
TALL_LADDER = [2 ** 17, 2 ** 18, 2 ** 19, 2 ** 20]


def tall_size(rng, level):
    xs = TALL_LADDER[:1] if level <= 0 else TALL_LADDER[:2] if level == 1 else TALL_LADDER
    return rng.choice(xs) + rng.choice([1, 1, 2, 5, 64, 1001])


def sym_array(ix):
    """the entries of a symbolic index (numpy int64 array, or bool array for a mask)"""
    g = np.random.default_rng(ix['seed'])
    n, k, pat = ix['n'], ix['len'], ix['pat']
    if pat == 'mask':
        bs = g.random(n) < ix['p']
        bs[[0, n - 1, n // 2]] = [ix['p'] > .5, True, True]
        return bs
    if pat == 'run':
        a = np.arange(ix['a'], ix['a'] + k)
    elif pat == 'reversed':
        a = np.arange(ix['a'] + k - 1, ix['a'] - 1, -1)
    elif pat == 'stride':
        a = np.arange(ix['a'], n, ix['st'])
    elif pat == 'perm':
        a = g.permutation(n)[:k]
    elif pat == 'sorted':
        a = np.sort(g.integers(0, n, k))
    else:
        a = g.integers(0, n, k)
    a = a.astype(np.int64)
    if ix.get('negq'):
        neg = g.random(len(a)) < ix['negq']
        a = np.where(neg, a - n, a)
    return a


def sym_object(ix):
    a = sym_array(ix)
    how = ix.get('as', 'tensor')
    if ix['pat'] == 'mask':
        return torch.from_numpy(a)
    if how == 'range':
        k = len(a)
        return {'run': range(ix['a'], ix['a'] + k), 'reversed': range(ix['a'] + k - 1, ix['a'] - 1, -1),
                'stride': range(ix['a'], ix['n'], ix.get('st', 1))}[ix['pat']]
    if how == 'list':
        return a.tolist()
    t = torch.from_numpy(a.copy())
    if ix.get('dt') == 'int32':
        t = t.to(torch.int32)
    return t


def gen_sym(rng, n):
    """a symbolic index expression for a huge axis"""
    pat = rng.choice(['mask', 'run', 'reversed', 'stride', 'perm', 'sorted', 'random'])
    k = rng.choice([n, n - 1, n // 2 + 1, 3, 2 ** 17 + 1 if n > 2 ** 17 + 1 else n])
    ix = {'t': 'sym', 'pat': pat, 'n': n, 'len': k, 'seed': rng.randrange(10 ** 6)}
    if pat == 'mask':
        ix['p'] = rng.choice([.05, .5, .95])
        return ix
    if pat in ('run', 'reversed'):
        ix['a'] = rng.randint(0, n - k)
    if pat == 'stride':
        ix['st'], ix['a'] = rng.choice([2, 3, 7]), rng.randint(0, 2)
    ix['as'] = rng.choice(['tensor', 'tensor', 'list', 'range']) if pat in ('run', 'reversed', 'stride') \
        else rng.choice(['tensor', 'tensor', 'list'])
    if ix['as'] != 'range' and rng.random() < .4:
        ix['negq'] = rng.choice([.02, .3, 1.0])
    if ix['as'] == 'tensor' and rng.random() < .3:
        ix['dt'] = 'int32'
    return ix


def gen_tall_case(rng, level):
    kind = rng.choice(['mnt', 'mnt', 'met'])
    n = tall_size(rng, level)
    wide = rng.random() < .2
    R, C = (rng.choice([1, 2, 3]), n) if wide else (n, rng.choice([1, 2, 3, 4]))
    t = {'kind': kind, 'R': R, 'C': C, 'seed': rng.randrange(10 ** 6), 'payload': rng.choice(['int', 'float64']),
         'pe': rng.choice([.1, .3, .6])}
    ops, r, c = [], R, C
    for step in range(rng.randint(1, 3)):
        # the first step is a gather along the SMALL axis half of the time (every row / column of the huge axis is
        # moved by one vectorised operation), afterwards anything
        dim = rng.choice([0, 1]) if step else rng.choice([1, 1, 1, 0] if not wide else [0, 0, 0, 1])
        n_, other = (r, c) if dim == 0 else (c, r)
        if n_ > 4096:
            u = rng.random()
            if u < .6:
                ix = gen_sym(rng, n_)
            elif u < .75:
                ix = gen_narrow(rng, n_, other)
            else:
                ix = {'t': 'slice', 'a': rng.choice([None, 0, 1, n_ // 2, -n_ + 1, 2 ** 17]),
                      'b': rng.choice([None, n_, n_ - 1, n_ + 5, -1]), 's': rng.choice([None, 1, 2, 3])}
        elif step == 0 and n_ >= 1 and rng.random() < .7:
            # a true gather along the small axis: every row (column) of the huge axis is moved by one operation
            kk = rng.choice(['list', 'tensor', 'mask', 'range', 'step'])
            if kk in ('list', 'tensor'):
                ix = _decorate({'t': 'list', 'as': kk, 'is': [rng.randint(-n_, n_ - 1) for _ in range(rng.randint(1, n_ + 2))]}, rng)
            elif kk == 'mask':
                bs = [rng.random() < .6 for _ in range(n_)]
                bs[rng.randrange(n_)] = True
                ix = {'t': 'mask', 'bs': bs}
            elif kk == 'range':
                a, st = rng.randint(0, n_ - 1), rng.choice([1, 2])
                rg = [a, n_, st] if rng.random() < .6 else [n_ - 1, a - 1, -1]
                ix = {'t': 'list', 'is': list(range(*rg)), 'as': 'range', 'range': rg}
            else:
                ix = {'t': 'slice', 'a': rng.choice([None, 0, 1]), 'b': None, 's': rng.choice([2, 3])}
        else:
            ix = gen_narrow(rng, n_, other) if rng.random() < .1 else gen_index(rng, n_, allow_bad=False)
            if ix['t'] == 'int' and n_ == 0:
                ix = {'t': 'slice', 'a': None, 'b': None, 's': None}
        for _ in range(6):
            if sym_len(ix, n_) or rng.random() < .1:
                break
            ix = gen_index(rng, n_, allow_bad=False) if n_ <= 4096 else gen_sym(rng, n_)
        ops.append(spell(rng, {'op': 'sel', 'ix': ix, 'dim': dim}))
        k = sym_len(ix, n_)
        if dim == 0:
            r = k
        else:
            c = k
        if r * c == 0:
            break
    return {'fam': 'tall', 'tall': t, 'ops': ops, 'oracle_only': True}


def np_positions(ix, n):
    """Python list semantics of an index expression on range(n), as a numpy array of positions; raises like Python"""
    t = ix['t']
    if t == 'sym':
        a = sym_array(ix)
        if a.dtype == bool:
            if len(a) != n:
                raise IndexError
            return np.nonzero(a)[0]
    elif t == 'int':
        a = np.asarray([ix['i']], dtype=np.int64)
    elif t == 'slice':
        if ix['s'] is not None and ix['s'] <= 0:
            raise ValueError
        return np.arange(n)[slice(ix['a'], ix['b'], ix['s'])]
    elif t == 'mask':
        if len(ix['bs']) != n:
            raise IndexError
        return np.nonzero(np.asarray(ix['bs'], dtype=bool))[0]
    else:
        a = np.asarray(ix['is'], dtype=np.int64)
    if len(a) and (a.min() < -n or a.max() >= n):
        raise IndexError
    return np.where(a < 0, a + n, a)


def sym_len(ix, n):
    return len(np_positions(ix, n))


def tall_build(t):
    """(real container, numpy description) of a tall case.  value of entry k of cell (i, j) = (i*C + j)*8 + k"""
    g = np.random.default_rng(t['seed'])
    R, C = t['R'], t['C']
    dt = dtype_of(t['payload'])
    if t['kind'] == 'mnt':
        lens = g.integers(1, 4, size=(R, C))
        lens[g.random((R, C)) < t['pe']] = 0
        for a in (0, R - 3, 2 ** 17 - 2, int(g.integers(0, R))):      # all-empty row blocks (also across 2^17)
            if 0 <= a < R and R > 8 and g.random() < .4:
                lens[a:a + 3] = 0
        L = lens.ravel()
        off = np.concatenate([[0], np.cumsum(L)]).astype(np.int64)
        vals = np.repeat(np.arange(R * C, dtype=np.int64) * 8, L) + (np.arange(off[-1]) - np.repeat(off[:-1], L))
        m = MNT(R, C, torch.from_numpy(vals.copy()).to(dt), torch.from_numpy(off.copy()))
        return m, {'lens': lens}
    widths = g.integers(0, 4, size=C)
    off = np.concatenate([[0], np.cumsum(widths)]).astype(np.int64)
    colp = np.repeat(np.arange(C, dtype=np.int64), widths)
    kp = np.arange(off[-1]) - np.repeat(off[:-1], widths)
    vals = (np.arange(R, dtype=np.int64)[:, None] * C + colp[None, :]) * 8 + kp[None, :]
    m = MET(R, C, torch.from_numpy(vals.copy()).to(dt).reshape(R, int(off[-1])), torch.from_numpy(off.copy()))
    return m, {'widths': widths}


def tall_expected(t, desc, ri, ci):
    """(values, offset) the selection of original rows `ri` x original columns `ci` must store, by list semantics"""
    C = t['C']
    if t['kind'] == 'mnt':
        cid = (ri[:, None] * C + ci[None, :]).ravel()
        L = desc['lens'].ravel()[cid] if len(cid) else np.zeros(0, dtype=np.int64)
        off = np.concatenate([[0], np.cumsum(L)]).astype(np.int64)
        vals = np.repeat(cid * 8, L) + (np.arange(off[-1]) - np.repeat(off[:-1], L))
        return vals, off
    w = desc['widths'][ci] if len(ci) else np.zeros(0, dtype=np.int64)
    off = np.concatenate([[0], np.cumsum(w)]).astype(np.int64)
    colp = np.repeat(ci, w)
    kp = np.arange(off[-1]) - np.repeat(off[:-1], w)
    vals = (ri[:, None] * C + colp[None, :]) * 8 + kp[None, :]
    return vals.reshape(len(ri), int(off[-1])), off


def run_tall(case):
    """run a tall case on the real code; returns (canonical outcome, findings)"""
    t, ops = case['tall'], case['ops']
    m, desc = tall_build(t)
    src_vals, src_off = m.values.clone(), m.offset.clone()
    root = m
    ri, ci = np.arange(t['R'], dtype=np.int64), np.arange(t['C'], dtype=np.int64)
    outs, findings = [], []
    g = np.random.default_rng(t['seed'] + 1)
    for k, op in enumerate(ops):
        dim = op['dim']
        try:
            pos = np_positions(op['ix'], len(ri) if dim == 0 else len(ci))
        except (IndexError, ValueError):
            pos = None
        used = []
        try:
            new = real_apply(m, op, None, used)
        except Exception as e:
            new = None
            outs.append('raises')
            if pos is not None:
                findings.append((k, f'raises {type(e).__name__} where the list selection is defined', None, None))
            break
        if pos is None:
            findings.append((k, 'returns data where Python raises', 'raises', None))
            break
        ri, ci = (ri[pos], ci) if dim == 0 else (ri, ci[pos])
        ev, eo = tall_expected(t, desc, ri, ci)
        gv, go = new.values.to(torch.float64 if t['payload'] == 'float64' else torch.long).numpy(), new.offset.numpy()
        outs.append({'ok': {'R': int(new.num_rows), 'C': int(new.num_cols), 'nvalues': int(new.values.numel())}})
        if (int(new.num_rows), int(new.num_cols)) != (len(ri), len(ci)) or not sizes_consistent(new) \
                or go.shape != eo.shape or not np.array_equal(go, eo) or gv.shape != ev.shape:
            findings.append((k, 'result is not the well-formed container of the selected rows x columns',
                             {'R': len(ri), 'C': len(ci), 'nvalues': int(ev.size)}, outs[-1]['ok']))
            break
        if not np.array_equal(gv, ev.astype(gv.dtype)):
            bad = np.argwhere(gv != ev.astype(gv.dtype))[0].tolist()
            findings.append((k, 'selected cells differ from the nested-list selection',
                             {'first differing stored value': bad, 'required': float(ev[tuple(bad)])},
                             float(gv[tuple(bad)])))
            break
        # single-cell access on a few cells (always including the last row and the rows around 2^17)
        if len(ri) and len(ci):
            probe = {0, len(ri) - 1, min(len(ri) - 1, 2 ** 17), min(len(ri) - 1, 2 ** 17 - 1)} | \
                set(int(x) for x in g.integers(0, len(ri), 4))
            for i in probe:
                j = int(g.integers(0, len(ci)))
                ce, _ = tall_expected(t, desc, ri[i:i + 1], ci[j:j + 1])
                got = new[i, j].to(torch.float64).numpy()
                if not np.array_equal(got, np.asarray(ce, dtype=np.float64).ravel()):
                    findings.append((k, 'single-cell access differs from the nested list', None, [i, j]))
                    break
        for o, ix in used:
            if ix['t'] == 'sym' and isinstance(o, torch.Tensor) and not np.array_equal(o.numpy(), sym_array(ix).astype(o.numpy().dtype)):
                findings.append((k, "selection modified the caller's index tensor", None, None))
        m = new
        if findings:
            break
    if not (torch.equal(root.values, src_vals) and torch.equal(root.offset, src_off)):
        findings.append((len(ops) - 1, 'selection modified its source', None, None))
    return outs, findings
